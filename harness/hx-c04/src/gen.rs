//! Case generator and tagging for C04.
use crate::*;
use hx_common::Rng;
use std::collections::HashMap;
use std::fmt::Write as _;

struct G {
    r: Rng,
    defs: Vec<Def>,
}

impl G {
    fn leaf(&mut self) -> Expr {
        if self.r.chance(4, 5) && !self.defs.is_empty() {
            Expr::Rd(self.r.below(self.defs.len()))
        } else {
            Expr::Lit(self.r.below(5) as i64 - 2)
        }
    }

    fn expr(&mut self, depth: usize) -> Expr {
        if depth == 0 || self.r.chance(1, 2) {
            return self.leaf();
        }
        match self.r.below(6) {
            0 | 1 => Expr::Add(Box::new(self.expr(depth - 1)), Box::new(self.expr(depth - 1))),
            2 => Expr::Mulc(self.r.below(4) as i64 - 1, Box::new(self.expr(depth - 1))),
            3 | 4 => Expr::Ite(Box::new(self.expr(depth - 1)), Box::new(self.expr(depth - 1)), Box::new(self.expr(depth - 1))),
            _ => self.leaf(),
        }
    }

    /// an expression that reads at least one node (when there is one)
    fn dyn_expr(&mut self) -> Expr {
        // the known "memo, then a source of that memo" shape (F-C02-1, repaired in /repo)
        if self.r.chance(1, 12) {
            let memos: Vec<usize> =
                (0..self.defs.len()).filter(|i| matches!(self.defs[*i], Def::Memo(_))).collect();
            if !memos.is_empty() {
                let m = *self.r.pick(&memos);
                let srcs: Vec<usize> = reads_of(&self.defs, &Expr::Rd(m)).into_iter().collect();
                if !srcs.is_empty() {
                    let x = *self.r.pick(&srcs);
                    return Expr::Add(Box::new(Expr::Rd(m)), Box::new(Expr::Rd(x)));
                }
            }
        }
        for _ in 0..4 {
            let e = self.expr(2);
            if !reads_of(&self.defs, &e).is_empty() {
                return e;
            }
        }
        self.leaf()
    }

    fn cond_expr(&mut self) -> Expr {
        self.dyn_expr()
    }

    fn word(&mut self) -> String {
        (*self.r.pick(&["a", "b", "hi", "x y", "", "<&>", "ok"])).to_string()
    }

    fn keys(&mut self, sorted: bool) -> Vec<u32> {
        let mut ks: Vec<u32> = (0..6u32).filter(|_| self.r.chance(1, 2)).collect();
        if !sorted {
            // Fisher-Yates
            for i in (1..ks.len()).rev() {
                let j = self.r.below(i + 1);
                ks.swap(i, j);
            }
        }
        ks
    }

    fn attrs(&mut self) -> Vec<AttrD> {
        let mut out = vec![];
        let mut used: Vec<(&str, &str)> = vec![];
        let n = self.r.below(4);
        for _ in 0..n {
            let a = match self.r.below(5) {
                0 => AttrD::Stat(*self.r.pick(STAT_NAMES), self.word()),
                1 => AttrD::Dyn(*self.r.pick(DYN_NAMES), self.dyn_expr()),
                2 | 3 => AttrD::Cls(*self.r.pick(CLS_NAMES), self.dyn_expr()),
                _ => AttrD::Sty(*self.r.pick(STY_NAMES), self.dyn_expr()),
            };
            let key = match &a {
                AttrD::Stat(n, _) | AttrD::Dyn(n, _) => ("a", *n),
                AttrD::Cls(n, _) => ("c", *n),
                AttrD::Sty(n, _) => ("s", *n),
            };
            if !used.contains(&key) {
                used.push(key);
                out.push(a);
            }
        }
        out
    }

    /// an expression over signals only (the Suspense cases: see `top_view`)
    fn sig_expr(&mut self) -> Expr {
        let sigs = sig_ids(&self.defs);
        let mut leaf = |r: &mut Rng| if r.chance(4, 5) { Expr::Rd(*r.pick(&sigs)) } else { Expr::Lit(r.below(5) as i64 - 2) };
        match self.r.below(3) {
            0 => Expr::Rd(*self.r.pick(&sigs)),
            1 => Expr::Add(Box::new(leaf(&mut self.r)), Box::new(leaf(&mut self.r))),
            _ => Expr::Ite(Box::new(leaf(&mut self.r)), Box::new(leaf(&mut self.r)), Box::new(leaf(&mut self.r))),
        }
    }

    /// the implementation-only constructors appear at the top of the view only (never below a part
    /// that re-renders): `Suspense` over signals, `ErrorBoundary` over any expression
    fn top_view(&mut self, depth: usize) -> ViewD {
        if depth >= 1 && self.r.chance(1, 10) {
            let inner = Box::new(self.view(depth - 1));
            let v = if self.r.chance(1, 2) { ViewD::Susp(self.sig_expr(), inner) } else { ViewD::Errb(self.dyn_expr(), inner) };
            return match self.r.below(3) {
                0 => v,
                1 => ViewD::Elem(*self.r.pick(TAGS), self.attrs(), Box::new(v)),
                _ => ViewD::Seq(Box::new(ViewD::DynText(self.dyn_expr())), Box::new(v)),
            };
        }
        self.view(depth)
    }

    fn view(&mut self, depth: usize) -> ViewD {
        if depth == 0 {
            return match self.r.below(4) {
                0 => ViewD::Text(self.word()),
                1 => ViewD::Unit,
                _ => ViewD::DynText(self.dyn_expr()),
            };
        }
        match self.r.below(12) {
            0 => ViewD::Text(self.word()),
            1 | 2 => ViewD::DynText(self.dyn_expr()),
            3 | 4 => ViewD::Elem(*self.r.pick(TAGS), self.attrs(), Box::new(self.view(depth - 1))),
            5 | 6 => ViewD::Seq(Box::new(self.view(depth - 1)), Box::new(self.view(depth - 1))),
            7 | 8 => ViewD::Either(self.cond_expr(), Box::new(self.view(depth - 1)), Box::new(self.view(depth - 1))),
            9 | 10 => ViewD::Show(self.cond_expr(), Box::new(self.view(depth - 1)), Box::new(self.view(depth - 1))),
            _ => {
                let n = self.r.range(2, 4);
                let sorted = self.r.chance(3, 4);
                let lists = (0..n).map(|_| self.keys(sorted)).collect();
                ViewD::Elem("ul", self.attrs(), Box::new(ViewD::For(self.dyn_expr(), lists)))
            }
        }
    }
}

fn has_susp(v: &ViewD) -> bool {
    match v {
        ViewD::Susp(..) => true,
        ViewD::Text(_) | ViewD::Unit | ViewD::DynText(_) | ViewD::For(..) => false,
        ViewD::Elem(_, _, k) | ViewD::Errb(_, k) => has_susp(k),
        ViewD::Seq(a, b) | ViewD::Either(_, a, b) | ViewD::Show(_, a, b) => has_susp(a) || has_susp(b),
    }
}

fn sig_ids(defs: &[Def]) -> Vec<usize> {
    (0..defs.len()).filter(|i| matches!(defs[*i], Def::Sig(_))).collect()
}

fn emit_prog(out: &mut String, name: &str, defs: &[Def], view: &ViewD) {
    writeln!(out, "case {name}").unwrap();
    for d in defs {
        match d {
            Def::Sig(v) => writeln!(out, "sig {v}").unwrap(),
            Def::Memo(b) => writeln!(out, "memo {}", show_expr(b)).unwrap(),
        }
    }
    writeln!(out, "mount {}", show_view(view)).unwrap();
}

fn random_case(g: &mut G, name: &str, out: &mut String) {
    g.defs.clear();
    let nsig = g.r.range(1, 4);
    for _ in 0..nsig {
        let v = g.r.below(4) as i64 - 1;
        g.defs.push(Def::Sig(v));
    }
    let nmemo = if g.r.chance(1, 2) { g.r.range(1, 2) } else { 0 };
    for _ in 0..nmemo {
        let mut b = g.expr(2);
        if reads_of(&g.defs, &b).is_empty() {
            b = Expr::Rd(g.r.below(g.defs.len()));
        }
        g.defs.push(Def::Memo(b));
    }
    let depth = g.r.range(1, 3);
    let view = g.top_view(depth);
    emit_prog(out, name, &g.defs, &view);
    let sigs = sig_ids(&g.defs);
    // Suspense: the executor always runs to idle between writes (partial progress of an async derived and
    // of the Suspend future that awaits it is C10's subject: F-C10-1; a disposal while a Suspend future is
    // pending panics in the leftover task, see props/C04.known)
    let only_idle = has_susp(&view);
    match g.r.below(3) {
        0 => writeln!(out, "idle").unwrap(),
        1 if !only_idle => writeln!(out, "poll {}", g.r.below(4)).unwrap(),
        1 => writeln!(out, "idle").unwrap(),
        _ => {}
    }
    let writes = g.r.range(3, 15);
    let dispose_at = if g.r.chance(1, 6) { Some(g.r.below(writes)) } else { None };
    for w in 0..writes {
        if dispose_at == Some(w) {
            writeln!(out, "dispose").unwrap();
        }
        let s = *g.r.pick(&sigs);
        writeln!(out, "set {s} {}", g.r.below(5) as i64 - 1).unwrap();
        if only_idle {
            writeln!(out, "idle").unwrap();
            continue;
        }
        match g.r.below(5) {
            0 => {}
            1 | 2 => {
                for _ in 0..g.r.range(1, 3) {
                    writeln!(out, "poll {}", g.r.below(5)).unwrap();
                }
            }
            _ => writeln!(out, "idle").unwrap(),
        }
    }
    writeln!(out, "idle").unwrap();
}

fn hexs(s: &str) -> String {
    hx_common::hex(s.as_bytes())
}

/// small programs whose schedules are enumerated exhaustively
fn small_programs() -> Vec<(Vec<Def>, String)> {
    let t = |s: &str| format!("t {}", hexs(s));
    vec![
        (vec![Def::Sig(0), Def::Sig(1)], "seq dt R0 dt add R0 R1".to_string()),
        (vec![Def::Sig(0), Def::Sig(1)], format!("el div 2 ad title R0 ac on R1 seq dt R1 {}", t("x"))),
        (vec![Def::Sig(1), Def::Sig(0)], format!("ei R0 seq dt R1 dt R0 {}", t("no"))),
        (vec![Def::Sig(1), Def::Sig(0)], format!("sh R0 seq dt R1 dt R0 {}", t("no"))),
        (vec![Def::Sig(1), Def::Sig(0)], "sh R0 ei R1 dt R0 dt R1 el p 1 ay width R1 dt R0".to_string()),
        (vec![Def::Sig(1), Def::Sig(0)], "ei R0 sh R1 dt R0 dt R1 el p 1 ac big R1 dt R0".to_string()),
        (vec![Def::Sig(0), Def::Sig(1)], "el ul 0 for R0 3 0,1,2 1,2,3 -".to_string()),
        (vec![Def::Sig(0), Def::Sig(1)], "seq el ul 1 ac on R1 for add R0 R1 3 0,1 0,1,2 2 dt R1".to_string()),
        (vec![Def::Sig(0), Def::Sig(1), Def::Memo(Expr::Mulc(0, Box::new(Expr::Rd(0))))], "seq dt add R2 R0 dt R1".to_string()),
        (vec![Def::Sig(0), Def::Sig(1), Def::Memo(Expr::Add(Box::new(Expr::Rd(0)), Box::new(Expr::Rd(1))))],
         "sh R2 dt R2 dt R0".to_string()),
        (vec![Def::Sig(1), Def::Sig(1)], format!("ei R0 ei R1 dt R0 {} dt R1", t("in"))),
        (vec![Def::Sig(1), Def::Sig(1)], "el div 3 ay width R0 ay height R1 ac hot R0 ei R1 el b 1 ad title R0 dt R0 u".to_string()),
    ]
}

fn exhaustive_cases(out: &mut String) -> usize {
    let mut count = 0;
    let mut scheds: Vec<Vec<usize>> = vec![vec![]];
    let mut frontier: Vec<Vec<usize>> = vec![vec![]];
    for _ in 0..3 {
        let mut next = vec![];
        for s in &frontier {
            for i in 0..3 {
                let mut s2 = s.clone();
                s2.push(i);
                next.push(s2);
            }
        }
        scheds.extend(next.iter().cloned());
        frontier = next;
    }
    for (pi, (defs, view)) in small_programs().iter().enumerate() {
        for (si, sched) in scheds.iter().enumerate() {
            writeln!(out, "case x{pi}-{si}").unwrap();
            for d in defs {
                match d {
                    Def::Sig(v) => writeln!(out, "sig {v}").unwrap(),
                    Def::Memo(b) => writeln!(out, "memo {}", show_expr(b)).unwrap(),
                }
            }
            writeln!(out, "mount {view}").unwrap();
            // two rounds of writes to both signals, each followed by the schedule prefix, then idle
            for (a, b) in [(0i64, 2i64), (1, 0), (3, 3)] {
                writeln!(out, "set 0 {a}").unwrap();
                writeln!(out, "set 1 {b}").unwrap();
                for i in sched {
                    writeln!(out, "poll {i}").unwrap();
                }
                writeln!(out, "set 0 {}", a + 1).unwrap();
                for i in sched.iter().rev() {
                    writeln!(out, "poll {i}").unwrap();
                }
                writeln!(out, "idle").unwrap();
            }
            count += 1;
        }
    }
    count
}

pub fn generate(seed: u64, n: usize, _tier: &str) -> String {
    let mut out = String::new();
    let nx = exhaustive_cases(&mut out);
    let mut g = G { r: Rng::new(seed), defs: vec![] };
    for i in 0..n.saturating_sub(nx).max(1) {
        random_case(&mut g, &format!("g{i}"), &mut out);
    }
    out
}

// ------------------------------------------------------------------------------------ tags

fn expr_shadowed(defs: &[Def], e: &Expr) -> bool {
    // a read of memo m followed (in evaluation order) by a read of a transitive source of m
    fn reads_in_order(e: &Expr, out: &mut Vec<usize>) {
        match e {
            Expr::Lit(_) => {}
            Expr::Rd(i) => out.push(*i),
            Expr::Add(a, b) => {
                reads_in_order(a, out);
                reads_in_order(b, out)
            }
            Expr::Mulc(_, a) => reads_in_order(a, out),
            Expr::Ite(c, t, f) => {
                reads_in_order(c, out);
                reads_in_order(t, out);
                reads_in_order(f, out)
            }
        }
    }
    fn sources(defs: &[Def], i: usize, out: &mut BTreeSet<usize>) {
        if let Some(Def::Memo(b)) = defs.get(i) {
            let mut r = vec![];
            reads_in_order(b, &mut r);
            for x in r {
                if out.insert(x) {
                    sources(defs, x, out)
                }
            }
        }
    }
    let mut r = vec![];
    reads_in_order(e, &mut r);
    for (k, m) in r.iter().enumerate() {
        let mut s = BTreeSet::new();
        sources(defs, *m, &mut s);
        if r[k + 1..].iter().any(|x| s.contains(x)) {
            return true;
        }
    }
    false
}

fn view_tags(defs: &[Def], v: &ViewD, under_dyn: bool, tags: &mut BTreeSet<&'static str>) {
    let mut on_expr = |e: &Expr, tags: &mut BTreeSet<&'static str>| {
        if reads_memo(defs, e) {
            tags.insert("memo");
        }
        if expr_shadowed(defs, e) {
            tags.insert("shadowed");
        }
        if under_dyn {
            tags.insert("nested");
        }
    };
    match v {
        ViewD::Text(_) | ViewD::Unit => {}
        ViewD::Elem(_, attrs, kid) => {
            for a in attrs {
                match a {
                    AttrD::Stat(..) => {}
                    AttrD::Dyn(_, e) => {
                        tags.insert("dynattr");
                        on_expr(e, tags)
                    }
                    AttrD::Cls(_, e) => {
                        tags.insert("dynclass");
                        on_expr(e, tags)
                    }
                    AttrD::Sty(_, e) => {
                        tags.insert("dynstyle");
                        on_expr(e, tags)
                    }
                }
            }
            view_tags(defs, kid, under_dyn, tags)
        }
        ViewD::Seq(a, b) => {
            view_tags(defs, a, under_dyn, tags);
            view_tags(defs, b, under_dyn, tags)
        }
        ViewD::DynText(e) => {
            tags.insert("dyntext");
            on_expr(e, tags)
        }
        ViewD::Either(c, a, b) => {
            tags.insert("either");
            on_expr(c, tags);
            view_tags(defs, a, true, tags);
            view_tags(defs, b, true, tags)
        }
        ViewD::Show(c, a, b) => {
            tags.insert("show");
            on_expr(c, tags);
            view_tags(defs, a, true, tags);
            view_tags(defs, b, true, tags)
        }
        ViewD::For(sel, _) => {
            tags.insert("for");
            on_expr(sel, tags)
        }
        ViewD::Susp(e, a) => {
            tags.insert("suspense");
            on_expr(e, tags);
            view_tags(defs, a, true, tags)
        }
        ViewD::Errb(e, a) => {
            tags.insert("errorboundary");
            on_expr(e, tags);
            view_tags(defs, a, true, tags)
        }
    }
}

/// tags of every case of an ops file, by case name
pub fn tags_of_file(text: &str) -> HashMap<String, String> {
    let mut out = HashMap::new();
    let mut name: Option<String> = None;
    let mut defs: Vec<Def> = vec![];
    let mut tags: BTreeSet<&'static str> = BTreeSet::new();
    let mut after_set = false;
    let flush = |name: &Option<String>, tags: &BTreeSet<&'static str>, out: &mut HashMap<String, String>| {
        if let Some(n) = name {
            let mut t: Vec<&str> = tags.iter().copied().collect();
            if !t.iter().any(|x| ["dyntext", "dynattr", "dynclass", "dynstyle", "either", "show", "for", "suspense", "errorboundary"].contains(x)) {
                t = vec!["plain"];
            }
            out.insert(n.clone(), t.join(","));
        }
    };
    for line in text.lines() {
        let line = line.trim();
        if let Some(n) = line.strip_prefix("case ") {
            flush(&name, &tags, &mut out);
            name = Some(n.trim().to_string());
            defs.clear();
            tags.clear();
            after_set = false;
            continue;
        }
        let mut t = Toks::new(line);
        match t.next() {
            Some("sig") => defs.push(Def::Sig(0)),
            Some("memo") => {
                if let Some(b) = parse_expr(&mut t) {
                    defs.push(Def::Memo(b))
                }
            }
            Some("mount") => {
                if let Some(v) = parse_view(&mut t) {
                    view_tags(&defs, &v, false, &mut tags)
                }
            }
            Some("set") => after_set = true,
            Some("poll") => {
                if after_set {
                    tags.insert("partial-poll");
                }
            }
            Some("idle") => after_set = false,
            Some("dispose") => {
                tags.insert("dispose");
            }
            _ => {}
        }
    }
    flush(&name, &tags, &mut out);
    out
}
