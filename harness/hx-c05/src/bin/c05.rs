//! C05 correspondence harness: real tachys `to_html()` -> HTML parser -> native DOM -> real
//! `hydrate::<true>` -> real `rebuild`, next to a client-built twin (`build` + `mount` + `rebuild`).
//!
//! Views are data (one word, no spaces); every nested view is type-erased with `into_any()`, so the
//! Rust types exercised are `String`, `()`, `HtmlElement<E, (Vec<AnyAttribute>,), (AnyView, ..)>`,
//! tuples of `AnyView`, `Option<AnyView>`, `Either<AnyView, AnyView>`, `Vec<AnyView>`, `AnyView`:
//!
//!   view := 'T' hex ';'                      String
//!         | 'U'                              ()
//!         | 'E' tag ';' attr* '>' view* '<'  element (no child: `()`, n children: n-tuple, n <= 6)
//!         | 'P' view* ')'                    tuple / fragment (1..6 components)
//!         | 'N' | 'S' view                   Option::None / Some
//!         | 'L' view | 'R' view              Either::Left / Right
//!         | 'V' view* ']'                    Vec
//!         | 'I' view                         InertElement::new(<the SSR string of the static element `view`>)
//!         | 'K' (hex ';')* ']'               keyed(keys) with item view `<b>{key}</b>`
//!         | 'k' (hex ';')* ']'               keyed(keys) with item view `{key}` (a String)
//!         | 'Z' view | 'z'                   Result::<AnyView, fmt::Error>::Ok / Err
//!         | '#' digits ';'                   a u32 (view/primitives.rs)
//!         | 'a' hex ';' | 'c' hex ';'        Arc<str> | Cow<'static, str>
//!         | '3' ('0'|'1'|'2') view           EitherOf3<AnyView, AnyView, AnyView>
//!         | 'Y' view* ')'                    [AnyView; N], N = 1..3
//!         | 'W' view                         OwnedView::new(view) (reactive_graph/owned.rs)
//!         | 'F' view                         the closure `move || view` (reactive_graph/mod.rs, RenderEffect)
//!         | 'J' kind ('e'|'t') (hex ';')* ']' keyed(<iterator>, ..): the `each` source of a keyed list / `<For>` by kind:
//!                                            0 Vec | 1 [String; n] (n <= 3) | 2 (0..n).map(..) | 3 .filter(..) | 4 iter::from_fn
//!                                            | 5 .flat_map(Some) | 6 a.chain(b) | 7 once(k0).chain(rest) (n >= 1) | 8 Option (n <= 1);
//!                                            size hints exact (0,1,2,6,7,8) or with lower bound 0 (3,4,5); 'e': items `<b>{key}</b>`, 't': `{key}`
//!         | 'B' view                         <ErrorBoundary fallback=|_| "ERR">{view}</ErrorBoundary> (leptos; no Result::Err in `view`)
//!         | 'D' view | 'G' view              <Suspense>{view}</Suspense> | <Transition>{view}</Transition> (fallback `()`; `view` without
//!                                            Suspend / boundary; only in `shyd io|ooo`: to_html() of a boundary prints its fallback)
//!         | 'H' ('0'|'1') view               <Show when=move || b>{view}</Show> (fallback `()`)
//!         | 'M' (hex ';')* ']'               <For each=move || keys key=.. children=|k| <b>{k}</b>/>
//!         | 'X' fid ';' view                 Suspend::new(async { rx_fid.await; view }) (reactive_graph/suspense.rs); fid = 0..15,
//!                                            a oneshot channel the harness completes; `view` may hold Suspends that hold none
//!                                            (one nested level); only in `shyd`/`sfrag`
//!         | 'Q' (fid '.' hex ';')* ']'       keyed(keys) with item view `<b>{Suspend::new(async { rx_fid.await; key })}</b>`
//!   attr := 'A' hex ';' hex ';'              .attr(name, String)
//!         | 'B' hex ';' ('0'|'1')            .attr(name, bool)
//!         | 'O' hex ';' ('-' | 's' hex ';')  .attr(name, Option<String>)
//!   hex = lower-case hex of the UTF-8 bytes (may be empty); tag = [a-z0-9-]+.
//!
//! Ops:
//!   case <n>
//!   hyd <views A> <views B>    top-level view = the tuple of A's views.  SSR string of A, parsed into
//!                              the native DOM under a root `<div>`, hydrated with A, rebuilt with B;
//!                              twin: A built and mounted into another root, rebuilt with B.
//!   mis <views A> <views C>    A hydrated against the DOM of C's SSR string (error paths of the walk)
//!   frag <tag> <pre> <itemsA> <itemsB> <post>   (`-` = none) `<tag>` with children `pre…, Fragment(itemsA),
//!                              post…` (`Fragment` = `StaticVec<AnyView>`), hydrated, rebuilt with itemsB; twin
//!   shyd <mode> <done0> <steps> <views A> <views B>
//!                              `hyd` for views with `Suspend`s.  The server renders A in the form <mode>: `io` =
//!                              to_html_stream_in_order, `ooo` = to_html_stream_out_of_order (then the inline scripts are
//!                              applied as the browser does), `res` = resolve().await.to_html(), `sync` = to_html().
//!                              <done0> (`-` or fids): futures completed before rendering; <steps> (`-` or `/`-separated
//!                              fid lists, `-` = none): futures completed before the 1st, 2nd, … poll of the stream / of the
//!                              resolve future; then all the others at once; then polls to the end.  The client hydrates A
//!                              with every future ready, rebuilds with B (spawned tasks run to idle); twin as in `hyd`.
//!                              Output: raw=<hex of the concatenated chunks> html=<hex of the final document> + as `hyd`.
//!   sfrag <mode> <done0> <steps> <tag> <pre> <itemsA> <itemsB> <post>   `frag` with items that may suspend
//!
//! Output of `hyd`:
//!   html=<hex> io=<0|1> ooo=<0|1> tree=<enc> hyd=<outcome> created=<n> after=<enc> csr=<enc> ## <verdict>
//! `io`/`ooo`: the in-order / out-of-order stream of the same (synchronous) view concatenates to the
//! same HTML.  `tree`: what the Rust parser (hx-c06) reads; `after`/`csr`: children of the two roots
//! after the rebuild, comments included.  Verdict (the property's oracle on the real outputs):
//! outcome ok, 0 nodes created by hydration, and `after` = `csr` once comments are removed (adjacent
//! text nodes merged, empty text nodes dropped).
#[path = "../../../hx-c06/src/html.rs"]
#[allow(dead_code)]
mod html;

use futures::channel::oneshot;
use futures::future::{FutureExt, Shared};
use futures::{Stream, StreamExt};
use html::Tree;
use hx_common::*;
use std::collections::{BTreeSet, HashMap};
use std::future::Future;
use std::panic::{catch_unwind, AssertUnwindSafe};
use std::sync::{Arc, Mutex};
use std::task::{Context, Poll};
use tachys::either::{Either, EitherOf3};
use tachys::html::InertElement;
use tachys::reactive_graph::{OwnedView, Suspend};
use tachys::view::keyed::keyed;
use tachys::html::attribute as at;
use tachys::html::attribute::any_attribute::{AnyAttribute, IntoAnyAttribute};
use tachys::html::attribute::custom::custom_attribute;
use tachys::html::element as el;
use tachys::html::element::{custom, ElementChild};
use tachys::hydration::Cursor;
use tachys::renderer::native_dom as nd;
use tachys::view::add_attr::AddAnyAttr;
use tachys::view::any_view::{AnyView, IntoAny};
use tachys::view::fragment::Fragment;
use tachys::view::{Mountable, PositionState, Render, RenderHtml};

const MAX_KIDS: usize = 6;

/// Generate cases of the class `raw-text-child` (F-C05-2: `<textarea>`/`<style>` with a string child)?
/// Off until the proposed line of props/C05.known (class=raw-text-child) is listed in known_findings.txt:
/// every such case is a property failure that the model reproduces.  To switch on: set this to `true`
/// and rename corpus/C05/F-C05-2-raw-text-child.ops.pending to `.ops`.
const RAW_TEXT_CASES: bool = true;

// ------------------------------------------------------------------------------------- encoding

#[derive(Clone, Debug, PartialEq)]
enum A {
    Str(String, String),
    Bool(String, bool),
    OStr(String, Option<String>),
}

#[derive(Clone, Debug, PartialEq)]
enum V {
    Text(String),
    Unit,
    Elem { tag: String, attrs: Vec<A>, kids: Vec<V> },
    Tuple(Vec<V>),
    None,
    Some(Box<V>),
    Left(Box<V>),
    Right(Box<V>),
    Vec(Vec<V>),
    Inert(Box<V>),
    Keyed(Vec<String>),
    KeyedText(Vec<String>),
    Ok(Box<V>),
    Err,
    Num(u32),
    ArcStr(String),
    CowStr(String),
    Of3(u8, Box<V>),
    Array(Vec<V>),
    Owned(Box<V>),
    Closure(Box<V>),
    /// `Suspend::new(async { rx_fid.await; view })`
    Susp(usize, Box<V>),
    /// keyed list whose items are `<b>{Suspend::new(async { rx_fid.await; key })}</b>`
    KeyedSusp(Vec<(usize, String)>),
    /// `<ErrorBoundary fallback=|_| "ERR">{view}</ErrorBoundary>` (leptos/src/error_boundary.rs)
    Eb(Box<V>),
    /// `<Suspense>{view}</Suspense>` / `<Transition>{view}</Transition>` (fallback `()`), children without async parts
    Suspense(bool, Box<V>),
    /// `<Show when=move || when>{view}</Show>` (fallback `()`)
    Show(bool, Box<V>),
    /// `<For each=move || keys key=.. children=|k| <b>{k}</b> />`
    For(Vec<String>),
    /// keyed list fed by an iterator of the given kind (0..8, see `keyed_it`); `elem`: items `<b>{key}</b>`, else `{key}`
    KeyedIt { kind: u8, elem: bool, keys: Vec<String> },
}

/// the iterator kinds a keyed list is fed with, and the size hint of each for n items:
/// 0 Vec (n, Some(n)) | 1 array [String; n], n <= 3 (n, Some(n)) | 2 (0..n).map(..) (n, Some(n)) | 3 .filter(..) (0, Some(n))
/// | 4 iter::from_fn (0, None) | 5 .flat_map(|k| Some(k)) (0, ..) | 6 a.chain(b) (n, Some(n)) | 7 once(k0).chain(rest), n >= 1
/// | 8 Option::into_iter, n <= 1
fn it_kind_ok(kind: u8, n: usize) -> bool {
    match kind {
        0 | 2 | 3 | 4 | 5 | 6 => true,
        1 => n <= 3,
        7 => n >= 1,
        8 => n <= 1,
        _ => false,
    }
}

fn hx(s: &str) -> String {
    s.bytes().map(|b| format!("{:02x}", b)).collect()
}

fn unhx(s: &str) -> Option<String> {
    if s.len() % 2 != 0 {
        return None;
    }
    let bytes: Option<Vec<u8>> =
        (0..s.len()).step_by(2).map(|i| u8::from_str_radix(s.get(i..i + 2)?, 16).ok()).collect();
    String::from_utf8(bytes?).ok()
}

fn enc_v(v: &V, o: &mut String) {
    match v {
        V::Text(s) => {
            o.push('T');
            o.push_str(&hx(s));
            o.push(';');
        }
        V::Unit => o.push('U'),
        V::Elem { tag, attrs, kids } => {
            o.push('E');
            o.push_str(tag);
            o.push(';');
            for a in attrs {
                match a {
                    A::Str(n, v) => o.push_str(&format!("A{};{};", hx(n), hx(v))),
                    A::Bool(n, b) => o.push_str(&format!("B{};{}", hx(n), *b as u8)),
                    A::OStr(n, None) => o.push_str(&format!("O{};-", hx(n))),
                    A::OStr(n, Some(v)) => o.push_str(&format!("O{};s{};", hx(n), hx(v))),
                }
            }
            o.push('>');
            kids.iter().for_each(|k| enc_v(k, o));
            o.push('<');
        }
        V::Tuple(ks) => {
            o.push('P');
            ks.iter().for_each(|k| enc_v(k, o));
            o.push(')');
        }
        V::None => o.push('N'),
        V::Some(x) => {
            o.push('S');
            enc_v(x, o);
        }
        V::Left(x) => {
            o.push('L');
            enc_v(x, o);
        }
        V::Right(x) => {
            o.push('R');
            enc_v(x, o);
        }
        V::Vec(ks) => {
            o.push('V');
            ks.iter().for_each(|k| enc_v(k, o));
            o.push(']');
        }
        V::Inert(x) => {
            o.push('I');
            enc_v(x, o);
        }
        V::Keyed(ks) | V::KeyedText(ks) => {
            o.push(if matches!(v, V::Keyed(_)) { 'K' } else { 'k' });
            for k in ks {
                o.push_str(&hx(k));
                o.push(';');
            }
            o.push(']');
        }
        V::Ok(x) => {
            o.push('Z');
            enc_v(x, o);
        }
        V::Err => o.push('z'),
        V::Num(n) => o.push_str(&format!("#{n};")),
        V::ArcStr(s) => o.push_str(&format!("a{};", hx(s))),
        V::CowStr(s) => o.push_str(&format!("c{};", hx(s))),
        V::Of3(i, x) => {
            o.push('3');
            o.push((b'0' + *i) as char);
            enc_v(x, o);
        }
        V::Array(ks) => {
            o.push('Y');
            ks.iter().for_each(|k| enc_v(k, o));
            o.push(')');
        }
        V::Owned(x) => {
            o.push('W');
            enc_v(x, o);
        }
        V::Closure(x) => {
            o.push('F');
            enc_v(x, o);
        }
        V::Susp(f, x) => {
            o.push_str(&format!("X{f};"));
            enc_v(x, o);
        }
        V::Eb(x) => {
            o.push('B');
            enc_v(x, o);
        }
        V::Suspense(tr, x) => {
            o.push(if *tr { 'G' } else { 'D' });
            enc_v(x, o);
        }
        V::Show(w, x) => {
            o.push('H');
            o.push(if *w { '1' } else { '0' });
            enc_v(x, o);
        }
        V::For(keys) => {
            o.push('M');
            for k in keys {
                o.push_str(&hx(k));
                o.push(';');
            }
            o.push(']');
        }
        V::KeyedIt { kind, elem, keys } => {
            o.push('J');
            o.push((b'0' + *kind) as char);
            o.push(if *elem { 'e' } else { 't' });
            for k in keys {
                o.push_str(&hx(k));
                o.push(';');
            }
            o.push(']');
        }
        V::KeyedSusp(ks) => {
            o.push('Q');
            for (f, k) in ks {
                o.push_str(&format!("{f}.{};", hx(k)));
            }
            o.push(']');
        }
    }
}

fn encode(vs: &[V]) -> String {
    let mut o = String::new();
    vs.iter().for_each(|v| enc_v(v, &mut o));
    o
}

struct D<'a> {
    s: &'a [u8],
    i: usize,
}

impl<'a> D<'a> {
    fn field(&mut self) -> Option<&'a str> {
        let start = self.i;
        while *self.s.get(self.i)? != b';' {
            self.i += 1;
        }
        let r = std::str::from_utf8(&self.s[start..self.i]).ok()?;
        self.i += 1;
        Some(r)
    }
    fn hex(&mut self) -> Option<String> {
        unhx(self.field()?)
    }
    fn byte(&mut self) -> Option<u8> {
        let b = *self.s.get(self.i)?;
        self.i += 1;
        Some(b)
    }
    /// views up to the closing byte `close` (0 = end of input)
    fn seq(&mut self, close: u8) -> Option<Vec<V>> {
        let mut out = vec![];
        loop {
            match self.s.get(self.i).copied() {
                Option::None => return if close == 0 { Some(out) } else { Option::None },
                Some(b) if b == close && close != 0 => {
                    self.i += 1;
                    return Some(out);
                }
                Some(_) => out.push(self.view()?),
            }
        }
    }
    fn view(&mut self) -> Option<V> {
        Some(match self.byte()? {
            b'T' => V::Text(self.hex()?),
            b'U' => V::Unit,
            b'E' => {
                let tag = self.field()?.to_string();
                if tag.is_empty()
                    || !tag.bytes().all(|b| b.is_ascii_lowercase() || b.is_ascii_digit() || b == b'-')
                {
                    return Option::None;
                }
                let mut attrs = vec![];
                loop {
                    match self.byte()? {
                        b'>' => break,
                        b'A' => attrs.push(A::Str(self.hex()?, self.hex()?)),
                        b'B' => {
                            let n = self.hex()?;
                            attrs.push(A::Bool(
                                n,
                                match self.byte()? {
                                    b'0' => false,
                                    b'1' => true,
                                    _ => return Option::None,
                                },
                            ))
                        }
                        b'O' => {
                            let n = self.hex()?;
                            attrs.push(A::OStr(
                                n,
                                match self.byte()? {
                                    b'-' => Option::None,
                                    b's' => Some(self.hex()?),
                                    _ => return Option::None,
                                },
                            ))
                        }
                        _ => return Option::None,
                    }
                }
                let kids = self.seq(b'<')?;
                if kids.len() > MAX_KIDS {
                    return Option::None;
                }
                V::Elem { tag, attrs, kids }
            }
            b'P' => {
                let ks = self.seq(b')')?;
                if ks.is_empty() || ks.len() > MAX_KIDS {
                    return Option::None;
                }
                V::Tuple(ks)
            }
            b'N' => V::None,
            b'S' => V::Some(Box::new(self.view()?)),
            b'L' => V::Left(Box::new(self.view()?)),
            b'R' => V::Right(Box::new(self.view()?)),
            b'V' => V::Vec(self.seq(b']')?),
            b'I' => {
                let x = self.view()?;
                if !inert_ok(&x, true) {
                    return Option::None;
                }
                V::Inert(Box::new(x))
            }
            k @ (b'K' | b'k') => {
                let mut keys = vec![];
                loop {
                    if *self.s.get(self.i)? == b']' {
                        self.i += 1;
                        break;
                    }
                    keys.push(self.hex()?);
                }
                if k == b'K' {
                    V::Keyed(keys)
                } else {
                    V::KeyedText(keys)
                }
            }
            b'Z' => V::Ok(Box::new(self.view()?)),
            b'z' => V::Err,
            b'#' => V::Num(self.field()?.parse().ok()?),
            b'a' => V::ArcStr(self.hex()?),
            b'c' => V::CowStr(self.hex()?),
            b'3' => {
                let i = self.byte()?.checked_sub(b'0')?;
                if i > 2 {
                    return Option::None;
                }
                V::Of3(i, Box::new(self.view()?))
            }
            b'Y' => {
                let ks = self.seq(b')')?;
                if ks.is_empty() || ks.len() > 3 {
                    return Option::None;
                }
                V::Array(ks)
            }
            b'W' => V::Owned(Box::new(self.view()?)),
            b'F' => V::Closure(Box::new(self.view()?)),
            b'X' => {
                let f: usize = self.field()?.parse().ok()?;
                let x = self.view()?;
                // one level: the view a `Suspend` resolves to holds no `Suspend`
                // at most one `Suspend` level inside the value of a `Suspend`; no `<Suspense>` in it
                if f > 15 || susp_depth(&x) > 1 || has_boundary(&x) {
                    return Option::None;
                }
                V::Susp(f, Box::new(x))
            }
            b'B' => {
                let x = self.view()?;
                // Ok children only: the error path needs the serialized errors of a shared context
                if has_err(&x) {
                    return Option::None;
                }
                V::Eb(Box::new(x))
            }
            t @ (b'D' | b'G') => {
                let x = self.view()?;
                // a boundary whose children have no asynchronous part, not inside another one
                if has_susp(&x) || has_boundary(&x) {
                    return Option::None;
                }
                V::Suspense(t == b'G', Box::new(x))
            }
            b'H' => {
                let w = match self.byte()? {
                    b'0' => false,
                    b'1' => true,
                    _ => return Option::None,
                };
                V::Show(w, Box::new(self.view()?))
            }
            b'M' => {
                let mut keys = vec![];
                loop {
                    if *self.s.get(self.i)? == b']' {
                        self.i += 1;
                        break;
                    }
                    keys.push(self.hex()?);
                }
                V::For(keys)
            }
            b'J' => {
                let kind = self.byte()?.checked_sub(b'0')?;
                let elem = match self.byte()? {
                    b'e' => true,
                    b't' => false,
                    _ => return Option::None,
                };
                let mut keys = vec![];
                loop {
                    if *self.s.get(self.i)? == b']' {
                        self.i += 1;
                        break;
                    }
                    keys.push(self.hex()?);
                }
                if !it_kind_ok(kind, keys.len()) {
                    return Option::None;
                }
                V::KeyedIt { kind, elem, keys }
            }
            b'Q' => {
                let mut items = vec![];
                loop {
                    if *self.s.get(self.i)? == b']' {
                        self.i += 1;
                        break;
                    }
                    let fld = self.field()?;
                    let (f, k) = fld.split_once('.')?;
                    let f: usize = f.parse().ok()?;
                    if f > 15 {
                        return Option::None;
                    }
                    items.push((f, unhx(k)?));
                }
                V::KeyedSusp(items)
            }
            _ => return Option::None,
        })
    }
}

fn decode(w: &str) -> Option<Vec<V>> {
    let vs = D { s: w.as_bytes(), i: 0 }.seq(0)?;
    if vs.is_empty() || vs.len() > MAX_KIDS {
        return Option::None;
    }
    Some(vs)
}

// ------------------------------------------------------------------------------------- real views

fn build_attr(a: &A) -> AnyAttribute {
    match a {
        A::Str(n, v) => match n.as_str() {
            "id" => at::id(v.clone()).into_any_attr(),
            "href" => at::href(v.clone()).into_any_attr(),
            "title" => at::title(v.clone()).into_any_attr(),
            "alt" => at::alt(v.clone()).into_any_attr(),
            "value" => at::value(v.clone()).into_any_attr(),
            _ => custom_attribute(n.clone(), v.clone()).into_any_attr(),
        },
        A::Bool(n, b) => match n.as_str() {
            "hidden" => at::hidden(*b).into_any_attr(),
            "disabled" => at::disabled(*b).into_any_attr(),
            _ => custom_attribute(n.clone(), *b).into_any_attr(),
        },
        A::OStr(n, v) => match n.as_str() {
            "id" => at::id(v.clone()).into_any_attr(),
            "title" => at::title(v.clone()).into_any_attr(),
            _ => custom_attribute(n.clone(), v.clone()).into_any_attr(),
        },
    }
}

macro_rules! tuple_of {
    ($k:expr) => {{
        let mut k = $k.into_iter();
        match k.len() {
            1 => (k.next().unwrap(),).into_any(),
            2 => (k.next().unwrap(), k.next().unwrap()).into_any(),
            3 => (k.next().unwrap(), k.next().unwrap(), k.next().unwrap()).into_any(),
            4 => (k.next().unwrap(), k.next().unwrap(), k.next().unwrap(), k.next().unwrap()).into_any(),
            5 => (k.next().unwrap(), k.next().unwrap(), k.next().unwrap(), k.next().unwrap(), k.next().unwrap())
                .into_any(),
            _ => (
                k.next().unwrap(),
                k.next().unwrap(),
                k.next().unwrap(),
                k.next().unwrap(),
                k.next().unwrap(),
                k.next().unwrap(),
            )
                .into_any(),
        }
    }};
}

macro_rules! with_kids {
    ($el:expr, $kids:expr) => {{
        let el = $el;
        let mut k = $kids.into_iter();
        match k.len() {
            0 => el.into_any(),
            1 => el.child(k.next().unwrap()).into_any(),
            2 => el.child(k.next().unwrap()).child(k.next().unwrap()).into_any(),
            3 => el.child(k.next().unwrap()).child(k.next().unwrap()).child(k.next().unwrap()).into_any(),
            4 => el
                .child(k.next().unwrap())
                .child(k.next().unwrap())
                .child(k.next().unwrap())
                .child(k.next().unwrap())
                .into_any(),
            5 => el
                .child(k.next().unwrap())
                .child(k.next().unwrap())
                .child(k.next().unwrap())
                .child(k.next().unwrap())
                .child(k.next().unwrap())
                .into_any(),
            _ => el
                .child(k.next().unwrap())
                .child(k.next().unwrap())
                .child(k.next().unwrap())
                .child(k.next().unwrap())
                .child(k.next().unwrap())
                .child(k.next().unwrap())
                .into_any(),
        }
    }};
}

macro_rules! by_tag {
    ($tag:expr, $attrs:expr, $kids:expr; [$($name:ident),*]; [$($void:ident),*]) => {
        match $tag {
            $(stringify!($name) => Some(with_kids!(el::$name().add_any_attr($attrs), $kids)),)*
            $(stringify!($void) => if $kids.is_empty() { Some(el::$void().add_any_attr($attrs).into_any()) } else { Option::None },)*
            t if html::is_custom_tag(t) => Some(with_kids!(custom(t.to_string()).add_any_attr($attrs), $kids)),
            _ => Option::None,
        }
    };
}

fn elem_any(tag: &str, attrs: Vec<AnyAttribute>, kids: Vec<AnyView>) -> Option<AnyView> {
    if kids.len() > MAX_KIDS {
        return Option::None;
    }
    by_tag!(tag, attrs, kids;
        [div, span, section, article, main, header, footer, aside, nav, blockquote, figure, label,
         b, i, em, strong, small, code, p, a, h1, h2, h3, button,
         title, textarea, script, style, noscript];
        [area, base, br, col, embed, hr, img, input, link, meta, source, track, wbr])
}

fn any_e(v: &V, env: &Option<Env>) -> Option<AnyView> {
    Some(match v {
        V::Text(s) => s.clone().into_any(),
        V::Unit => ().into_any(),
        V::Elem { tag, attrs, kids } => {
            let attrs: Vec<AnyAttribute> = attrs.iter().map(build_attr).collect();
            let kids: Vec<AnyView> = kids.iter().map(|k| any_e(k, env)).collect::<Option<_>>()?;
            elem_any(tag.as_str(), attrs, kids)?
        }
        V::Tuple(ks) => {
            let ks: Vec<AnyView> = ks.iter().map(|k| any_e(k, env)).collect::<Option<_>>()?;
            tuple_of!(ks)
        }
        V::None => Option::<AnyView>::None.into_any(),
        V::Some(x) => Some(any_e(x, env)?).into_any(),
        V::Left(x) => Either::<AnyView, AnyView>::Left(any_e(x, env)?).into_any(),
        V::Right(x) => Either::<AnyView, AnyView>::Right(any_e(x, env)?).into_any(),
        V::Vec(ks) => ks.iter().map(|k| any_e(k, env)).collect::<Option<Vec<AnyView>>>()?.into_any(),
        V::Inert(x) => {
            if !inert_ok(x, true) {
                return Option::None;
            }
            // what the view! macro does at compile time: the static subtree as an HTML string
            let html_s = any_e(x, env)?.to_html();
            InertElement::new(html_s).into_any()
        }
        V::Keyed(keys) => keyed(keys.clone(), |k: &String| k.clone(), |_, k: String| (|_: usize| (), el::b().child(k)))
            .into_any(),
        V::KeyedText(keys) => keyed(keys.clone(), |k: &String| k.clone(), |_, k: String| (|_: usize| (), k)).into_any(),
        V::KeyedIt { kind, elem, keys } => {
            if !it_kind_ok(*kind, keys.len()) {
                return Option::None;
            }
            keyed_it(*kind, *elem, keys.clone())
        }
        V::Eb(x) => wrappers::error_boundary(any_e(x, env)?),
        V::Suspense(tr, x) => {
            let c = any_e(x, env)?;
            if *tr {
                wrappers::transition(c)
            } else {
                wrappers::suspense(c)
            }
        }
        V::Show(w, x) => {
            any_e(x, env)?;
            let x = (**x).clone();
            let env = env.clone();
            wrappers::show(*w, move || any_e(&x, &env).expect("Show children"))
        }
        V::For(keys) => wrappers::for_each(keys.clone()),
        V::Ok(x) => Result::<AnyView, std::fmt::Error>::Ok(any_e(x, env)?).into_any(),
        V::Err => Result::<AnyView, std::fmt::Error>::Err(std::fmt::Error).into_any(),
        V::Num(n) => (*n).into_any(),
        V::ArcStr(s) => std::sync::Arc::<str>::from(s.as_str()).into_any(),
        V::CowStr(s) => std::borrow::Cow::<'static, str>::Owned(s.clone()).into_any(),
        V::Of3(i, x) => {
            let x = any_e(x, env)?;
            match i {
                0 => EitherOf3::<AnyView, AnyView, AnyView>::A(x),
                1 => EitherOf3::B(x),
                _ => EitherOf3::C(x),
            }
            .into_any()
        }
        V::Array(ks) => {
            let mut k = ks.iter().map(|k| any_e(k, env)).collect::<Option<Vec<AnyView>>>()?.into_iter();
            match k.len() {
                1 => [k.next().unwrap()].into_any(),
                2 => [k.next().unwrap(), k.next().unwrap()].into_any(),
                _ => [k.next().unwrap(), k.next().unwrap(), k.next().unwrap()].into_any(),
            }
        }
        V::Owned(x) => OwnedView::new(any_e(x, env)?).into_any(),
        V::Closure(x) => {
            let x = (**x).clone();
            let env = env.clone();
            (move || any_e(&x, &env).expect("closure view")).into_any()
        }
        V::Susp(f, x) => {
            // the inner view must be buildable (checked now: the future must not fail later)
            any_e(x, env)?;
            let x = (**x).clone();
            match env {
                Some(e) => {
                    let rx = e.rx(*f);
                    let env = env.clone();
                    Suspend::new(async move {
                        let _ = rx.await;
                        any_e(&x, &env).expect("suspended view")
                    })
                    .into_any()
                }
                Option::None => Suspend::new(async move { any_e(&x, &Option::None).expect("suspended view") }).into_any(),
            }
        }
        V::KeyedSusp(items) => {
            let env = env.clone();
            keyed(
                items.clone(),
                |it: &(usize, String)| it.1.clone(),
                move |_, (f, k): (usize, String)| {
                    let rx = env.as_ref().map(|e| e.rx(f));
                    (
                        |_: usize| (),
                        el::b().child(Suspend::new(async move {
                            if let Some(rx) = rx {
                                let _ = rx.await;
                            }
                            k
                        })),
                    )
                },
            )
            .into_any()
        }
    })
}

fn any(v: &V) -> Option<AnyView> {
    any_e(v, &Option::None)
}

/// `keyed(<iterator of kind `kind` over keys>, key, view)`: the `each` source of a keyed list / `<For>`
fn keyed_it(kind: u8, elem: bool, keys: Vec<String>) -> AnyView {
    macro_rules! mk {
        ($it:expr) => {
            if elem {
                keyed($it, |k: &String| k.clone(), |_, k: String| (|_: usize| (), el::b().child(k))).into_any()
            } else {
                keyed($it, |k: &String| k.clone(), |_, k: String| (|_: usize| (), k)).into_any()
            }
        };
    }
    let n = keys.len();
    match kind {
        0 => mk!(keys),
        1 => {
            let mut k = keys.into_iter();
            match n {
                0 => {
                    let a: [String; 0] = [];
                    mk!(a)
                }
                1 => mk!([k.next().unwrap()]),
                2 => mk!([k.next().unwrap(), k.next().unwrap()]),
                _ => mk!([k.next().unwrap(), k.next().unwrap(), k.next().unwrap()]),
            }
        }
        2 => mk!((0..n).map(move |i| keys[i].clone())),
        3 => mk!(keys.into_iter().filter(|k: &String| k.len() < 1000)),
        4 => {
            let mut it = keys.into_iter();
            mk!(std::iter::from_fn(move || it.next()))
        }
        5 => mk!(keys.into_iter().flat_map(Some)),
        6 => {
            let mut a = keys;
            let b = a.split_off(n / 2);
            mk!(a.into_iter().chain(b))
        }
        7 => {
            let mut it = keys.into_iter();
            let first = it.next().unwrap();
            mk!(std::iter::once(first).chain(it))
        }
        _ => mk!(keys.into_iter().next()),
    }
}

/// the leptos wrapper components (their own module: the leptos prelude is a large glob)
mod wrappers {
    use leptos::prelude::*;
    use tachys::view::any_view::AnyView;

    pub fn error_boundary(c: AnyView) -> AnyView {
        view! { <ErrorBoundary fallback=|_| "ERR">{c}</ErrorBoundary> }.into_any()
    }
    pub fn suspense(c: AnyView) -> AnyView {
        view! { <Suspense>{c}</Suspense> }.into_any()
    }
    pub fn transition(c: AnyView) -> AnyView {
        view! { <Transition>{c}</Transition> }.into_any()
    }
    pub fn show(when: bool, f: impl Fn() -> AnyView + Send + Sync + 'static) -> AnyView {
        view! { <Show when=move || when>{f()}</Show> }.into_any()
    }
    pub fn for_each(keys: Vec<String>) -> AnyView {
        view! {
            <For each=move || keys.clone() key=|k: &String| k.clone() children=|k: String| leptos::html::b().child(k)/>
        }
        .into_any()
    }
}

fn has_err(v: &V) -> bool {
    match v {
        V::Err => true,
        V::Elem { kids, .. } | V::Tuple(kids) | V::Vec(kids) | V::Array(kids) => kids.iter().any(has_err),
        V::Some(x) | V::Left(x) | V::Right(x) | V::Ok(x) | V::Of3(_, x) | V::Owned(x) | V::Closure(x) | V::Susp(_, x) | V::Eb(x)
        | V::Show(_, x) | V::Suspense(_, x) => has_err(x),
        _ => false,
    }
}

/// `v` with every `Result::Err` made an `Ok(())` (inside an `<ErrorBoundary>`)
fn de_err(v: &V) -> V {
    match v {
        V::Err => V::Ok(Box::new(V::Unit)),
        V::Elem { tag, attrs, kids } => V::Elem { tag: tag.clone(), attrs: attrs.clone(), kids: kids.iter().map(de_err).collect() },
        V::Tuple(ks) => V::Tuple(ks.iter().map(de_err).collect()),
        V::Vec(ks) => V::Vec(ks.iter().map(de_err).collect()),
        V::Array(ks) => V::Array(ks.iter().map(de_err).collect()),
        V::Some(x) => V::Some(Box::new(de_err(x))),
        V::Left(x) => V::Left(Box::new(de_err(x))),
        V::Right(x) => V::Right(Box::new(de_err(x))),
        V::Ok(x) => V::Ok(Box::new(de_err(x))),
        V::Of3(i, x) => V::Of3(*i, Box::new(de_err(x))),
        V::Owned(x) => V::Owned(Box::new(de_err(x))),
        V::Closure(x) => V::Closure(Box::new(de_err(x))),
        V::Susp(f, x) => V::Susp(*f, Box::new(de_err(x))),
        V::Suspense(t, x) => V::Suspense(*t, Box::new(de_err(x))),
        V::Show(w, x) => V::Show(*w, Box::new(de_err(x))),
        V::Eb(x) => V::Eb(Box::new(de_err(x))),
        other => other.clone(),
    }
}

fn n_boundaries(v: &V) -> usize {
    match v {
        V::Suspense(_, x) => 1 + n_boundaries(x),
        V::Elem { kids, .. } | V::Tuple(kids) | V::Vec(kids) | V::Array(kids) => kids.iter().map(n_boundaries).sum(),
        V::Some(x) | V::Left(x) | V::Right(x) | V::Ok(x) | V::Of3(_, x) | V::Owned(x) | V::Closure(x) | V::Susp(_, x) | V::Eb(x) => {
            n_boundaries(x)
        }
        V::Show(w, x) => if *w { n_boundaries(x) } else { 0 },
        _ => 0,
    }
}

fn has_boundary(v: &V) -> bool {
    match v {
        V::Suspense(..) => true,
        V::Elem { kids, .. } | V::Tuple(kids) | V::Vec(kids) | V::Array(kids) => kids.iter().any(has_boundary),
        V::Some(x) | V::Left(x) | V::Right(x) | V::Ok(x) | V::Of3(_, x) | V::Owned(x) | V::Closure(x) | V::Susp(_, x) | V::Eb(x)
        | V::Show(_, x) => has_boundary(x),
        _ => false,
    }
}

fn susp_depth(v: &V) -> usize {
    match v {
        V::Susp(_, x) => 1 + susp_depth(x),
        V::KeyedSusp(_) => 1,
        V::Elem { kids, .. } | V::Tuple(kids) | V::Vec(kids) | V::Array(kids) => kids.iter().map(susp_depth).max().unwrap_or(0),
        V::Some(x) | V::Left(x) | V::Right(x) | V::Ok(x) | V::Of3(_, x) | V::Owned(x) | V::Closure(x) | V::Inert(x) | V::Eb(x)
        | V::Show(_, x) | V::Suspense(_, x) => susp_depth(x),
        _ => 0,
    }
}

fn has_susp(v: &V) -> bool {
    match v {
        V::Susp(..) | V::KeyedSusp(_) => true,
        V::Elem { kids, .. } | V::Tuple(kids) | V::Vec(kids) | V::Array(kids) => kids.iter().any(has_susp),
        V::Some(x) | V::Left(x) | V::Right(x) | V::Ok(x) | V::Of3(_, x) | V::Owned(x) | V::Closure(x) | V::Inert(x) | V::Eb(x)
        | V::Show(_, x) | V::Suspense(_, x) => has_susp(x),
        _ => false,
    }
}

fn fids_of(v: &V, out: &mut Vec<usize>) {
    match v {
        V::Susp(f, x) => {
            out.push(*f);
            fids_of(x, out)
        }
        V::KeyedSusp(items) => out.extend(items.iter().map(|(f, _)| *f)),
        V::Elem { kids, .. } | V::Tuple(kids) | V::Vec(kids) | V::Array(kids) => kids.iter().for_each(|k| fids_of(k, out)),
        V::Some(x) | V::Left(x) | V::Right(x) | V::Ok(x) | V::Of3(_, x) | V::Owned(x) | V::Closure(x) | V::Eb(x) | V::Show(_, x) => {
            fids_of(x, out)
        }
        _ => {}
    }
}


/// the shape `view!` turns into an `InertElement`: an element with static string attributes whose
/// children are such elements or single non-empty strings, no two strings adjacent
fn inert_ok(v: &V, top: bool) -> bool {
    match v {
        V::Elem { attrs, kids, .. } => {
            attrs.iter().all(|a| matches!(a, A::Str(..)))
                && kids.iter().all(|k| inert_ok(k, false))
                && !kids.windows(2).any(|w| matches!((&w[0], &w[1]), (V::Text(_), V::Text(_))))
        }
        V::Text(s) => !top && !s.is_empty(),
        _ => false,
    }
}

fn top(vs: &[V]) -> Option<AnyView> {
    any(&V::Tuple(vs.to_vec()))
}

fn top_e(vs: &[V], env: &Option<Env>) -> Option<AnyView> {
    any_e(&V::Tuple(vs.to_vec()), env)
}

// ------------------------------------------------------------------ futures under harness control (as in hx-c07)

type Rx = Shared<oneshot::Receiver<()>>;

#[derive(Default)]
struct EnvInner {
    chans: Mutex<HashMap<usize, (Option<oneshot::Sender<()>>, Rx)>>,
}
#[derive(Clone, Default)]
struct Env(Arc<EnvInner>);
impl Env {
    fn rx(&self, k: usize) -> Rx {
        let mut m = self.0.chans.lock().unwrap();
        m.entry(k)
            .or_insert_with(|| {
                let (tx, rx) = oneshot::channel();
                (Some(tx), rx.shared())
            })
            .1
            .clone()
    }
    fn send(&self, k: usize) {
        let _ = self.rx(k);
        let tx = self.0.chans.lock().unwrap().get_mut(&k).and_then(|e| e.0.take());
        if let Some(tx) = tx {
            let _ = tx.send(());
        }
    }
}

// ------------------------------------------------------------------------------------- DOM <-> Tree

fn load(parent: &nd::Node, t: &Tree) {
    match t {
        Tree::Text(s) => nd::append_child(parent, &nd::create_text_node(s)),
        Tree::Comment(s) => nd::append_child(parent, &nd::create_comment(s)),
        Tree::Elem { tag, attrs, kids } => {
            let e = nd::create_element(tag);
            for (n, v) in attrs {
                let _ = e.set_attribute(n, v);
            }
            nd::append_child(parent, &e);
            for k in kids {
                load(&e, k);
            }
        }
    }
}

fn dump(n: &nd::Node) -> Tree {
    match n.kind() {
        nd::NodeKind::Text => Tree::Text(n.node_value().unwrap_or_default()),
        nd::NodeKind::Comment => Tree::Comment(n.node_value().unwrap_or_default()),
        nd::NodeKind::Element { tag, .. } => Tree::Elem {
            tag,
            attrs: nd::attributes(n),
            kids: nd::children(n).iter().map(dump).collect(),
        },
        nd::NodeKind::Fragment => Tree::Elem {
            tag: "#fragment".into(),
            attrs: vec![],
            kids: nd::children(n).iter().map(dump).collect(),
        },
    }
}

fn dump_kids(n: &nd::Node) -> Vec<Tree> {
    nd::children(n).iter().map(dump).collect()
}

fn enc_tree(ts: &[Tree], o: &mut String) {
    for t in ts {
        match t {
            Tree::Text(s) => o.push_str(&format!("t{};", hx(s))),
            Tree::Comment(s) => o.push_str(&format!("c{};", hx(s))),
            Tree::Elem { tag, attrs, kids } => {
                o.push_str(&format!("e{tag};"));
                for (n, v) in attrs {
                    o.push_str(&format!("a{};{};", hx(n), hx(v)));
                }
                o.push('>');
                enc_tree(kids, o);
                o.push('<');
            }
        }
    }
}

fn enc_trees(ts: &[Tree]) -> String {
    let mut o = String::new();
    enc_tree(ts, &mut o);
    if o.is_empty() {
        o.push('-');
    }
    o
}

/// comments removed, adjacent text nodes merged, empty text nodes dropped
fn strip(ts: &[Tree]) -> Vec<Tree> {
    let mut out: Vec<Tree> = vec![];
    for t in ts {
        match t {
            Tree::Comment(_) => {}
            Tree::Text(s) => {
                if s.is_empty() {
                    continue;
                }
                if let Some(Tree::Text(prev)) = out.last_mut() {
                    prev.push_str(s);
                } else {
                    out.push(Tree::Text(s.clone()));
                }
            }
            Tree::Elem { tag, attrs, kids } => {
                out.push(Tree::Elem { tag: tag.clone(), attrs: attrs.clone(), kids: strip(kids) })
            }
        }
    }
    out
}

// ------------------------------------------------------------------------------------- ops

fn collect_stream(s: impl futures::Stream<Item = String>) -> String {
    futures::executor::block_on(s.collect::<Vec<String>>()).concat()
}

/// outcome of a hydration attempt: `ok`, `err:<expected>:<found>` or `panic`
fn hydrate_outcome(v: AnyView, root: &nd::Element) -> (String, Option<<AnyView as Render>::State>) {
    let _ = nd::take_errors();
    let r = catch_unwind(AssertUnwindSafe(|| {
        v.hydrate::<true>(&Cursor::new(root.clone()), &PositionState::default())
    }));
    let errs = nd::take_errors();
    match r {
        Ok(st) => ("ok".into(), Some(st)),
        Err(_) => {
            let o = match errs.iter().find(|e| e.starts_with("hydration error")) {
                Some(m) => {
                    let exp = if m.contains("expected text node") {
                        "text"
                    } else if m.contains("expected marker node") {
                        "marker"
                    } else if m.contains("expected HTML <") {
                        "element"
                    } else {
                        "other"
                    };
                    let found = match m.split("found ").nth(1) {
                        Some(f) if f.starts_with("<!--") => "c",
                        Some(f) if f.starts_with('<') => "e",
                        Some(f) if f.starts_with('#') => "t",
                        _ => "x",
                    };
                    format!("err:{exp}:{found}")
                }
                Option::None => "panic".into(),
            };
            (o, Option::None)
        }
    }
}

fn op_hyd(a: &[V], b: &[V]) -> String {
    let (Some(va), Some(va2), Some(va3), Some(va4), Some(va5)) = (top(a), top(a), top(a), top(a), top(a)) else {
        return "bad-op".into();
    };
    let (Some(vb), Some(vb2)) = (top(b), top(b)) else { return "bad-op".into() };
    // (1) the real SSR string, in its three forms
    let Ok(html_s) = catch_unwind(AssertUnwindSafe(|| va.to_html())) else {
        return "ssr-panic ## fail ssr-panic".into();
    };
    let io = catch_unwind(AssertUnwindSafe(|| collect_stream(va2.to_html_stream_in_order())))
        .map(|s| s == html_s)
        .unwrap_or(false);
    let ooo = catch_unwind(AssertUnwindSafe(|| collect_stream(va3.to_html_stream_out_of_order())))
        .map(|s| s == html_s)
        .unwrap_or(false);
    let head = format!("html={} io={} ooo={}", if html_s.is_empty() { "-".into() } else { hx(&html_s) }, io as u8, ooo as u8);
    hydrate_tail(&head, &html_s, va4, va5, vb, vb2, false, 0)
}

/// (2) the browser's reading of `html_s`, (3) real hydration with `va4`, (4) rebuild with `vb`, and the client-built
/// twin (`va5` built, mounted, rebuilt with `vb2`).  `settle`: run the spawned tasks (a `Suspend` rebuilds in a task)
fn hydrate_tail(
    head: &str,
    html_s: &str,
    va4: AnyView,
    va5: AnyView,
    vb: AnyView,
    vb2: AnyView,
    settle: bool,
    detached: usize,
) -> String {
    let Some(tree) = html::parse(html_s) else {
        return format!("{head} tree=none ## fail parse-none");
    };
    nd::reset();
    let root = nd::create_root("div");
    for t in &tree {
        load(&root, t);
    }
    // (3) real hydration
    let before = nd::nodes_created();
    let (outcome, st) = hydrate_outcome(va4, &root);
    let created = nd::nodes_created() - before;
    let Some(mut st) = st else {
        return format!("{head} tree={} hyd={outcome} created=0 ## fail hydration-error", enc_trees(&tree));
    };
    // (4) rebuild, and the client-built twin
    let r1 = catch_unwind(AssertUnwindSafe(|| {
        vb.rebuild(&mut st);
        if settle {
            sched::run_until_idle(100_000);
        }
    }));
    let after = dump_kids(&root);
    let root2 = nd::create_root("div");
    let r2 = catch_unwind(AssertUnwindSafe(|| {
        let mut st2 = va5.build();
        st2.mount(&root2, Option::None);
        vb2.rebuild(&mut st2);
        if settle {
            sched::run_until_idle(100_000);
        }
        st2
    }));
    let csr = dump_kids(&root2);
    let dom_errs = nd::take_errors();
    let verdict = if r1.is_err() || r2.is_err() {
        "fail rebuild-panic".to_string()
    } else if !dom_errs.is_empty() {
        "fail dom-error".to_string()
    } else if created != detached {
        // (a `<Suspense>` / `<Transition>` boundary keeps its unshown fallback `()` alive: one detached node each)
        "fail nodes-created".to_string()
    } else if strip(&after) != strip(&csr) {
        "fail differs-from-csr".to_string()
    } else {
        "ok".to_string()
    };
    format!(
        "{head} tree={} hyd={outcome} created={created} after={} csr={} ## {verdict}",
        enc_trees(&tree),
        enc_trees(&after),
        enc_trees(&csr)
    )
}

/// the client side of out-of-order streaming (Rust twin of `Leptos.Stream.applyScripts`, as in hx-c07)
fn apply_scripts(stream: &str) -> String {
    let mut dom = String::new();
    let mut tpls: Vec<(String, String)> = vec![];
    let mut input = stream;
    loop {
        let Some(p) = input.find("<template id=\"") else { break };
        let rest = &input[p + 14..];
        let Some(q) = rest.find("\">") else { break };
        let tid = &rest[..q];
        let rest2 = &rest[q + 2..];
        let Some(r) = rest2.find("</template>") else { break };
        let content = &rest2[..r];
        let rest3 = &rest2[r + 11..];
        let Some(s) = rest3.find("</script>") else { break };
        let script = &rest3[..s];
        dom.push_str(&input[..p]);
        tpls.push((tid.to_string(), content.to_string()));
        input = &rest3[s + 9..];
        let Some(a) = script.find("let id = \"") else { continue };
        let after = &script[a + 10..];
        let Some(b) = after.find('"') else { continue };
        let id = &after[..b];
        let replace = script.contains("range.deleteContents()");
        let open = format!("<!--s-{id}o-->");
        let close = format!("<!--s-{id}c-->");
        let (Some(po), Some(pc)) = (dom.rfind(&open), dom.rfind(&close)) else { continue };
        if replace {
            let want = format!("{id}f");
            let Some((_, tpl)) = tpls.iter().find(|(k, _)| *k == want) else { continue };
            let start = if pc < po { pc } else { po };
            dom = format!("{}{}{}", &dom[..start], tpl, &dom[pc + close.len()..]);
        } else {
            let mut d = format!("{}{}", &dom[..pc], &dom[pc + close.len()..]);
            if let Some(po2) = d.rfind(&open) {
                d = format!("{}{}", &d[..po2], &d[po2 + open.len()..]);
            }
            dom = d;
        }
    }
    dom.push_str(input);
    dom
}

fn parse_fids(s: &str) -> Option<Vec<usize>> {
    if s == "-" {
        return Some(vec![]);
    }
    s.split(',').map(|x| x.parse::<usize>().ok().filter(|k| *k <= 15)).collect()
}

/// `shyd <mode> <done0> <steps> <views A> <views B>`: the server renders A, whose `Suspend`s wait for the futures
/// the harness completes: `done0` before rendering, then per poll the futures of one step (`/`-separated), then all
/// the others, then polls until the end.  mode = `io` (`to_html_stream_in_order`), `ooo` (`…_out_of_order`, the inline
/// scripts applied), `res` (`resolve().await.to_html()`), `sync` (`to_html()`, every future in `done0`).
/// The client hydrates A with every future ready.
fn op_shyd(mode: &str, d0: &[usize], steps: &[Vec<usize>], a: &[V], b: &[V]) -> String {
    sched::reset();
    let env = Env::default();
    let mut fids = vec![];
    a.iter().for_each(|v| fids_of(v, &mut fids));
    if mode == "sync" && !fids.iter().all(|f| d0.contains(f)) {
        return "bad-op".into();
    }
    let (Some(server), Some(va4), Some(va5)) = (top_e(a, &Some(env.clone())), top(a), top(a)) else {
        return "bad-op".into();
    };
    let (Some(vb), Some(vb2)) = (top(b), top(b)) else { return "bad-op".into() };
    match server_render(mode, d0, steps, &fids, server, &env) {
        Err(e) => e,
        Ok((raw, html_s)) => {
            let hxd = |s: &str| if s.is_empty() { "-".to_string() } else { hx(s) };
            let head = format!("raw={} html={}", hxd(&raw), hxd(&html_s));
            hydrate_tail(&head, &html_s, va4, va5, vb, vb2, true, a.iter().map(n_boundaries).sum())
        }
    }
}

/// the server side of `shyd` / `sfrag`: the concatenated chunks and what the browser holds afterwards
fn server_render(
    mode: &str,
    d0: &[usize],
    steps: &[Vec<usize>],
    fids: &[usize],
    server: AnyView,
    env: &Env,
) -> Result<(String, String), String> {
    let mut sent: BTreeSet<usize> = BTreeSet::new();
    for k in d0 {
        sent.insert(*k);
    }
    let waker = sched::noop_waker();
    // the futures of one step, then (after the last step) all the others
    let mut plan: Vec<Vec<usize>> = steps.to_vec();
    let rest: Vec<usize> = {
        let mut r: Vec<usize> = fids.iter().copied().filter(|f| !sent.contains(f) && !steps.iter().any(|s| s.contains(f))).collect();
        r.sort();
        r.dedup();
        r
    };
    plan.push(rest);
    let raw: Result<Option<String>, ()> = catch_unwind(AssertUnwindSafe(|| {
      for k in d0 {
        env.send(*k);
      }
      match mode {
        "sync" => Some(server.to_html()),
        "io" | "ooo" => {
            let mut stream: std::pin::Pin<Box<dyn Stream<Item = String>>> = if mode == "ooo" {
                Box::pin(server.to_html_stream_out_of_order())
            } else {
                Box::pin(server.to_html_stream_in_order())
            };
            let mut cx = Context::from_waker(&waker);
            let mut raw = String::new();
            let mut finished = false;
            let mut n = 0;
            while !finished && n < plan.len() + 64 {
                if let Some(newly) = plan.get(n) {
                    newly.iter().for_each(|k| env.send(*k));
                }
                n += 1;
                // the executor is drained between polls (the task-set effect of a `<Suspense>` needs one turn)
                sched::run_until_idle(100_000);
                match stream.as_mut().poll_next(&mut cx) {
                    Poll::Ready(Some(s)) => raw.push_str(&s),
                    Poll::Ready(Option::None) => finished = true,
                    Poll::Pending => {}
                }
            }
            finished.then_some(raw)
        }
        _ => {
            let mut fut = Box::pin(server.resolve());
            let mut cx = Context::from_waker(&waker);
            let mut n = 0;
            let mut out = Option::None;
            while out.is_none() && n < plan.len() + 64 {
                if let Some(newly) = plan.get(n) {
                    newly.iter().for_each(|k| env.send(*k));
                }
                n += 1;
                if let Poll::Ready(v) = fut.as_mut().poll(&mut cx) {
                    out = Some(v.to_html());
                }
            }
            out
        }
      }
    }))
    .map_err(|_| ());
    let raw = match raw {
        Err(()) => return Err("ssr-panic ## fail ssr-panic".into()),
        Ok(Option::None) => return Err("ssr-stuck ## fail ssr-stuck".into()),
        Ok(Some(r)) => r,
    };
    let html_s = if mode == "ooo" { apply_scripts(&raw) } else { raw.clone() };
    Ok((raw, html_s))
}

/// `<tag>` with children `pre…, Fragment(items), post…` (the `Fragment` is one `AnyView` child)
fn frag_view(tag: &str, pre: &[V], items: &[V], post: &[V]) -> Option<AnyView> {
    frag_view_e(tag, pre, items, post, &Option::None)
}

fn frag_view_e(tag: &str, pre: &[V], items: &[V], post: &[V], env: &Option<Env>) -> Option<AnyView> {
    let mut kids: Vec<AnyView> = pre.iter().map(any).collect::<Option<_>>()?;
    let f = Fragment::new(items.iter().map(|k| any_e(k, env)).collect::<Option<Vec<AnyView>>>()?);
    kids.push(AnyView::from(f));
    for v in post {
        kids.push(any(v)?);
    }
    elem_any(tag, vec![], kids)
}

fn op_frag(tag: &str, pre: &[V], ia: &[V], ib: &[V], post: &[V]) -> String {
    let mk = |items: &[V]| frag_view(tag, pre, items, post);
    let (Some(va), Some(va2), Some(va3), Some(vb), Some(vb2)) = (mk(ia), mk(ia), mk(ia), mk(ib), mk(ib)) else {
        return "bad-op".into();
    };
    let Ok(html_s) = catch_unwind(AssertUnwindSafe(|| va.to_html())) else {
        return "ssr-panic ## fail ssr-panic".into();
    };
    let head = format!("html={}", if html_s.is_empty() { "-".into() } else { hx(&html_s) });
    frag_tail(&head, &html_s, va2, va3, vb, vb2)
}

/// `sfrag <mode> <done0> <steps> <tag> <pre> <itemsA> <itemsB> <post>`: `frag` with items that may suspend, in the
/// server form `mode` (see `shyd`)
#[allow(clippy::too_many_arguments)]
fn op_sfrag(mode: &str, d0: &[usize], steps: &[Vec<usize>], tag: &str, pre: &[V], ia: &[V], ib: &[V], post: &[V]) -> String {
    sched::reset();
    let env = Env::default();
    let mut fids = vec![];
    ia.iter().for_each(|v| fids_of(v, &mut fids));
    if mode == "sync" && !fids.iter().all(|f| d0.contains(f)) {
        return "bad-op".into();
    }
    let mk = |items: &[V]| frag_view(tag, pre, items, post);
    let (Some(server), Some(va2), Some(va3), Some(vb), Some(vb2)) =
        (frag_view_e(tag, pre, ia, post, &Some(env.clone())), mk(ia), mk(ia), mk(ib), mk(ib))
    else {
        return "bad-op".into();
    };
    match server_render(mode, d0, steps, &fids, server, &env) {
        Err(e) => e,
        Ok((raw, html_s)) => {
            let hxd = |s: &str| if s.is_empty() { "-".to_string() } else { hx(s) };
            frag_tail(&format!("raw={} html={}", hxd(&raw), hxd(&html_s)), &html_s, va2, va3, vb, vb2)
        }
    }
}

fn frag_tail(head: &str, html_s: &str, va2: AnyView, va3: AnyView, vb: AnyView, vb2: AnyView) -> String {
    let Some(tree) = html::parse(html_s) else {
        return format!("{head} tree=none ## fail parse-none");
    };
    nd::reset();
    let root = nd::create_root("div");
    for t in &tree {
        load(&root, t);
    }
    let before = nd::nodes_created();
    let (outcome, st) = hydrate_outcome(va2, &root);
    let created = nd::nodes_created() - before;
    let Some(mut st) = st else {
        return format!("{head} tree={} hyd={outcome} created={created} ## fail hydration-error", enc_trees(&tree));
    };
    let r1 = catch_unwind(AssertUnwindSafe(|| vb.rebuild(&mut st)));
    let after = dump_kids(&root);
    let root2 = nd::create_root("div");
    let r2 = catch_unwind(AssertUnwindSafe(|| {
        let mut st2 = va3.build();
        st2.mount(&root2, Option::None);
        vb2.rebuild(&mut st2);
        st2
    }));
    let csr = dump_kids(&root2);
    let dom_errs = nd::take_errors();
    let panicked = r1.is_err() || r2.is_err();
    let verdict = if panicked {
        "fail rebuild-panic".to_string()
    } else if !dom_errs.is_empty() {
        "fail dom-error".to_string()
    } else if created != 0 {
        "fail nodes-created".to_string()
    } else if strip(&after) != strip(&csr) {
        "fail differs-from-csr".to_string()
    } else {
        "ok".to_string()
    };
    format!(
        "{head} tree={} hyd={outcome} created={created} panic={} after={} csr={} ## {verdict}",
        enc_trees(&tree),
        panicked as u8,
        enc_trees(&after),
        enc_trees(&csr)
    )
}

fn decode_seq(w: &str) -> Option<Vec<V>> {
    if w == "-" {
        return Some(vec![]);
    }
    D { s: w.as_bytes(), i: 0 }.seq(0)
}

fn enc_seq(vs: &[V]) -> String {
    if vs.is_empty() {
        "-".into()
    } else {
        encode(vs)
    }
}

fn op_mis(a: &[V], c: &[V]) -> String {
    let (Some(va), Some(vc)) = (top(a), top(c)) else { return "bad-op".into() };
    let Ok(html_s) = catch_unwind(AssertUnwindSafe(|| vc.to_html())) else {
        return "ssr-panic".into();
    };
    let Some(tree) = html::parse(&html_s) else {
        return "tree=none".into();
    };
    nd::reset();
    let root = nd::create_root("div");
    for t in &tree {
        load(&root, t);
    }
    let before = nd::nodes_created();
    let (outcome, _st) = hydrate_outcome(va, &root);
    let created = nd::nodes_created() - before;
    format!("tree={} hyd={outcome} created={created}", enc_trees(&tree))
}

fn op(line: &str, tags: &std::collections::HashMap<String, String>) -> String {
    let w: Vec<&str> = line.split_whitespace().collect();
    // a reactive owner per op: `OwnedView::new` and the render effects of closures need one
    let owner = reactive_graph::owner::Owner::new();
    owner.set();
    // views are rendered outside effects here: no "outside a reactive tracking context" warnings
    #[cfg(debug_assertions)]
    let _zone = reactive_graph::diagnostics::SpecialNonReactiveZone::enter();
    match w.as_slice() {
        ["case", n] => match tags.get(*n) {
            Some(t) if !t.is_empty() => format!("case {n} tags={t}"),
            _ => format!("case {n}"),
        },
        ["hyd", a, b] => match (decode(a), decode(b)) {
            (Some(a), Some(b)) if !a.iter().chain(&b).any(|v| has_susp(v) || has_boundary(v)) => op_hyd(&a, &b),
            _ => "bad-op".into(),
        },
        ["frag", tag, p, ia, ib, q] => match (decode_seq(p), decode_seq(ia), decode_seq(ib), decode_seq(q)) {
            (Some(p), Some(ia), Some(ib), Some(q))
                if p.len() + ia.len() + q.len() <= 5
                    && !p.iter().chain(&ia).chain(&ib).chain(&q).any(|v| has_susp(v) || has_boundary(v))
                    && !tag.is_empty()
                    && tag.bytes().all(|b| b.is_ascii_lowercase() || b.is_ascii_digit() || b == b'-') =>
            {
                op_frag(tag, &p, &ia, &ib, &q)
            }
            _ => "bad-op".into(),
        },
        ["mis", a, c] => match (decode(a), decode(c)) {
            (Some(a), Some(c)) if !a.iter().chain(&c).any(|v| has_susp(v) || has_boundary(v)) => op_mis(&a, &c),
            _ => "bad-op".into(),
        },
        ["sfrag", mode @ ("io" | "ooo" | "res" | "sync"), d0, steps, tag, p, ia, ib, q] => {
            let steps: Option<Vec<Vec<usize>>> =
                if *steps == "-" { Some(vec![]) } else { steps.split('/').map(parse_fids).collect() };
            match (parse_fids(d0), steps, decode_seq(p), decode_seq(ia), decode_seq(ib), decode_seq(q)) {
                (Some(d0), Some(steps), Some(p), Some(ia), Some(ib), Some(q))
                    if steps.len() <= 8
                        && p.len() + ia.len() + q.len() <= 5
                        && !p.iter().chain(&q).any(has_susp)
                        && !p.iter().chain(&ia).chain(&ib).chain(&q).any(has_boundary)
                        && !tag.is_empty()
                        && tag.bytes().all(|b| b.is_ascii_lowercase() || b.is_ascii_digit() || b == b'-') =>
                {
                    op_sfrag(mode, &d0, &steps, tag, &p, &ia, &ib, &q)
                }
                _ => "bad-op".into(),
            }
        }
        ["shyd", mode @ ("io" | "ooo" | "res" | "sync"), d0, steps, a, b] => {
            let steps: Option<Vec<Vec<usize>>> =
                if *steps == "-" { Some(vec![]) } else { steps.split('/').map(parse_fids).collect() };
            match (parse_fids(d0), steps, decode(a), decode(b)) {
                (Some(d0), Some(steps), Some(a), Some(b))
                    if steps.len() <= 8 && !((*mode == "res" || *mode == "sync") && a.iter().any(has_boundary)) =>
                {
                    op_shyd(mode, &d0, &steps, &a, &b)
                }
                _ => "bad-op".into(),
            }
        }
        _ => "bad-op".into(),
    }
}

// ------------------------------------------------------------------------------------- tags

fn seq_tags(ks: &[V], in_elem: bool, t: &mut BTreeSet<String>) {
    for (i, k) in ks.iter().enumerate() {
        if let V::Text(s) = k {
            if i > 0 && matches!(ks[i - 1], V::Text(_)) {
                t.insert("adjacent-text".into());
            }
            if i > 0 && matches!(ks[i - 1], V::Elem { .. }) {
                t.insert("text-after-elem".into());
            }
            if s.is_empty() {
                t.insert(
                    if ks.len() == 1 {
                        "empty-only"
                    } else if i == 0 {
                        "empty-first"
                    } else if i + 1 == ks.len() {
                        "empty-last"
                    } else {
                        "empty-mid"
                    }
                    .into(),
                );
            }
        }
        let dynamic = matches!(
            k,
            V::None
                | V::Some(_)
                | V::Left(_)
                | V::Right(_)
                | V::Vec(_)
                | V::Unit
                | V::Keyed(_)
                | V::KeyedText(_)
                | V::Ok(_)
                | V::Err
                | V::Of3(..)
                | V::Closure(_)
                | V::Owned(_)
                | V::Susp(..)
                | V::KeyedSusp(_)
                | V::KeyedIt { .. }
        );
        if matches!(k, V::Inert(_)) {
            t.insert(
                if ks.len() == 1 {
                    "inert-only"
                } else if i == 0 {
                    "inert-first"
                } else if i + 1 == ks.len() {
                    "inert-last"
                } else {
                    "inert-mid"
                }
                .into(),
            );
        }
        if matches!(k, V::Keyed(x) | V::KeyedText(x) | V::KeyedIt { keys: x, .. } if x.is_empty()) || matches!(k, V::Err) {
            if i > 0 && matches!(ks[i - 1], V::Text(_)) && i + 1 < ks.len() && matches!(ks[i + 1], V::Text(_)) {
                t.insert("marker-between-texts".into());
            }
        }
        if let V::Susp(..) = k {
            t.insert(
                match i.checked_sub(1).map(|j| &ks[j]) {
                    Option::None => "susp-first",
                    Some(V::Text(_)) => "susp-after-text",
                    Some(V::Elem { .. }) => "susp-after-elem",
                    Some(_) => "susp-after-other",
                }
                .into(),
            );
            t.insert(
                match ks.get(i + 1) {
                    Option::None => "susp-last",
                    Some(V::Text(_)) => "susp-then-text",
                    Some(V::Elem { .. }) => "susp-then-elem",
                    Some(_) => "susp-then-other",
                }
                .into(),
            );
            t.insert(if in_elem { "susp-in-elem" } else { "susp-in-seq" }.into());
        }
        if dynamic && i + 1 < ks.len() {
            t.insert(if in_elem { "kids-after-dyn" } else { "sib-after-dyn" }.into());
            if let V::Vec(xs) = k {
                t.insert(if xs.is_empty() { "vec-empty-sib" } else { "vec-nonempty-sib" }.into());
            }
        }
        v_tags(k, t);
    }
}

fn v_tags(v: &V, t: &mut BTreeSet<String>) {
    match v {
        V::Text(_) => {}
        V::Unit => {
            t.insert("unit".into());
        }
        V::Elem { tag, attrs, kids } => {
            if el_void(tag) {
                t.insert("void".into());
            }
            if !attrs.is_empty() {
                t.insert("attrs".into());
            }
            if kids.is_empty() && !el_void(tag) {
                t.insert("childless".into());
            }
            if ["textarea", "style", "script", "noscript"].contains(&tag.as_str()) && !kids.is_empty() {
                t.insert("raw-text-child".into());
            }
            seq_tags(kids, true, t);
        }
        V::Tuple(ks) => {
            if ks.iter().any(|k| matches!(k, V::Susp(..))) {
                t.insert("susp-in-tuple".into());
            }
            t.insert("nested-tuple".into());
            seq_tags(ks, false, t);
        }
        V::None => {
            t.insert("opt-none".into());
        }
        V::Some(x) => {
            t.insert("opt-some".into());
            v_tags(x, t);
        }
        V::Left(x) | V::Right(x) => {
            t.insert("either".into());
            v_tags(x, t);
        }
        V::Vec(ks) => {
            if ks.iter().any(|k| matches!(k, V::Susp(..))) {
                t.insert("susp-in-vec".into());
            }
            t.insert(if ks.is_empty() { "vec-empty" } else { "vec" }.into());
            // items of a Vec are siblings too
            seq_tags(ks, false, t);
        }
        V::Inert(_) => {
            t.insert("inert".into());
        }
        V::Keyed(ks) => {
            t.insert(if ks.is_empty() { "keyed-empty" } else { "keyed" }.into());
        }
        V::KeyedText(ks) => {
            t.insert(if ks.is_empty() { "keyed-empty" } else { "keyed-text-items" }.into());
        }
        V::Ok(x) => {
            t.insert("result-ok".into());
            v_tags(x, t);
        }
        V::Err => {
            t.insert("result-err".into());
        }
        V::Num(_) | V::ArcStr(_) | V::CowStr(_) => {
            t.insert("other-text-type".into());
        }
        V::Of3(_, x) => {
            t.insert("either-of-3".into());
            v_tags(x, t);
        }
        V::Array(ks) => {
            if ks.iter().any(|k| matches!(k, V::Susp(..))) {
                t.insert("susp-in-array".into());
            }
            t.insert("array".into());
            seq_tags(ks, false, t);
        }
        V::Owned(x) => {
            t.insert("owned-view".into());
            v_tags(x, t);
        }
        V::Closure(x) => {
            t.insert("closure".into());
            v_tags(x, t);
        }
        V::Susp(_, x) => {
            t.insert(if has_susp(x) { "suspend-nested" } else { "suspend" }.into());
            v_tags(x, t);
        }
        V::KeyedSusp(_) => {
            t.insert("keyed-suspend-items".into());
        }
        V::Eb(x) => {
            t.insert("error-boundary".into());
            v_tags(x, t);
        }
        V::Suspense(tr, x) => {
            t.insert(if *tr { "transition" } else { "suspense" }.into());
            v_tags(x, t);
        }
        V::Show(w, x) => {
            t.insert(if *w { "show-true" } else { "show-false" }.into());
            v_tags(x, t);
        }
        V::For(ks) => {
            t.insert(if ks.is_empty() { "for-empty" } else { "for" }.into());
        }
        V::KeyedIt { kind, elem, keys } => {
            t.insert(if keys.is_empty() { "keyed-empty" } else if *elem { "keyed" } else { "keyed-text-items" }.into());
            t.insert(
                match kind {
                    0 => "each-vec",
                    1 => "each-array",
                    2 => "each-range-map",
                    3 => "each-filter",
                    4 => "each-from-fn",
                    5 => "each-flat-map",
                    6 => "each-chain",
                    7 => "each-once-chain",
                    _ => "each-option",
                }
                .into(),
            );
            t.insert(
                match kind {
                    3 | 4 | 5 => if keys.is_empty() { "size-hint-zero-empty" } else { "size-hint-zero-nonempty" },
                    _ => "size-hint-exact",
                }
                .into(),
            );
        }
    }
}

/// what the rebuild A -> B exercises
fn diff_tags(a: &V, b: &V, t: &mut BTreeSet<String>) {
    match (a, b) {
        (V::Text(x), V::Text(y)) => {
            if x != y {
                t.insert("text-change".into());
            } else if x.is_empty() {
                t.insert("empty-kept".into());
            }
        }
        (V::Elem { tag: t1, attrs: a1, kids: k1 }, V::Elem { tag: t2, attrs: a2, kids: k2 })
            if t1 == t2 && k1.len() == k2.len() =>
        {
            if a1 != a2 {
                t.insert("attr-change".into());
            }
            k1.iter().zip(k2).for_each(|(x, y)| diff_tags(x, y, t));
        }
        (V::Tuple(k1), V::Tuple(k2)) if k1.len() == k2.len() => {
            k1.iter().zip(k2).for_each(|(x, y)| diff_tags(x, y, t))
        }
        (V::None, V::None) | (V::Unit, V::Unit) | (V::Err, V::Err) | (V::Inert(_), V::Inert(_)) => {}
        (V::Keyed(x), V::Keyed(y)) | (V::KeyedText(x), V::KeyedText(y)) => {
            if x != y {
                t.insert("keyed-change".into());
            }
        }
        (V::Ok(_), V::Err) | (V::Err, V::Ok(_)) => {
            t.insert("result-switch".into());
        }
        (V::Ok(x), V::Ok(y)) | (V::Owned(x), V::Owned(y)) => diff_tags(x, y, t),
        (V::Closure(_), V::Closure(_)) => {
            t.insert("closure-rebuild".into());
        }
        (V::Susp(_, x), V::Susp(_, y)) => {
            t.insert("suspend-rebuild".into());
            diff_tags(x, y, t)
        }
        (V::KeyedIt { kind: k1, elem: e1, keys: x }, V::KeyedIt { kind: k2, elem: e2, keys: y }) if k1 == k2 && e1 == e2 => {
            if x != y {
                t.insert("keyed-change".into());
            }
        }
        (V::KeyedSusp(x), V::KeyedSusp(y)) => {
            if x.iter().map(|i| &i.1).ne(y.iter().map(|i| &i.1)) {
                t.insert("keyed-change".into());
            }
        }
        (V::Num(x), V::Num(y)) => {
            if x != y {
                t.insert("text-change".into());
            }
        }
        (V::ArcStr(x), V::ArcStr(y)) | (V::CowStr(x), V::CowStr(y)) => {
            if x != y {
                t.insert("text-change".into());
            } else if x.is_empty() {
                t.insert("empty-kept".into());
            }
        }
        (V::Of3(i, x), V::Of3(j, y)) => {
            if i == j {
                diff_tags(x, y, t)
            } else {
                t.insert("either-switch".into());
            }
        }
        (V::Array(k1), V::Array(k2)) if k1.len() == k2.len() => k1.iter().zip(k2).for_each(|(x, y)| diff_tags(x, y, t)),
        (V::None, V::Some(_)) => {
            t.insert("opt-none-to-some".into());
        }
        (V::Some(_), V::None) => {
            t.insert("opt-some-to-none".into());
        }
        (V::Some(x), V::Some(y)) | (V::Left(x), V::Left(y)) | (V::Right(x), V::Right(y)) => diff_tags(x, y, t),
        (V::Left(_), V::Right(_)) | (V::Right(_), V::Left(_)) => {
            t.insert("either-switch".into());
        }
        (V::Vec(k1), V::Vec(k2)) => {
            if k1.len() < k2.len() {
                t.insert(if k1.is_empty() { "vec-fill" } else { "vec-grow" }.into());
            } else if k1.len() > k2.len() {
                t.insert(if k2.is_empty() { "vec-clear" } else { "vec-shrink" }.into());
            }
            k1.iter().zip(k2).for_each(|(x, y)| diff_tags(x, y, t));
        }
        _ => {
            t.insert("any-replace".into());
        }
    }
}

fn tags_of_op(w: &[&str]) -> String {
    let mut t = BTreeSet::new();
    match w {
        ["hyd", a, b] => {
            if let (Some(a), Some(b)) = (decode(a), decode(b)) {
                seq_tags(&a, false, &mut t);
                t.remove("nested-tuple");
                for v in &a {
                    if let V::Tuple(_) = v {
                        t.insert("nested-tuple".into());
                    }
                }
                if a.len() == b.len() {
                    a.iter().zip(&b).for_each(|(x, y)| diff_tags(x, y, &mut t));
                } else {
                    t.insert("any-replace".into());
                }
            }
        }
        ["mis", ..] => {
            t.insert("mismatch".into());
        }
        ["shyd", mode, d0, steps, a, b] => {
            if let (Some(a), Some(b), Some(d0)) = (decode(a), decode(b), parse_fids(d0)) {
                seq_tags(&a, false, &mut t);
                t.remove("nested-tuple");
                if a.len() == b.len() {
                    a.iter().zip(&b).for_each(|(x, y)| diff_tags(x, y, &mut t));
                }
                t.insert(
                    match *mode {
                        "io" => "stream-in-order",
                        "ooo" => "stream-out-of-order",
                        "res" => "resolved",
                        _ => "sync-ready",
                    }
                    .into(),
                );
                let mut fids = vec![];
                a.iter().for_each(|v| fids_of(v, &mut fids));
                let pending: Vec<usize> = fids.iter().copied().filter(|f| !d0.contains(f)).collect();
                if pending.len() < fids.len() {
                    t.insert("susp-ready".into());
                }
                if !pending.is_empty() {
                    t.insert("susp-pending".into());
                }
                // completion order against document order
                let order: Vec<usize> = if *steps == "-" {
                    vec![]
                } else {
                    steps.split('/').filter_map(parse_fids).flatten().filter(|f| pending.contains(f)).collect()
                };
                let doc_rank = |f: &usize| fids.iter().position(|g| g == f).unwrap_or(0);
                if order.windows(2).any(|w| doc_rank(&w[0]) > doc_rank(&w[1])) {
                    t.insert("completion-order-reversed".into());
                } else if order.len() > 1 {
                    t.insert("completion-in-doc-order".into());
                }
                if pending.len() > 1 {
                    t.insert("several-pending".into());
                }
            }
        }
        ["frag", _, p, ia, ib, q] | ["sfrag", _, _, _, _, p, ia, ib, q] => {
            if let ["sfrag", mode, d0, ..] = w {
                t.insert("fragment-suspend-items".into());
                t.insert(
                    match *mode {
                        "io" => "stream-in-order",
                        "ooo" => "stream-out-of-order",
                        "res" => "resolved",
                        _ => "sync-ready",
                    }
                    .into(),
                );
                t.insert(if *d0 == "-" { "susp-pending" } else { "susp-ready" }.into());
            }
            t.insert("fragment".into());
            if *p == "-" {
                t.insert(if *ia == "-" { "frag-first-empty" } else { "frag-first" }.into());
            }
            if *q != "-" {
                t.insert("frag-then-sibling".into());
            }
            if let (Some(a), Some(b)) = (decode_seq(ia), decode_seq(ib)) {
                t.insert(
                    if a.len() < b.len() {
                        if a.is_empty() { "frag-fill" } else { "frag-grow" }
                    } else if a.len() > b.len() {
                        "frag-shrink"
                    } else {
                        "frag-same-len"
                    }
                    .into(),
                );
            }
        }
        _ => {}
    }
    if t.is_empty() {
        return "plain".into();
    }
    t.into_iter().collect::<Vec<_>>().join(",")
}

// ------------------------------------------------------------------------------------- generator

const CONTAINERS: &[&str] = &[
    "div", "span", "section", "p", "b", "i", "em", "strong", "a", "button", "h1", "h2", "label", "main", "nav",
    "my-box",
];
const VOIDS: &[&str] = &["br", "hr", "img", "input"];
const TEXTS: &[&str] = &[
    "", "a", "b", "hello", " ", "x y", "<b>", "&amp;", "a&b", "1 < 2", "é", "日本", "😀", "<!>", "<!---->", "-->", "\n",
    "  ", "\"q\"", "0",
];

fn el_void(t: &str) -> bool {
    ["area", "base", "br", "col", "embed", "hr", "img", "input", "link", "meta", "source", "track", "wbr"].contains(&t)
}

/// the attribute *kinds* of an element are a function of its tag (same tag => same attribute types)
fn attr_kinds(tag: &str) -> &'static [(&'static str, char)] {
    match tag {
        "div" => &[("id", 'A')],
        "span" => &[("title", 'A'), ("hidden", 'B')],
        "a" => &[("href", 'A')],
        "section" => &[("id", 'O')],
        "input" => &[("value", 'A'), ("disabled", 'B')],
        "img" => &[("alt", 'A')],
        "button" => &[("disabled", 'B'), ("data-k", 'O')],
        "my-box" => &[("data-x", 'A')],
        _ => &[],
    }
}

fn gen_text(r: &mut Rng) -> String {
    if r.chance(1, 6) {
        String::new()
    } else {
        r.pick(TEXTS).to_string()
    }
}

fn gen_attrs(r: &mut Rng, tag: &str) -> Vec<A> {
    attr_kinds(tag)
        .iter()
        .map(|(n, k)| match k {
            'A' => A::Str(n.to_string(), r.pick(&["", "x", "a b", "\"<&>\"", "é"]).to_string()),
            'B' => A::Bool(n.to_string(), r.chance(1, 2)),
            _ => A::OStr(n.to_string(), if r.chance(1, 2) { Option::None } else { Some(r.pick(&["", "k", "a&b"]).to_string()) }),
        })
        .collect()
}

fn gen_seq(r: &mut Rng, depth: usize, anc: &mut Vec<&'static str>, lo: usize, hi: usize) -> Vec<V> {
    let n = r.range(lo, hi);
    (0..n).map(|_| gen_v(r, depth, anc)).collect()
}

const KEYS: &[&str] = &["1", "2", "3", "a", "b", "x y", "<k>"];

fn gen_keys(r: &mut Rng, lo: usize, hi: usize) -> Vec<String> {
    let n = r.range(lo, hi);
    let mut out: Vec<String> = vec![];
    for _ in 0..n {
        let k = r.pick(KEYS).to_string();
        if !out.contains(&k) {
            out.push(k);
        }
    }
    out
}

/// a fully static element (what `view!` pre-renders into an `InertElement`)
fn gen_inert(r: &mut Rng, depth: usize, anc: &mut Vec<&'static str>) -> Option<V> {
    let ok: Vec<&'static str> =
        ["div", "p", "b", "i", "a", "span2", "my-box", "h2"].iter().copied().filter(|t| *t != "span2" && html::nest_ok(t, anc)).collect();
    if ok.is_empty() {
        return Option::None;
    }
    let tag = *r.pick(&ok);
    let attrs = match tag {
        "div" => vec![A::Str("id".into(), r.pick(&["s", "a b", "\"<&>\""]).to_string())],
        "a" => vec![A::Str("href".into(), "#x".into())],
        "my-box" => vec![A::Str("data-x".into(), "é".into())],
        _ => vec![],
    };
    anc.insert(0, tag);
    let mut kids: Vec<V> = vec![];
    let n = if depth == 0 { r.range(0, 1) } else { r.range(0, 3) };
    for _ in 0..n {
        let want_text = r.chance(1, 2) && !matches!(kids.last(), Some(V::Text(_)));
        if want_text || depth == 0 {
            if matches!(kids.last(), Some(V::Text(_))) {
                continue;
            }
            kids.push(V::Text(r.pick(&["static", "a", "x y", "<b>", "&amp;", "é"]).to_string()));
        } else if let Some(k) = gen_inert(r, depth - 1, anc) {
            kids.push(k);
        }
    }
    anc.remove(0);
    Some(V::Elem { tag: tag.into(), attrs, kids })
}

/// one of the other `RenderHtml` implementors
fn gen_ext(r: &mut Rng, depth: usize, anc: &mut Vec<&'static str>) -> V {
    let d1 = depth.saturating_sub(1);
    match r.below(12) {
        0 | 1 | 2 => match gen_inert(r, d1.min(2), anc) {
            Some(x) => V::Inert(Box::new(x)),
            Option::None => V::Text(gen_text(r)),
        },
        3 | 4 | 5 => {
            let keys = gen_keys(r, 0, 3);
            let elem = r.chance(2, 3);
            let kind = r.below(9) as u8;
            if r.chance(2, 3) && it_kind_ok(kind, keys.len()) {
                // the `each` source: Vec, array, range-map, filter, from_fn, flat_map, chain, once, Option
                V::KeyedIt { kind, elem, keys }
            } else if elem {
                V::Keyed(keys)
            } else {
                V::KeyedText(keys)
            }
        }
        6 => {
            if r.chance(1, 2) {
                V::Err
            } else {
                V::Ok(Box::new(gen_v(r, d1, anc)))
            }
        }
        7 => match r.below(3) {
            0 => V::Num(r.below(1000) as u32),
            1 => V::ArcStr(gen_text(r)),
            _ => V::CowStr(gen_text(r)),
        },
        8 => V::Of3(r.below(3) as u8, Box::new(gen_v(r, d1, anc))),
        9 => V::Array(gen_seq(r, d1, anc, 1, 3)),
        10 => match r.below(4) {
            0 => V::Owned(Box::new(gen_v(r, d1, anc))),
            // the leptos wrapper components
            1 => V::Eb(Box::new(de_err(&gen_v(r, d1, anc)))),
            2 => V::Show(r.chance(2, 3), Box::new(gen_v(r, d1, anc))),
            _ => V::For(gen_keys(r, 0, 3)),
        },
        _ => V::Closure(Box::new(gen_v(r, d1, anc))),
    }
}

fn gen_v(r: &mut Rng, depth: usize, anc: &mut Vec<&'static str>) -> V {
    if r.chance(1, 5) {
        return gen_ext(r, depth, anc);
    }
    let leaf = depth == 0;
    match r.below(if leaf { 5 } else { 16 }) {
        0 | 1 | 2 => V::Text(gen_text(r)),
        3 => {
            if r.chance(1, 2) {
                V::None
            } else {
                V::Unit
            }
        }
        4 => {
            let ok: Vec<&'static str> = VOIDS.iter().copied().filter(|t| html::nest_ok(t, anc)).collect();
            if ok.is_empty() {
                return V::Text(gen_text(r));
            }
            let tag = *r.pick(&ok);
            V::Elem { tag: tag.into(), attrs: gen_attrs(r, tag), kids: vec![] }
        }
        5 | 6 | 7 | 8 => {
            if RAW_TEXT_CASES && r.chance(1, 40) {
                // an element that does not escape its children (class raw-text-child, F-C05-2)
                let tag = *r.pick(&["textarea", "style"]);
                // a <textarea> escapes its text and doubles a leading line feed (repairs 7006223, 01b809d)
                let body = if tag == "textarea" {
                    r.pick(&["a", "b", "x y", "a & b", "1 < 2", "&lt;b&gt;", "</textarea><img>", "\nfoo", "\n", "\n\nx", "<!>"]).to_string()
                } else {
                    r.pick(&["a", "b", "p{}", "x y", "a & b", "1 < 2"]).to_string()
                };
                return V::Elem { tag: tag.into(), attrs: vec![], kids: vec![V::Text(body)] };
            }
            let ok: Vec<&'static str> = CONTAINERS.iter().copied().filter(|t| html::nest_ok(t, anc)).collect();
            if ok.is_empty() {
                return V::Text(gen_text(r));
            }
            let tag = *r.pick(&ok);
            anc.insert(0, tag);
            let kids = gen_seq(r, depth - 1, anc, 0, 4);
            anc.remove(0);
            V::Elem { tag: tag.into(), attrs: gen_attrs(r, tag), kids }
        }
        9 => V::Tuple(gen_seq(r, depth - 1, anc, 1, 3)),
        10 | 11 => {
            if r.chance(1, 3) {
                V::None
            } else {
                V::Some(Box::new(gen_v(r, depth - 1, anc)))
            }
        }
        12 | 13 => {
            let x = Box::new(gen_v(r, depth - 1, anc));
            if r.chance(1, 2) {
                V::Left(x)
            } else {
                V::Right(x)
            }
        }
        _ => V::Vec(gen_seq(r, depth - 1, anc, 0, 3)),
    }
}

/// a second value "of the same type": same static skeleton, different dynamic choices
fn mutate(r: &mut Rng, v: &V, depth: usize, anc: &mut Vec<&'static str>) -> V {
    // now and then a different view altogether (AnyView with another TypeId: replace path)
    // (not for a keyed list of strings: see the arm below)
    if r.chance(1, 25) && !matches!(v, V::KeyedText(_) | V::KeyedIt { elem: false, .. }) {
        return gen_v(r, depth.min(2), anc);
    }
    match v {
        V::Text(s) => {
            if r.chance(1, 2) {
                V::Text(s.clone())
            } else {
                V::Text(gen_text(r))
            }
        }
        V::Unit => V::Unit,
        V::Elem { tag, attrs: _, kids } => {
            if tag == "textarea" || tag == "style" {
                // an element that does not escape its children: only its string changes
                let body = if r.chance(1, 2) {
                    kids.clone()
                } else {
                    vec![V::Text(r.pick(&["a", "b", "p{}", "x y", "a & b", "\nz"]).to_string())]
                };
                return V::Elem { tag: tag.clone(), attrs: vec![], kids: body };
            }
            let tag_s: &'static str = CONTAINERS.iter().chain(VOIDS).copied().find(|t| t == tag).unwrap_or("div");
            anc.insert(0, tag_s);
            let kids = kids.iter().map(|k| mutate(r, k, depth.saturating_sub(1), anc)).collect();
            anc.remove(0);
            V::Elem { tag: tag.clone(), attrs: gen_attrs(r, tag), kids }
        }
        V::Tuple(ks) => V::Tuple(ks.iter().map(|k| mutate(r, k, depth.saturating_sub(1), anc)).collect()),
        V::None => {
            if r.chance(1, 2) {
                V::None
            } else {
                V::Some(Box::new(gen_v(r, depth.saturating_sub(1).min(2), anc)))
            }
        }
        V::Some(x) => {
            if r.chance(1, 3) {
                V::None
            } else {
                V::Some(Box::new(mutate(r, x, depth.saturating_sub(1), anc)))
            }
        }
        V::Left(x) | V::Right(x) => {
            let left = matches!(v, V::Left(_));
            if r.chance(2, 5) {
                let y = Box::new(gen_v(r, depth.saturating_sub(1).min(2), anc));
                if left {
                    V::Right(y)
                } else {
                    V::Left(y)
                }
            } else {
                let y = Box::new(mutate(r, x, depth.saturating_sub(1), anc));
                if left {
                    V::Left(y)
                } else {
                    V::Right(y)
                }
            }
        }
        V::Vec(ks) => {
            let mut out: Vec<V> = ks.iter().map(|k| mutate(r, k, depth.saturating_sub(1), anc)).collect();
            match r.below(5) {
                0 => out.clear(),
                1 => {
                    out.truncate(out.len() / 2);
                }
                2 | 3 => {
                    for _ in 0..r.range(1, 2) {
                        out.push(gen_v(r, depth.saturating_sub(1).min(2), anc));
                    }
                }
                _ => {}
            }
            V::Vec(out)
        }
        V::Inert(x) => V::Inert(x.clone()),
        V::KeyedText(ks) => {
            // string items carry `<!>` separators that stay behind when a node moves: only changes at the
            // end of the list leave the comments where an unkeyed rebuild leaves them (what the model runs)
            let mut out = ks.clone();
            match r.below(4) {
                0 => out.clear(),
                1 => {
                    out.pop();
                }
                2 => {
                    for k in gen_keys(r, 1, 2) {
                        if !out.contains(&k) {
                            out.push(k);
                        }
                    }
                }
                _ => {}
            }
            V::KeyedText(out)
        }
        V::Keyed(ks) => {
            let mut out = ks.clone();
            match r.below(6) {
                0 => out.clear(),
                1 => out.reverse(),
                2 => {
                    if !out.is_empty() {
                        let i = r.below(out.len());
                        out.remove(i);
                    }
                }
                3 | 4 => {
                    for k in gen_keys(r, 1, 2) {
                        if !out.contains(&k) {
                            let i = r.below(out.len() + 1);
                            out.insert(i, k);
                        }
                    }
                }
                _ => {}
            }
            V::Keyed(out)
        }
        V::Ok(x) => {
            if r.chance(1, 3) {
                V::Err
            } else {
                V::Ok(Box::new(mutate(r, x, depth.saturating_sub(1), anc)))
            }
        }
        V::Err => {
            if r.chance(1, 2) {
                V::Err
            } else {
                V::Ok(Box::new(gen_v(r, depth.saturating_sub(1).min(2), anc)))
            }
        }
        V::Num(n) => {
            if r.chance(1, 2) {
                V::Num(*n)
            } else {
                V::Num(r.below(1000) as u32)
            }
        }
        V::ArcStr(s) => V::ArcStr(if r.chance(1, 2) { s.clone() } else { gen_text(r) }),
        V::CowStr(s) => V::CowStr(if r.chance(1, 2) { s.clone() } else { gen_text(r) }),
        V::Of3(i, x) => {
            if r.chance(2, 5) {
                V::Of3((*i + 1 + r.below(2) as u8) % 3, Box::new(gen_v(r, depth.saturating_sub(1).min(2), anc)))
            } else {
                V::Of3(*i, Box::new(mutate(r, x, depth.saturating_sub(1), anc)))
            }
        }
        V::Array(ks) => V::Array(ks.iter().map(|k| mutate(r, k, depth.saturating_sub(1), anc)).collect()),
        V::Owned(x) => V::Owned(Box::new(mutate(r, x, depth.saturating_sub(1), anc))),
        V::Closure(x) => V::Closure(Box::new(mutate(r, x, depth.saturating_sub(1), anc))),
        V::Susp(f, x) => {
            let y = mutate(r, x, depth.saturating_sub(1), anc);
            V::Susp(*f, Box::new(if susp_depth(&y) > 1 { (**x).clone() } else { y }))
        }
        V::Eb(x) => V::Eb(Box::new(de_err(&mutate(r, x, depth.saturating_sub(1), anc)))),
        V::Suspense(tr, x) => {
            let y = mutate(r, x, depth.saturating_sub(1), anc);
            V::Suspense(*tr, Box::new(if has_susp(&y) || has_boundary(&y) { (**x).clone() } else { y }))
        }
        V::Show(w, x) => V::Show(if r.chance(1, 3) { !*w } else { *w }, Box::new(mutate(r, x, depth.saturating_sub(1), anc))),
        V::For(ks) => match mutate(r, &V::Keyed(ks.clone()), depth, anc) {
            V::Keyed(o) => V::For(o),
            _ => V::For(ks.clone()),
        },
        V::KeyedIt { kind, elem, keys } => {
            // as for `Keyed` / `KeyedText`; the iterator kind stays (now and then another one: a different Rust type)
            let out = match mutate(r, &if *elem { V::Keyed(keys.clone()) } else { V::KeyedText(keys.clone()) }, depth, anc) {
                V::Keyed(o) | V::KeyedText(o) => o,
                _ => keys.clone(),
            };
            let kind2 = if *elem && r.chance(1, 8) { r.below(9) as u8 } else { *kind };
            if it_kind_ok(kind2, out.len()) {
                V::KeyedIt { kind: kind2, elem: *elem, keys: out }
            } else if it_kind_ok(*kind, out.len()) {
                V::KeyedIt { kind: *kind, elem: *elem, keys: out }
            } else {
                V::KeyedIt { kind: *kind, elem: *elem, keys: keys.clone() }
            }
        }
        V::KeyedSusp(items) => {
            let mut out = items.clone();
            match r.below(5) {
                0 => out.clear(),
                1 => out.reverse(),
                2 => {
                    if !out.is_empty() {
                        let i = r.below(out.len());
                        out.remove(i);
                    }
                }
                3 => {
                    for k in gen_keys(r, 1, 2) {
                        if !out.iter().any(|(_, x)| *x == k) {
                            let i = r.below(out.len() + 1);
                            out.insert(i, (0, k));
                        }
                    }
                }
                _ => {}
            }
            V::KeyedSusp(out)
        }
    }
}

fn t(s: &str) -> V {
    V::Text(s.into())
}
fn e(tag: &str, kids: Vec<V>) -> V {
    V::Elem { tag: tag.into(), attrs: vec![], kids }
}
fn sm(v: V) -> V {
    V::Some(Box::new(v))
}
fn lf(v: V) -> V {
    V::Left(Box::new(v))
}
fn rt(v: V) -> V {
    V::Right(Box::new(v))
}

/// forced coverage: every shape DESIGN §7 C05 names, as (name, A, B)
fn small_scope() -> Vec<(String, Vec<V>, Vec<V>)> {
    let mut out: Vec<(String, Vec<V>, Vec<V>)> = vec![];
    let mut add = |n: &str, a: Vec<V>, b: Vec<V>| out.push((format!("ss-{n}"), a, b));
    // adjacent texts, at top level and inside an element
    add("adj2", vec![t("a"), t("b")], vec![t("c"), t("d")]);
    add("adj3-in-p", vec![e("p", vec![t("Hello, "), t("World"), t("!")])], vec![e("p", vec![t("Hello, "), t("Bob"), t("!")])]);
    // the empty string first / middle / last / alone; kept and changed
    for (i, (a, b)) in [
        (vec![t(""), t("x")], vec![t(""), t("y")]),
        (vec![t("x"), t(""), t("z")], vec![t("x"), t(""), t("z")]),
        (vec![t("x"), t("")], vec![t("y"), t("")]),
        (vec![t("")], vec![t("")]),
        (vec![t("")], vec![t("now")]),
        (vec![t("was")], vec![t("")]),
        (vec![e("span", vec![t("")])], vec![e("span", vec![t("")])]),
        (vec![e("span", vec![t("a"), t(""), t("b")])], vec![e("span", vec![t("a"), t(""), t("b")])]),
    ]
    .into_iter()
    .enumerate()
    {
        add(&format!("empty{i}"), a, b);
    }
    // text after an element, element after text
    add("text-after-elem", vec![e("b", vec![t("x")]), t("tail")], vec![e("b", vec![t("y")]), t("tail2")]);
    add("elem-after-text", vec![t("head"), e("i", vec![])], vec![t("head2"), e("i", vec![])]);
    // Option none <-> some, followed / preceded by siblings
    add("opt-none-some", vec![V::None, t("s")], vec![sm(t("now")), t("s")]);
    add("opt-some-none", vec![sm(e("b", vec![t("x")])), t("s")], vec![V::None, t("s")]);
    add("opt-in-elem", vec![e("div", vec![t("a"), V::None, t("b")])], vec![e("div", vec![t("a"), sm(t("m")), t("b")])]);
    add("opt-some-text-after-text", vec![t("a"), sm(t("m")), t("b")], vec![t("a"), V::None, t("b")]);
    // Either switch
    add("either-switch", vec![lf(t("l")), t("s")], vec![rt(e("b", vec![t("r")])), t("s")]);
    add("either-same", vec![rt(e("b", vec![t("r")]))], vec![rt(e("b", vec![t("r2")]))]);
    add("either-unit", vec![t("a"), lf(V::Unit), t("b")], vec![t("a"), rt(t("x")), t("b")]);
    // Vec empty / non-empty followed by a sibling; grow, shrink, clear, fill
    add("vec-empty-sib", vec![V::Vec(vec![]), e("hr", vec![])], vec![V::Vec(vec![e("b", vec![t("1")])]), e("hr", vec![])]);
    add("vec-elems-sib", vec![V::Vec(vec![e("b", vec![t("1")]), e("b", vec![t("2")])]), e("i", vec![t("s")])],
        vec![V::Vec(vec![e("b", vec![t("1")]), e("b", vec![t("2")]), e("b", vec![t("3")])]), e("i", vec![t("s")])]);
    add("vec-texts", vec![V::Vec(vec![t("a"), t("b")]), t("s")], vec![V::Vec(vec![t("a")]), t("s")]);
    add("vec-clear", vec![e("div", vec![V::Vec(vec![t("a"), t("")]), t("s")])], vec![e("div", vec![V::Vec(vec![]), t("s")])]);
    add("vec-after-text", vec![t("x"), V::Vec(vec![])], vec![t("x"), V::Vec(vec![t("y")])]);
    add("vec-of-vec", vec![V::Vec(vec![V::Vec(vec![t("a")]), V::Vec(vec![])])], vec![V::Vec(vec![V::Vec(vec![]), V::Vec(vec![t("b")])])]);
    add("vec-of-opt", vec![V::Vec(vec![V::None, sm(t("a"))]), t("s")], vec![V::Vec(vec![sm(t("b")), V::None]), t("s")]);
    // nested fragments (tuples in tuples)
    add("frag", vec![V::Tuple(vec![t("a"), V::Tuple(vec![t("b"), e("i", vec![])])]), t("c")],
        vec![V::Tuple(vec![t("a2"), V::Tuple(vec![t("b2"), e("i", vec![])])]), t("c2")]);
    // unit
    add("unit", vec![V::Unit], vec![V::Unit]);
    add("unit-mid", vec![t("a"), V::Unit, t("b")], vec![t("a2"), V::Unit, t("b2")]);
    // void elements and a childless container
    add("void", vec![e("br", vec![]), t("x"), e("input", vec![])], vec![e("br", vec![]), t("y"), e("input", vec![])]);
    add("childless", vec![e("div", vec![]), t("x")], vec![e("div", vec![]), t("y")]);
    // element whose children follow a dynamic node
    add("kids-after-dyn", vec![e("div", vec![V::None, e("span", vec![t("k")]), t("z")])],
        vec![e("div", vec![sm(t("dyn")), e("span", vec![t("k2")]), t("z2")])]);
    add("kids-after-vec", vec![e("div", vec![V::Vec(vec![t("i")]), e("span", vec![t("k")])])],
        vec![e("div", vec![V::Vec(vec![t("i"), t("j")]), e("span", vec![t("k2")])])]);
    // attributes
    add("attrs",
        vec![V::Elem { tag: "span".into(), attrs: vec![A::Str("title".into(), "a\"b".into()), A::Bool("hidden".into(), false)], kids: vec![t("x")] }],
        vec![V::Elem { tag: "span".into(), attrs: vec![A::Str("title".into(), "c".into()), A::Bool("hidden".into(), true)], kids: vec![t("x")] }]);
    add("attrs-opt",
        vec![V::Elem { tag: "section".into(), attrs: vec![A::OStr("id".into(), Option::None)], kids: vec![] }],
        vec![V::Elem { tag: "section".into(), attrs: vec![A::OStr("id".into(), Some("k".into()))], kids: vec![] }]);
    // an element that does not escape its children keeps no child state (F-C05-2)
    if RAW_TEXT_CASES {
        add("raw-textarea", vec![e("textarea", vec![t("a")])], vec![e("textarea", vec![t("b")])]);
    }
    add("raw-style-same", vec![e("style", vec![t("p{}")])], vec![e("style", vec![t("p{}")])]);
    // a <textarea> is server-rendered with its text escaped and a leading line feed doubled; unchanged on rebuild
    add("textarea-escaped-same", vec![e("textarea", vec![t("</textarea><b>&amp;")])], vec![e("textarea", vec![t("</textarea><b>&amp;")])]);
    add("textarea-leading-lf-same", vec![e("textarea", vec![t("\nfoo")])], vec![e("textarea", vec![t("\nfoo")])]);
    add("textarea-empty-same", vec![e("textarea", vec![t("")]), t("x")], vec![e("textarea", vec![t("")]), t("y")]);
    // the other RenderHtml implementors, in every position
    let st = || V::Inert(Box::new(e("p", vec![t("static")])));
    add("inert-first", vec![e("div", vec![st(), t("dyn")])], vec![e("div", vec![st(), t("DYN")])]);
    add("inert-first-then-elem", vec![e("div", vec![st(), e("p", vec![t("dyn")])])], vec![e("div", vec![st(), e("p", vec![t("DYN")])])]);
    add("inert-mid", vec![e("div", vec![t("a"), st(), t("b")])], vec![e("div", vec![t("A"), st(), t("B")])]);
    add("inert-last", vec![e("div", vec![t("a"), st()])], vec![e("div", vec![t("A"), st()])]);
    add("inert-only", vec![e("div", vec![st()])], vec![e("div", vec![st()])]);
    add("inert-top", vec![st(), t("dyn")], vec![st(), t("DYN")]);
    let nested = || V::Inert(Box::new(e("div", vec![e("b", vec![t("x")]), t("y"), e("i", vec![])])));
    add("inert-nested", vec![nested(), sm(t("o"))], vec![nested(), V::None]);
    let ks = |v: &[&str]| v.iter().map(|s| s.to_string()).collect::<Vec<_>>();
    add("keyed", vec![V::Keyed(ks(&["1", "2", "3"])), t("s")], vec![V::Keyed(ks(&["3", "1", "4"])), t("s")]);
    add("keyed-empty-between-texts", vec![t("a"), V::Keyed(vec![]), t("b")], vec![t("a"), V::Keyed(ks(&["1"])), t("b")]);
    add("keyed-first", vec![e("div", vec![V::Keyed(ks(&["1"])), t("s")])], vec![e("div", vec![V::Keyed(vec![]), t("s")])]);
    add("keyed-text-items", vec![V::KeyedText(ks(&["a", "b"])), t("s")], vec![V::KeyedText(ks(&["a", "b", "c"])), t("s")]);
    add("result-err-between-texts", vec![t("a"), V::Err, t("b")], vec![t("a"), V::Ok(Box::new(t("m"))), t("b")]);
    add("result-ok", vec![V::Ok(Box::new(e("b", vec![t("x")]))), t("s")], vec![V::Err, t("s")]);
    add("other-text-types", vec![V::Num(1), V::ArcStr("a".into()), V::CowStr("".into()), t("t")],
        vec![V::Num(22), V::ArcStr("".into()), V::CowStr("".into()), t("t")]);
    add("either-of-3", vec![V::Of3(0, Box::new(t("a"))), t("s")], vec![V::Of3(2, Box::new(e("b", vec![]))), t("s")]);
    add("array", vec![V::Array(vec![t("a"), t("b")]), t("s")], vec![V::Array(vec![t("c"), t("b")]), t("s")]);
    add("owned-view", vec![V::Owned(Box::new(t("a"))), t("s")], vec![V::Owned(Box::new(t("b"))), t("s")]);
    add("closure", vec![t("a"), V::Closure(Box::new(t("c"))), t("s")], vec![t("a"), V::Closure(Box::new(e("b", vec![t("d")]))), t("s")]);
    add("closure-first", vec![e("div", vec![V::Closure(Box::new(V::None)), t("s")])], vec![e("div", vec![V::Closure(Box::new(sm(t("x")))), t("s")])]);
    // the `each` source of a keyed list: every iterator kind x empty / one / three items x position x item type
    for kind in 0u8..9 {
        for (nn, keys, keys_b) in [
            ("0", ks(&[]), ks(&["1"])),
            ("1", ks(&["1"]), ks(&[])),
            ("3", ks(&["1", "2", "3"]), ks(&["3", "1", "4"])),
        ] {
            for elem in [true, false] {
                if !it_kind_ok(kind, keys.len()) {
                    continue;
                }
                // string items: only changes at the end of the list (see `mutate`)
                let kb = if elem { keys_b.clone() } else if keys.is_empty() { ks(&["1"]) } else { keys[..keys.len() - 1].to_vec() };
                let kb = if it_kind_ok(kind, kb.len()) { kb } else { keys.clone() };
                let a = V::KeyedIt { kind, elem, keys: keys.clone() };
                let b = V::KeyedIt { kind, elem, keys: kb };
                let it = if elem { "e" } else { "t" };
                add(&format!("each{kind}-{nn}{it}-alone"), vec![a.clone()], vec![b.clone()]);
                add(&format!("each{kind}-{nn}{it}-between"), vec![t("a"), a.clone(), t("z")], vec![t("a"), b.clone(), t("z")]);
                add(&format!("each{kind}-{nn}{it}-in-elem"), vec![e("nav", vec![a.clone()]), t("s")], vec![e("nav", vec![b.clone()]), t("s")]);
                add(&format!("each{kind}-{nn}{it}-after-elem"), vec![e("div", vec![e("i", vec![]), a, e("em", vec![])])],
                    vec![e("div", vec![e("i", vec![]), b, e("em", vec![])])]);
            }
        }
    }
    // the leptos wrapper components: <ErrorBoundary> (Ok children), <Show>, <For>: every sibling position x shape of the children
    {
        let ok = |v: V| V::Ok(Box::new(v));
        let shapes: Vec<(&str, V, V)> = vec![
            ("text", t("c"), t("C")),
            ("ok-text", ok(t("c")), ok(t("C"))),
            ("elem", e("b", vec![t("c")]), e("b", vec![t("C")])),
            ("text-elem", V::Tuple(vec![t("c"), e("b", vec![])]), V::Tuple(vec![t("C"), e("b", vec![])])),
            ("elem-text", V::Tuple(vec![e("b", vec![]), t("c")]), V::Tuple(vec![e("b", vec![]), t("C")])),
            ("unit", V::Unit, V::Unit),
            ("vec", V::Vec(vec![t("c")]), V::Vec(vec![t("C"), t("D")])),
            ("empty-text", t(""), t("C")),
        ];
        let sibs: Vec<(&str, Vec<V>)> = vec![("none", vec![]), ("text", vec![t("s")]), ("elem", vec![e("i", vec![])])];
        for (sn, va, vb) in &shapes {
            for (bn, before) in &sibs {
                for (an, after) in &sibs {
                    for in_elem in [false, true] {
                        let wrappers: Vec<(&str, V, V)> = vec![
                            ("eb", V::Eb(Box::new(va.clone())), V::Eb(Box::new(vb.clone()))),
                            ("show1", V::Show(true, Box::new(va.clone())), V::Show(false, Box::new(vb.clone()))),
                            ("show0", V::Show(false, Box::new(va.clone())), V::Show(true, Box::new(vb.clone()))),
                            ("eb-in-show", V::Show(true, Box::new(V::Eb(Box::new(va.clone())))), V::Show(true, Box::new(V::Eb(Box::new(vb.clone()))))),
                        ];
                        for (wn, wa, wb) in wrappers {
                            let mk = |w: &V| {
                                let mut s2 = before.clone();
                                s2.push(w.clone());
                                s2.extend(after.iter().cloned());
                                if in_elem {
                                    vec![e("p", s2)]
                                } else {
                                    s2
                                }
                            };
                            add(&format!("w-{wn}-{sn}-{bn}-{an}-{}", in_elem as u8), mk(&wa), mk(&wb));
                        }
                    }
                }
            }
        }
        for (bn, before) in &sibs {
            for (an, after) in &sibs {
                for (kn, ka, kb) in [("0", ks(&[]), ks(&["1"])), ("3", ks(&["1", "2", "3"]), ks(&["3", "1", "4"]))] {
                    let mk = |k: &Vec<String>| {
                        let mut s2 = before.clone();
                        s2.push(V::For(k.clone()));
                        s2.extend(after.iter().cloned());
                        vec![e("div", s2)]
                    };
                    add(&format!("w-for{kn}-{bn}-{an}"), mk(&ka), mk(&kb));
                }
            }
        }
    }
    // AnyView with another type on rebuild
    add("any-replace", vec![t("a"), e("b", vec![t("x")]), t("c")], vec![t("a"), t("plain"), t("c")]);
    out
}

fn has_inert(v: &V) -> bool {
    match v {
        V::Inert(_) => true,
        V::Elem { kids, .. } | V::Tuple(kids) | V::Vec(kids) | V::Array(kids) => kids.iter().any(has_inert),
        V::Some(x) | V::Left(x) | V::Right(x) | V::Ok(x) | V::Of3(_, x) | V::Owned(x) | V::Closure(x) | V::Susp(_, x) | V::Eb(x)
        | V::Show(_, x) | V::Suspense(_, x) => has_inert(x),
        _ => false,
    }
}

/// Generate cases of the class `suspend-position` (F-C05-6: a `Suspend` still pending when the server renders what
/// follows it leaves a guessed `Position`)?  Off until the proposed line of props/C05.known (class=suspend-position)
/// is listed in known_findings.txt: every such case is a property failure that the model reproduces.  To switch on:
/// set this to `true` and rename corpus/C05/F-C05-6-suspend-position.ops.pending to `.ops`.
const SUSPEND_POSITION_CASES: bool = true;

/// (`HX_C05_ALL=1 c05 gen …` generates the class regardless: used to test the model on it)
fn position_cases() -> bool {
    SUSPEND_POSITION_CASES || std::env::var_os("HX_C05_ALL").is_some()
}

/// Has hooks/fix-c05-5.patch (`fix: <ErrorBoundary> must hand the position its children leave on …`, F-C05-7) been applied
/// to /repo?  While it has not, inputs in which the children of an `<ErrorBoundary>` change whether the position is
/// "after a string" are not generated (before the repair the server continues with the position from *before* the
/// boundary there; everywhere else the HTML is the same before and after the repair).  To switch on: set this to
/// `true` and rename corpus/C05/F-C05-7-error-boundary-position.ops.pending to `.ops`.
const EB_WRITE_BACK_FIXED: bool = true;

fn eb_cases() -> bool {
    EB_WRITE_BACK_FIXED || std::env::var_os("HX_C05_ALL").is_some()
}

/// some `<ErrorBoundary>` of `v` (rendered from `pos`) has children that change the "after a string" state
fn eb_matters(v: &V, pos: Pos) -> bool {
    match v {
        V::Elem { kids, .. } => seq_eb_matters(kids, Pos::First),
        V::Tuple(ks) | V::Array(ks) | V::Vec(ks) => seq_eb_matters(ks, pos),
        V::Some(x) | V::Left(x) | V::Right(x) | V::Ok(x) | V::Of3(_, x) | V::Owned(x) | V::Closure(x) | V::Susp(_, x)
        | V::Suspense(_, x) => eb_matters(x, pos),
        V::Show(w, x) => *w && eb_matters(x, pos),
        V::Eb(x) => (pos == Pos::AfterText) != (pos_after(x, pos) == Pos::AfterText) || eb_matters(x, pos),
        _ => false,
    }
}

fn seq_eb_matters(ks: &[V], mut pos: Pos) -> bool {
    for k in ks {
        if eb_matters(k, pos) {
            return true;
        }
        pos = pos_after(k, pos);
    }
    false
}

/// `v` without its `<ErrorBoundary>` wrappers
fn de_eb(v: &V) -> V {
    match v {
        V::Eb(x) => de_eb(x),
        V::Elem { tag, attrs, kids } => V::Elem { tag: tag.clone(), attrs: attrs.clone(), kids: kids.iter().map(de_eb).collect() },
        V::Tuple(ks) => V::Tuple(ks.iter().map(de_eb).collect()),
        V::Vec(ks) => V::Vec(ks.iter().map(de_eb).collect()),
        V::Array(ks) => V::Array(ks.iter().map(de_eb).collect()),
        V::Some(x) => V::Some(Box::new(de_eb(x))),
        V::Left(x) => V::Left(Box::new(de_eb(x))),
        V::Right(x) => V::Right(Box::new(de_eb(x))),
        V::Ok(x) => V::Ok(Box::new(de_eb(x))),
        V::Of3(i, x) => V::Of3(*i, Box::new(de_eb(x))),
        V::Owned(x) => V::Owned(Box::new(de_eb(x))),
        V::Closure(x) => V::Closure(Box::new(de_eb(x))),
        V::Susp(f, x) => V::Susp(*f, Box::new(de_eb(x))),
        V::Suspense(t, x) => V::Suspense(*t, Box::new(de_eb(x))),
        V::Show(w, x) => V::Show(*w, Box::new(de_eb(x))),
        other => other.clone(),
    }
}

/// the views as they may be generated on the current /repo
fn eb_gate(vs: &[V]) -> Vec<V> {
    if !eb_cases() && seq_eb_matters(vs, Pos::First) {
        vs.iter().map(de_eb).collect()
    } else {
        vs.to_vec()
    }
}

#[derive(Clone, Copy, PartialEq, Debug)]
enum Pos {
    First,
    Next,
    AfterText,
}

/// the `Position` a view leaves (escaping context), as view/*.rs set it
fn pos_after(v: &V, pos: Pos) -> Pos {
    match v {
        V::Text(_) | V::Num(_) | V::ArcStr(_) | V::CowStr(_) => Pos::AfterText,
        V::Unit | V::None | V::Err | V::Elem { .. } | V::Inert(_) => Pos::Next,
        V::Vec(_) | V::Keyed(_) | V::KeyedText(_) | V::KeyedSusp(_) | V::KeyedIt { .. } | V::For(_) => Pos::Next,
        V::Eb(x) | V::Suspense(_, x) => pos_after(x, pos),
        V::Show(w, x) => {
            if *w {
                pos_after(x, pos)
            } else {
                Pos::Next
            }
        }
        V::Tuple(ks) | V::Array(ks) => ks.iter().fold(pos, |p, k| pos_after(k, p)),
        V::Some(x) | V::Left(x) | V::Right(x) | V::Ok(x) | V::Of3(_, x) | V::Owned(x) | V::Closure(x) | V::Susp(_, x) => {
            pos_after(x, pos)
        }
    }
}

/// every pending `Suspend` of `v` leaves the position the server continues with (in-order: `NextChild`;
/// out-of-order: the position it started from); `later`: `v` is (part of) the value of a `Suspend` that was pending at
/// render time — whether a `Suspend` in it is ready when it is rendered is not known, so every one of them must
fn guesses_right(v: &V, pos: Pos, ooo: bool, d0: &[usize], later: bool) -> bool {
    match v {
        V::Elem { kids, .. } => seq_guesses_right(kids, Pos::First, ooo, d0, later),
        V::Tuple(ks) | V::Array(ks) | V::Vec(ks) => seq_guesses_right(ks, pos, ooo, d0, later),
        V::Some(x) | V::Left(x) | V::Right(x) | V::Ok(x) | V::Of3(_, x) | V::Owned(x) | V::Closure(x) | V::Eb(x) => {
            guesses_right(x, pos, ooo, d0, later)
        }
        V::Show(w, x) => !*w || guesses_right(x, pos, ooo, d0, later),
        // a boundary is always pending when it is rendered asynchronously (its task-set effect needs one executor turn)
        V::Suspense(_, x) => guesses_right(x, pos, ooo, d0, true) && pos_after(x, pos) == if ooo { pos } else { Pos::Next },
        V::Susp(f, x) => {
            if !later && d0.contains(f) {
                guesses_right(x, pos, ooo, d0, false)
            } else {
                guesses_right(x, pos, ooo, d0, true) && pos_after(x, pos) == if ooo { pos } else { Pos::Next }
            }
        }
        _ => true,
    }
}

fn seq_guesses_right(ks: &[V], mut pos: Pos, ooo: bool, d0: &[usize], later: bool) -> bool {
    for k in ks {
        if !guesses_right(k, pos, ooo, d0, later) {
            return false;
        }
        pos = pos_after(k, pos);
    }
    true
}

fn in_position_class(mode: &str, d0: &[usize], a: &[V]) -> bool {
    match mode {
        "io" => !seq_guesses_right(a, Pos::First, false, d0, false),
        "ooo" => !seq_guesses_right(a, Pos::First, true, d0, false),
        _ => false,
    }
}

fn fid_list(fs: &[usize]) -> String {
    if fs.is_empty() {
        "-".into()
    } else {
        fs.iter().map(|f| f.to_string()).collect::<Vec<_>>().join(",")
    }
}

fn steps_str(steps: &[Vec<usize>]) -> String {
    if steps.is_empty() {
        "-".into()
    } else {
        steps.iter().map(|s| fid_list(s)).collect::<Vec<_>>().join("/")
    }
}

fn write_shyd(
    f: &mut impl std::io::Write,
    name: &str,
    mode: &str,
    d0: &[usize],
    steps: &[Vec<usize>],
    a: &[V],
    b: &[V],
) -> std::io::Result<()> {
    if !position_cases() && in_position_class(mode, d0, a) {
        return Ok(());
    }
    writeln!(f, "case {name}\nshyd {mode} {} {} {} {}", fid_list(d0), steps_str(steps), encode(a), encode(b))
}

fn sx(f: usize, v: V) -> V {
    V::Susp(f, Box::new(v))
}

/// forced coverage of `Suspend`: every container x sibling before x sibling after x shape of the resolved view x
/// ready / pending x every server form; two `Suspend`s in every completion order; keyed items that suspend
fn susp_scope(f: &mut impl std::io::Write) -> std::io::Result<()> {
    let befores: Vec<(&str, Vec<V>)> = vec![("none", vec![]), ("text", vec![t("a")]), ("elem", vec![e("i", vec![t("i")])])];
    let afters: Vec<(&str, Vec<V>)> = vec![("none", vec![]), ("text", vec![t("z")]), ("elem", vec![e("em", vec![])])];
    let inners: Vec<(&str, V, V)> = vec![
        ("text", t("s"), t("S")),
        ("elem", e("b", vec![t("s")]), e("b", vec![t("S")])),
        ("text-elem", V::Tuple(vec![t("s"), e("b", vec![])]), V::Tuple(vec![t("S"), e("b", vec![])])),
        ("elem-text", V::Tuple(vec![e("b", vec![]), t("s")]), V::Tuple(vec![e("b", vec![]), t("S")])),
        ("unit", V::Unit, V::Unit),
        ("vec-text", V::Vec(vec![t("s")]), V::Vec(vec![t("S"), t("T")])),
        ("empty-text", t(""), t("S")),
    ];
    type Wrap = fn(Vec<V>) -> Vec<V>;
    let containers: Vec<(&str, Wrap)> = vec![
        ("top", |s| s),
        ("elem", |s| vec![e("div", s)]),
        ("vec", |s| vec![V::Vec(s)]),
        ("tuple", |s| vec![V::Tuple(s)]),
        ("array", |s| vec![V::Array(s)]),
        ("some", |s| vec![V::Some(Box::new(V::Tuple(s)))]),
        ("either", |s| vec![V::Right(Box::new(V::Tuple(s)))]),
        ("result", |s| vec![V::Ok(Box::new(V::Tuple(s)))]),
        ("of3", |s| vec![V::Of3(1, Box::new(V::Tuple(s)))]),
        ("owned", |s| vec![V::Owned(Box::new(V::Tuple(s)))]),
        ("closure", |s| vec![V::Closure(Box::new(V::Tuple(s)))]),
        ("vec-in-elem", |s| vec![e("section", vec![t("h"), V::Vec(s), t("f")])]),
    ];
    for (cn, wrap) in &containers {
        for (bn, before) in &befores {
            for (an, after) in &afters {
                for (inn, ia, ib) in &inners {
                    let mk = |inner: &V| {
                        let mut s = before.clone();
                        s.push(sx(0, inner.clone()));
                        s.extend(after.iter().cloned());
                        wrap(s)
                    };
                    let (a, b) = (mk(ia), mk(ib));
                    for (mode, d0) in [("io", vec![]), ("ooo", vec![]), ("res", vec![]), ("io", vec![0]), ("ooo", vec![0]), ("sync", vec![0])] {
                        let st = if d0.is_empty() { "pending" } else { "ready" };
                        write_shyd(f, &format!("ss-susp-{cn}-{bn}-{inn}-{an}-{mode}-{st}"), mode, &d0, &[], &a, &b)?;
                    }
                }
            }
        }
    }
    // two Suspends, every completion order
    let pairs: Vec<(&str, V, V)> = vec![
        ("tt", t("p"), t("q")),
        ("ee", e("b", vec![t("p")]), e("i", vec![t("q")])),
        ("te", t("p"), e("i", vec![t("q")])),
        ("et", e("b", vec![t("p")]), t("q")),
    ];
    let orders: Vec<(&str, Vec<usize>, Vec<Vec<usize>>)> = vec![
        ("01", vec![], vec![vec![0], vec![1]]),
        ("10", vec![], vec![vec![1], vec![0]]),
        ("both", vec![], vec![vec![0, 1]]),
        ("late", vec![], vec![vec![], vec![], vec![1], vec![], vec![0]]),
        ("rest", vec![], vec![]),
        ("0ready", vec![0], vec![vec![1]]),
        ("1ready", vec![1], vec![vec![0]]),
    ];
    for (cn, wrap) in containers.iter().filter(|c| ["top", "elem", "vec", "array", "vec-in-elem"].contains(&c.0)) {
        for (pn, x, y) in &pairs {
            for mid in [false, true] {
                let mut s = vec![sx(0, x.clone())];
                if mid {
                    s.push(e("hr", vec![]));
                }
                s.push(sx(1, y.clone()));
                let a = wrap(s);
                for (on, d0, steps) in &orders {
                    for mode in ["io", "ooo", "res"] {
                        write_shyd(f, &format!("ss-susp2-{cn}-{pn}-{}-{on}-{mode}", mid as u8), mode, d0, steps, &a, &a)?;
                    }
                }
            }
        }
    }
    // a Suspend inside the value of a Suspend: outer before inner, inner before outer, together, one of them ready at
    // render time, both at the very end; in every server form
    let nested: Vec<(&str, V, V)> = vec![
        ("elems", V::Tuple(vec![e("em", vec![t("o1")]), sx(1, e("b", vec![t("inner")])), e("i", vec![t("o2")])]),
            V::Tuple(vec![e("em", vec![t("O1")]), sx(1, e("b", vec![t("INNER")])), e("i", vec![t("O2")])])),
        ("in-elem", e("section", vec![e("em", vec![]), sx(1, e("b", vec![t("inner")])), t("tail")]),
            e("section", vec![e("em", vec![]), sx(1, e("b", vec![t("INNER")])), t("TAIL")])),
        ("text-inner", V::Tuple(vec![e("em", vec![]), sx(1, t("inner")), e("i", vec![])]),
            V::Tuple(vec![e("em", vec![]), sx(1, t("INNER")), e("i", vec![])])),
        ("inner-last", V::Tuple(vec![t("o1"), sx(1, e("b", vec![]))]), V::Tuple(vec![t("O1"), sx(1, e("b", vec![]))])),
        ("inner-only", sx(1, e("b", vec![t("x")])), sx(1, e("b", vec![t("y")]))),
        ("two-inner", V::Vec(vec![sx(1, e("b", vec![t("p")])), e("hr", vec![]), sx(2, e("i", vec![t("q")]))]),
            V::Vec(vec![sx(1, e("b", vec![t("P")])), e("hr", vec![]), sx(2, e("i", vec![t("Q")]))])),
        ("keyed-inner", V::KeyedSusp(vec![(1, "a".into()), (2, "b".into())]), V::KeyedSusp(vec![(2, "b".into()), (1, "a".into())])),
    ];
    let n_orders: Vec<(&str, Vec<usize>, Vec<Vec<usize>>)> = vec![
        ("outer-first", vec![], vec![vec![0], vec![], vec![1], vec![2]]),
        ("inner-first", vec![], vec![vec![2, 1], vec![], vec![0]]),
        ("together", vec![], vec![vec![], vec![0, 1, 2]]),
        ("inner-ready", vec![1, 2], vec![vec![], vec![0]]),
        ("outer-ready", vec![0], vec![vec![2], vec![1]]),
        ("outer-then-rest", vec![], vec![vec![0]]),
        ("rest", vec![], vec![]),
    ];
    for (cn, wrap) in containers.iter().filter(|c| ["top", "elem", "vec"].contains(&c.0)) {
        for (bn, before) in &befores {
            for (an, after) in &afters {
                for (nn, va, vb) in &nested {
                    let mk = |inner: &V| {
                        let mut s = before.clone();
                        s.push(sx(0, inner.clone()));
                        s.extend(after.iter().cloned());
                        wrap(s)
                    };
                    let (a, b) = (mk(va), mk(vb));
                    for (on, d0, steps) in &n_orders {
                        for mode in ["io", "ooo", "res"] {
                            write_shyd(f, &format!("ss-suspn-{cn}-{bn}-{nn}-{an}-{on}-{mode}"), mode, d0, steps, &a, &b)?;
                        }
                    }
                }
            }
        }
    }
    // <Suspense> / <Transition> whose children have no asynchronous part, in both stream forms
    for (cn, wrap) in containers.iter().filter(|c| ["top", "elem", "vec", "some", "closure"].contains(&c.0)) {
        for (bn, before) in &befores {
            for (an, after) in &afters {
                for (inn, ia, ib) in &inners {
                    for tr in [false, true] {
                        let mk = |inner: &V| {
                            let mut s = before.clone();
                            s.push(V::Suspense(tr, Box::new(inner.clone())));
                            s.extend(after.iter().cloned());
                            wrap(s)
                        };
                        let (a, b) = (mk(ia), mk(ib));
                        for mode in ["io", "ooo"] {
                            write_shyd(f, &format!("ss-boundary{}-{cn}-{bn}-{inn}-{an}-{mode}", tr as u8), mode, &[], &[], &a, &b)?;
                        }
                    }
                }
            }
        }
    }
    // keyed items that suspend: every completion order, in every server form
    let items = |ks: &[(usize, &str)]| V::KeyedSusp(ks.iter().map(|(f, k)| (*f, k.to_string())).collect());
    let perms: [[usize; 3]; 6] = [[0, 1, 2], [0, 2, 1], [1, 0, 2], [1, 2, 0], [2, 0, 1], [2, 1, 0]];
    for (sn, pre, post) in [("alone", vec![], vec![]), ("between", vec![t("a")], vec![t("z")]), ("in-elem", vec![], vec![])] {
        let mk = |k: V| {
            let mut s = pre.clone();
            s.push(k);
            s.extend(post.iter().cloned());
            if sn == "in-elem" {
                vec![e("div", s)]
            } else {
                s
            }
        };
        let a = mk(items(&[(0, "a"), (1, "b"), (2, "c")]));
        let b = mk(items(&[(2, "c"), (0, "a"), (3, "d")]));
        for p in perms {
            let steps: Vec<Vec<usize>> = p.iter().map(|f| vec![*f]).collect();
            for mode in ["io", "ooo", "res"] {
                write_shyd(f, &format!("ss-suspk-{sn}-{}{}{}-{mode}", p[0], p[1], p[2]), mode, &[], &steps, &a, &b)?;
            }
        }
        for mode in ["io", "ooo", "res"] {
            write_shyd(f, &format!("ss-suspk-{sn}-all-{mode}"), mode, &[], &[vec![0, 1, 2]], &a, &b)?;
            write_shyd(f, &format!("ss-suspk-{sn}-1ready-{mode}"), mode, &[1], &[vec![2], vec![0]], &a, &b)?;
        }
        write_shyd(f, &format!("ss-suspk-{sn}-sync"), "sync", &[0, 1, 2], &[], &a, &b)?;
    }
    // items of a Fragment (StaticVec) that suspend
    for (bn, before) in &befores {
        for (an, after) in &afters {
            for (inn, ia, ib) in &inners {
                for two in [false, true] {
                    let mut items_a = vec![sx(0, ia.clone())];
                    let mut items_b = vec![sx(0, ib.clone())];
                    if two {
                        items_a.push(sx(1, e("b", vec![t("2")])));
                        items_b.push(t("two"));
                    }
                    for (mode, d0, steps) in [
                        ("io", vec![], vec![vec![1], vec![0]]),
                        ("ooo", vec![], vec![vec![1], vec![0]]),
                        ("res", vec![], vec![vec![1], vec![0]]),
                        ("ooo", vec![0], vec![]),
                        ("sync", vec![0, 1], vec![]),
                    ] {
                        write_sfrag(
                            f,
                            &format!("ss-suspf-{bn}-{inn}{}-{an}-{mode}-{}", if two { "2" } else { "" }, d0.len()),
                            mode,
                            &d0,
                            &steps,
                            "div",
                            before,
                            &items_a,
                            &items_b,
                            after,
                        )?;
                    }
                }
            }
        }
    }
    Ok(())
}

#[allow(clippy::too_many_arguments)]
fn write_sfrag(
    f: &mut impl std::io::Write,
    name: &str,
    mode: &str,
    d0: &[usize],
    steps: &[Vec<usize>],
    tag: &str,
    pre: &[V],
    ia: &[V],
    ib: &[V],
    post: &[V],
) -> std::io::Result<()> {
    let kids: Vec<V> = pre.iter().chain(ia).chain(post).cloned().collect();
    if !position_cases() && in_position_class(mode, d0, &[e(tag, kids)]) {
        return Ok(());
    }
    if !name.is_empty() {
        writeln!(f, "case {name}")?;
    }
    writeln!(f, "sfrag {mode} {} {} {tag} {} {} {} {}", fid_list(d0), steps_str(steps), enc_seq(pre), enc_seq(ia), enc_seq(ib), enc_seq(post))
}

/// wrap some nodes of `v` in a `Suspend` (not inside one, not inside a static subtree or a raw-text element)
fn add_susp(r: &mut Rng, v: &V, next: &mut usize, p: usize) -> V {
    let wrap_here = *next < 6 && r.chance(1, p);
    let inner = |r: &mut Rng, next: &mut usize| -> V {
        match v {
            V::Elem { tag, attrs, kids } if tag != "textarea" && tag != "style" => {
                V::Elem { tag: tag.clone(), attrs: attrs.clone(), kids: kids.iter().map(|k| add_susp(r, k, next, p)).collect() }
            }
            V::Tuple(ks) => V::Tuple(ks.iter().map(|k| add_susp(r, k, next, p)).collect()),
            V::Vec(ks) => V::Vec(ks.iter().map(|k| add_susp(r, k, next, p)).collect()),
            V::Array(ks) => V::Array(ks.iter().map(|k| add_susp(r, k, next, p)).collect()),
            V::Some(x) => V::Some(Box::new(add_susp(r, x, next, p))),
            V::Left(x) => V::Left(Box::new(add_susp(r, x, next, p))),
            V::Right(x) => V::Right(Box::new(add_susp(r, x, next, p))),
            V::Ok(x) => V::Ok(Box::new(add_susp(r, x, next, p))),
            V::Of3(i, x) => V::Of3(*i, Box::new(add_susp(r, x, next, p))),
            V::Owned(x) => V::Owned(Box::new(add_susp(r, x, next, p))),
            V::Closure(x) => V::Closure(Box::new(add_susp(r, x, next, p))),
            V::Eb(x) => V::Eb(Box::new(add_susp(r, x, next, p))),
            V::Show(w, x) => V::Show(*w, Box::new(add_susp(r, x, next, p))),
            V::Keyed(ks) if *next + ks.len() <= 6 && r.chance(1, 2) => {
                let items = ks.iter().map(|k| {
                    *next += 1;
                    (*next - 1, k.clone())
                });
                V::KeyedSusp(items.collect())
            }
            other => other.clone(),
        }
    };
    if wrap_here {
        let f = *next;
        *next += 1;
        // now and then a `Suspend` inside the value (one level)
        let val = if r.chance(1, 3) && !has_susp(v) {
            let mut w = v.clone();
            for _ in 0..3 {
                let mut n2 = *next;
                let cand = add_susp_flat(r, v, &mut n2);
                if n2 > *next && n2 <= 6 && susp_depth(&cand) == 1 {
                    *next = n2;
                    w = cand;
                    break;
                }
            }
            w
        } else {
            v.clone()
        };
        V::Susp(f, Box::new(val))
    } else {
        inner(r, next)
    }
}

/// wrap some nodes *below* the root of `v` in a `Suspend` (no nesting)
fn add_susp_flat(r: &mut Rng, v: &V, next: &mut usize) -> V {
    let wrap = |r: &mut Rng, k: &V, next: &mut usize| -> V {
        if *next < 6 && r.chance(1, 2) && !has_susp(k) && !matches!(k, V::Inert(_)) {
            *next += 1;
            V::Susp(*next - 1, Box::new(k.clone()))
        } else {
            k.clone()
        }
    };
    match v {
        V::Elem { tag, attrs, kids } if tag != "textarea" && tag != "style" => {
            V::Elem { tag: tag.clone(), attrs: attrs.clone(), kids: kids.iter().map(|k| wrap(r, k, next)).collect() }
        }
        V::Tuple(ks) => V::Tuple(ks.iter().map(|k| wrap(r, k, next)).collect()),
        V::Vec(ks) => V::Vec(ks.iter().map(|k| wrap(r, k, next)).collect()),
        V::Array(ks) => V::Array(ks.iter().map(|k| wrap(r, k, next)).collect()),
        V::Some(x) => V::Some(Box::new(wrap(r, x, next))),
        V::Right(x) => V::Right(Box::new(wrap(r, x, next))),
        V::Owned(x) => V::Owned(Box::new(wrap(r, x, next))),
        other => other.clone(),
    }
}

fn de_arc(v: &V) -> V {
    match v {
        V::ArcStr(s) => V::Text(s.clone()),
        V::Elem { tag, attrs, kids } => V::Elem { tag: tag.clone(), attrs: attrs.clone(), kids: kids.iter().map(de_arc).collect() },
        V::Tuple(ks) => V::Tuple(ks.iter().map(de_arc).collect()),
        V::Vec(ks) => V::Vec(ks.iter().map(de_arc).collect()),
        V::Array(ks) => V::Array(ks.iter().map(de_arc).collect()),
        V::Some(x) => V::Some(Box::new(de_arc(x))),
        V::Left(x) => V::Left(Box::new(de_arc(x))),
        V::Right(x) => V::Right(Box::new(de_arc(x))),
        V::Ok(x) => V::Ok(Box::new(de_arc(x))),
        V::Of3(i, x) => V::Of3(*i, Box::new(de_arc(x))),
        V::Owned(x) => V::Owned(Box::new(de_arc(x))),
        V::Closure(x) => V::Closure(Box::new(de_arc(x))),
        V::Susp(f, x) => V::Susp(*f, Box::new(de_arc(x))),
        V::Eb(x) => V::Eb(Box::new(de_arc(x))),
        V::Show(w, x) => V::Show(*w, Box::new(de_arc(x))),
        V::Suspense(t, x) => V::Suspense(*t, Box::new(de_arc(x))),
        other => other.clone(),
    }
}

/// a random `shyd` case over the views `a`
fn gen_shyd(r: &mut Rng, a: &[V], depth: usize, f: &mut impl std::io::Write) -> std::io::Result<bool> {
    for _try in 0..6 {
        let mut next = 0usize;
        let mut a2: Vec<V> = a.iter().map(|v| add_susp(r, v, &mut next, 3)).collect();
        // a `<Suspense>` / `<Transition>` boundary around a top-level view without asynchronous parts
        let mut boundary = false;
        if r.chance(1, 3) {
            let i = r.below(a2.len());
            if !has_susp(&a2[i]) && !has_boundary(&a2[i]) {
                a2[i] = V::Suspense(r.chance(1, 3), Box::new(a2[i].clone()));
                boundary = true;
            }
        }
        if next == 0 && !boundary {
            continue;
        }
        let mut anc: Vec<&'static str> = vec![];
        let b: Vec<V> = a2.iter().map(|v| mutate(r, v, depth, &mut anc)).collect();
        if b.iter().any(|v| susp_depth(v) > 2) {
            continue;
        }
        let mode = if boundary { *r.pick(&["io", "ooo"]) } else { *r.pick(&["io", "io", "ooo", "ooo", "res", "sync"]) };
        let fids: Vec<usize> = (0..next).collect();
        let d0: Vec<usize> = if mode == "sync" { fids.clone() } else { fids.iter().copied().filter(|_| r.chance(1, 4)).collect() };
        let in_class = in_position_class(mode, &d0, &a2);
        // (an `InertElement` that meets a wrong node fails with a bare `unwrap()`, which reports nothing: not there)
        if in_class && (!position_cases() || a2.iter().any(has_inert)) {
            continue;
        }
        // in that class two string states may share one text node, which makes visible that `Arc<str>::rebuild`
        // writes whenever the pointer differs (the model writes when the string differs): plain strings there
        let (a2, b): (Vec<V>, Vec<V>) = if in_class { (a2.iter().map(de_arc).collect(), b.iter().map(de_arc).collect()) } else { (a2, b) };
        // (and, until fix-c05-5 is in /repo, no `<ErrorBoundary>` there: the position it starts from is a guessed one)
        let a2: Vec<V> = if in_class && !eb_cases() { a2.iter().map(de_eb).collect() } else { a2 };
        // completion order: every pending future gets a poll number (or stays for the end)
        let n_steps = r.range(0, 4);
        let mut steps: Vec<Vec<usize>> = vec![vec![]; n_steps];
        for k in fids.iter().filter(|k| !d0.contains(k)) {
            if n_steps > 0 && r.chance(4, 5) {
                let i = r.below(n_steps);
                steps[i].push(*k);
            }
        }
        // the order inside one step is free as well
        for s in steps.iter_mut() {
            if s.len() > 1 && r.chance(1, 2) {
                s.reverse();
            }
        }
        writeln!(f, "shyd {mode} {} {} {} {}", fid_list(&d0), steps_str(&steps), encode(&a2), encode(&b))?;
        return Ok(true);
    }
    Ok(false)
}

fn gen(seed: u64, n: usize, path: &str) -> std::io::Result<()> {
    use std::io::Write;
    let mut r = Rng::new(seed);
    let mut f = std::io::BufWriter::new(std::fs::File::create(path)?);
    for (name, a, b) in small_scope() {
        if !eb_cases() && seq_eb_matters(&a, Pos::First) {
            continue;
        }
        writeln!(f, "case {name}\nhyd {} {}", encode(&a), encode(&b))?;
    }
    // Fragment (StaticVec): empty / non-empty, first / after a sibling, followed by a sibling or not
    let sp = |s: &str| e("span", vec![t(s)]);
    for (i, (pre, ia, ib, post)) in [
        (vec![], vec![], vec![sp("x"), sp("y")], vec![sp("tail")]),
        (vec![], vec![], vec![sp("x")], vec![]),
        (vec![], vec![sp("a")], vec![sp("b")], vec![sp("tail")]),
        (vec![sp("head")], vec![], vec![sp("x")], vec![]),
        (vec![t("head")], vec![t("a"), t("")], vec![], vec![t("tail")]),
        (vec![], vec![], vec![], vec![]),
    ]
    .into_iter()
    .enumerate()
    {
        writeln!(f, "case ss-frag{i}\nfrag div {} {} {} {}", enc_seq(&pre), enc_seq(&ia), enc_seq(&ib), enc_seq(&post))?;
    }
    susp_scope(&mut f)?;
    for i in 0..n {
        writeln!(f, "case {i}")?;
        let mut anc: Vec<&'static str> = vec![];
        let depth = r.range(1, 4);
        let a = eb_gate(&gen_seq(&mut r, depth, &mut anc, 1, 3));
        if r.chance(1, 5) && gen_shyd(&mut r, &a, depth, &mut f)? {
            continue;
        }
        if r.chance(1, 14) {
            // an element whose children are pre.., Fragment(items), post..
            let tag = *r.pick(&["div", "span", "section", "my-box"]);
            let mut anc2: Vec<&'static str> = vec![tag];
            let d2 = depth.min(2);
            let pre = if r.chance(1, 2) { vec![] } else { gen_seq(&mut r, d2, &mut anc2, 1, 1) };
            let ia = gen_seq(&mut r, d2, &mut anc2, 0, 2);
            let ib = gen_seq(&mut r, d2, &mut anc2, 0, 2);
            let post = if r.chance(1, 2) { vec![] } else { gen_seq(&mut r, d2, &mut anc2, 1, 2) };
            let (pre, ia, post) = {
                let kids: Vec<V> = pre.iter().chain(&ia).chain(&post).cloned().collect();
                if !eb_cases() && eb_matters(&e(tag, kids), Pos::First) {
                    (pre.iter().map(de_eb).collect::<Vec<V>>(), ia.iter().map(de_eb).collect::<Vec<V>>(), post.iter().map(de_eb).collect::<Vec<V>>())
                } else {
                    (pre, ia, post)
                }
            };
            if r.chance(1, 3) && !ia.is_empty() {
                // items that suspend
                let mut next = 0usize;
                let ia2: Vec<V> = ia.iter().map(|v| add_susp(&mut r, v, &mut next, 2)).collect();
                let mode = *r.pick(&["io", "ooo", "res", "sync"]);
                let fids: Vec<usize> = (0..next).collect();
                let d0: Vec<usize> = if mode == "sync" { fids.clone() } else { fids.iter().copied().filter(|_| r.chance(1, 4)).collect() };
                let mut steps: Vec<Vec<usize>> = vec![vec![]; r.range(0, 3)];
                let n_steps = steps.len();
                for k in fids.iter().filter(|k| !d0.contains(k)) {
                    if n_steps > 0 && r.chance(4, 5) {
                        let i = r.below(n_steps);
                        steps[i].insert(0, *k);
                    }
                }
                let kids: Vec<V> = pre.iter().chain(&ia2).chain(&post).cloned().collect();
                let in_class = in_position_class(mode, &d0, &[e(tag, kids.clone())]);
                if next > 0 && !(in_class && (!position_cases() || kids.iter().any(has_inert))) {
                    if in_class {
                        // two string states may share one text node there: plain strings (see `gen_shyd`)
                        let da = |vs: &[V]| vs.iter().map(de_arc).collect::<Vec<V>>();
                        write_sfrag(&mut f, "", mode, &d0, &steps, tag, &da(&pre), &da(&ia2), &da(&ib), &da(&post))?;
                    } else {
                        write_sfrag(&mut f, "", mode, &d0, &steps, tag, &pre, &ia2, &ib, &post)?;
                    }
                    continue;
                }
            }
            writeln!(f, "frag {tag} {} {} {} {}", enc_seq(&pre), enc_seq(&ia), enc_seq(&ib), enc_seq(&post))?;
            continue;
        }
        if r.chance(1, 12) && !a.iter().any(has_inert) {
            // mismatching DOM: the walk's error paths (an `InertElement` fails its cast with a bare `unwrap()`,
            // which reports nothing: not used here)
            let c: Vec<V> = if r.chance(1, 2) {
                gen_seq(&mut r, depth, &mut anc, 1, 3)
            } else {
                a.iter().map(|v| mutate(&mut r, v, depth, &mut anc)).collect()
            };
            let c = eb_gate(&c);
            writeln!(f, "mis {} {}", encode(&a), encode(&c))?;
        } else {
            let b: Vec<V> = a.iter().map(|v| mutate(&mut r, v, depth, &mut anc)).collect();
            writeln!(f, "hyd {} {}", encode(&a), encode(&b))?;
        }
    }
    f.flush()
}

fn main() {
    match parse_cli() {
        Cmd::Gen { seed, n, ops, .. } => gen(seed, n, &ops).unwrap(),
        Cmd::Run { ops, out } => {
            quiet_panics();
            // spawned tasks (a `Suspend` builds and rebuilds in one) go into the controlled executor of hx-common
            sched::install();
            let mut tags = std::collections::HashMap::new();
            let text = std::fs::read_to_string(&ops).unwrap();
            let mut cur: Option<String> = Option::None;
            for l in text.lines() {
                let w: Vec<&str> = l.split_whitespace().collect();
                match w.as_slice() {
                    ["case", n] => cur = Some(n.to_string()),
                    _ => {
                        if let Some(n) = &cur {
                            let t = tags_of_op(&w);
                            let e: &mut String = tags.entry(n.clone()).or_default();
                            if !e.is_empty() && !t.is_empty() {
                                e.push(',');
                            }
                            e.push_str(&t);
                        }
                    }
                }
            }
            run_ops(&ops, &out, |l| op(l, &tags)).unwrap()
        }
    }
}
