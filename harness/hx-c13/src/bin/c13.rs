//! C13 correspondence harness: the real `server_fn` crate from /repo's working tree
//! (features ssr, generic, cbor, msgpack, postcard, rkyv, serde-lite; `multipart` is not available offline).
//!
//! All payload fields are lower-case hex of bytes (`-` = empty).  `<ty>` selects the error type:
//! `n` = `ServerFnError<NoCustomError>`, `c` = `ServerFnError<Cust>` (`Cust(String)`: Display prints the
//! string, FromStr rejects a leading `!`).  `<Variant>` is a Rust variant name of `ServerFnError`.
//!
//!   case <name>
//!  (a) error wire format / URL form
//!   ser <ty> <Variant> <msg>            -> <ser() bytes> <de(ser()) as Kind:msg> ## ok|fail error-roundtrip
//!   de <ty> <bytes>                     -> <Kind:msg>                             ## ok|fail panic
//!   tourl <ty> <base> <path> <Variant> <msg>
//!                                       -> <url>|parse-error <decode_err(__err)> <__path> ## ok|fail url-roundtrip
//!   decerr <ty> <str>                   -> <Kind:msg>                             ## ok|fail panic
//!   strip <url>                         -> <url'>                                 ## ok|fail strip
//!  (b) pipeline: `#[server]` functions, loop-back `Client` -> generic `http::Request<Bytes>` -> `run_on_server`
//!   call <hexfn> <arg>                  -> ok <out> | err <Kind:msg>              ## ok|fail pipeline (remote == direct)
//!   tcall <typedfn> echo <json>         -> ok <json> | err ..                     ## ok|fail <class>
//!   tcall <typedfn> fail <json> <Variant> <msg>
//!   tcall t_cbor_app failapp <json> <errjson>
//!   canned <hexfn> <status> <body> <arg>-> result of run_client on a canned response ## ok|fail status-rule
//!   rawreq <hexfn> <METHOD> <query|none> <body> -> <status> <body>                ## ok|fail server-response
//!   stream text|bytes <chunk,chunk,..|none>  -> items seen by the caller          ## ok|fail text-stream
//!   ncall <noargsfn>                     -> ok <string> | err ..                   ## ok|fail pipeline
//!   path <fn> <prefix|default> <endpoint|none> <fn name>
//!                                       -> <ServerFn::PATH without its hash suffix> registered|unregistered
//!                                          ## ok|fail path (PATH = the documented derivation incl. the xxh64 hash of crate directory
//!                                             and module path — which depends on where the crate is built, hence not printed —
//!                                             and the registry answers under it)
//!   form <fn> <referer|none> <arg | tcall arguments>    the non-JS `<form>` fallback: `Accept: text/html`, `Referer`
//!                                       -> <status> <Location (up to `__err=` for non-text error types)> <decode_err(__err)|none> <__path|none>
//!                                          ## ok|fail form-fallback (302; an Err comes back in the URL with the function's path,
//!                                             an Ok strips stale error info from the referer)
//!   streamout text <item,item,..|none>   item = o<text> | e<Variant>:<msg>    a function with output = StreamingText
//!   streamout bytes <item,item,..|none>  item = o<bytes> | x<raw error bytes>  a function with output = Streaming
//!                                       -> items seen by the remote caller (every item the code relays)
//!                                          ## ok|fail stream-out (same text and same first error as the direct caller)
//!   wcall <widefn> <reqplace> <resplace> echo|fail <wide json> [<Variant> <msg>]
//!                                       a value with wide (8/16-byte) out-of-line data through a binary codec, the request / response
//!                                       body handed over in its own allocation (`own`) or as a sub-slice of a larger buffer starting
//!                                       <n> bytes (0..15) after a 16-byte boundary -> ok <json> | err ..  ## ok|fail pipeline
//!   ws interactive|batch <msg,msg,..|none>   a `Websocket<JsonEncoding, JsonEncoding>` function over an in-memory duplex whose client
//!                                       write half only transmits on flush; interactive = wait for answer k before sending k+1
//!                                       -> answers seen (`ehang` = nothing arrives) ## ok|fail websocket (= the direct conversation)
//!   dcall <deepfn> <depth> <width>       a comment thread nested <depth> levels (<width> replies per level) through each codec
//!                                       -> ok <depth> <nodes> | err <Kind>      ## ok|fail deep-nesting (remote = direct)
//!  (c) corruption (testing)
//!   corrupth <hexfn> req|res <mut> <arg>-> result                                 ## ok|fail panic
//!   corrupt <typedfn> req|res <mut> echo|fail.. (as tcall) -> done               ## ok|fail panic
//! <mut> = t<n> truncate to n mod (len+1) bytes | f<i> flip bit i mod 8*len | a<x> append byte x.
#![allow(deprecated)]
use bytes::Bytes;
use futures::{
    channel::mpsc,
    executor::{block_on, LocalPool, LocalSpawner},
    task::LocalSpawnExt,
    FutureExt, Sink, Stream, StreamExt,
};
use http::{Method, Request, Response};
use hx_common::*;
use server_fn::{
    client::Client,
    codec::*,
    error::{FromServerFnError, NoCustomError, ServerFnErrorErr, ServerFnUrlError},
    middleware::{BoxedService, Layer, Service},
    request::{ClientReq, Req},
    response::{generic::Body, ClientRes, Res},
    server::Server,
    BoxedStream, ContentType, Decodes, Encodes, Format, FormatType, Http, ServerFn, ServerFnError, ServerFnTraitObj, Websocket,
};
use server_fn_macro_default::server;
use std::{
    borrow::Cow,
    cell::RefCell,
    collections::HashMap,
    fmt::Display,
    future::Future,
    panic::{catch_unwind, AssertUnwindSafe},
    pin::Pin,
    str::FromStr,
    sync::{Mutex, OnceLock},
    task::{Context, Poll},
};

// ------------------------------------------------------------------ error types

#[derive(Debug, Clone, PartialEq, Eq)]
pub struct Cust(pub String);
impl Display for Cust {
    fn fmt(&self, f: &mut std::fmt::Formatter<'_>) -> std::fmt::Result {
        f.write_str(&self.0)
    }
}
impl FromStr for Cust {
    type Err = ();
    fn from_str(s: &str) -> Result<Self, ()> {
        if s.starts_with('!') {
            Err(())
        } else {
            Ok(Cust(s.to_string()))
        }
    }
}

/// variant names in the order of `enum ServerFnError` (index = `k` of the hex body protocol)
const VARIANTS: [&str; 10] = [
    "WrappedServerError",
    "Registration",
    "Request",
    "Response",
    "ServerError",
    "MiddlewareError",
    "Deserialization",
    "Serialization",
    "Args",
    "MissingArg",
];

fn mk_plain<C>(variant: &str, msg: String) -> Option<ServerFnError<C>> {
    Some(match variant {
        "Registration" => ServerFnError::Registration(msg),
        "Request" => ServerFnError::Request(msg),
        "Response" => ServerFnError::Response(msg),
        "ServerError" => ServerFnError::ServerError(msg),
        "MiddlewareError" => ServerFnError::MiddlewareError(msg),
        "Deserialization" => ServerFnError::Deserialization(msg),
        "Serialization" => ServerFnError::Serialization(msg),
        "Args" => ServerFnError::Args(msg),
        "MissingArg" => ServerFnError::MissingArg(msg),
        _ => return None,
    })
}

fn mk_n(variant: &str, msg: String) -> Option<ServerFnError<NoCustomError>> {
    if variant == "WrappedServerError" {
        Some(ServerFnError::WrappedServerError(NoCustomError))
    } else {
        mk_plain(variant, msg)
    }
}

fn mk_c(variant: &str, msg: String) -> Option<ServerFnError<Cust>> {
    if variant == "WrappedServerError" {
        Some(ServerFnError::WrappedServerError(Cust(msg)))
    } else {
        mk_plain(variant, msg)
    }
}

fn show_err<C: Display>(e: &ServerFnError<C>) -> String {
    let (k, m) = match e {
        ServerFnError::WrappedServerError(c) => ("WrappedServerError", c.to_string()),
        ServerFnError::Registration(m) => ("Registration", m.clone()),
        ServerFnError::Request(m) => ("Request", m.clone()),
        ServerFnError::Response(m) => ("Response", m.clone()),
        ServerFnError::ServerError(m) => ("ServerError", m.clone()),
        ServerFnError::MiddlewareError(m) => ("MiddlewareError", m.clone()),
        ServerFnError::Deserialization(m) => ("Deserialization", m.clone()),
        ServerFnError::Serialization(m) => ("Serialization", m.clone()),
        ServerFnError::Args(m) => ("Args", m.clone()),
        ServerFnError::MissingArg(m) => ("MissingArg", m.clone()),
    };
    format!("{k}:{}", hex(m.as_bytes()))
}

fn show_sfe_err(e: &ServerFnErrorErr) -> String {
    let (k, m) = match e {
        ServerFnErrorErr::Registration(m) => ("Registration", m),
        ServerFnErrorErr::UnsupportedRequestMethod(m) => ("UnsupportedRequestMethod", m),
        ServerFnErrorErr::Request(m) => ("Request", m),
        ServerFnErrorErr::ServerError(m) => ("ServerError", m),
        ServerFnErrorErr::MiddlewareError(m) => ("MiddlewareError", m),
        ServerFnErrorErr::Deserialization(m) => ("Deserialization", m),
        ServerFnErrorErr::Serialization(m) => ("Serialization", m),
        ServerFnErrorErr::Args(m) => ("Args", m),
        ServerFnErrorErr::MissingArg(m) => ("MissingArg", m),
        ServerFnErrorErr::Response(m) => ("Response", m),
    };
    format!("{k}:{}", hex(m.as_bytes()))
}

/// does the custom payload survive Display -> FromStr (the hypothesis of the round-trip property)
fn custom_law<C: Display + FromStr + PartialEq>(e: &ServerFnError<C>) -> bool {
    match e {
        ServerFnError::WrappedServerError(c) => C::from_str(&c.to_string()).ok().as_ref() == Some(c),
        _ => true,
    }
}

/// an application error type with its own (JSON) wire format
#[derive(Debug, Clone, PartialEq, serde::Serialize, serde::Deserialize)]
pub enum AppErr {
    Sfe(ServerFnErrorErr),
    Custom { code: i32, msg: String },
}
impl Display for AppErr {
    fn fmt(&self, f: &mut std::fmt::Formatter<'_>) -> std::fmt::Result {
        write!(f, "{self:?}")
    }
}
impl FromServerFnError for AppErr {
    type Encoder = JsonEncoding;
    fn from_server_fn_error(value: ServerFnErrorErr) -> Self {
        AppErr::Sfe(value)
    }
}

// ------------------------------------------------------------------ loop-back client / server

pub enum LoopBody {
    Bytes(Bytes),
    Stream(Pin<Box<dyn Stream<Item = Bytes> + Send>>),
}

/// what the client half builds (`ClientReq`), modelled on request/reqwest.rs
pub struct LoopReq {
    method: Method,
    path: String,
    query: Option<String>,
    content_type: String,
    accepts: String,
    body: LoopBody,
}

fn body_method<E: FromServerFnError>(m: &Method) -> Result<(), E> {
    if *m == Method::POST || *m == Method::PUT || *m == Method::PATCH {
        Ok(())
    } else {
        Err(E::from_server_fn_error(ServerFnErrorErr::UnsupportedRequestMethod(m.to_string())))
    }
}

impl<E: FromServerFnError> ClientReq<E> for LoopReq {
    type FormData = ();

    fn try_new_req_query(path: &str, content_type: &str, accepts: &str, query: &str, method: Method) -> Result<Self, E> {
        Ok(LoopReq {
            method,
            path: path.into(),
            query: Some(query.into()),
            content_type: content_type.into(),
            accepts: accepts.into(),
            body: LoopBody::Bytes(Bytes::new()),
        })
    }

    fn try_new_req_text(path: &str, content_type: &str, accepts: &str, body: String, method: Method) -> Result<Self, E> {
        body_method::<E>(&method)?;
        Ok(LoopReq {
            method,
            path: path.into(),
            query: None,
            content_type: content_type.into(),
            accepts: accepts.into(),
            body: LoopBody::Bytes(Bytes::from(body)),
        })
    }

    fn try_new_req_bytes(path: &str, content_type: &str, accepts: &str, body: Bytes, method: Method) -> Result<Self, E> {
        body_method::<E>(&method)?;
        Ok(LoopReq {
            method,
            path: path.into(),
            query: None,
            content_type: content_type.into(),
            accepts: accepts.into(),
            body: LoopBody::Bytes(body),
        })
    }

    fn try_new_req_form_data(_: &str, _: &str, _: &str, _: (), method: Method) -> Result<Self, E> {
        Err(E::from_server_fn_error(ServerFnErrorErr::UnsupportedRequestMethod(format!("form data {method}"))))
    }

    fn try_new_req_multipart(_: &str, _: &str, _: (), method: Method) -> Result<Self, E> {
        Err(E::from_server_fn_error(ServerFnErrorErr::UnsupportedRequestMethod(format!("multipart {method}"))))
    }

    fn try_new_req_streaming(
        path: &str,
        accepts: &str,
        content_type: &str,
        body: impl Stream<Item = Bytes> + Send + 'static,
        method: Method,
    ) -> Result<Self, E> {
        body_method::<E>(&method)?;
        Ok(LoopReq {
            method,
            path: path.into(),
            query: None,
            content_type: content_type.into(),
            accepts: accepts.into(),
            body: LoopBody::Stream(Box::pin(body)),
        })
    }
}

/// what the client half receives (`ClientRes`); a streamed body is buffered chunk by chunk
pub struct LoopRes {
    status: u16,
    location: String,
    chunks: Vec<Result<Bytes, Bytes>>,
    /// where the transport puts the body it hands to the decoder (see `place`)
    place: Option<usize>,
}

impl LoopRes {
    fn concat(self) -> Result<Bytes, Bytes> {
        let mut v = Vec::new();
        for c in self.chunks {
            v.extend_from_slice(&c?);
        }
        Ok(place(&v, self.place))
    }
}

/// the body as the transport delivers it: `None` = in its own allocation; `Some(k)` = as a sub-slice of a
/// larger receive buffer, starting `k` bytes after a 16-byte boundary (what zero-copy body slices after a
/// variable-length head look like)
fn place(body: &[u8], at: Option<usize>) -> Bytes {
    match at {
        None => Bytes::from(body.to_vec()),
        Some(k) => {
            let mut buf = vec![0xAAu8; body.len() + 48];
            let start = (16 - (buf.as_ptr() as usize) % 16) % 16 + k % 16;
            buf[start..start + body.len()].copy_from_slice(body);
            let b = Bytes::from(buf).slice(start..start + body.len());
            debug_assert_eq!((b.as_ptr() as usize) % 16, k % 16);
            b
        }
    }
}

impl<E: FromServerFnError> ClientRes<E> for LoopRes {
    async fn try_into_string(self) -> Result<String, E> {
        let b = self.concat().map_err(E::de)?;
        String::from_utf8(b.to_vec())
            .map_err(|e| E::from_server_fn_error(ServerFnErrorErr::Deserialization(e.to_string())))
    }

    async fn try_into_bytes(self) -> Result<Bytes, E> {
        self.concat().map_err(E::de)
    }

    fn try_into_stream(self) -> Result<impl Stream<Item = Result<Bytes, Bytes>> + Send + Sync + 'static, E> {
        Ok(futures::stream::iter(self.chunks))
    }

    fn status(&self) -> u16 {
        self.status
    }

    fn status_text(&self) -> String {
        self.status.to_string()
    }

    fn location(&self) -> String {
        self.location.clone()
    }

    fn has_redirect(&self) -> bool {
        false
    }
}

/// server-side request: the generic back end's `http::Request<Bytes>`; the newtype exists only because
/// `Server::Request::WebsocketResponse` must equal `Server::Response` (= `Response<generic::Body>`), every
/// method delegates to the real `impl Req for http::Request<Bytes>` (request/generic.rs)
pub struct SReq(pub Request<Bytes>);

impl<E, I, O> Req<E, I, O> for SReq
where
    E: FromServerFnError + Send,
    I: FromServerFnError + Send,
    O: FromServerFnError + Send,
{
    type WebsocketResponse = Response<Body>;

    fn as_query(&self) -> Option<&str> {
        <Request<Bytes> as Req<E, I, O>>::as_query(&self.0)
    }

    fn to_content_type(&self) -> Option<Cow<'_, str>> {
        <Request<Bytes> as Req<E, I, O>>::to_content_type(&self.0)
    }

    fn accepts(&self) -> Option<Cow<'_, str>> {
        <Request<Bytes> as Req<E, I, O>>::accepts(&self.0)
    }

    fn referer(&self) -> Option<Cow<'_, str>> {
        <Request<Bytes> as Req<E, I, O>>::referer(&self.0)
    }

    async fn try_into_bytes(self) -> Result<Bytes, E> {
        <Request<Bytes> as Req<E, I, O>>::try_into_bytes(self.0).await
    }

    async fn try_into_string(self) -> Result<String, E> {
        <Request<Bytes> as Req<E, I, O>>::try_into_string(self.0).await
    }

    fn try_into_stream(self) -> Result<impl Stream<Item = Result<Bytes, Bytes>> + Send + 'static, E> {
        <Request<Bytes> as Req<E, I, O>>::try_into_stream(self.0)
    }

    async fn try_into_websocket(
        self,
    ) -> Result<
        (
            impl Stream<Item = Result<Bytes, Bytes>> + Send + 'static,
            impl futures::Sink<Result<Bytes, Bytes>> + Send + 'static,
            Self::WebsocketResponse,
        ),
        E,
    > {
        // the server ends of the in-memory duplex opened by `LoopClient::open_websocket`
        match WS_ENDS.with(|w| w.borrow_mut().take()) {
            Some((rx, tx)) => Ok((rx, tx, Response::new(Body::Sync(Bytes::new())))),
            None => Err(E::from_server_fn_error(ServerFnErrorErr::Response(
                "Websockets are not supported on this platform.".to_string(),
            ))),
        }
    }
}

type Frame = Result<Bytes, Bytes>;

thread_local! {
    /// the executor all websocket tasks (client forwarder, server forwarder, caller) run on
    static SPAWNER: RefCell<Option<LocalSpawner>> = RefCell::new(None);
    static WS_ENDS: RefCell<Option<(mpsc::UnboundedReceiver<Frame>, mpsc::UnboundedSender<Frame>)>> = RefCell::new(None);
}

fn spawn_local(future: impl Future<Output = ()> + 'static) -> bool {
    SPAWNER.with(|s| match s.borrow().as_ref() {
        Some(sp) => sp.spawn_local(future).is_ok(),
        None => false,
    })
}

/// the client's write half: `start_send` only queues, frames reach the wire on `poll_flush` / `poll_close`
/// (or when more than `WRITE_BUFFER` frames are queued) — the `Sink` contract, as tungstenite-like sockets do
struct BufferedWriter {
    queue: Vec<Frame>,
    wire: mpsc::UnboundedSender<Frame>,
}
const WRITE_BUFFER: usize = 8;
impl BufferedWriter {
    fn write_out(&mut self) -> Result<(), mpsc::SendError> {
        for f in self.queue.drain(..) {
            self.wire.unbounded_send(f).map_err(|e| e.into_send_error())?;
        }
        Ok(())
    }
}
impl Sink<Frame> for BufferedWriter {
    type Error = mpsc::SendError;
    fn poll_ready(self: Pin<&mut Self>, _: &mut Context<'_>) -> Poll<Result<(), Self::Error>> {
        Poll::Ready(Ok(()))
    }
    fn start_send(mut self: Pin<&mut Self>, item: Frame) -> Result<(), Self::Error> {
        self.queue.push(item);
        if self.queue.len() > WRITE_BUFFER {
            self.write_out()?;
        }
        Ok(())
    }
    fn poll_flush(mut self: Pin<&mut Self>, _: &mut Context<'_>) -> Poll<Result<(), Self::Error>> {
        Poll::Ready(self.write_out())
    }
    fn poll_close(mut self: Pin<&mut Self>, _: &mut Context<'_>) -> Poll<Result<(), Self::Error>> {
        let r = self.write_out();
        self.wire.close_channel();
        Poll::Ready(r)
    }
}

pub struct LoopServer;

impl<E, I, O> Server<E, I, O> for LoopServer
where
    E: FromServerFnError + Send + Sync,
    I: FromServerFnError + Send + Sync,
    O: FromServerFnError + Send + Sync,
{
    type Request = SReq;
    type Response = Response<Body>;

    fn spawn(future: impl Future<Output = ()> + Send + 'static) -> Result<(), E> {
        if spawn_local(future) {
            Ok(())
        } else {
            Err(E::from_server_fn_error(ServerFnErrorErr::Request("no executor in the loop-back server".into())))
        }
    }
}

#[derive(Clone, Debug)]
enum Mutn {
    Trunc(usize),
    Flip(usize),
    Append(u8),
}

fn parse_mut(s: &str) -> Option<Mutn> {
    let (k, n) = s.split_at(s.char_indices().nth(1).map(|x| x.0).unwrap_or(s.len()));
    let n: usize = n.parse().ok()?;
    match k {
        "t" => Some(Mutn::Trunc(n)),
        "f" => Some(Mutn::Flip(n)),
        "a" => Some(Mutn::Append((n % 256) as u8)),
        _ => None,
    }
}

fn mutate(m: &Mutn, b: &[u8]) -> Vec<u8> {
    let mut v = b.to_vec();
    match m {
        Mutn::Trunc(n) => v.truncate(n % (b.len() + 1)),
        Mutn::Flip(i) => {
            if !v.is_empty() {
                let j = i % (8 * v.len());
                v[j / 8] ^= 1 << (j % 8);
            }
        }
        Mutn::Append(x) => v.push(*x),
    }
    v
}

#[derive(Default)]
struct Transport {
    canned: Option<(u16, Vec<u8>)>,
    req_mut: Option<Mutn>,
    res_mut: Option<Mutn>,
    /// send the request like a browser `<form>` does: `Accept: text/html` and this `Referer`
    form: Option<Option<String>>,
    /// body placement of the request (seen by the server's decoder) and of the response (the client's)
    req_place: Option<usize>,
    res_place: Option<usize>,
}

/// the last raw response seen by the transport: status, `Location`, body
#[derive(Clone, Default)]
struct RawRes {
    status: u16,
    location: Option<String>,
    #[allow(dead_code)]
    body: Vec<u8>,
}

thread_local! {
    static LAST_RES: RefCell<Option<RawRes>> = RefCell::new(None);
}

thread_local! {
    static TRANSPORT: RefCell<Transport> = RefCell::new(Transport::default());
}

type Handler = ServerFnTraitObj<SReq, Response<Body>>;

fn registry() -> &'static HashMap<(String, Method), Handler> {
    static REG: OnceLock<HashMap<(String, Method), Handler>> = OnceLock::new();
    REG.get_or_init(|| {
        server_fn::inventory::iter::<Handler>
            .into_iter()
            .map(|obj| ((obj.path().to_string(), obj.method()), obj.clone()))
            .collect()
    })
}

const NOT_FOUND: &str = "no server function registered for this path and method";

/// route a generic request like the axum/actix integrations do: by (path, method)
async fn dispatch(req: Request<Bytes>) -> Response<Body> {
    let key = (req.uri().path().to_string(), req.method().clone());
    match registry().get(&key) {
        // as `server_fn::axum::get_server_fn_service` does: box the function, wrap it in its middleware
        Some(obj) => {
            let mut service = obj.clone().boxed();
            for layer in obj.middleware() {
                service = layer.layer(service);
            }
            service.run(SReq(req)).await
        }
        None => Response::builder().status(400).body(Body::from(NOT_FOUND.to_string())).unwrap(),
    }
}

async fn collect_body(body: Body) -> Vec<Result<Bytes, Bytes>> {
    match body {
        Body::Sync(b) => vec![Ok(b)],
        Body::Async(mut s) => {
            let mut v = vec![];
            while let Some(item) = s.next().await {
                // a mid-stream error travels as its `Display` text (ServerFnErrorWrapper prints `ser()`)
                v.push(item.map_err(|e| Bytes::from(e.to_string())));
            }
            v
        }
    }
}

async fn transport<E: FromServerFnError>(req: LoopReq) -> Result<LoopRes, E> {
    let (canned, req_mut, res_mut, form, req_place, res_place) = TRANSPORT.with(|t| {
        let t = t.borrow();
        (t.canned.clone(), t.req_mut.clone(), t.res_mut.clone(), t.form.clone(), t.req_place, t.res_place)
    });
    let LoopReq { method, path, mut query, content_type, accepts, body } = req;
    let mut body: Vec<u8> = match body {
        LoopBody::Bytes(b) => b.to_vec(),
        LoopBody::Stream(mut s) => {
            let mut v = vec![];
            while let Some(c) = s.next().await {
                v.extend_from_slice(&c);
            }
            v
        }
    };
    if let Some(m) = &req_mut {
        match &mut query {
            Some(q) => *q = String::from_utf8_lossy(&mutate(m, q.as_bytes())).into_owned(),
            None => body = mutate(m, &body),
        }
    }
    if let Some((status, b)) = canned {
        return Ok(LoopRes { status, location: String::new(), chunks: vec![Ok(Bytes::from(b))], place: res_place });
    }
    let uri = match &query {
        Some(q) => format!("{path}?{q}"),
        None => path.clone(),
    };
    let mut builder = Request::builder().method(method).uri(uri).header(http::header::CONTENT_TYPE, content_type);
    builder = match &form {
        // what a browser sends for a plain `<form>` submission
        Some(referer) => {
            let b = builder.header(http::header::ACCEPT, "text/html,application/xhtml+xml,*/*;q=0.8");
            match referer {
                Some(r) => b.header(http::header::REFERER, r.as_str()),
                None => b,
            }
        }
        None => builder.header(http::header::ACCEPT, accepts),
    };
    let request = builder
        .body(place(&body, req_place))
        .map_err(|e| E::from_server_fn_error(ServerFnErrorErr::Request(e.to_string())))?;
    let res = dispatch(request).await;
    let status = res.status().as_u16();
    let location_header = res.headers().get(http::header::LOCATION).and_then(|v| v.to_str().ok()).map(str::to_string);
    let location = location_header.clone().unwrap_or_default();
    let mut chunks = collect_body(res.into_body()).await;
    LAST_RES.with(|l| {
        *l.borrow_mut() = Some(RawRes {
            status,
            location: location_header,
            body: chunks.iter().flat_map(|c| c.clone().unwrap_or_else(|e| e).to_vec()).collect(),
        })
    });
    if let Some(m) = &res_mut {
        if let [Ok(b)] = chunks.as_slice() {
            chunks = vec![Ok(Bytes::from(mutate(m, b)))];
        }
    }
    Ok(LoopRes { status, location, chunks, place: res_place })
}

pub struct LoopClient;

impl<E, I, O> Client<E, I, O> for LoopClient
where
    E: FromServerFnError + Send,
    I: FromServerFnError,
    O: FromServerFnError,
{
    type Request = LoopReq;
    type Response = LoopRes;

    fn send(req: Self::Request) -> impl Future<Output = Result<Self::Response, E>> + Send {
        transport::<E>(req)
    }

    fn open_websocket(
        path: &str,
    ) -> impl Future<
        Output = Result<
            (
                impl Stream<Item = Result<Bytes, Bytes>> + Send + 'static,
                impl futures::Sink<Result<Bytes, Bytes>> + Send + 'static,
            ),
            E,
        >,
    > + Send {
        let path = path.to_string();
        async move {
            // an in-memory duplex; the upgrade request goes to the registered handler like any other
            let (c2s_tx, c2s_rx) = mpsc::unbounded::<Frame>();
            let (s2c_tx, s2c_rx) = mpsc::unbounded::<Frame>();
            WS_ENDS.with(|w| *w.borrow_mut() = Some((c2s_rx, s2c_tx)));
            let request = Request::builder()
                .method(Method::GET)
                .uri(path)
                .body(Bytes::new())
                .map_err(|e| E::from_server_fn_error(ServerFnErrorErr::Request(e.to_string())))?;
            let res = dispatch(request).await;
            WS_ENDS.with(|w| *w.borrow_mut() = None);
            if res.status().as_u16() >= 400 {
                let chunks = collect_body(res.into_body()).await;
                let body: Vec<u8> = chunks.into_iter().flat_map(|c| c.unwrap_or_else(|e| e).to_vec()).collect();
                return Err(E::de(Bytes::from(body)));
            }
            Ok((s2c_rx, BufferedWriter { queue: vec![], wire: c2s_tx }))
        }
    }

    fn spawn(future: impl Future<Output = ()> + Send + 'static) {
        spawn_local(future);
    }
}

// ------------------------------------------------------------------ a codec the model can compute: hex text

pub struct HexEncoding;
impl ContentType for HexEncoding {
    const CONTENT_TYPE: &'static str = "text/x-hex";
}
impl FormatType for HexEncoding {
    const FORMAT_TYPE: Format = Format::Text;
}
pub trait AsRaw: Sized {
    fn raw(&self) -> &[u8];
    fn from_raw(v: Vec<u8>) -> Self;
}
fn plain_hex(b: &[u8]) -> String {
    b.iter().map(|x| format!("{x:02x}")).collect()
}
fn plain_unhex(b: &[u8]) -> Option<Vec<u8>> {
    if b.len() % 2 != 0 {
        return None;
    }
    b.chunks(2)
        .map(|p| Some((char::from(p[0]).to_digit(16)? * 16 + char::from(p[1]).to_digit(16)?) as u8))
        .collect()
}
impl<T: AsRaw> Encodes<T> for HexEncoding {
    type Error = String;
    fn encode(v: &T) -> Result<Bytes, String> {
        Ok(Bytes::from(plain_hex(v.raw())))
    }
}
impl<T: AsRaw> Decodes<T> for HexEncoding {
    type Error = String;
    fn decode(b: Bytes) -> Result<T, String> {
        plain_unhex(&b).map(T::from_raw).ok_or_else(|| "bad hex".to_string())
    }
}
pub type HexPost = Post<HexEncoding>;
pub type HexPatch = Patch<HexEncoding>;
pub type HexPut = Put<HexEncoding>;

#[derive(Debug, Clone, PartialEq)]
pub struct Raw(pub Vec<u8>);
impl AsRaw for Raw {
    fn raw(&self) -> &[u8] {
        &self.0
    }
    fn from_raw(v: Vec<u8>) -> Self {
        Raw(v)
    }
}

/// `E <k> <utf8 msg>` fails with the k-th String-payload variant, anything else echoes
fn hex_body(data: Vec<u8>) -> Result<Raw, ServerFnError> {
    if data.len() >= 2 && data[0] == b'E' {
        let k = data[1] as usize;
        if (1..VARIANTS.len()).contains(&k) {
            if let Ok(m) = String::from_utf8(data[2..].to_vec()) {
                return Err(mk_n(VARIANTS[k], m).unwrap());
            }
        }
    }
    Ok(Raw(data))
}

macro_rules! hex_fn {
    ($f:ident, $S:ident, $ep:literal, $enc:ident) => {
        #[server(name = $S, prefix = "/api", endpoint = $ep, input = $enc, output = $enc, client = LoopClient, server = LoopServer)]
        pub async fn $f(data: Vec<u8>) -> Result<Raw, ServerFnError> {
            hex_body(data)
        }
        impl AsRaw for $S {
            fn raw(&self) -> &[u8] {
                &self.data
            }
            fn from_raw(v: Vec<u8>) -> Self {
                $S { data: v }
            }
        }
    };
}
hex_fn!(hx_post, HxPost, "hx_post", HexPost);
hex_fn!(hx_patch, HxPatch, "hx_patch", HexPatch);
hex_fn!(hx_put, HxPut, "hx_put", HexPut);

// ------------------------------------------------------------------ typed functions over the real codecs

#[derive(
    Clone,
    Debug,
    PartialEq,
    serde::Serialize,
    serde::Deserialize,
    rkyv::Archive,
    rkyv::Serialize,
    rkyv::Deserialize,
    serde_lite::Serialize,
    serde_lite::Deserialize,
)]
pub struct Inner {
    pub n: i64,
    pub name: String,
    pub flag: bool,
}

#[derive(
    Clone,
    Debug,
    PartialEq,
    serde::Serialize,
    serde::Deserialize,
    rkyv::Archive,
    rkyv::Serialize,
    rkyv::Deserialize,
    serde_lite::Serialize,
    serde_lite::Deserialize,
)]
pub struct Payload {
    pub id: u64,
    pub small: i8,
    pub text: String,
    pub opt: Option<String>,
    pub list: Vec<Inner>,
    pub nums: Vec<u32>,
    pub nested: Inner,
}

fn typed_body<E>(p: Payload, mode: u8, kind: u8, msg: String, mk: impl Fn(&str, String) -> E) -> Result<Payload, E> {
    if mode == 0 {
        Ok(p)
    } else {
        Err(mk(VARIANTS[kind as usize % VARIANTS.len()], msg))
    }
}

macro_rules! typed_fn {
    ($f:ident, $S:ident, $in:ident, $out:ident) => {
        // no `endpoint`: the path is derived from the function name (prefix + "/" + name + hash)
        #[server(name = $S, prefix = "/x", input = $in, output = $out, client = LoopClient, server = LoopServer)]
        pub async fn $f(p: Payload, mode: u8, kind: u8, msg: String) -> Result<Payload, ServerFnError> {
            typed_body(p, mode, kind, msg, |v, m| mk_n(v, m).unwrap())
        }
    };
    ($f:ident, $S:ident, $ep:literal, $in:ident, $out:ident) => {
        #[server(name = $S, prefix = "/api", endpoint = $ep, input = $in, output = $out, client = LoopClient, server = LoopServer)]
        pub async fn $f(p: Payload, mode: u8, kind: u8, msg: String) -> Result<Payload, ServerFnError> {
            typed_body(p, mode, kind, msg, |v, m| mk_n(v, m).unwrap())
        }
    };
}
typed_fn!(t_json, TJson, "t_json", Json, Json);
typed_fn!(t_geturl, TGeturl, "t_geturl", GetUrl, Json);
typed_fn!(t_deleteurl, TDeleteurl, "t_deleteurl", DeleteUrl, Json);
typed_fn!(t_patchurl, TPatchurl, "t_patchurl", PatchUrl, Json);
typed_fn!(t_puturl, TPuturl, "t_puturl", PutUrl, Json);
typed_fn!(t_cbor, TCbor, "t_cbor", Cbor, Cbor);
typed_fn!(t_msgpack, TMsgpack, "t_msgpack", MsgPack, MsgPack);
typed_fn!(t_postcard, TPostcard, "t_postcard", Postcard, Postcard);
typed_fn!(t_rkyv, TRkyv, "t_rkyv", Rkyv, Rkyv);
typed_fn!(t_serdelite, TSerdelite, "t_serdelite", SerdeLite, SerdeLite);
typed_fn!(t_patchjson, TPatchjson, "t_patchjson", PatchJson, PatchJson);
typed_fn!(t_putcbor, TPutcbor, "t_putcbor", PutCbor, PutCbor);
typed_fn!(t_json_cbor, TJsonCbor, "t_json_cbor", Json, Cbor);
typed_fn!(t_geturl_rkyv, TGeturlRkyv, "t_geturl_rkyv", GetUrl, Rkyv);
typed_fn!(t_postcard_msgpack, TPostcardMsgpack, "t_postcard_msgpack", Postcard, MsgPack);

/// the macro's defaults: `Http<PostUrl, Json>`
#[server(name = TPosturl, prefix = "/api", endpoint = "t_posturl", client = LoopClient, server = LoopServer)]
pub async fn t_posturl(p: Payload, mode: u8, kind: u8, msg: String) -> Result<Payload, ServerFnError> {
    typed_body(p, mode, kind, msg, |v, m| mk_n(v, m).unwrap())
}

/// a declared error type other than `ServerFnError`, with its own encoder
#[server(name = TCborApp, prefix = "/api", endpoint = "t_cbor_app", input = Cbor, output = Json, client = LoopClient, server = LoopServer)]
pub async fn t_cbor_app(p: Payload, mode: u8, code: i32, msg: String) -> Result<Payload, AppErr> {
    if mode == 0 {
        Ok(p)
    } else {
        Err(AppErr::Custom { code, msg })
    }
}

// ------------------------------------------------------------------ macro options, middleware, more error types

/// an application error type whose wire format is *binary* (CBOR)
#[derive(Debug, Clone, PartialEq, serde::Serialize, serde::Deserialize)]
pub enum BinErr {
    Sfe(ServerFnErrorErr),
    Custom { code: i32, msg: String },
}
impl Display for BinErr {
    fn fmt(&self, f: &mut std::fmt::Formatter<'_>) -> std::fmt::Result {
        write!(f, "{self:?}")
    }
}
impl FromServerFnError for BinErr {
    type Encoder = CborEncoding;
    fn from_server_fn_error(value: ServerFnErrorErr) -> Self {
        BinErr::Sfe(value)
    }
}

#[server(name = TJsonBin, prefix = "/api", endpoint = "t_json_bin", input = Json, output = Json, client = LoopClient, server = LoopServer)]
pub async fn t_json_bin(p: Payload, mode: u8, code: i32, msg: String) -> Result<Payload, BinErr> {
    if mode == 0 {
        Ok(p)
    } else {
        Err(BinErr::Custom { code, msg })
    }
}

/// no `endpoint`: the path is `prefix + "/" + function name + hash`
#[server(name = TDefaultPath, client = LoopClient, server = LoopServer)]
pub async fn t_default_path(p: Payload, mode: u8, kind: u8, msg: String) -> Result<Payload, ServerFnError> {
    typed_body(p, mode, kind, msg, |v, m| mk_n(v, m).unwrap())
}

/// a custom prefix and an endpoint written with leading slashes
#[server(name = TPrefix, prefix = "/rpc/v1", endpoint = "//t_prefix", input = Cbor, output = Cbor, client = LoopClient, server = LoopServer)]
pub async fn t_prefix(p: Payload, mode: u8, kind: u8, msg: String) -> Result<Payload, ServerFnError> {
    typed_body(p, mode, kind, msg, |v, m| mk_n(v, m).unwrap())
}

/// no `name`: the argument struct is the PascalCase function name
#[server(prefix = "/api", endpoint = "t_auto_name", input = GetUrl, output = Json, client = LoopClient, server = LoopServer)]
pub async fn t_auto_name(p: Payload, mode: u8, kind: u8, msg: String) -> Result<Payload, ServerFnError> {
    typed_body(p, mode, kind, msg, |v, m| mk_n(v, m).unwrap())
}

/// many top-level arguments, the macro's default encodings (`PostUrl` in, `Json` out)
#[allow(clippy::too_many_arguments)]
#[server(name = TMany, prefix = "/api", endpoint = "t_many", client = LoopClient, server = LoopServer)]
pub async fn t_many(
    id: u64,
    small: i8,
    text: String,
    opt: Option<String>,
    list: Vec<Inner>,
    nums: Vec<u32>,
    nested: Inner,
    mode: u8,
    kind: u8,
    msg: String,
) -> Result<Payload, ServerFnError> {
    typed_body(Payload { id, small, text, opt, list, nums, nested }, mode, kind, msg, |v, m| mk_n(v, m).unwrap())
}

/// `#[server(default)]` arguments: absent keys fall back to `Default`, so the URL encodings can carry
/// empty sequences; `#[server(rename = ..)]` changes the key on the wire
#[allow(clippy::too_many_arguments)]
#[server(name = TDefaults, prefix = "/api", endpoint = "t_defaults", input = GetUrl, output = Json, client = LoopClient, server = LoopServer)]
pub async fn t_defaults(
    id: u64,
    small: i8,
    #[server(rename = "txt")] text: String,
    #[server(default)] opt: Option<String>,
    #[server(default)] list: Vec<Inner>,
    #[server(default)] nums: Vec<u32>,
    nested: Inner,
    mode: u8,
    kind: u8,
    msg: String,
) -> Result<Payload, ServerFnError> {
    typed_body(Payload { id, small, text, opt, list, nums, nested }, mode, kind, msg, |v, m| mk_n(v, m).unwrap())
}

/// no arguments at all
#[server(name = NoArgsGet, prefix = "/api", endpoint = "noargs_get", input = GetUrl, output = Json, client = LoopClient, server = LoopServer)]
pub async fn noargs_get() -> Result<String, ServerFnError> {
    Ok("pong|\n".to_string())
}
#[server(name = NoArgsPost, prefix = "/api", endpoint = "noargs_post", client = LoopClient, server = LoopServer)]
pub async fn noargs_post() -> Result<String, ServerFnError> {
    Ok("pong|\n".to_string())
}
#[server(name = NoArgsCbor, prefix = "/api", endpoint = "noargs_cbor", input = Cbor, output = Cbor, client = LoopClient, server = LoopServer)]
pub async fn noargs_cbor() -> Result<String, ServerFnError> {
    Err(ServerFnError::ServerError("always|fails".into()))
}

/// pass-through middleware
pub struct IdLayer;
impl Layer<SReq, Response<Body>> for IdLayer {
    fn layer(&self, inner: BoxedService<SReq, Response<Body>>) -> BoxedService<SReq, Response<Body>> {
        inner
    }
}

/// middleware that answers by itself — through the `ser` hook of the boxed service — when the hex body
/// starts with `ff`, and otherwise hands the request on
pub struct BlockLayer;
struct BlockSvc(BoxedService<SReq, Response<Body>>);
impl Service<SReq, Response<Body>> for BlockSvc {
    fn run(
        &mut self,
        req: SReq,
        ser: fn(ServerFnErrorErr) -> Bytes,
    ) -> Pin<Box<dyn Future<Output = Response<Body>> + Send>> {
        if req.0.body().starts_with(b"ff") {
            let path = req.0.uri().path().to_string();
            let err = ser(ServerFnErrorErr::MiddlewareError("blocked|by middleware".into()));
            Box::pin(async move { <Response<Body> as Res>::error_response(&path, err) })
        } else {
            self.0.run(req)
        }
    }
}
impl Layer<SReq, Response<Body>> for BlockLayer {
    fn layer(&self, inner: BoxedService<SReq, Response<Body>>) -> BoxedService<SReq, Response<Body>> {
        BoxedService::new(inner.ser, BlockSvc(inner))
    }
}

#[server(name = TMwId, prefix = "/api", endpoint = "t_mw_id", input = Json, output = Json, client = LoopClient, server = LoopServer)]
#[middleware(IdLayer)]
pub async fn t_mw_id(p: Payload, mode: u8, kind: u8, msg: String) -> Result<Payload, ServerFnError> {
    typed_body(p, mode, kind, msg, |v, m| mk_n(v, m).unwrap())
}

#[server(name = HxMwId, prefix = "/api", endpoint = "hx_mw_id", input = HexPost, output = HexPost, client = LoopClient, server = LoopServer)]
#[middleware(IdLayer)]
pub async fn hx_mw_id(data: Vec<u8>) -> Result<Raw, ServerFnError> {
    hex_body(data)
}
impl AsRaw for HxMwId {
    fn raw(&self) -> &[u8] {
        &self.data
    }
    fn from_raw(v: Vec<u8>) -> Self {
        HxMwId { data: v }
    }
}

#[server(name = HxMwBlock, prefix = "/api", endpoint = "hx_mw_block", input = HexPost, output = HexPost, client = LoopClient, server = LoopServer)]
// (two `#[middleware]` attributes on one function do not compile at this commit: the macro expands them
// to `vec![Arc::new(a), , Arc::new(b),]`)
#[middleware(BlockLayer)]
pub async fn hx_mw_block(data: Vec<u8>) -> Result<Raw, ServerFnError> {
    hex_body(data)
}
impl AsRaw for HxMwBlock {
    fn raw(&self) -> &[u8] {
        &self.data
    }
    fn from_raw(v: Vec<u8>) -> Self {
        HxMwBlock { data: v }
    }
}

/// a `ServerFn` implemented by hand, generic in its argument
#[derive(Clone, Debug, serde::Serialize, serde::Deserialize)]
pub struct HandEcho<T> {
    pub p: T,
    pub mode: u8,
    pub kind: u8,
    pub msg: String,
}
impl<T> ServerFn for HandEcho<T>
where
    T: serde::Serialize + serde::de::DeserializeOwned + Send + 'static,
{
    const PATH: &'static str = "/api/hand_echo";
    type Client = LoopClient;
    type Server = LoopServer;
    type Protocol = Http<Json, Cbor>;
    type Output = T;
    type Error = ServerFnError;
    type InputStreamError = ServerFnError;
    type OutputStreamError = ServerFnError;
    fn run_body(self) -> impl Future<Output = Result<T, ServerFnError>> + Send {
        async move {
            if self.mode == 0 {
                Ok(self.p)
            } else {
                Err(mk_n(VARIANTS[self.kind as usize % VARIANTS.len()], self.msg).unwrap())
            }
        }
    }
}
server_fn::inventory::submit! {{
    ServerFnTraitObj::new::<HandEcho<Payload>>(|req| Box::pin(HandEcho::<Payload>::run_on_server(req)))
}}

/// every input encoding x every output codec that builds offline
macro_rules! cross_all {
    ($m:ident) => {
        $m! {
            x_json_json XJsonJson Json Json, x_json_cbor XJsonCbor Json Cbor, x_json_msgpack XJsonMsgpack Json MsgPack,
            x_json_postcard XJsonPostcard Json Postcard, x_json_rkyv XJsonRkyv Json Rkyv, x_json_serdelite XJsonSerdelite Json SerdeLite,
            x_geturl_json XGeturlJson GetUrl Json, x_geturl_cbor XGeturlCbor GetUrl Cbor, x_geturl_msgpack XGeturlMsgpack GetUrl MsgPack,
            x_geturl_postcard XGeturlPostcard GetUrl Postcard, x_geturl_rkyv XGeturlRkyv GetUrl Rkyv, x_geturl_serdelite XGeturlSerdelite GetUrl SerdeLite,
            x_posturl_json XPosturlJson PostUrl Json, x_posturl_cbor XPosturlCbor PostUrl Cbor, x_posturl_msgpack XPosturlMsgpack PostUrl MsgPack,
            x_posturl_postcard XPosturlPostcard PostUrl Postcard, x_posturl_rkyv XPosturlRkyv PostUrl Rkyv, x_posturl_serdelite XPosturlSerdelite PostUrl SerdeLite,
            x_deleteurl_json XDeleteurlJson DeleteUrl Json, x_deleteurl_cbor XDeleteurlCbor DeleteUrl Cbor, x_deleteurl_msgpack XDeleteurlMsgpack DeleteUrl MsgPack,
            x_deleteurl_postcard XDeleteurlPostcard DeleteUrl Postcard, x_deleteurl_rkyv XDeleteurlRkyv DeleteUrl Rkyv, x_deleteurl_serdelite XDeleteurlSerdelite DeleteUrl SerdeLite,
            x_patchurl_json XPatchurlJson PatchUrl Json, x_patchurl_cbor XPatchurlCbor PatchUrl Cbor, x_patchurl_msgpack XPatchurlMsgpack PatchUrl MsgPack,
            x_patchurl_postcard XPatchurlPostcard PatchUrl Postcard, x_patchurl_rkyv XPatchurlRkyv PatchUrl Rkyv, x_patchurl_serdelite XPatchurlSerdelite PatchUrl SerdeLite,
            x_puturl_json XPuturlJson PutUrl Json, x_puturl_cbor XPuturlCbor PutUrl Cbor, x_puturl_msgpack XPuturlMsgpack PutUrl MsgPack,
            x_puturl_postcard XPuturlPostcard PutUrl Postcard, x_puturl_rkyv XPuturlRkyv PutUrl Rkyv, x_puturl_serdelite XPuturlSerdelite PutUrl SerdeLite,
            x_cbor_json XCborJson Cbor Json, x_cbor_cbor XCborCbor Cbor Cbor, x_cbor_msgpack XCborMsgpack Cbor MsgPack,
            x_cbor_postcard XCborPostcard Cbor Postcard, x_cbor_rkyv XCborRkyv Cbor Rkyv, x_cbor_serdelite XCborSerdelite Cbor SerdeLite,
            x_msgpack_json XMsgpackJson MsgPack Json, x_msgpack_cbor XMsgpackCbor MsgPack Cbor, x_msgpack_msgpack XMsgpackMsgpack MsgPack MsgPack,
            x_msgpack_postcard XMsgpackPostcard MsgPack Postcard, x_msgpack_rkyv XMsgpackRkyv MsgPack Rkyv, x_msgpack_serdelite XMsgpackSerdelite MsgPack SerdeLite,
            x_postcard_json XPostcardJson Postcard Json, x_postcard_cbor XPostcardCbor Postcard Cbor, x_postcard_msgpack XPostcardMsgpack Postcard MsgPack,
            x_postcard_postcard XPostcardPostcard Postcard Postcard, x_postcard_rkyv XPostcardRkyv Postcard Rkyv, x_postcard_serdelite XPostcardSerdelite Postcard SerdeLite,
            x_rkyv_json XRkyvJson Rkyv Json, x_rkyv_cbor XRkyvCbor Rkyv Cbor, x_rkyv_msgpack XRkyvMsgpack Rkyv MsgPack,
            x_rkyv_postcard XRkyvPostcard Rkyv Postcard, x_rkyv_rkyv XRkyvRkyv Rkyv Rkyv, x_rkyv_serdelite XRkyvSerdelite Rkyv SerdeLite,
            x_serdelite_json XSerdeliteJson SerdeLite Json, x_serdelite_cbor XSerdeliteCbor SerdeLite Cbor, x_serdelite_msgpack XSerdeliteMsgpack SerdeLite MsgPack,
            x_serdelite_postcard XSerdelitePostcard SerdeLite Postcard, x_serdelite_rkyv XSerdeliteRkyv SerdeLite Rkyv, x_serdelite_serdelite XSerdeliteSerdelite SerdeLite SerdeLite,
            x_patchjson_putjson XPatchjsonPutjson PatchJson PutJson, x_putjson_patchcbor XPutjsonPatchcbor PutJson PatchCbor,
            x_patchcbor_json XPatchcborJson PatchCbor Json, x_putcbor_rkyv XPutcborRkyv PutCbor Rkyv,
            x_patchcbor_putrkyv XPatchcborPutrkyv PatchCbor PutRkyv, x_putjson_patchserdelite XPutjsonPatchserdelite PutJson PatchSerdeLite,
            x_patchmsgpack_putmsgpack XPatchmsgpackPutmsgpack PatchMsgPack PutMsgPack, x_putpostcard_patchpostcard XPutpostcardPatchpostcard PutPostcard PatchPostcard
        }
    };
}
macro_rules! cross_define {
    ($( $f:ident $S:ident $in:ident $out:ident ),* $(,)?) => {
        $( typed_fn!($f, $S, $in, $out); )*
    };
}
cross_all!(cross_define);

// `PatchRkyv` / `PutSerdeLite` as *input*: the macro picks the argument struct's derives from the literal
// names `Rkyv` / `SerdeLite` only, so the derives have to be given by hand (`input_derive`)
#[server(name = XPatchrkyvIn, prefix = "/x", input = PatchRkyv, output = PutRkyv, input_derive = (Clone, rkyv::Archive, rkyv::Serialize, rkyv::Deserialize), client = LoopClient, server = LoopServer)]
pub async fn x_patchrkyv_in(p: Payload, mode: u8, kind: u8, msg: String) -> Result<Payload, ServerFnError> {
    typed_body(p, mode, kind, msg, |v, m| mk_n(v, m).unwrap())
}
#[server(name = XPutserdeliteIn, prefix = "/x", input = PutSerdeLite, output = PatchSerdeLite, input_derive = (Clone, serde_lite::Serialize, serde_lite::Deserialize), client = LoopClient, server = LoopServer)]
pub async fn x_putserdelite_in(p: Payload, mode: u8, kind: u8, msg: String) -> Result<Payload, ServerFnError> {
    typed_body(p, mode, kind, msg, |v, m| mk_n(v, m).unwrap())
}

// ------------------------------------------------------------------ values with wide out-of-line data

/// the inline part is 4-aligned (relative pointers, `u32` lengths); the elements of the vectors and the boxed
/// value need 8 / 16 bytes alignment and live out of line
#[derive(Clone, Debug, PartialEq, serde::Serialize, serde::Deserialize, rkyv::Archive, rkyv::Serialize, rkyv::Deserialize)]
pub struct Wide {
    pub id: u32,
    pub readings: Vec<u64>,
    pub fl: Vec<f64>,
    pub big: Vec<u128>,
    pub boxed: Option<Box<i128>>,
    pub note: String,
}

macro_rules! wide_fn {
    ($f:ident, $S:ident, $ep:literal, $in:ident, $out:ident) => {
        #[server(name = $S, prefix = "/api", endpoint = $ep, input = $in, output = $out, client = LoopClient, server = LoopServer)]
        pub async fn $f(w: Wide, mode: u8, kind: u8, msg: String) -> Result<Wide, ServerFnError> {
            if mode == 0 {
                Ok(w)
            } else {
                Err(mk_n(VARIANTS[kind as usize % VARIANTS.len()], msg).unwrap())
            }
        }
    };
}
wide_fn!(w_rkyv, WRkyv, "w_rkyv", Rkyv, Rkyv);
wide_fn!(w_cbor, WCbor, "w_cbor", Cbor, Cbor);
wide_fn!(w_msgpack, WMsgpack, "w_msgpack", MsgPack, MsgPack);
wide_fn!(w_postcard, WPostcard, "w_postcard", Postcard, Postcard);
wide_fn!(w_json_rkyv, WJsonRkyv, "w_json_rkyv", Json, Rkyv);
wide_fn!(w_rkyv_json, WRkyvJson, "w_rkyv_json", Rkyv, Json);
wide_fn!(w_patchcbor_putrkyv, WPatchcborPutrkyv, "w_patchcbor_putrkyv", PatchCbor, PutRkyv);

const WIDE_FNS: &[&str] = &["w_rkyv", "w_cbor", "w_msgpack", "w_postcard", "w_json_rkyv", "w_rkyv_json", "w_patchcbor_putrkyv"];

fn wide_both(
    name: &str,
    w: &Wide,
    mode: u8,
    kind: u8,
    msg: &String,
) -> Option<(Result<Wide, ServerFnError>, Result<Wide, ServerFnError>)> {
    macro_rules! arms {
        ($( $f:ident => $S:ident ),*) => {
            match name {
                $( stringify!($f) => Some((
                    block_on($S { w: w.clone(), mode, kind, msg: msg.clone() }.run_on_client()),
                    block_on($f(w.clone(), mode, kind, msg.clone())),
                )), )*
                _ => None,
            }
        };
    }
    arms!(w_rkyv => WRkyv, w_cbor => WCbor, w_msgpack => WMsgpack, w_postcard => WPostcard, w_json_rkyv => WJsonRkyv,
        w_rkyv_json => WRkyvJson, w_patchcbor_putrkyv => WPatchcborPutrkyv)
}

fn show_wide_res(r: &Result<Wide, ServerFnError>) -> String {
    match r {
        Ok(w) => format!("ok {}", hex(serde_json::to_string(w).unwrap().as_bytes())),
        Err(e) => format!("err {}", show_err(e)),
    }
}

fn parse_place(s: &str) -> Option<Option<usize>> {
    if s == "own" {
        Some(None)
    } else {
        s.parse::<usize>().ok().filter(|k| *k < 16).map(Some)
    }
}

// ------------------------------------------------------------------ websocket protocol

/// what the server answers to one message: `!..` is refused with an error item, anything else is echoed
fn ws_reply(item: Result<String, ServerFnError>) -> Result<String, ServerFnError> {
    match item {
        Ok(s) if s.starts_with('!') => Err(ServerFnError::ServerError(s)),
        Ok(s) => Ok(format!("re:{s}")),
        Err(e) => Err(e),
    }
}

#[server(name = WsEcho, prefix = "/api", endpoint = "ws_echo", protocol = Websocket<JsonEncoding, JsonEncoding>, client = LoopClient, server = LoopServer)]
pub async fn ws_echo(
    input: BoxedStream<String, ServerFnError>,
) -> Result<BoxedStream<String, ServerFnError>, ServerFnError> {
    let s: Pin<Box<dyn Stream<Item = Result<String, ServerFnError>> + Send>> = input.into();
    Ok(s.map(ws_reply).into())
}

/// one conversation; `interactive`: the caller waits for the answer to message k before it sends k+1,
/// otherwise it pushes everything, ends its input and then reads.  `Err("hang")` = nothing arrives any more
fn converse(remote: bool, interactive: bool, msgs: &[String]) -> Vec<Result<Vec<u8>, String>> {
    let mut pool = LocalPool::new();
    SPAWNER.with(|s| *s.borrow_mut() = Some(pool.spawner()));
    let (in_tx, in_rx) = mpsc::unbounded::<String>();
    let input: BoxedStream<String, ServerFnError> = in_rx.map(Ok).into();
    let started = if remote { pool.run_until(WsEcho { input }.run_on_client()) } else { pool.run_until(ws_echo(input)) };
    let mut seen = vec![];
    match started {
        Err(e) => seen.push(Err(format!("start:{}", show_err(&e)))),
        Ok(out) => {
            let mut out: Pin<Box<dyn Stream<Item = Result<String, ServerFnError>> + Send>> = out.into();
            let mut in_tx = Some(in_tx);
            let mut next = |pool: &mut LocalPool| {
                pool.run_until_stalled();
                out.next().now_or_never()
            };
            if interactive {
                for m in msgs {
                    in_tx.as_ref().unwrap().unbounded_send(m.clone()).ok();
                    match next(&mut pool) {
                        Some(Some(item)) => seen.push(item.map(String::into_bytes).map_err(|e| show_err(&e))),
                        Some(None) => {
                            seen.push(Err("closed".into()));
                            break;
                        }
                        None => {
                            seen.push(Err("hang".into()));
                            break;
                        }
                    }
                }
                in_tx.take();
            } else {
                for m in msgs {
                    in_tx.as_ref().unwrap().unbounded_send(m.clone()).ok();
                }
                in_tx.take();
                for _ in msgs {
                    match next(&mut pool) {
                        Some(Some(item)) => seen.push(item.map(String::into_bytes).map_err(|e| show_err(&e))),
                        Some(None) => {
                            seen.push(Err("closed".into()));
                            break;
                        }
                        None => {
                            seen.push(Err("hang".into()));
                            break;
                        }
                    }
                }
            }
        }
    }
    pool.run_until_stalled();
    SPAWNER.with(|s| *s.borrow_mut() = None);
    seen
}

// ------------------------------------------------------------------ deeply nested values

/// a comment thread: recursion depth is a property of the value, not of the type
#[derive(Clone, Debug, PartialEq, serde::Serialize, serde::Deserialize, serde_lite::Serialize, serde_lite::Deserialize)]
pub struct Thread {
    pub id: u32,
    pub text: String,
    pub replies: Vec<Thread>,
}

/// `depth` levels below the root; every inner node has `width` replies, the first of which carries the rest
fn make_thread(depth: u32, width: u32) -> Thread {
    let mut t = Thread { id: 0, text: "leaf|0".into(), replies: vec![] };
    for d in 1..=depth {
        let mut replies = vec![t];
        for k in 1..width.max(1) {
            replies.push(Thread { id: d * 1000 + k, text: format!("r{k}"), replies: vec![] });
        }
        t = Thread { id: d, text: format!("t|{d}\n"), replies };
    }
    t
}

/// (depth, node count), without recursion
fn measure(t: &Thread) -> (u32, u32) {
    let (mut depth, mut nodes) = (0u32, 0u32);
    let mut stack = vec![(t, 0u32)];
    while let Some((n, d)) = stack.pop() {
        nodes += 1;
        depth = depth.max(d);
        for r in &n.replies {
            stack.push((r, d + 1));
        }
    }
    (depth, nodes)
}

/// drop without recursion (a deep value must not overflow the stack in the harness itself)
fn dismantle(t: Thread) {
    let mut stack = vec![t];
    while let Some(mut n) = stack.pop() {
        stack.append(&mut n.replies);
    }
}

macro_rules! deep_fn {
    ($f:ident, $S:ident, $ep:literal, $in:ident, $out:ident) => {
        #[server(name = $S, prefix = "/api", endpoint = $ep, input = $in, output = $out, client = LoopClient, server = LoopServer)]
        pub async fn $f(t: Thread) -> Result<Thread, ServerFnError> {
            Ok(t)
        }
    };
}
deep_fn!(d_json, DJson, "d_json", Json, Json);
deep_fn!(d_cbor, DCbor, "d_cbor", Cbor, Cbor);
deep_fn!(d_msgpack, DMsgpack, "d_msgpack", MsgPack, MsgPack);
deep_fn!(d_postcard, DPostcard, "d_postcard", Postcard, Postcard);
deep_fn!(d_serdelite, DSerdelite, "d_serdelite", SerdeLite, SerdeLite);
deep_fn!(d_json_cbor, DJsonCbor, "d_json_cbor", Json, Cbor);

fn deep_both(name: &str, t: &Thread) -> Option<(Result<Thread, ServerFnError>, Result<Thread, ServerFnError>)> {
    macro_rules! arms {
        ($( $f:ident => $S:ident ),*) => {
            match name {
                $( stringify!($f) => Some((block_on($S { t: t.clone() }.run_on_client()), block_on($f(t.clone())))), )*
                _ => None,
            }
        };
    }
    arms!(d_json => DJson, d_cbor => DCbor, d_msgpack => DMsgpack, d_postcard => DPostcard, d_serdelite => DSerdelite,
        d_json_cbor => DJsonCbor)
}

// ------------------------------------------------------------------ streaming

#[server(name = TextEcho, prefix = "/api", endpoint = "text_echo", input = StreamingText, output = StreamingText, client = LoopClient, server = LoopServer)]
pub async fn text_echo(input: TextStream) -> Result<TextStream, ServerFnError> {
    Ok(input)
}

/// `Streaming` as an input encoding needs an argument type that is itself a `Stream<Item = Bytes>`:
/// written by hand (the macro's argument struct is not a stream)
pub struct BytesEcho(Mutex<Pin<Box<dyn Stream<Item = Bytes> + Send>>>);
impl Stream for BytesEcho {
    type Item = Bytes;
    fn poll_next(mut self: Pin<&mut Self>, cx: &mut Context<'_>) -> Poll<Option<Bytes>> {
        self.0.get_mut().unwrap().as_mut().poll_next(cx)
    }
}
impl From<ByteStream> for BytesEcho {
    fn from(s: ByteStream) -> Self {
        BytesEcho(Mutex::new(Box::pin(s.into_inner().map(|c| match c {
            Ok(b) => b,
            Err(b) => b,
        }))))
    }
}
impl ServerFn for BytesEcho {
    const PATH: &'static str = "/api/bytes_echo";
    type Client = LoopClient;
    type Server = LoopServer;
    type Protocol = Http<Streaming, Streaming>;
    type Output = ByteStream;
    type Error = ServerFnError;
    type InputStreamError = ServerFnError;
    type OutputStreamError = ServerFnError;
    fn run_body(self) -> impl Future<Output = Result<ByteStream, ServerFnError>> + Send {
        async move { Ok(ByteStream::from(self)) }
    }
}
server_fn::inventory::submit! {{
    ServerFnTraitObj::new::<BytesEcho>(|req| Box::pin(BytesEcho::run_on_server(req)))
}}

/// one item of an output stream: `k = 0` is `Ok(b)`; for text `k = 1 + i` is `Err(i-th variant(b as text))`,
/// for bytes any other `k` is `Err(b)` (raw serialized error)
#[derive(Clone, Debug, PartialEq, serde::Serialize, serde::Deserialize)]
pub struct OutItem {
    pub k: u8,
    pub b: Vec<u8>,
}

fn text_item(i: OutItem) -> Result<String, ServerFnError> {
    let text = String::from_utf8(i.b).unwrap_or_default();
    if i.k == 0 {
        Ok(text)
    } else {
        Err(mk_n(VARIANTS[(i.k as usize - 1) % VARIANTS.len()], text).unwrap())
    }
}

/// a streamed *response*: `IntoRes<StreamingText>` on the server, `FromRes<StreamingText>` in the client
#[server(name = TextOut, prefix = "/api", endpoint = "text_out", input = Json, output = StreamingText, client = LoopClient, server = LoopServer)]
pub async fn text_out(items: Vec<OutItem>) -> Result<TextStream, ServerFnError> {
    Ok(TextStream::new(futures::stream::iter(items.into_iter().map(text_item))))
}

#[server(name = BytesOut, prefix = "/api", endpoint = "bytes_out", input = Json, output = Streaming, client = LoopClient, server = LoopServer)]
pub async fn bytes_out(items: Vec<OutItem>) -> Result<ByteStream, ServerFnError> {
    Ok(ByteStream::new(futures::stream::iter(items.into_iter().map(|i| {
        if i.k == 0 {
            Ok::<Bytes, Bytes>(Bytes::from(i.b))
        } else {
            Err(Bytes::from(i.b))
        }
    }))))
}

fn items_bytes(s: ByteStream) -> Vec<Result<Vec<u8>, Vec<u8>>> {
    block_on(s.into_inner().collect::<Vec<_>>())
        .into_iter()
        .map(|i| i.map(|b| b.to_vec()).map_err(|b| b.to_vec()))
        .collect()
}

/// the text (bytes) before the first error and that error: what survives any re-chunking
fn prefix_key<E: Clone>(items: &[Result<Vec<u8>, E>]) -> (Vec<u8>, Option<E>) {
    let mut t = vec![];
    for i in items {
        match i {
            Ok(b) => t.extend_from_slice(b),
            Err(e) => return (t, Some(e.clone())),
        }
    }
    (t, None)
}

fn parse_out_items(kind: &str, s: &str) -> Option<Vec<OutItem>> {
    if s == "none" {
        return Some(vec![]);
    }
    s.split(',')
        .map(|w| {
            let (tag, rest) = w.split_at(w.char_indices().nth(1)?.0);
            match (kind, tag) {
                (_, "o") => {
                    let b = unhex(rest)?;
                    if kind == "text" {
                        String::from_utf8(b.clone()).ok()?;
                    }
                    Some(OutItem { k: 0, b })
                }
                ("text", "e") => {
                    let (v, m) = rest.split_once(':')?;
                    let k = VARIANTS.iter().position(|x| *x == v)?;
                    Some(OutItem { k: 1 + k as u8, b: unhex_str(m)?.into_bytes() })
                }
                ("bytes", "x") => Some(OutItem { k: 1, b: unhex(rest)? }),
                _ => None,
            }
        })
        .collect()
}

fn items_text(s: TextStream) -> Vec<Result<Vec<u8>, String>> {
    block_on(s.into_inner().collect::<Vec<_>>())
        .into_iter()
        .map(|i| i.map(String::into_bytes).map_err(|e| show_err(&e)))
        .collect()
}

fn show_items(items: &[Result<Vec<u8>, String>]) -> String {
    if items.is_empty() {
        return "-".into();
    }
    items
        .iter()
        .map(|i| match i {
            Ok(b) => format!("o{}", hex(b)),
            Err(e) => format!("e{e}"),
        })
        .collect::<Vec<_>>()
        .join(",")
}

// ------------------------------------------------------------------ ops

fn guard<T>(f: impl FnOnce() -> T) -> Option<T> {
    let r = catch_unwind(AssertUnwindSafe(f));
    TRANSPORT.with(|t| *t.borrow_mut() = Transport::default());
    r.ok()
}

fn show_hex_res(r: &Result<Raw, ServerFnError>) -> String {
    match r {
        Ok(Raw(b)) => format!("ok {}", hex(b)),
        Err(e) => format!("err {}", show_err(e)),
    }
}

fn show_typed_res(r: &Result<Payload, ServerFnError>) -> String {
    match r {
        Ok(p) => format!("ok {}", hex(serde_json::to_string(p).unwrap().as_bytes())),
        Err(e) => format!("err {}", show_err(e)),
    }
}

fn show_app_res(r: &Result<Payload, AppErr>) -> String {
    match r {
        Ok(p) => format!("ok {}", hex(serde_json::to_string(p).unwrap().as_bytes())),
        Err(AppErr::Sfe(e)) => format!("err appsfe:{}", show_sfe_err(e)),
        Err(e) => format!("err app:{}", hex(serde_json::to_string(e).unwrap().as_bytes())),
    }
}

fn hex_remote(f: &str, data: Vec<u8>) -> Option<Result<Raw, ServerFnError>> {
    Some(match f {
        "hx_post" => block_on(HxPost { data }.run_on_client()),
        "hx_patch" => block_on(HxPatch { data }.run_on_client()),
        "hx_put" => block_on(HxPut { data }.run_on_client()),
        "hx_mw_id" => block_on(HxMwId { data }.run_on_client()),
        "hx_mw_block" => block_on(HxMwBlock { data }.run_on_client()),
        _ => return None,
    })
}

/// what the remote caller must see: the direct call, except where a middleware is documented to answer itself
fn hex_expected(f: &str, data: Vec<u8>) -> Option<Result<Raw, ServerFnError>> {
    if f == "hx_mw_block" && data.first() == Some(&0xff) {
        return Some(Err(ServerFnError::MiddlewareError("blocked|by middleware".into())));
    }
    hex_direct(f, data)
}

fn hex_direct(f: &str, data: Vec<u8>) -> Option<Result<Raw, ServerFnError>> {
    Some(match f {
        "hx_post" => block_on(hx_post(data)),
        "hx_patch" => block_on(hx_patch(data)),
        "hx_put" => block_on(hx_put(data)),
        "hx_mw_id" => block_on(hx_mw_id(data)),
        "hx_mw_block" => block_on(hx_mw_block(data)),
        _ => return None,
    })
}

macro_rules! typed_dispatch {
    ($name:expr, $p:expr, $mode:expr, $kind:expr, $msg:expr; $( $f:ident => $S:ident ),* ) => {
        match $name {
            $( stringify!($f) => Some((
                block_on($S { p: $p.clone(), mode: $mode, kind: $kind, msg: $msg.clone() }.run_on_client()),
                block_on($f($p.clone(), $mode, $kind, $msg.clone())),
            )), )*
            _ => None,
        }
    };
}

/// (remote, direct)
fn typed_both(
    name: &str,
    p: &Payload,
    mode: u8,
    kind: u8,
    msg: &String,
) -> Option<(Result<Payload, ServerFnError>, Result<Payload, ServerFnError>)> {
    typed_dispatch!(name, p, mode, kind, msg;
        t_json => TJson, t_geturl => TGeturl, t_posturl => TPosturl, t_deleteurl => TDeleteurl,
        t_patchurl => TPatchurl, t_puturl => TPuturl, t_cbor => TCbor, t_msgpack => TMsgpack,
        t_postcard => TPostcard, t_rkyv => TRkyv, t_serdelite => TSerdelite, t_patchjson => TPatchjson,
        t_putcbor => TPutcbor, t_json_cbor => TJsonCbor, t_geturl_rkyv => TGeturlRkyv,
        t_postcard_msgpack => TPostcardMsgpack,
        t_default_path => TDefaultPath, t_prefix => TPrefix, t_auto_name => TAutoName, t_mw_id => TMwId,
        x_patchrkyv_in => XPatchrkyvIn, x_putserdelite_in => XPutserdeliteIn)
    .or_else(|| cross_both(name, p, mode, kind, msg))
    .or_else(|| {
        let q = p.clone();
        let m = msg.clone();
        match name {
            "t_many" => Some((
                block_on(
                    TMany { id: q.id, small: q.small, text: q.text.clone(), opt: q.opt.clone(), list: q.list.clone(), nums: q.nums.clone(), nested: q.nested.clone(), mode, kind, msg: m.clone() }
                        .run_on_client(),
                ),
                block_on(t_many(q.id, q.small, q.text, q.opt, q.list, q.nums, q.nested, mode, kind, m)),
            )),
            "t_defaults" => Some((
                block_on(
                    TDefaults { id: q.id, small: q.small, text: q.text.clone(), opt: q.opt.clone(), list: q.list.clone(), nums: q.nums.clone(), nested: q.nested.clone(), mode, kind, msg: m.clone() }
                        .run_on_client(),
                ),
                block_on(t_defaults(q.id, q.small, q.text, q.opt, q.list, q.nums, q.nested, mode, kind, m)),
            )),
            "hand_echo" => Some((
                block_on(HandEcho { p: q.clone(), mode, kind, msg: m.clone() }.run_on_client()),
                block_on(HandEcho { p: q, mode, kind, msg: m }.run_body()),
            )),
            _ => None,
        }
    })
}

macro_rules! cross_dispatch {
    ($( $f:ident $S:ident $in:ident $out:ident ),* $(,)?) => {
        fn cross_both(
            name: &str,
            p: &Payload,
            mode: u8,
            kind: u8,
            msg: &String,
        ) -> Option<(Result<Payload, ServerFnError>, Result<Payload, ServerFnError>)> {
            match name {
                $( stringify!($f) => Some((
                    block_on($S { p: p.clone(), mode, kind, msg: msg.clone() }.run_on_client()),
                    block_on($f(p.clone(), mode, kind, msg.clone())),
                )), )*
                _ => None,
            }
        }
        const CROSS: &[&str] = &[ $( stringify!($f) ),* ];
        fn cross_path(name: &str) -> Option<(&'static str, Method)> {
            match name {
                $( stringify!($f) => Some((<$S as ServerFn>::PATH, <<$S as ServerFn>::Protocol as server_fn::Protocol<$S, Payload, LoopClient, LoopServer, ServerFnError>>::METHOD)), )*
                _ => None,
            }
        }
    };
}
cross_all!(cross_dispatch);

/// typed functions outside the cross product with the common `(p, mode, kind, msg)` behaviour
const EXTRA_TYPED: &[&str] = &[
    "t_default_path", "t_prefix", "t_auto_name", "t_mw_id", "x_patchrkyv_in", "x_putserdelite_in", "t_many", "t_defaults",
    "hand_echo",
];
/// functions whose declared error type is not `ServerFnError`
const APP_FNS: &[&str] = &["t_cbor_app", "t_json_bin"];

fn is_typed(f: &str) -> bool {
    TYPED.contains(&f) || EXTRA_TYPED.contains(&f) || CROSS.contains(&f) || APP_FNS.contains(&f)
}

macro_rules! path_table {
    ($name:expr; $( $f:literal => $S:ty ),* $(,)?) => {
        match $name {
            $( $f => Some(<$S as ServerFn>::PATH), )*
            _ => None,
        }
    };
}

/// the path the client calls for a function (`ServerFn::PATH`)
fn path_of(f: &str) -> Option<&'static str> {
    if let Some((p, _)) = cross_path(f) {
        return Some(p);
    }
    path_table!(f;
        "t_json" => TJson, "t_geturl" => TGeturl, "t_posturl" => TPosturl, "t_deleteurl" => TDeleteurl,
        "t_patchurl" => TPatchurl, "t_puturl" => TPuturl, "t_cbor" => TCbor, "t_msgpack" => TMsgpack,
        "t_postcard" => TPostcard, "t_rkyv" => TRkyv, "t_serdelite" => TSerdelite, "t_patchjson" => TPatchjson,
        "t_putcbor" => TPutcbor, "t_json_cbor" => TJsonCbor, "t_geturl_rkyv" => TGeturlRkyv,
        "t_postcard_msgpack" => TPostcardMsgpack, "t_cbor_app" => TCborApp, "t_json_bin" => TJsonBin,
        "t_default_path" => TDefaultPath, "t_prefix" => TPrefix, "t_auto_name" => TAutoName, "t_mw_id" => TMwId,
        "x_patchrkyv_in" => XPatchrkyvIn, "x_putserdelite_in" => XPutserdeliteIn, "t_many" => TMany,
        "t_defaults" => TDefaults, "hand_echo" => HandEcho<Payload>, "hx_post" => HxPost, "hx_patch" => HxPatch,
        "hx_put" => HxPut, "hx_mw_id" => HxMwId, "hx_mw_block" => HxMwBlock, "noargs_get" => NoArgsGet,
        "noargs_post" => NoArgsPost, "noargs_cbor" => NoArgsCbor, "text_echo" => TextEcho, "bytes_echo" => BytesEcho,
        "text_out" => TextOut, "bytes_out" => BytesOut)
}

const TYPED: &[&str] = &[
    "t_json", "t_geturl", "t_posturl", "t_deleteurl", "t_patchurl", "t_puturl", "t_cbor", "t_msgpack", "t_postcard",
    "t_rkyv", "t_serdelite", "t_patchjson", "t_putcbor", "t_json_cbor", "t_geturl_rkyv", "t_postcard_msgpack",
];
/// input encodings whose client and server halves disagree on where the arguments travel
/// (none since the repair of F-C13-1; before it: t_patchurl, t_puturl)
const SLOT_MISMATCH: &[&str] = &[];

/// the arguments of a `tcall`/`corrupt` op after the function name
enum TMode {
    Echo,
    Fail(u8, String),
    FailApp(i32, String),
}

fn parse_tmode(fn_name: &str, w: &[&str]) -> Option<(Payload, TMode)> {
    let p: Payload = serde_json::from_slice(&unhex(w.get(1)?)?).ok()?;
    let m = match (w[0], w.len()) {
        ("echo", 2) => TMode::Echo,
        ("fail", 4) if !APP_FNS.contains(&fn_name) => {
            let k = VARIANTS.iter().position(|v| v == &w[2])?;
            TMode::Fail(k as u8, unhex_str(w[3])?)
        }
        ("failapp", 3) if APP_FNS.contains(&fn_name) => match serde_json::from_slice::<AppErr>(&unhex(w[2])?).ok()? {
            AppErr::Custom { code, msg } => TMode::FailApp(code, msg),
            _ => return None,
        },
        _ => return None,
    };
    Some((p, m))
}

/// (remote observable, direct observable)
fn show_bin_res(r: &Result<Payload, BinErr>) -> String {
    match r {
        Ok(p) => format!("ok {}", hex(serde_json::to_string(p).unwrap().as_bytes())),
        Err(BinErr::Sfe(e)) => format!("err appsfe:{}", show_sfe_err(e)),
        Err(e) => format!("err app:{}", hex(serde_json::to_string(e).unwrap().as_bytes())),
    }
}

fn run_typed(fn_name: &str, p: &Payload, m: &TMode) -> Option<(String, String)> {
    if fn_name == "t_json_bin" {
        let (mode, code, msg) = match m {
            TMode::Echo => (0, 0, String::new()),
            TMode::FailApp(c, s) => (1, *c, s.clone()),
            _ => return None,
        };
        let remote = block_on(TJsonBin { p: p.clone(), mode, code, msg: msg.clone() }.run_on_client());
        let direct = block_on(t_json_bin(p.clone(), mode, code, msg));
        return Some((show_bin_res(&remote), show_bin_res(&direct)));
    }
    if fn_name == "t_cbor_app" {
        let (mode, code, msg) = match m {
            TMode::Echo => (0, 0, String::new()),
            TMode::FailApp(c, s) => (1, *c, s.clone()),
            _ => return None,
        };
        let remote = block_on(TCborApp { p: p.clone(), mode, code, msg: msg.clone() }.run_on_client());
        let direct = block_on(t_cbor_app(p.clone(), mode, code, msg));
        return Some((show_app_res(&remote), show_app_res(&direct)));
    }
    let (mode, kind, msg) = match m {
        TMode::Echo => (0, 0, String::new()),
        TMode::Fail(k, s) => (1, *k, s.clone()),
        _ => return None,
    };
    let (remote, direct) = typed_both(fn_name, p, mode, kind, &msg)?;
    Some((show_typed_res(&remote), show_typed_res(&direct)))
}

fn op_ser<C>(e: ServerFnError<C>) -> String
where
    C: std::fmt::Debug + Display + FromStr + PartialEq + 'static,
{
    let Some((bytes, back)) = guard(|| {
        let b = e.ser();
        let back = ServerFnError::<C>::de(b.clone());
        (b, back)
    }) else {
        return "panic ## fail panic".into();
    };
    let v = if custom_law(&e) && back != e { "fail error-roundtrip" } else { "ok" };
    format!("{} {} ## {}", hex(&bytes), show_err(&back), v)
}

fn op_de<C>(b: Vec<u8>) -> String
where
    C: std::fmt::Debug + Display + FromStr + 'static,
{
    match guard(|| ServerFnError::<C>::de(Bytes::from(b))) {
        Some(e) => format!("{} ## ok", show_err(&e)),
        None => "panic ## fail panic".into(),
    }
}

fn op_decerr<C>(s: &str) -> String
where
    C: std::fmt::Debug + Display + FromStr + 'static,
{
    match guard(|| ServerFnUrlError::<ServerFnError<C>>::decode_err(s)) {
        Some(e) => format!("{} ## ok", show_err(&e)),
        None => "panic ## fail panic".into(),
    }
}

fn last_pair(u: &url::Url, key: &str) -> Option<String> {
    u.query_pairs().filter(|(k, _)| k == key).last().map(|(_, v)| v.into_owned())
}

fn op_tourl<C>(e: ServerFnError<C>, base: &str, path: &str) -> String
where
    C: std::fmt::Debug + Display + FromStr + PartialEq + Clone + 'static,
{
    let law = custom_law(&e);
    let Some(r) = guard(|| ServerFnUrlError::new(path, e.clone()).to_url(base)) else {
        return "panic ## fail panic".into();
    };
    let Ok(u) = r else { return "parse-error ## ok".into() };
    let s = u.to_string();
    // independent reading of the URL: the url crate's own parser, last occurrence of each key
    let parsed = url::Url::parse(&s).ok();
    let errv = parsed.as_ref().and_then(|u| last_pair(u, "__err"));
    let pathv = parsed.as_ref().and_then(|u| last_pair(u, "__path"));
    let Some(back) = guard(|| errv.as_deref().map(ServerFnUrlError::<ServerFnError<C>>::decode_err)) else {
        return "panic ## fail panic".into();
    };
    let good = (!law || back.as_ref() == Some(&e)) && pathv.as_deref() == Some(path);
    format!(
        "{} {} {} ## {}",
        hex(s.as_bytes()),
        back.as_ref().map(show_err).unwrap_or("none".into()),
        pathv.map(|p| hex(p.as_bytes())).unwrap_or("none".into()),
        if good { "ok" } else { "fail url-roundtrip" }
    )
}

fn other_pairs(u: &url::Url) -> Vec<(String, String)> {
    u.query_pairs()
        .filter(|(k, _)| k != "__path" && k != "__err")
        .map(|(k, v)| (k.into_owned(), v.into_owned()))
        .collect()
}

fn op_strip(s: String) -> String {
    let mut out = s.clone();
    if guard(|| ServerFnUrlError::<ServerFnError>::strip_error_info(&mut out)).is_none() {
        return "panic ## fail panic".into();
    }
    let good = match (url::Url::parse(&s), url::Url::parse(&out)) {
        (Ok(a), Ok(b)) => {
            other_pairs(&a) == b.query_pairs().map(|(k, v)| (k.into_owned(), v.into_owned())).collect::<Vec<_>>()
                && a[..url::Position::AfterPath] == b[..url::Position::AfterPath]
                && a.fragment() == b.fragment()
        }
        (Err(_), _) => out == s,
        _ => false,
    };
    format!("{} ## {}", hex(out.as_bytes()), if good { "ok" } else { "fail strip" })
}

#[derive(Clone, Copy, PartialEq)]
enum ErrTy {
    Sfe,
    App,
    Bin,
}

/// what the browser is redirected to by the `<form>` fallback, and what the page behind it reads
fn form_observe(path: &str, ety: ErrTy, referer: &Option<String>, raw: RawRes, direct: &str) -> String {
    let loc = raw.location.clone();
    let parsed = loc.as_deref().and_then(|l| url::Url::parse(l).ok());
    let errv = parsed.as_ref().and_then(|u| last_pair(u, "__err"));
    let pathv = parsed.as_ref().and_then(|u| last_pair(u, "__path"));
    let Some(decoded) = guard(|| {
        errv.as_deref().map(|v| match ety {
            ErrTy::Sfe => show_err(&ServerFnUrlError::<ServerFnError>::decode_err(v)),
            ErrTy::App => show_app_res(&Err(ServerFnUrlError::<AppErr>::decode_err(v)))[4..].to_string(),
            ErrTy::Bin => show_bin_res(&Err(ServerFnUrlError::<BinErr>::decode_err(v)))[4..].to_string(),
        })
    }) else {
        return "panic ## fail panic".into();
    };
    let shown_loc = match (&loc, ety) {
        (None, _) => "none".to_string(),
        (Some(l), ErrTy::Sfe) => hex(l.as_bytes()),
        (Some(l), _) => match l.rfind("__err=") {
            Some(i) => hex(l[..i + 6].as_bytes()),
            None => hex(l.as_bytes()),
        },
    };
    let good = raw.status == 302
        && match direct.strip_prefix("err ") {
            Some(x) => decoded.as_deref() == Some(x) && pathv.as_deref() == Some(path),
            None => {
                errv.is_none()
                    && pathv.is_none()
                    && match referer {
                        None => loc.as_deref() == Some("/"),
                        Some(r) => match (url::Url::parse(r), &parsed) {
                            (Ok(a), Some(b)) => {
                                other_pairs(&a)
                                    == b.query_pairs().map(|(k, v)| (k.into_owned(), v.into_owned())).collect::<Vec<_>>()
                                    && a[..url::Position::AfterPath] == b[..url::Position::AfterPath]
                                    && a.fragment() == b.fragment()
                            }
                            (Err(_), _) => loc.as_deref() == Some(r.as_str()),
                            _ => false,
                        },
                    }
            }
        };
    format!(
        "{} {} {} {} ## {}",
        raw.status,
        shown_loc,
        decoded.unwrap_or("none".into()),
        pathv.map(|p| hex(p.as_bytes())).unwrap_or("none".into()),
        if good { "ok" } else { "fail form-fallback" }
    )
}

fn op(line: &str) -> String {
    let w: Vec<&str> = line.split_whitespace().collect();
    match w.as_slice() {
        ["case", n] => match n.rsplit_once('-') {
            Some((_, tag)) if !tag.is_empty() && tag.chars().all(|c| c.is_ascii_alphabetic()) => {
                format!("case {n} tags={tag}")
            }
            _ => format!("case {n}"),
        },
        ["ser", ty, variant, mh] => {
            let Some(m) = unhex_str(mh) else { return "bad-op".into() };
            match *ty {
                "n" => mk_n(variant, m).map(op_ser).unwrap_or("bad-op".into()),
                "c" => mk_c(variant, m).map(op_ser).unwrap_or("bad-op".into()),
                _ => "bad-op".into(),
            }
        }
        ["de", ty, bh] => {
            let Some(b) = unhex(bh) else { return "bad-op".into() };
            match *ty {
                "n" => op_de::<NoCustomError>(b),
                "c" => op_de::<Cust>(b),
                _ => "bad-op".into(),
            }
        }
        ["tourl", ty, baseh, pathh, variant, mh] => {
            let (Some(base), Some(path), Some(m)) = (unhex_str(baseh), unhex_str(pathh), unhex_str(mh)) else {
                return "bad-op".into();
            };
            match *ty {
                "n" => mk_n(variant, m).map(|e| op_tourl(e, &base, &path)).unwrap_or("bad-op".into()),
                "c" => mk_c(variant, m).map(|e| op_tourl(e, &base, &path)).unwrap_or("bad-op".into()),
                _ => "bad-op".into(),
            }
        }
        ["decerr", ty, sh] => {
            let Some(s) = unhex_str(sh) else { return "bad-op".into() };
            match *ty {
                "n" => op_decerr::<NoCustomError>(&s),
                "c" => op_decerr::<Cust>(&s),
                _ => "bad-op".into(),
            }
        }
        ["strip", uh] => match unhex_str(uh) {
            Some(s) => op_strip(s),
            None => "bad-op".into(),
        },
        ["call", f, ah] => {
            let Some(a) = unhex(ah) else { return "bad-op".into() };
            let Some(direct) = hex_expected(f, a.clone()) else { return "bad-op".into() };
            match guard(|| hex_remote(f, a)) {
                Some(Some(remote)) => {
                    let v = if remote == direct { "ok" } else { "fail pipeline" };
                    format!("{} ## {}", show_hex_res(&remote), v)
                }
                _ => "panic ## fail panic".into(),
            }
        }
        ["tcall", f, rest @ ..] if rest.len() >= 2 => {
            if !is_typed(f) {
                return "bad-op".into();
            }
            let Some((p, m)) = parse_tmode(f, rest) else { return "bad-op".into() };
            match guard(|| run_typed(f, &p, &m)) {
                Some(Some((remote, direct))) => {
                    let cls = if SLOT_MISMATCH.contains(f) { "slot-mismatch" } else { "pipeline" };
                    let v = if remote == direct { "ok".to_string() } else { format!("fail {cls}") };
                    format!("{remote} ## {v}")
                }
                Some(None) => "bad-op".into(),
                None => "panic ## fail panic".into(),
            }
        }
        ["canned", f, st, bh, ah] => {
            let (Ok(status), Some(b), Some(a)) = (st.parse::<u16>(), unhex(bh), unhex(ah)) else {
                return "bad-op".into();
            };
            if hex_direct(f, vec![]).is_none() {
                return "bad-op".into();
            }
            let b2 = b.clone();
            let r = guard(move || {
                TRANSPORT.with(|t| t.borrow_mut().canned = Some((status, b2)));
                hex_remote(f, a)
            });
            // the rule, evaluated independently: 400..=599 -> the error decoder, anything else -> the output decoder
            let expect: Result<Raw, ServerFnError> = if (400..=599).contains(&status) {
                Err(ServerFnError::de(Bytes::from(b)))
            } else {
                plain_unhex(&b).map(Raw).ok_or(ServerFnError::Deserialization("bad hex".into()))
            };
            match r {
                Some(Some(r)) => {
                    let v = if r == expect { "ok" } else { "fail status-rule" };
                    format!("{} ## {}", show_hex_res(&r), v)
                }
                _ => "panic ## fail panic".into(),
            }
        }
        ["rawreq", f, ms, qh, bh] => {
            let (Ok(method), Some(b)) = (Method::from_str(ms), unhex(bh)) else { return "bad-op".into() };
            if hex_direct(f, vec![]).is_none() || !["GET", "POST", "PUT", "PATCH", "DELETE"].contains(ms) {
                return "bad-op".into();
            }
            let uri = if *qh == "none" {
                format!("/api/{f}")
            } else {
                let Some(q) = unhex_str(qh) else { return "bad-op".into() };
                format!("/api/{f}?{q}")
            };
            let Ok(req) = Request::builder().method(method).uri(uri).body(Bytes::from(b)) else {
                return "bad-op".into();
            };
            match guard(|| {
                block_on(async {
                    let res = dispatch(req).await;
                    (res.status().as_u16(), collect_body(res.into_body()).await)
                })
            }) {
                Some((status, chunks)) => {
                    let body: Vec<u8> = chunks.into_iter().flat_map(|c| c.unwrap_or_else(|e| e).to_vec()).collect();
                    let good = status == 200
                        || status == 400
                        || (status == 500 && ServerFnError::<NoCustomError>::de(Bytes::from(body.clone())).ser() == body);
                    format!("{status} {} ## {}", hex(&body), if good { "ok" } else { "fail server-response" })
                }
                None => "panic ## fail panic".into(),
            }
        }
        ["corrupth", f, side, spec, ah] => {
            let (Some(m), Some(a)) = (parse_mut(spec), unhex(ah)) else { return "bad-op".into() };
            if hex_direct(f, vec![]).is_none() || !["req", "res"].contains(side) {
                return "bad-op".into();
            }
            let side = side.to_string();
            match guard(move || {
                TRANSPORT.with(|t| {
                    let mut t = t.borrow_mut();
                    if side == "req" {
                        t.req_mut = Some(m)
                    } else {
                        t.res_mut = Some(m)
                    }
                });
                hex_remote(f, a)
            }) {
                Some(Some(r)) => format!("{} ## ok", show_hex_res(&r)),
                _ => "panic ## fail panic".into(),
            }
        }
        ["corrupt", f, side, spec, rest @ ..] if rest.len() >= 2 => {
            let Some(m) = parse_mut(spec) else { return "bad-op".into() };
            if !is_typed(f) || !["req", "res"].contains(side) {
                return "bad-op".into();
            }
            let Some((p, tm)) = parse_tmode(f, rest) else { return "bad-op".into() };
            let side = side.to_string();
            match guard(move || {
                TRANSPORT.with(|t| {
                    let mut t = t.borrow_mut();
                    if side == "req" {
                        t.req_mut = Some(m)
                    } else {
                        t.res_mut = Some(m)
                    }
                });
                run_typed(f, &p, &tm)
            }) {
                // any Ok(..) or Err(declared error type) is acceptable; only a panic is a failure
                Some(Some(_)) => "done ## ok".into(),
                Some(None) => "bad-op".into(),
                None => "done ## fail panic".into(),
            }
        }
        ["wcall", f, rqp, rsp, mode, wh, rest @ ..] => {
            let (Some(rq), Some(rs), Some(wb)) = (parse_place(rqp), parse_place(rsp), unhex(wh)) else {
                return "bad-op".into();
            };
            let Ok(w) = serde_json::from_slice::<Wide>(&wb) else { return "bad-op".into() };
            let (m, kind, msg) = match (*mode, rest) {
                ("echo", []) => (0u8, 0u8, String::new()),
                ("fail", [v, mh]) => {
                    let (Some(k), Some(m)) = (VARIANTS.iter().position(|x| x == v), unhex_str(mh)) else {
                        return "bad-op".into();
                    };
                    (1, k as u8, m)
                }
                _ => return "bad-op".into(),
            };
            if !WIDE_FNS.contains(f) {
                return "bad-op".into();
            }
            match guard(|| {
                TRANSPORT.with(|t| {
                    let mut t = t.borrow_mut();
                    t.req_place = rq;
                    t.res_place = rs;
                });
                wide_both(f, &w, m, kind, &msg)
            }) {
                Some(Some((remote, direct))) => {
                    format!("{} ## {}", show_wide_res(&remote), if remote == direct { "ok" } else { "fail pipeline" })
                }
                Some(None) => "bad-op".into(),
                None => "panic ## fail panic".into(),
            }
        }
        ["ws", mode, mh] => {
            let interactive = match *mode {
                "interactive" => true,
                "batch" => false,
                _ => return "bad-op".into(),
            };
            let msgs: Option<Vec<String>> = if *mh == "none" { Some(vec![]) } else { mh.split(',').map(unhex_str).collect() };
            let Some(msgs) = msgs else { return "bad-op".into() };
            let m2 = msgs.clone();
            let Some(remote) = guard(move || converse(true, interactive, &m2)) else {
                SPAWNER.with(|s| *s.borrow_mut() = None);
                return "panic ## fail panic".into();
            };
            let direct = converse(false, interactive, &msgs);
            format!("{} ## {}", show_items(&remote), if remote == direct { "ok" } else { "fail websocket" })
        }
        ["dcall", f, ds, ws] => {
            let (Ok(depth), Ok(width)) = (ds.parse::<u32>(), ws.parse::<u32>()) else { return "bad-op".into() };
            if depth > 400 || width > 4 || width == 0 {
                return "bad-op".into();
            }
            let t = make_thread(depth, width);
            let show = move |r: Result<Thread, ServerFnError>| match r {
                Ok(t) => {
                    let (d, n) = measure(&t);
                    let whole = t == make_thread(d, width);
                    dismantle(t);
                    format!("ok {d} {n}{}", if whole { "" } else { " altered" })
                }
                Err(e) => format!("err {}", show_err(&e).split(':').next().unwrap_or("?")),
            };
            let r = std::thread::Builder::new()
                .stack_size(64 << 20)
                .spawn({
                    let f = f.to_string();
                    move || {
                        quiet_panics();
                        let out = catch_unwind(AssertUnwindSafe(|| deep_both(&f, &t).map(|(r, d)| (show(r), show(d)))));
                        dismantle(t);
                        out
                    }
                })
                .unwrap()
                .join();
            match r {
                Ok(Ok(Some((remote, direct)))) => {
                    format!("{remote} ## {}", if remote == direct { "ok" } else { "fail deep-nesting" })
                }
                Ok(Ok(None)) => "bad-op".into(),
                _ => "panic ## fail panic".into(),
            }
        }
        ["ncall", f] => {
            let run = |f: &str| -> Option<(Result<String, ServerFnError>, Result<String, ServerFnError>)> {
                Some(match f {
                    "noargs_get" => (block_on(NoArgsGet {}.run_on_client()), block_on(noargs_get())),
                    "noargs_post" => (block_on(NoArgsPost {}.run_on_client()), block_on(noargs_post())),
                    "noargs_cbor" => (block_on(NoArgsCbor {}.run_on_client()), block_on(noargs_cbor())),
                    _ => return None,
                })
            };
            match guard(|| run(f)) {
                Some(Some((remote, direct))) => {
                    let show = |r: &Result<String, ServerFnError>| match r {
                        Ok(s) => format!("ok {}", hex(s.as_bytes())),
                        Err(e) => format!("err {}", show_err(e)),
                    };
                    format!("{} ## {}", show(&remote), if remote == direct { "ok" } else { "fail pipeline" })
                }
                Some(None) => "bad-op".into(),
                None => "panic ## fail panic".into(),
            }
        }
        ["path", f, ph, eh, nh] => {
            let prefix = if *ph == "default" { Some("/api".to_string()) } else { unhex_str(ph) };
            let (Some(prefix), Some(name)) = (prefix, unhex_str(nh)) else {
                return "bad-op".into();
            };
            let hash = PATH_HASH;
            let endpoint = if *eh == "none" { None } else { unhex_str(eh) };
            if *eh != "none" && endpoint.is_none() {
                return "bad-op".into();
            }
            let Some(real) = path_of(f) else { return "bad-op".into() };
            // the derivation as documented for `#[server]`: prefix + "/" + endpoint, or prefix + "/" + name + hash
            let expected = match &endpoint {
                Some(e) => format!("{prefix}/{}", e.trim_start_matches('/')),
                None => format!("{prefix}/{name}{hash}"),
            };
            let registered = registry().keys().any(|(p, _)| p == real);
            let good = real == expected && registered;
            let shown = match &endpoint {
                None => real.strip_suffix(&hash.to_string()).unwrap_or(real),
                Some(_) => real,
            };
            format!(
                "{} {} ## {}",
                hex(shown.as_bytes()),
                if registered { "registered" } else { "unregistered" },
                if good { "ok" } else { "fail path" }
            )
        }
        ["form", f, refh, rest @ ..] if !rest.is_empty() => {
            let referer = if *refh == "none" {
                None
            } else {
                match unhex_str(refh) {
                    Some(r) if http::HeaderValue::from_str(&r).is_ok() => Some(r),
                    _ => return "bad-op".into(),
                }
            };
            LAST_RES.with(|l| *l.borrow_mut() = None);
            let r2 = referer.clone();
            let (ety, direct) = if hex_direct(f, vec![]).is_some() && rest.len() == 1 {
                let Some(a) = unhex(rest[0]) else { return "bad-op".into() };
                let Some(direct) = hex_expected(f, a.clone()) else { return "bad-op".into() };
                if guard(move || {
                    TRANSPORT.with(|t| t.borrow_mut().form = Some(r2));
                    hex_remote(f, a)
                })
                .is_none()
                {
                    return "panic ## fail panic".into();
                }
                (ErrTy::Sfe, show_hex_res(&direct))
            } else if is_typed(f) && rest.len() >= 2 {
                let Some((p, m)) = parse_tmode(f, rest) else { return "bad-op".into() };
                match guard(move || {
                    TRANSPORT.with(|t| t.borrow_mut().form = Some(r2));
                    run_typed(f, &p, &m)
                }) {
                    Some(Some((_, direct))) => (
                        match *f {
                            "t_cbor_app" => ErrTy::App,
                            "t_json_bin" => ErrTy::Bin,
                            _ => ErrTy::Sfe,
                        },
                        direct,
                    ),
                    Some(None) => return "bad-op".into(),
                    None => return "panic ## fail panic".into(),
                }
            } else {
                return "bad-op".into();
            };
            let Some(raw) = LAST_RES.with(|l| l.borrow_mut().take()) else { return "no-response ## fail form-fallback".into() };
            let Some(path) = path_of(f) else { return "bad-op".into() };
            form_observe(path, ety, &referer, raw, &direct)
        }
        ["streamout", kind, it] => {
            let Some(items) = parse_out_items(kind, it) else { return "bad-op".into() };
            match *kind {
                "text" => {
                    let i2 = items.clone();
                    let Some(remote) = guard(move || block_on(TextOut { items: i2 }.run_on_client()).map(items_text))
                    else {
                        return "panic ## fail panic".into();
                    };
                    let direct = block_on(text_out(items)).map(items_text);
                    match (remote, direct) {
                        (Ok(r), Ok(d)) => {
                            let good = prefix_key(&r) == prefix_key(&d);
                            format!("{} ## {}", show_items(&r), if good { "ok" } else { "fail stream-out" })
                        }
                        (Err(e), _) => format!("err {} ## fail stream-out", show_err(&e)),
                        (_, Err(e)) => format!("direct-err {} ## fail stream-out", show_err(&e)),
                    }
                }
                "bytes" => {
                    let i2 = items.clone();
                    let Some(remote) = guard(move || block_on(BytesOut { items: i2 }.run_on_client()).map(items_bytes))
                    else {
                        return "panic ## fail panic".into();
                    };
                    let direct = block_on(bytes_out(items)).map(items_bytes);
                    match (remote, direct) {
                        (Ok(r), Ok(d)) => {
                            // an error chunk is a serialized error: compare what it decodes to
                            let key = |v: &[Result<Vec<u8>, Vec<u8>>]| {
                                let (t, e) = prefix_key(v);
                                (t, e.map(|b| ServerFnError::<NoCustomError>::de(Bytes::from(b))))
                            };
                            let good = key(&r) == key(&d);
                            let shown: Vec<String> = r
                                .iter()
                                .map(|i| match i {
                                    Ok(b) => format!("o{}", hex(b)),
                                    Err(b) => format!("x{}", hex(b)),
                                })
                                .collect();
                            format!(
                                "{} ## {}",
                                if shown.is_empty() { "-".to_string() } else { shown.join(",") },
                                if good { "ok" } else { "fail stream-out" }
                            )
                        }
                        (Err(e), _) => format!("err {} ## fail stream-out", show_err(&e)),
                        (_, Err(e)) => format!("direct-err {} ## fail stream-out", show_err(&e)),
                    }
                }
                _ => "bad-op".into(),
            }
        }
        ["stream", kind, ch] => {
            let chunks: Option<Vec<Vec<u8>>> =
                if *ch == "none" { Some(vec![]) } else { ch.split(',').map(unhex).collect() };
            let Some(chunks) = chunks else { return "bad-op".into() };
            let whole: Vec<u8> = chunks.concat();
            match *kind {
                "text" => {
                    let Some(texts) =
                        chunks.iter().map(|c| String::from_utf8(c.clone()).ok()).collect::<Option<Vec<String>>>()
                    else {
                        return "bad-op".into();
                    };
                    let t2 = texts.clone();
                    let Some(remote) = guard(move || {
                        block_on(TextEcho { input: TextStream::from(futures::stream::iter(t2)) }.run_on_client())
                            .map(items_text)
                    }) else {
                        return "panic ## fail panic".into();
                    };
                    let direct = block_on(text_echo(TextStream::from(futures::stream::iter(texts)))).map(items_text);
                    match (remote, direct) {
                        (Ok(r), Ok(d)) => {
                            let cat = |v: &[Result<Vec<u8>, String>]| -> Option<Vec<u8>> {
                                v.iter().map(|i| i.clone().ok()).collect::<Option<Vec<_>>>().map(|x| x.concat())
                            };
                            let good = cat(&r).is_some() && cat(&r) == cat(&d) && cat(&d) == Some(whole);
                            format!(
                                "{} ## {}",
                                show_items(&r),
                                if good { "ok" } else { "fail text-stream" }
                            )
                        }
                        (Err(e), _) => format!("err {} ## fail pipeline", show_err(&e)),
                        (_, Err(e)) => format!("direct-err {} ## fail pipeline", show_err(&e)),
                    }
                }
                "bytes" => {
                    let c2: Vec<Bytes> = chunks.iter().map(|c| Bytes::from(c.clone())).collect();
                    let Some(remote) = guard(move || {
                        block_on(async {
                            let arg = BytesEcho(Mutex::new(Box::pin(futures::stream::iter(c2))));
                            match arg.run_on_client().await {
                                Ok(s) => Ok(s.into_inner().collect::<Vec<_>>().await),
                                Err(e) => Err(e),
                            }
                        })
                    }) else {
                        return "panic ## fail panic".into();
                    };
                    match remote {
                        Ok(items) => {
                            let items: Vec<Result<Vec<u8>, String>> = items
                                .into_iter()
                                .map(|i| i.map(|b| b.to_vec()).map_err(|e| format!("raw:{}", hex(&e))))
                                .collect();
                            let cat: Option<Vec<u8>> =
                                items.iter().map(|i| i.clone().ok()).collect::<Option<Vec<_>>>().map(|x| x.concat());
                            let good = cat == Some(whole);
                            format!("{} ## {}", show_items(&items), if good { "ok" } else { "fail pipeline" })
                        }
                        Err(e) => format!("err {} ## fail pipeline", show_err(&e)),
                    }
                }
                _ => "bad-op".into(),
            }
        }
        _ => "bad-op".into(),
    }
}

// ------------------------------------------------------------------ generator

/// characters whose `{:?}` rendering the model reproduces (all of ASCII plus a checked list)
const DEBUG_SAFE: &[char] = &[
    'é', 'ß', '¡', 'Ω', 'ж', '日', '本', '😀', '\u{fffd}', '\u{a0}', '\u{ad}', '\u{301}', '\u{200b}', '\u{202e}',
    '\u{2028}', '\u{feff}', '\u{e000}', '\u{ffff}', '\u{10ffff}', '\u{80}', '\u{7ff}', '\u{800}', '\u{10000}',
];
const HOSTILE_ASCII: &[char] = &[
    '|', '|', '\n', '\r', '\t', '\0', '"', '\'', '\\', '=', '&', '%', '+', '#', '?', ' ', '/', ':', ';', '<', '>',
    '{', '}', '\u{7f}', '\u{1}', '\u{1b}', '!', '~', '*', '-', '_', '.',
];
const WORDS: &[&str] = &[
    "ServerError", "WrappedServerFn", "Args", "Request", "Deserialization|", "MissingArg|x", "Unit Type Displayed",
    "error", "%7C", "%25", "__err", "__path", "a=b&c=d", "null", "0", "é|é",
];

fn gen_text(r: &mut Rng, max: usize, debug_safe: bool) -> String {
    let n = r.below(max + 1);
    let mut s = String::new();
    for _ in 0..n {
        match r.below(8) {
            0 | 1 => s.push(*r.pick(HOSTILE_ASCII)),
            2 => s.push(*r.pick(DEBUG_SAFE)),
            3 => s.push_str(*r.pick(WORDS)),
            4 => s.push(char::from_u32(r.below(0x80) as u32).unwrap()),
            5 if !debug_safe => s.push(char::from_u32(r.below(0x110000) as u32).unwrap_or('\u{d7ff}')),
            _ => s.push(*r.pick(&['a', 'b', 'z', 'A', '0', '9'])),
        }
    }
    s
}

fn gen_variant(r: &mut Rng) -> &'static str {
    VARIANTS[r.below(VARIANTS.len())]
}

const PREFIXES: &[&str] = &[
    "WrappedServerFn", "Registration", "Request", "Response", "ServerError", "MiddlewareError", "Deserialization",
    "Serialization", "Args", "MissingArg",
];

/// hostile error bodies: right and almost-right prefixes, missing separator, invalid UTF-8
fn gen_err_bytes(r: &mut Rng) -> Vec<u8> {
    let mut v: Vec<u8> = match r.below(10) {
        0..=3 => format!("{}|{}", r.pick(PREFIXES), gen_text(r, 6, true)).into_bytes(),
        4 => format!("{}{}", r.pick(PREFIXES), gen_text(r, 3, true)).into_bytes(),
        5 => {
            let p = r.pick(PREFIXES);
            let p = match r.below(4) {
                0 => p.to_lowercase(),
                1 => format!(" {p}"),
                2 => format!("{p} "),
                _ => p[..p.len() - 1].to_string(),
            };
            format!("{p}|{}", gen_text(r, 4, true)).into_bytes()
        }
        6 => gen_text(r, 6, true).into_bytes(),
        7 => format!("WrappedServerFn|!{}", gen_text(r, 4, true)).into_bytes(),
        8 => vec![],
        _ => format!("|{}", gen_text(r, 4, true)).into_bytes(),
    };
    if r.chance(1, 4) {
        // break the UTF-8: insert a stray byte or cut inside a scalar
        const BAD: &[&[u8]] = &[&[0xff], &[0xc3], &[0x80], &[0xe2, 0x82], &[0xed, 0xa0, 0x80], &[0xf0, 0x9f, 0x98], &[0xc0, 0xaf], &[0xf4, 0x90, 0x80, 0x80]];
        let at = r.below(v.len() + 1);
        let bad = r.pick(BAD);
        v.splice(at..at, bad.iter().copied());
    }
    v
}

const BASES: &[&str] = &[
    "http://localhost/",
    "http://localhost:3000/page",
    "https://example.com/a/b?x=1",
    "https://example.com/a/b?x=1&y=%C3%A9+z",
    "http://h/p?",
    "http://h/p?x=1#frag",
    "http://h/p#frag",
    "http://h/p?__err=stale&__path=%2Fold",
    "http://h/p?q=a%26b&__err=U2VydmVyRXJyb3J8b2xk",
    "/relative",
    "/",
    "",
    "not a url",
];

fn gen_b64ish(r: &mut Rng) -> String {
    use base64::{engine::general_purpose::URL_SAFE, Engine as _};
    let how = r.below(8);
    // tampering keeps the decoded text ASCII (or makes decoding fail): start from an ASCII payload and
    // only clear bits / cut / add symbols, so that no scalar with an unmodelled `{:?}` rendering appears
    let payload = if how < 2 {
        gen_err_bytes(r)
    } else {
        let mut v = format!("{}|", r.pick(PREFIXES)).into_bytes();
        if r.chance(1, 4) {
            v.clear();
        }
        for _ in 0..r.below(9) {
            v.push(if r.chance(1, 3) { *r.pick(HOSTILE_ASCII) as u8 } else { *r.pick(&[b'a', b'Z', b'|', b'0', b' ']) });
        }
        v
    };
    let good = URL_SAFE.encode(payload);
    let mut s: Vec<char> = good.chars().collect();
    match how {
        0 | 1 => {}
        2 => {
            if !s.is_empty() {
                let at = r.below(s.len());
                s[at] = *r.pick(&['=', '+', '/', ' ', '\n', '*', 'é', 'A', '.', '%']);
            }
        }
        3 => {
            let k = r.below(s.len() + 1);
            s.truncate(k);
        }
        4 => s.push(*r.pick(&['=', 'A', '\n', 'B', '/'])),
        5 => {
            while s.last() == Some(&'=') {
                s.pop();
            }
        }
        6 => {
            // non-canonical trailing bits / a different last symbol
            if let Some(i) = s.iter().rposition(|c| *c != '=') {
                s[i] = *r.pick(&['B', 'R', 'x', '9', '_']);
            }
        }
        _ => {
            let at = r.below(s.len() + 1);
            s.insert(at, *r.pick(&['=', '%', '=', '\n']));
        }
    }
    s.into_iter().collect()
}

fn gen_query(r: &mut Rng) -> String {
    const QA: &[&str] = &[
        "x", "y", "1", "a%20b", "%C3%A9", "%FF", "%2B", "+", "~", "/", ".", "*", "-", "_", "%", "%4", "=", "&", "__err",
        "__path", "__errx", "=__err", "%5F%5Ferr", "q",
    ];
    let n = r.below(7);
    (0..n).map(|_| *r.pick(QA)).collect()
}

fn gen_inner(r: &mut Rng) -> Inner {
    Inner {
        n: *r.pick(&[0, 1, -1, i64::MAX, i64::MIN, 42, -9_007_199_254_740_993]),
        name: gen_text(r, 3, false),
        flag: r.chance(1, 2),
    }
}

/// `url_safe`: keep to the values on which serde_qs round-trips (no empty sequence, no `Some("")`),
/// except for one case in sixteen that lands in the two known classes on purpose
fn gen_payload(r: &mut Rng, url_safe: bool) -> Payload {
    let url_safe = url_safe && !r.chance(1, 16);
    let lo = if url_safe { 1 } else { 0 };
    Payload {
        id: *r.pick(&[0, 1, u64::MAX, 1 << 53, (1 << 53) + 1, 255, 256]),
        small: *r.pick(&[0, -1, i8::MIN, i8::MAX, 7]),
        text: gen_text(r, 6, false),
        opt: if r.chance(1, 3) {
            None
        } else {
            let t = gen_text(r, 3, false);
            Some(if url_safe && t.is_empty() { "o".into() } else { t })
        },
        list: (0..r.range(lo, 2)).map(|_| gen_inner(r)).collect(),
        nums: (0..r.range(lo, 3)).map(|_| *r.pick(&[0, 1, u32::MAX, 65536])).collect(),
        nested: gen_inner(r),
    }
}

fn gen_hex_arg(r: &mut Rng) -> Vec<u8> {
    match r.below(4) {
        0 => {
            let mut v = vec![b'E', r.below(12) as u8];
            v.extend(gen_text(r, 5, false).into_bytes());
            v
        }
        1 => (0..r.below(20)).map(|_| r.below(256) as u8).collect(),
        2 => gen_text(r, 6, false).into_bytes(),
        _ => gen_err_bytes(r),
    }
}

/// arguments for the exact corruption ops: ASCII only, so that a flipped bit yields ASCII or ill-formed
/// UTF-8 and never a scalar whose `{:?}` rendering the model only approximates
fn gen_hex_arg_ascii(r: &mut Rng) -> Vec<u8> {
    let mut v = if r.chance(1, 2) { vec![b'E', r.below(12) as u8] } else { vec![] };
    for _ in 0..r.below(12) {
        v.push(match r.below(3) {
            0 => *r.pick(HOSTILE_ASCII) as u8,
            1 => r.below(0x80) as u8,
            _ => *r.pick(&[b'a', b'|', b'Z', b'0']),
        });
    }
    v
}

fn gen_mut(r: &mut Rng) -> String {
    match r.below(3) {
        0 => format!("t{}", r.below(400)),
        1 => format!("f{}", r.below(4000)),
        _ => format!("a{}", r.below(256)),
    }
}

fn is_url_fn(f: &str) -> bool {
    f.contains("url") || ["t_default_path", "t_auto_name", "t_many", "t_defaults"].contains(&f)
}

/// every function with the `(p, mode, kind, msg)` behaviour and the `ServerFnError` error type
fn all_typed() -> Vec<&'static str> {
    TYPED.iter().chain(EXTRA_TYPED.iter()).chain(CROSS.iter()).copied().collect()
}

/// functions the `<form>` fallback ops use (registered under `/api/<name>`)
fn form_typed() -> Vec<&'static str> {
    TYPED.iter().copied().chain(["t_mw_id", "t_many", "t_defaults", "hand_echo", "t_auto_name"]).collect()
}

/// what the path derives from: the hash of crate directory and module path, as the macro computes it
const PATH_HASH: u64 =
    server_fn::xxhash_rust::const_xxh64::xxh64(concat!(env!("CARGO_MANIFEST_DIR"), ":", module_path!()).as_bytes(), 0);

/// (function, `prefix` argument or "default", `endpoint` argument, function name)
fn path_rows() -> Vec<(&'static str, &'static str, Option<String>, &'static str)> {
    let mut v: Vec<(&'static str, &'static str, Option<String>, &'static str)> = vec![];
    for f in TYPED.iter().chain(APP_FNS.iter()) {
        v.push((f, "/api", Some(f.to_string()), f));
    }
    for f in ["t_auto_name", "t_mw_id", "t_many", "t_defaults", "hx_post", "hx_patch", "hx_put", "hx_mw_id", "hx_mw_block",
        "noargs_get", "noargs_post", "noargs_cbor", "text_echo", "text_out", "bytes_out"]
    {
        v.push((f, "/api", Some(f.to_string()), f));
    }
    v.push(("t_default_path", "default", None, "t_default_path"));
    v.push(("t_prefix", "/rpc/v1", Some("//t_prefix".to_string()), "t_prefix"));
    v.push(("x_patchrkyv_in", "/x", None, "x_patchrkyv_in"));
    v.push(("x_putserdelite_in", "/x", None, "x_putserdelite_in"));
    for f in CROSS {
        v.push((f, "/x", None, f));
    }
    v
}

fn gen_tcall(r: &mut Rng, f: &str) -> String {
    let p = gen_payload(r, is_url_fn(f));
    let pj = hex(serde_json::to_string(&p).unwrap().as_bytes());
    if APP_FNS.contains(&f) {
        if r.chance(1, 2) {
            format!("{f} echo {pj}")
        } else {
            let e = AppErr::Custom { code: *r.pick(&[0, -1, i32::MAX, i32::MIN, 404]), msg: gen_text(r, 5, false) };
            format!("{f} failapp {pj} {}", hex(serde_json::to_string(&e).unwrap().as_bytes()))
        }
    } else if r.chance(1, 2) {
        format!("{f} echo {pj}")
    } else {
        // WrappedServerError(NoCustomError) carries no message
        format!("{f} fail {pj} {} {}", gen_variant(r), hex(gen_text(r, 6, false).as_bytes()))
    }
}

fn gen(seed: u64, n: usize, path: &str) -> std::io::Result<()> {
    use std::io::Write;
    let mut r = Rng::new(seed);
    let mut f = std::io::BufWriter::new(std::fs::File::create(path)?);
    const HEXFNS: &[&str] = &["hx_post", "hx_patch", "hx_put"];
    const HEXFNS_MW: &[&str] = &["hx_post", "hx_patch", "hx_put", "hx_mw_id", "hx_mw_block", "hx_mw_block"];
    let typed_all = all_typed();
    let typed_form = form_typed();
    let rows = path_rows();
    for i in 0..n {
        let ty = if r.chance(1, 3) { "c" } else { "n" };
        match r.below(33) {
            0 | 1 | 2 => {
                writeln!(f, "case {i}-errfmt")?;
                writeln!(f, "ser {ty} {} {}", gen_variant(&mut r), hex(gen_text(&mut r, 8, ty == "c").as_bytes()))?
            }
            3 | 4 | 5 => {
                writeln!(f, "case {i}-errdecode")?;
                writeln!(f, "de {ty} {}", hex(&gen_err_bytes(&mut r)))?
            }
            6 | 7 => {
                writeln!(f, "case {i}-url")?;
                let base = *r.pick(BASES);
                let path = if r.chance(1, 2) { "/api/some_fn1234567".to_string() } else { gen_text(&mut r, 4, false) };
                writeln!(
                    f,
                    "tourl {ty} {} {} {} {}",
                    hex(base.as_bytes()),
                    hex(path.as_bytes()),
                    gen_variant(&mut r),
                    hex(gen_text(&mut r, 8, ty == "c").as_bytes())
                )?
            }
            8 => {
                writeln!(f, "case {i}-urldecode")?;
                writeln!(f, "decerr {ty} {}", hex(gen_b64ish(&mut r).as_bytes()))?
            }
            9 => {
                writeln!(f, "case {i}-strip")?;
                let u = match r.below(6) {
                    0 => "/relative?__err=x".to_string(),
                    1 => format!("http://h/p?{}#f", gen_query(&mut r)),
                    2 => "http://h/p".to_string(),
                    _ => format!("http://h/p?{}", gen_query(&mut r)),
                };
                writeln!(f, "strip {}", hex(u.as_bytes()))?
            }
            10 | 11 => {
                writeln!(f, "case {i}-pipeline")?;
                let fname = *r.pick(HEXFNS_MW);
                let mut a = gen_hex_arg(&mut r);
                if fname == "hx_mw_block" && r.chance(1, 2) {
                    a.insert(0, 0xff);
                }
                writeln!(f, "call {fname} {}", hex(&a))?
            }
            12 | 13 | 14 => {
                let fname = if r.chance(1, 12) { *r.pick(APP_FNS) } else { *r.pick(&typed_all) };
                writeln!(f, "case {i}-typed")?;
                writeln!(f, "tcall {}", gen_tcall(&mut r, fname))?
            }
            15 => {
                writeln!(f, "case {i}-status")?;
                let status = match r.below(4) {
                    0 => *r.pick(&[200, 201, 204, 299, 300, 302, 399, 400, 404, 422, 499, 500, 503, 599, 600, 100, 0]),
                    _ => r.below(700),
                };
                let body = match r.below(3) {
                    0 => plain_hex(&gen_hex_arg(&mut r)).into_bytes(),
                    1 => gen_err_bytes(&mut r),
                    _ => gen_text(&mut r, 4, true).into_bytes(),
                };
                writeln!(f, "canned {} {status} {} {}", r.pick(HEXFNS), hex(&body), hex(&gen_hex_arg(&mut r)))?
            }
            16 => {
                writeln!(f, "case {i}-rawreq")?;
                let body = match r.below(4) {
                    0 => gen_text(&mut r, 4, true).into_bytes(),
                    1 => {
                        let mut h = plain_hex(&gen_hex_arg(&mut r));
                        if r.chance(1, 3) {
                            h.pop();
                        }
                        h.into_bytes()
                    }
                    _ => plain_hex(&gen_hex_arg(&mut r)).into_bytes(),
                };
                let q = match r.below(3) {
                    0 => "none".to_string(),
                    _ => hex(plain_hex(&gen_hex_arg(&mut r)).as_bytes()),
                };
                writeln!(
                    f,
                    "rawreq {} {} {} {}",
                    r.pick(HEXFNS),
                    r.pick(&["GET", "POST", "POST", "PUT", "PATCH", "DELETE"]),
                    q,
                    hex(&body)
                )?
            }
            17 => {
                writeln!(f, "case {i}-corrupt")?;
                writeln!(
                    f,
                    "corrupth {} {} {} {}",
                    r.pick(HEXFNS),
                    r.pick(&["req", "res"]),
                    gen_mut(&mut r),
                    hex(&gen_hex_arg_ascii(&mut r))
                )?
            }
            18 => {
                writeln!(f, "case {i}-corrupt")?;
                let fname = if r.chance(1, 12) { *r.pick(APP_FNS) } else { *r.pick(&typed_all) };
                let side = *r.pick(&["req", "res"]);
                let m = gen_mut(&mut r);
                writeln!(f, "corrupt {fname} {side} {m} {}", gen_tcall(&mut r, fname).split_once(' ').unwrap().1)?
            }
            21 | 22 | 23 => {
                // the non-JS `<form>` fallback: every error variant x every error encoding through the URL
                writeln!(f, "case {i}-form")?;
                let referer = match r.below(10) {
                    0 => "none".to_string(),
                    1 => hex(r.pick(&["/relative", "/", "", "not a url"]).as_bytes()),
                    2 | 3 => hex(format!("http://h/p?{}", gen_query(&mut r)).as_bytes()),
                    _ => hex(
                        r.pick(&[
                            "http://localhost/",
                            "http://localhost:3000/page",
                            "https://example.com/a/b?x=1",
                            "https://example.com/a/b?x=1&y=%C3%A9+z",
                            "http://h/p?",
                            "http://h/p?x=1#frag",
                            "http://h/p#frag",
                            "http://h/p?__err=stale&__path=%2Fold",
                            "http://h/p?q=a%26b&__err=U2VydmVyRXJyb3J8b2xk",
                        ])
                        .as_bytes(),
                    ),
                };
                match r.below(6) {
                    0 | 1 => writeln!(f, "form {} {referer} {}", r.pick(HEXFNS), hex(&gen_hex_arg(&mut r)))?,
                    2 => {
                        let fname = *r.pick(APP_FNS);
                        writeln!(f, "form {fname} {referer} {}", gen_tcall(&mut r, fname).split_once(' ').unwrap().1)?
                    }
                    _ => {
                        let fname = *r.pick(&typed_form);
                        writeln!(f, "form {fname} {referer} {}", gen_tcall(&mut r, fname).split_once(' ').unwrap().1)?
                    }
                }
            }
            27 | 28 | 29 => {
                // body placement x binary codec x values with wide out-of-line data
                writeln!(f, "case {i}-placement")?;
                let w = Wide {
                    id: *r.pick(&[0, 1, u32::MAX, 7]),
                    readings: (0..r.below(4)).map(|_| *r.pick(&[0, 1, u64::MAX, 1 << 53, 0x0102030405060708])).collect(),
                    fl: (0..r.below(4))
                        .map(|_| *r.pick(&[0.0, -0.0, 1.5, -1e300, f64::MAX, f64::MIN_POSITIVE, 5e-324, 0.1]))
                        .collect(),
                    big: (0..r.below(3)).map(|_| *r.pick(&[0, 1, u128::MAX, 1 << 64, 1 << 127])).collect(),
                    boxed: match r.below(4) {
                        0 => None,
                        _ => Some(Box::new(*r.pick(&[i128::MIN, i128::MAX, -1, 0, 1 << 100]))),
                    },
                    note: gen_text(&mut r, 4, false),
                };
                let wj = hex(serde_json::to_string(&w).unwrap().as_bytes());
                let pl = |r: &mut Rng| if r.chance(1, 5) { "own".to_string() } else { r.below(16).to_string() };
                let (a, b) = (pl(&mut r), pl(&mut r));
                let fname = *r.pick(WIDE_FNS);
                if r.chance(3, 4) {
                    writeln!(f, "wcall {fname} {a} {b} echo {wj}")?
                } else {
                    writeln!(f, "wcall {fname} {a} {b} fail {wj} {} {}", gen_variant(&mut r), hex(gen_text(&mut r, 5, false).as_bytes()))?
                }
            }
            30 | 31 => {
                // websocket conversations: interactive (wait for answer k before sending k+1) and batch
                writeln!(f, "case {i}-websocket")?;
                let n = if r.chance(1, 6) { r.range(9, 20) } else { r.below(6) };
                let msgs: Vec<String> = (0..n)
                    .map(|_| {
                        let t = gen_text(&mut r, 4, false);
                        hex(if r.chance(1, 5) { format!("!{t}") } else { t }.as_bytes())
                    })
                    .collect();
                writeln!(
                    f,
                    "ws {} {}",
                    if r.chance(2, 3) { "interactive" } else { "batch" },
                    if msgs.is_empty() { "none".to_string() } else { msgs.join(",") }
                )?
            }
            32 => {
                // deeply nested values, within what each third-party decoder accepts at this commit
                writeln!(f, "case {i}-deep")?;
                let (fname, limit) = *r.pick(&[
                    ("d_json", 62usize),
                    ("d_serdelite", 62),
                    ("d_json_cbor", 62),
                    ("d_cbor", 126),
                    ("d_cbor", 126),
                    ("d_msgpack", 300),
                    ("d_postcard", 300),
                ]);
                let depth = match r.below(4) {
                    0 => *r.pick(&[0, 1, 2, 10, 40, 62, 100, 126, 127, 200, 300]),
                    1 => limit - r.below(3).min(limit),
                    _ => r.below(limit + 1),
                }
                .min(limit);
                writeln!(f, "dcall {fname} {depth} {}", r.range(1, 3))?
            }
            24 => {
                writeln!(f, "case {i}-noargs")?;
                writeln!(f, "ncall {}", r.pick(&["noargs_get", "noargs_post", "noargs_cbor"]))?
            }
            25 => {
                writeln!(f, "case {i}-path")?;
                let (fname, prefix, endpoint, name) = r.pick(&rows).clone();
                writeln!(
                    f,
                    "path {fname} {} {} {}",
                    if prefix == "default" { "default".to_string() } else { hex(prefix.as_bytes()) },
                    endpoint.map(|e| hex(e.as_bytes())).unwrap_or("none".into()),
                    hex(name.as_bytes())
                )?
            }
            19 | 20 => {
                // output streams whose item sequence contains errors at every position
                writeln!(f, "case {i}-streamout")?;
                let kind = if r.chance(1, 3) { "bytes" } else { "text" };
                let n = r.below(6);
                let items: Vec<String> = (0..n)
                    .map(|_| {
                        let is_err = r.chance(2, 5);
                        match (kind, is_err) {
                            ("text", false) => format!("o{}", hex(gen_text(&mut r, 5, false).as_bytes())),
                            ("text", true) => {
                                format!("e{}:{}", gen_variant(&mut r), hex(gen_text(&mut r, 5, false).as_bytes()))
                            }
                            (_, false) => format!("o{}", hex(&gen_hex_arg(&mut r))),
                            _ => {
                                let raw = if r.chance(2, 3) {
                                    format!("{}|{}", r.pick(PREFIXES), gen_text(&mut r, 5, true)).into_bytes()
                                } else {
                                    gen_err_bytes(&mut r)
                                };
                                format!("x{}", hex(&raw))
                            }
                        }
                    })
                    .collect();
                if items.is_empty() {
                    writeln!(f, "streamout {kind} none")?
                } else {
                    writeln!(f, "streamout {kind} {}", items.join(","))?
                }
            }
            _ => {
                writeln!(f, "case {i}-stream")?;
                let k = r.below(4);
                let chunks: Vec<String> = (0..k)
                    .map(|_| {
                        let n = r.below(14);
                        let mut s = String::new();
                        for _ in 0..n {
                            match r.below(5) {
                                0 => s.push(*r.pick(&['é', '日', '😀', 'ß'])),
                                _ => s.push(*r.pick(&['a', 'b', ' ', '|', '\n'])),
                            }
                        }
                        s
                    })
                    .collect();
                let kind = if r.chance(1, 3) { "bytes" } else { "text" };
                if chunks.is_empty() {
                    writeln!(f, "stream {kind} none")?
                } else {
                    writeln!(
                        f,
                        "stream {kind} {}",
                        chunks.iter().map(|c| hex(c.as_bytes())).collect::<Vec<_>>().join(",")
                    )?
                }
            }
        }
    }
    f.flush()
}

fn main() {
    match parse_cli() {
        Cmd::Gen { seed, n, ops, .. } => gen(seed, n, &ops).unwrap(),
        Cmd::Run { ops, out } => {
            quiet_panics();
            run_ops(&ops, &out, op).unwrap()
        }
    }
}
