fn main() {}
