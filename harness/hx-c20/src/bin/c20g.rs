include!("c20.rs");
