//! C20 correspondence harness: several REAL leptos server renders in progress at once on one thread.
//!
//! Real stack exercised (all from /repo's working tree): `leptos_integration_utils::build_response` (bin `c20`,
//! feature `sandbox` = reactive_graph `sandboxed-arenas`; in bin `c20g` = one global arena its lines are reproduced
//! below, because that crate forces the feature on), `Owner::new_root` + `SsrSharedContext` per request,
//! `RenderHtml::to_html_stream_in_order/_out_of_order`, `StreamBuilder::poll_next`, tachys `Suspend` / `OwnedView`,
//! leptos `Suspense`, `Provider`, `For`, `leptos_router` `Router` + `FlatRoutes` (`choose_ssr`) / `Routes` (nested
//! router, `Outlet`), `leptos_server::Resource` (`ArcAsyncDerived` task, `ScopedFuture`, `Sandboxed`), `on_cleanup`,
//! `use_context`, `RwSignal` (arena item), `SharedContext::next_id`, `pending_data`.  `ExtendResponse::from_app` is
//! NOT linked (it needs a `ServerMetaContextOutput` and awaits the first chunk): its response body — the stream
//! chained with one element doing `owner.unset()`, all inside `Sandboxed` — is reproduced in `World::start`.
//! Spawned tasks run on `hx_common::sched`; streams are polled by hand with a no-op waker; async gates are
//! `oneshot`s completed by `fire` ops.
//!
//! Op grammar (one scheduling action per line):
//!   case <name>
//!   req <r> <io|ooo|async> <P>  declare request r (r = 0,1,2 in order) with its rendering mode (in-order / out-of-order
//!                          streaming, or async: the whole app is awaited before the hydration chunks are requested) and
//!                          view program P
//!   start <r>              the REAL `ExtendResponse::from_app` (-> real `build_response`; bin c20g: reproduced): poll the
//!                          response future once, outside `Sandboxed` (runs `Owner::new_root`, the component bodies, the
//!                          stream builder); it stays pending until deferred resources and the first chunk are there
//!   fire <r> <g>           complete gate g of request r
//!   ps <r>                 everything r can do alone with the gates fired so far: the handler side polls its own futures
//!                          (`K`) and the response future, outside `Sandboxed`; poll r's ready tasks until none is
//!                          ready, poll r's stream until it ends or returns Pending 8 times in a row; repeat to a fixpoint
//!   poll <i>               poll the (i mod len)-th entry of the executor's ready list (a task of ANY request)
//!   drop <r>               fire r's remaining gates, `ps r` (the stream ends with `owner.unset()`, as in `from_app`),
//!                          drop the stream
//!   abort <r> <b>          client abort of r: make request b's arena the thread's current one (what polling anything of
//!                          b does), drop r's response body WITHOUT polling it, then let r's pending fetches finish
//!   amb                    observe the thread's ambient owner from outside every request (`use_context::<Tag>()` at the top
//!                          level: what unrelated work starting from `Owner::current()` would be adopted by): `ok o=<tag|->`
//!   end                    `drop` every remaining started request in ascending order; print observation + verdict
//! P (no spaces):  L<id> reactive leaf closure | E<id> eager leaf (component body) | C<id> on_cleanup leaf |
//!   V<k>(P) Provider scope k | S<g>.<pre>.<post>(P) Suspend: pre, await gate g, post, then build P |
//!   U(P) Suspense | W0(P) Router+FlatRoutes, W1(P) Router+Routes with P as the matched route's view |
//!   R<g>.<fetch>.<read> Resource (fetcher awaits g, reports) read through Suspend |
//!   O<v>.<g>.<fetch>.<read> the same through 0 OnceResource, 1 ArcOnceResource, 2 Resource::new_blocking, 3 ArcResource,
//!     4 OnceResource::new_blocking, 5 AsyncDerived, 6 ArcAsyncDerived, 7 LocalResource (never runs on the server) |
//!   T<g>.<id> spawn_local_scoped task (awaits g, reports) | D<g>.<id> Action::new + dispatch (its future awaits g, reports) |
//!   I<id> Effect::new_isomorphic reporting | X<v>.<g>.<id> step of a user stream behind the app stream inside the body's
//!   `Sandboxed` (reads/allocates arena items when g is fired; v=0 without an owner, v=1 under `Owner::with`) |
//!   Y<v>.<g>.<id> the same body as a `reactive_graph::spawn` task | K<v>.<g>.<ctx>.<arena> a future the handler side polls
//!   itself outside `Sandboxed` (v=0 a `ScopedFuture`, v=1 re-entering its owner with `Owner::with`) |
//!   M<g>.<id> a memo (own scope, Tag scope 50) whose body reads context, re-evaluated from a bare handler-side future |
//!   N<v>.<g>.<id> an `on_cleanup` reading an arena handle, run by `Owner::cleanup()` (v=0) / a memo re-run (v=1) from there | Z<kind*10+trigger>.<g1>.<t>.<g2>.<sync>.<async>.<after>.<read>
//!   a Resource/ArcResource/AsyncDerived/ArcAsyncDerived whose fetcher RE-RUNS (source set in the same render, set after t,
//!   refetch() after t), reporting in its sync part, async part and after its await | A<g>.<id> RwSignal + StoredValue allocated in the current (child) owner and
//!   read after awaiting g (prints v<whose signal>/<whose stored value>) |
//!   F<n>.<id> For over 0..n | Q(P,P,..) fragment
//! Every leaf reports `(program's request, leaf id, Tag seen via use_context, per-request signal value,
//! next SerializedDataId of the current shared context)` into the HTML and into a log; an `on_cleanup` leaf
//! reports the per-request signal's value only (whose arena it runs under).
//! Output of every op except `end`: `ok` (or `bad-op`).  Output of `end`:
//!   `r0:[<leaf>=<tags seen, sorted>;..] r1:[..] ## ok | fail isolation <which response differs: html|log|incomplete>`
//! Oracle (independent of the model): for each request, HTML and log of the concurrent run == those of the same
//! request replayed ALONE (fresh executor, nothing else on the thread) with the same relative order of its own
//! actions (`Act`), and every stream completes.  `C20_DEBUG=1` prints both HTMLs, logs and panic messages to stderr.
use futures::channel::oneshot;
use futures::{Stream, StreamExt};
use hx_common::*;
use hydration_context::{SharedContext, SsrSharedContext};
use leptos::context::Provider;
use leptos::prelude::*;
use leptos_router::{
    components::{FlatRoutes, Route, Router, Routes},
    location::RequestUrl,
    StaticSegment,
};
use std::collections::{BTreeMap, BTreeSet, HashMap};
use std::future::Future;
use std::panic::{catch_unwind, AssertUnwindSafe};
use std::pin::Pin;
use std::sync::{Arc, Mutex};
use std::task::{Context, Poll};

type PinnedStream<T> = Pin<Box<dyn Stream<Item = T> + Send>>;
type PinnedFuture<T> = Pin<Box<dyn Future<Output = T> + Send>>;
type BoxedFnOnce<T> = Box<dyn FnOnce() -> T + Send>;

// ------------------------------------------------------------------ programs

#[derive(Clone, Debug, PartialEq)]
enum P {
    L(u32),
    E(u32),
    C(u32),
    V(u32, Box<P>),
    S(u32, u32, u32, Box<P>),
    U(Box<P>),
    /// Router: 0 = FlatRoutes, 1 = Routes (nested router); the child is the matched route's view
    W(u32, Box<P>),
    R(u32, u32, u32),
    /// other APIs that store or spawn a future for the request; (variant, gate, fetch leaf, read leaf):
    /// 0 OnceResource::new, 1 ArcOnceResource::new, 2 Resource::new_blocking, 3 ArcResource::new,
    /// 4 OnceResource::new_blocking, 5 AsyncDerived::new, 6 ArcAsyncDerived::new, 7 LocalResource::new (never runs
    /// on the server: Suspense falls back)
    O(u32, u32, u32, u32),
    /// spawn_local_scoped task: await gate, report; the stream waits for it
    T(u32, u32),
    /// Action::new + dispatch in the component body: the action future awaits the gate, reports
    D(u32, u32),
    /// Effect::new_isomorphic whose body reports
    I(u32),
    /// RwSignal + StoredValue allocated in the current (child) owner, read after awaiting the gate
    A(u32, u32),
    /// (variant, gate, leaf): a step of a user stream chained behind the app stream INSIDE the response body's
    /// `Sandboxed` (entry point `Stream::poll_next`): when the gate is fired it reads the per-request signal and the
    /// item the previous step allocated, and allocates one; variant 0 = without entering an owner, 1 = under a child
    /// owner of the root (`Owner::with`)
    X(u32, u32, u32),
    /// (variant, gate, leaf): the same body as a task given to `reactive_graph::spawn` (entry point
    /// `Future::poll` of `Sandboxed`): allocates on its first poll, awaits the gate, reads
    Y(u32, u32, u32),
    /// (variant, gate, context leaf, arena leaf): a future the HANDLER SIDE polls itself, outside any `Sandboxed`, typically while the
    /// request's root is still the thread's current owner: awaits the gate, reads context + arena handles;
    /// variant 0 = `ScopedFuture::new` under the current owner, 1 = a bare future that re-enters the owner it
    /// was created under with `Owner::with`
    K(u32, u32, u32, u32),
    /// (gate, leaf): a plain memo created under a child scope that provides its own Tag (scope 50), whose body reads
    /// context; a bare future polled by the handler side (no owner entered, no `Sandboxed`) changes the memo's source
    /// after the gate and reads the memo: the RE-EVALUATION must still run in the memo's own scope
    M(u32, u32),
    /// (variant, gate, leaf): an `on_cleanup` function that reads an arena handle, run WITHOUT the owner being
    /// dropped, from a bare future polled by the handler side (the other request's arena may be current):
    /// variant 0 = `Owner::cleanup()` of a child scope, 1 = the `with_cleanup` of a memo re-run
    N(u32, u32, u32),
    /// (kind*10+trigger, g1, t, g2, sync leaf, async leaf, after-await leaf, read leaf): a resource whose fetcher
    /// RE-RUNS: kind 0 Resource, 1 ArcResource (manual dependencies), 2 AsyncDerived, 3 ArcAsyncDerived (tracked);
    /// trigger 0 = the source changes in the same synchronous render (before the task's first poll), 1 = a scoped
    /// task sets the source after gate t, 2 = it calls `refetch()` (kinds 0/1) after gate t; run 1 awaits g1, the
    /// re-run awaits g2; the fetcher reports in its sync part, in its async part and after its await
    Z(u32, u32, u32, u32, u32, u32, u32, u32),
    F(u32, u32),
    Q(Vec<P>),
}

struct Parser<'a> {
    s: &'a [u8],
    i: usize,
}
impl<'a> Parser<'a> {
    fn num(&mut self) -> Option<u32> {
        let st = self.i;
        while self.i < self.s.len() && self.s[self.i].is_ascii_digit() {
            self.i += 1;
        }
        if st == self.i || self.i - st > 6 {
            return None;
        }
        std::str::from_utf8(&self.s[st..self.i]).ok()?.parse().ok()
    }
    fn eat(&mut self, c: u8) -> Option<()> {
        if self.s.get(self.i) == Some(&c) {
            self.i += 1;
            Some(())
        } else {
            None
        }
    }
    fn prog(&mut self, depth: u32) -> Option<P> {
        if depth > 12 {
            return None;
        }
        let c = *self.s.get(self.i)?;
        self.i += 1;
        Some(match c {
            b'L' => P::L(self.num()?),
            b'E' => P::E(self.num()?),
            b'C' => P::C(self.num()?),
            b'V' => {
                let k = self.num()?;
                self.eat(b'(')?;
                let p = self.prog(depth + 1)?;
                self.eat(b')')?;
                P::V(k, Box::new(p))
            }
            b'S' => {
                let g = self.num()?;
                self.eat(b'.')?;
                let a = self.num()?;
                self.eat(b'.')?;
                let b = self.num()?;
                self.eat(b'(')?;
                let p = self.prog(depth + 1)?;
                self.eat(b')')?;
                P::S(g, a, b, Box::new(p))
            }
            b'U' => {
                self.eat(b'(')?;
                let p = self.prog(depth + 1)?;
                self.eat(b')')?;
                P::U(Box::new(p))
            }
            b'W' => {
                let k = self.num()?;
                if k > 1 {
                    return None;
                }
                self.eat(b'(')?;
                let p = self.prog(depth + 1)?;
                self.eat(b')')?;
                P::W(k, Box::new(p))
            }
            b'R' => {
                let g = self.num()?;
                self.eat(b'.')?;
                let a = self.num()?;
                self.eat(b'.')?;
                let b = self.num()?;
                P::R(g, a, b)
            }
            b'O' => {
                let v = self.num()?;
                if v > 7 {
                    return None;
                }
                self.eat(b'.')?;
                let g = self.num()?;
                self.eat(b'.')?;
                let a = self.num()?;
                self.eat(b'.')?;
                let b = self.num()?;
                P::O(v, g, a, b)
            }
            b'T' | b'D' | b'A' | b'M' => {
                let g = self.num()?;
                self.eat(b'.')?;
                let a = self.num()?;
                match c {
                    b'T' => P::T(g, a),
                    b'D' => P::D(g, a),
                    b'M' => P::M(g, a),
                    _ => P::A(g, a),
                }
            }
            b'X' | b'Y' | b'K' | b'N' => {
                let v = self.num()?;
                if v > 1 {
                    return None;
                }
                self.eat(b'.')?;
                let g = self.num()?;
                self.eat(b'.')?;
                let a = self.num()?;
                match c {
                    b'X' => P::X(v, g, a),
                    b'Y' => P::Y(v, g, a),
                    b'N' => P::N(v, g, a),
                    _ => {
                        self.eat(b'.')?;
                        P::K(v, g, a, self.num()?)
                    }
                }
            }
            b'Z' => {
                let kv = self.num()?;
                if kv / 10 > 3 || kv % 10 > 2 {
                    return None;
                }
                let mut n = [0u32; 7];
                for x in n.iter_mut() {
                    self.eat(b'.')?;
                    *x = self.num()?;
                }
                P::Z(kv, n[0], n[1], n[2], n[3], n[4], n[5], n[6])
            }
            b'I' => P::I(self.num()?),
            b'F' => {
                let n = self.num()?;
                self.eat(b'.')?;
                let a = self.num()?;
                P::F(n, a)
            }
            b'Q' => {
                self.eat(b'(')?;
                let mut v = vec![self.prog(depth + 1)?];
                while self.eat(b',').is_some() {
                    v.push(self.prog(depth + 1)?);
                }
                self.eat(b')')?;
                P::Q(v)
            }
            _ => return None,
        })
    }
}

fn parse_prog(s: &str) -> Option<P> {
    let mut p = Parser { s: s.as_bytes(), i: 0 };
    let r = p.prog(0)?;
    if p.i == s.len() {
        Some(r)
    } else {
        None
    }
}

fn show_prog(p: &P) -> String {
    match p {
        P::L(a) => format!("L{a}"),
        P::E(a) => format!("E{a}"),
        P::C(a) => format!("C{a}"),
        P::V(k, c) => format!("V{k}({})", show_prog(c)),
        P::S(g, a, b, c) => format!("S{g}.{a}.{b}({})", show_prog(c)),
        P::U(c) => format!("U({})", show_prog(c)),
        P::W(k, c) => format!("W{k}({})", show_prog(c)),
        P::R(g, a, b) => format!("R{g}.{a}.{b}"),
        P::O(v, g, a, b) => format!("O{v}.{g}.{a}.{b}"),
        P::T(g, a) => format!("T{g}.{a}"),
        P::D(g, a) => format!("D{g}.{a}"),
        P::I(a) => format!("I{a}"),
        P::A(g, a) => format!("A{g}.{a}"),
        P::X(v, g, a) => format!("X{v}.{g}.{a}"),
        P::Y(v, g, a) => format!("Y{v}.{g}.{a}"),
        P::K(v, g, a, b) => format!("K{v}.{g}.{a}.{b}"),
        P::M(g, a) => format!("M{g}.{a}"),
        P::N(v, g, a) => format!("N{v}.{g}.{a}"),
        P::Z(kv, g1, t, g2, a, b, c, d) => format!("Z{kv}.{g1}.{t}.{g2}.{a}.{b}.{c}.{d}"),
        P::F(n, a) => format!("F{n}.{a}"),
        P::Q(v) => format!("Q({})", v.iter().map(show_prog).collect::<Vec<_>>().join(",")),
    }
}

fn gates_of(p: &P, out: &mut Vec<u32>) {
    match p {
        P::S(g, _, _, c) => {
            out.push(*g);
            gates_of(c, out)
        }
        P::R(g, _, _) | P::O(_, g, _, _) | P::T(g, _) | P::D(g, _) | P::A(g, _) | P::X(_, g, _) | P::Y(_, g, _) | P::K(_, g, _, _) | P::M(g, _) | P::N(_, g, _) => {
            out.push(*g)
        }
        P::Z(_, g1, t, g2, ..) => out.extend([*g1, *t, *g2]),
        P::V(_, c) | P::U(c) | P::W(_, c) => gates_of(c, out),
        P::Q(v) => v.iter().for_each(|c| gates_of(c, out)),
        _ => {}
    }
}

// ------------------------------------------------------------------ what leaves report

#[derive(Clone, Debug, PartialEq)]
struct Tag {
    req: u32,
    scope: u32,
}

#[derive(Clone, Debug, PartialEq)]
struct Rec {
    me: u32,
    leaf: u32,
    tag: Option<(u32, u32)>,
    sig: Option<u32>,
    did: Option<usize>,
    cleanup: bool,
    /// `A` leaves: what the RwSignal / StoredValue allocated before the await hold after it
    arena_read: Option<String>,
}

static LOG: Mutex<Vec<Rec>> = Mutex::new(Vec::new());

#[derive(Clone)]
struct Env {
    me: u32,
    sig: RwSignal<u32>,
    gates: Arc<Mutex<HashMap<u32, oneshot::Receiver<()>>>>,
    /// steps of the user stream chained behind the app stream (`X` nodes register here)
    tail: Arc<Mutex<std::collections::VecDeque<TailStep>>>,
    /// futures polled by the handler side itself, outside `Sandboxed` (`K` nodes register here)
    side: Arc<Mutex<Vec<Pin<Box<dyn Future<Output = ()> + Send>>>>>,
}

struct TailStep {
    variant: u32,
    rx: Option<oneshot::Receiver<()>>,
    leaf: u32,
    owner: Option<Owner>,
    env: Env,
    /// allocated in the component body, under the owner that was current there
    handle: StoredValue<u32>,
}

/// what `X`/`Y` bodies do with arena handles: read the per-request signal and an item allocated in the component
/// body.  (They do not ALLOCATE without an owner: `ArenaItem::new` registers the item with `Owner::current()`, which
/// for a body that is only inside `Sandboxed` is whatever owner the thread holds — by design of
/// `reactive_graph::spawn`, see the report; with an owner entered they allocate and read back.)
fn touch_arena(env: &Env, leaf: u32, h: StoredValue<u32>, alloc: bool) -> String {
    let a = env.sig.try_get_untracked().map(|v| (v as i64 - 10).to_string()).unwrap_or("-".into());
    let mut b = h.try_get_value().map(|v| (v as i64 - 300).to_string()).unwrap_or("-".into());
    if alloc {
        let fresh = StoredValue::new(300 + env.me);
        if fresh.try_get_value() != Some(300 + env.me) {
            b = "!".into();
        }
        fresh.dispose();
    }
    let seen = format!("v{a}/{b}");
    LOG.lock().unwrap().push(Rec {
        me: env.me,
        leaf,
        tag: None,
        sig: None,
        did: None,
        cleanup: false,
        arena_read: Some(seen.clone()),
    });
    seen
}

fn report(env: &Env, leaf: u32, take_id: bool) -> String {
    let tag = use_context::<Tag>().map(|t| (t.req, t.scope));
    let sig = env.sig.try_get_untracked();
    let did = if take_id { Owner::current_shared_context().map(|sc| sc.next_id().into_inner()) } else { None };
    let rec = Rec { me: env.me, leaf, tag, sig, did, cleanup: false, arena_read: None };
    let s = format!(
        "[L{}:t{}:s{}:d{}]",
        leaf,
        tag.map(|t| format!("{}.{}", t.0, t.1)).unwrap_or("-".into()),
        sig.map(|v| v.to_string()).unwrap_or("-".into()),
        did.map(|v| v.to_string()).unwrap_or("-".into())
    );
    LOG.lock().unwrap().push(rec);
    s
}

fn take_gate(env: &Env, g: u32) -> Option<oneshot::Receiver<()>> {
    env.gates.lock().unwrap().remove(&g)
}

// ------------------------------------------------------------------ program -> real leptos view

fn build(p: &P, env: &Env) -> AnyView {
    match p {
        P::L(id) => {
            let (env, id) = (env.clone(), *id);
            (move || report(&env, id, true)).into_any()
        }
        P::E(id) => report(env, *id, true).into_any(),
        P::C(id) => {
            let (env, id) = (env.clone(), *id);
            // a cleanup must not touch the OWNER thread-local: `Owner::unset` drops the root while OWNER is
            // mutably borrowed, so `use_context` inside a cleanup panics there (with or without a second
            // request; reported as a side observation, it is not an isolation question).  It reads the
            // per-request signal (arena item) instead.
            on_cleanup(move || {
                let sig = env.sig.try_get_untracked();
                LOG.lock().unwrap().push(Rec { me: env.me, leaf: id, tag: None, sig, did: None, cleanup: true, arena_read: None });
            });
            ().into_any()
        }
        P::V(k, c) => {
            let (env2, c) = (env.clone(), (**c).clone());
            let value = Tag { req: env.me, scope: *k };
            view! { <Provider value=value>{build(&c, &env2)}</Provider> }.into_any()
        }
        P::S(g, pre, post, c) => {
            let (env, g, pre, post, c) = (env.clone(), *g, *pre, *post, (**c).clone());
            Suspend::new(async move {
                let a = report(&env, pre, true);
                if let Some(rx) = take_gate(&env, g) {
                    let _ = rx.await;
                }
                let b = report(&env, post, true);
                let child = build(&c, &env);
                view! { <b>{a}{b}{child}</b> }
            })
            .into_any()
        }
        P::U(c) => {
            let (env2, c) = (env.clone(), (**c).clone());
            view! { <Suspense fallback=|| "F">{build(&c, &env2)}</Suspense> }.into_any()
        }
        P::W(kind, c) => {
            let (env2, c) = (env.clone(), (**c).clone());
            let route_view = move || build(&c, &env2);
            if *kind == 0 {
                view! {
                    <Router>
                        <FlatRoutes fallback=|| "NF">
                            <Route path=StaticSegment("") view=route_view />
                        </FlatRoutes>
                    </Router>
                }
                .into_any()
            } else {
                view! {
                    <Router>
                        <Routes fallback=|| "NF">
                            <Route path=StaticSegment("") view=route_view />
                        </Routes>
                    </Router>
                }
                .into_any()
            }
        }
        P::R(g, fetch, read) => {
            let (envf, g, fetch, read) = (env.clone(), *g, *fetch, *read);
            let res = Resource::new(
                || (),
                move |_| {
                    let env = envf.clone();
                    async move {
                        if let Some(rx) = take_gate(&env, g) {
                            let _ = rx.await;
                        }
                        report(&env, fetch, true)
                    }
                },
            );
            let env = env.clone();
            Suspend::new(async move {
                let v = res.await;
                let s = report(&env, read, true);
                view! { <i>{v}{s}</i> }
            })
            .into_any()
        }
        P::O(v, g, fetch, read) => {
            let (envf, v, g, fetch, read) = (env.clone(), *v, *g, *fetch, *read);
            let fetcher = move || {
                let env = envf.clone();
                async move {
                    if let Some(rx) = take_gate(&env, g) {
                        let _ = rx.await;
                    }
                    report(&env, fetch, true)
                }
            };
            let env = env.clone();
            macro_rules! read_view {
                ($res:expr) => {{
                    let res = $res;
                    Suspend::new(async move {
                        let v = res.await;
                        let s = report(&env, read, true);
                        view! { <i>{v}{s}</i> }
                    })
                    .into_any()
                }};
            }
            match v {
                0 => read_view!(OnceResource::new(fetcher())),
                1 => read_view!(ArcOnceResource::new(fetcher())),
                2 => read_view!(Resource::new_blocking(|| (), move |_| fetcher())),
                3 => read_view!(ArcResource::new(|| (), move |_| fetcher())),
                4 => read_view!(OnceResource::new_blocking(fetcher())),
                5 => read_view!(AsyncDerived::new(move || fetcher())),
                6 => read_view!(ArcAsyncDerived::new(move || fetcher())),
                _ => {
                    let res = LocalResource::new(move || fetcher());
                    Suspend::new(async move {
                        let v = res.await;
                        let s = report(&env, read, true);
                        view! { <i>{v}{s}</i> }
                    })
                    .into_any()
                }
            }
        }
        P::T(g, id) | P::D(g, id) => {
            let (envt, g, id) = (env.clone(), *g, *id);
            let (dtx, drx) = oneshot::channel::<()>();
            let dtx = Arc::new(Mutex::new(Some(dtx)));
            let body = move || {
                let (env, dtx) = (envt.clone(), dtx.clone());
                async move {
                    if let Some(rx) = take_gate(&env, g) {
                        let _ = rx.await;
                    }
                    report(&env, id, true);
                    if let Some(tx) = dtx.lock().unwrap().take() {
                        let _ = tx.send(());
                    }
                }
            };
            if matches!(p, P::T(..)) {
                leptos::task::spawn_local_scoped(body());
            } else {
                let action = Action::new(move |_: &()| body());
                action.dispatch(());
            }
            // the response waits for the background work (otherwise when it runs relative to the end of the
            // stream would be a race of the program itself)
            Suspend::new(async move {
                let _ = drx.await;
                ""
            })
            .into_any()
        }
        P::I(id) => {
            let (enve, id) = (env.clone(), *id);
            let (dtx, drx) = oneshot::channel::<()>();
            let dtx = Mutex::new(Some(dtx));
            Effect::new_isomorphic(move |_| {
                report(&enve, id, true);
                if let Some(tx) = dtx.lock().unwrap().take() {
                    let _ = tx.send(());
                }
            });
            Suspend::new(async move {
                let _ = drx.await;
                ""
            })
            .into_any()
        }
        P::A(g, id) => {
            let (env, g, id) = (env.clone(), *g, *id);
            // arena items registered with the CURRENT owner: a child owner when under Suspense / Provider / Router
            let sig2 = RwSignal::new(100 + env.me);
            let sv = StoredValue::new(200 + env.me);
            Suspend::new(async move {
                if let Some(rx) = take_gate(&env, g) {
                    let _ = rx.await;
                }
                let a = sig2.try_get_untracked().map(|v| (v as i64 - 100).to_string()).unwrap_or("-".into());
                let b = sv.try_get_value().map(|v| (v as i64 - 200).to_string()).unwrap_or("-".into());
                let seen = format!("v{a}/{b}");
                LOG.lock().unwrap().push(Rec {
                    me: env.me,
                    leaf: id,
                    tag: None,
                    sig: None,
                    did: None,
                    cleanup: false,
                    arena_read: Some(seen.clone()),
                });
                format!("[A{id}:{seen}]")
            })
            .into_any()
        }
        P::X(v, g, id) => {
            // registered while the component body runs; executed later by the user stream behind the app stream
            let owner = if *v == 1 { Owner::current().map(|o| o.child()) } else { None };
            env.tail.lock().unwrap().push_back(TailStep {
                variant: *v,
                rx: take_gate(env, *g),
                leaf: *id,
                owner,
                env: env.clone(),
                handle: StoredValue::new(300 + env.me),
            });
            ().into_any()
        }
        P::Y(v, g, id) => {
            let (envt, v, g, id) = (env.clone(), *v, *g, *id);
            let (dtx, drx) = oneshot::channel::<()>();
            let owner = if v == 1 { Owner::current().map(|o| o.child()) } else { None };
            // `reactive_graph::spawn`: the task is wrapped in `Sandboxed` (arena), not in a `ScopedFuture`
            let h = StoredValue::new(300 + envt.me);
            leptos::reactive::spawn(async move {
                if let Some(rx) = take_gate(&envt, g) {
                    let _ = rx.await;
                }
                match owner.as_ref() {
                    Some(o) => o.with(|| touch_arena(&envt, id, h, true)),
                    None => touch_arena(&envt, id, h, false),
                };
                let _ = dtx.send(());
            });
            Suspend::new(async move {
                let _ = drx.await;
                ""
            })
            .into_any()
        }
        P::M(g, id) => {
            let (envm, g, id) = (env.clone(), *g, *id);
            let (dtx, drx) = oneshot::channel::<()>();
            let s = ArcRwSignal::new(0u32);
            let scope = Owner::current().expect("owner").child();
            let m = scope.with(|| {
                provide_context(Tag { req: envm.me, scope: 50 });
                let (s, envm) = (s.clone(), envm.clone());
                let m = ArcMemo::new(move |_| {
                    let n = s.get();
                    report(&envm, id, true);
                    n
                });
                m.get_untracked();
                m
            });
            let envs = env.clone();
            env.side.lock().unwrap().push(Box::pin(async move {
                if let Some(rx) = take_gate(&envs, g) {
                    let _ = rx.await;
                }
                // the source changes; whoever reads the memo next re-evaluates it — here a bare future at the
                // handler's top level: no owner of this request entered, possibly another request's root current
                s.set(1);
                m.get_untracked();
                drop(scope);
                let _ = dtx.send(());
            }));
            Suspend::new(async move {
                let _ = drx.await;
                ""
            })
            .into_any()
        }
        P::N(v, g, id) => {
            let (envn, v, g, id) = (env.clone(), *v, *g, *id);
            let (dtx, drx) = oneshot::channel::<()>();
            let me = envn.me;
            let log_cleanup = move |h: RwSignal<u32>| {
                let seen = h.try_get_untracked().map(|x| format!("a{}", x as i64 - 100)).unwrap_or("a-".into());
                LOG.lock().unwrap().push(Rec {
                    me,
                    leaf: id,
                    tag: None,
                    sig: None,
                    did: None,
                    cleanup: false,
                    arena_read: Some(seen),
                });
            };
            let scope = Owner::current().expect("owner").child();
            let s = ArcRwSignal::new(0u32);
            let memo = if v == 1 {
                let s = s.clone();
                Some(scope.with(|| {
                    let m = ArcMemo::new(move |_| {
                        let n = s.get();
                        // owned by this run of the memo: disposed of by the `with_cleanup` of the next run
                        let h = RwSignal::new(100 + me);
                        on_cleanup(move || log_cleanup(h));
                        n
                    });
                    m.get_untracked();
                    m
                }))
            } else {
                scope.with(|| {
                    let h = RwSignal::new(100 + me);
                    on_cleanup(move || log_cleanup(h));
                });
                None
            };
            env.side.lock().unwrap().push(Box::pin(async move {
                if let Some(rx) = take_gate(&envn, g) {
                    let _ = rx.await;
                }
                // cleanup WITHOUT a drop, from the handler's top level (no `Sandboxed`, no owner entered)
                match memo {
                    Some(m) => {
                        s.set(1);
                        m.get_untracked();
                    }
                    None => scope.cleanup(),
                }
                drop(scope);
                let _ = dtx.send(());
            }));
            Suspend::new(async move {
                let _ = drx.await;
                ""
            })
            .into_any()
        }
        P::K(v, g, id, id2) => {
            let (envk, v, g, id, id2) = (env.clone(), *v, *g, *id, *id2);
            let (dtx, drx) = oneshot::channel::<()>();
            let h = StoredValue::new(300 + envk.me);
            let owner = Owner::current().expect("owner");
            let body = {
                let owner = owner.clone();
                async move {
                    if let Some(rx) = take_gate(&envk, g) {
                        let _ = rx.await;
                    }
                    let look = || {
                        report(&envk, id, true);
                        touch_arena(&envk, id2, h, true);
                    };
                    if v == 1 {
                        owner.with(look)
                    } else {
                        look()
                    }
                    let _ = dtx.send(());
                }
            };
            let fut: Pin<Box<dyn Future<Output = ()> + Send>> = if v == 0 {
                Box::pin(leptos::reactive::computed::ScopedFuture::new(body))
            } else {
                Box::pin(body)
            };
            env.side.lock().unwrap().push(fut);
            Suspend::new(async move {
                let _ = drx.await;
                ""
            })
            .into_any()
        }
        P::Z(kv, g1, t, g2, ls, la, lb, lread) => {
            let (kind, trig) = (kv / 10, kv % 10);
            let (g1, t, g2, ls, la, lb, lread) = (*g1, *t, *g2, *ls, *la, *lb, *lread);
            // Arc signal: still usable by the harness' own closures after the request was aborted
            let src = ArcRwSignal::new(0u32);
            let src2 = src.clone();
            let runs = Arc::new(std::sync::atomic::AtomicUsize::new(0));
            let (d2tx, d2rx) = oneshot::channel::<()>();
            let d2tx = Arc::new(Mutex::new(Some(d2tx)));
            let envf = env.clone();
            // the fetcher: reports in its synchronous part, in its async part and after its await
            let fetcher = move || {
                let k = runs.fetch_add(1, std::sync::atomic::Ordering::SeqCst);
                report(&envf, ls, true);
                let (env, d2tx) = (envf.clone(), d2tx.clone());
                async move {
                    report(&env, la, true);
                    if let Some(rx) = take_gate(&env, if k == 0 { g1 } else { g2 }) {
                        let _ = rx.await;
                    }
                    let s = report(&env, lb, true);
                    if k >= 1 {
                        if let Some(tx) = d2tx.lock().unwrap().take() {
                            let _ = tx.send(());
                        }
                    }
                    s
                }
            };
            // the SOURCE function of a Resource reads context too: it becomes a memo that the resource's spawned task
            // re-evaluates at the executor's top level when the signal changed
            let source = {
                let (envs, src) = (env.clone(), src.clone());
                move || {
                    report(&envs, ls, true);
                    src.get()
                }
            };
            let env = env.clone();
            macro_rules! rerun_view {
                ($res:expr, $retrigger:expr) => {{
                    let res = $res;
                    let retrigger = $retrigger;
                    if trig == 0 {
                        // the source changes later in the same synchronous render: before the task's first poll
                        retrigger(res.clone());
                    } else {
                        let (envt, res2) = (env.clone(), res.clone());
                        leptos::task::spawn_local_scoped(async move {
                            if let Some(rx) = take_gate(&envt, t) {
                                let _ = rx.await;
                            }
                            retrigger(res2);
                        });
                    }
                    Suspend::new(async move {
                        let v1 = res.clone().await;
                        let s = report(&env, lread, true);
                        let _ = d2rx.await;
                        let v2 = res.await;
                        view! { <i>{v1}{s}{v2}</i> }
                    })
                    .into_any()
                }};
            }
            match kind {
                0 => {
                    let f = fetcher.clone();
                    rerun_view!(Resource::new(source, move |_| f()), move |r: Resource<String>| {
                        if trig == 2 {
                            r.refetch()
                        } else {
                            src2.set(1)
                        }
                    })
                }
                1 => {
                    let f = fetcher.clone();
                    rerun_view!(ArcResource::new(source, move |_| f()), move |r: ArcResource<String>| {
                        if trig == 2 {
                            r.refetch()
                        } else {
                            src2.set(1)
                        }
                    })
                }
                2 => {
                    let f = fetcher.clone();
                    rerun_view!(
                        AsyncDerived::new(move || {
                            src.track();
                            f()
                        }),
                        move |_r: AsyncDerived<String>| src2.set(1)
                    )
                }
                _ => {
                    let f = fetcher.clone();
                    rerun_view!(
                        ArcAsyncDerived::new(move || {
                            src.track();
                            f()
                        }),
                        move |_r: ArcAsyncDerived<String>| src2.set(1)
                    )
                }
            }
        }
        P::F(n, id) => {
            let (env, n, id) = (env.clone(), *n, *id);
            view! {
                <For each=move || 0..n key=|i| *i children=move |_i| report(&env, id, true) />
            }
            .into_any()
        }
        P::Q(v) => v.iter().map(|c| build(c, env)).collect::<Vec<AnyView>>().into_any(),
    }
}

// ------------------------------------------------------------------ build_response

/// per-request configuration handed to `stream_builder` (a plain `fn`) through context
#[derive(Clone)]
struct ReqCfg {
    /// 0 in-order streaming, 1 out-of-order streaming, 2 async rendering (the whole app is awaited, then the
    /// hydration chunks are requested: `leptos_axum::render_app_async`, `SsrMode::Async`)
    mode: u8,
    tail: Arc<Mutex<std::collections::VecDeque<TailStep>>>,
}

fn stream_builder(
    app: AnyView,
    chunks: BoxedFnOnce<PinnedStream<String>>,
    _supports_ooo: bool,
) -> PinnedFuture<PinnedStream<String>> {
    // what the axum/actix integrations pass to build_response: integrations/axum/src/lib.rs
    // `render_app_to_stream_with_context_and_replace_blocks` (streaming) and `async_stream_builder` (async mode)
    let cfg = use_context::<ReqCfg>().expect("ReqCfg");
    // a user stream chained behind the app and its hydration chunks (`X` nodes): polled through the response
    // body's `Sandboxed::poll_next`, by code that does not enter an owner by itself
    let tail = cfg.tail.clone();
    let user_tail = futures::stream::poll_fn(move |cx| {
        let mut steps = tail.lock().unwrap();
        let Some(st) = steps.front_mut() else { return Poll::Ready(None) };
        if let Some(rx) = st.rx.as_mut() {
            if Pin::new(rx).poll(cx).is_pending() {
                return Poll::Pending;
            }
        }
        let st = steps.pop_front().unwrap();
        drop(steps);
        let seen = match st.owner.as_ref() {
            Some(o) => o.with(|| touch_arena(&st.env, st.leaf, st.handle, true)),
            None => touch_arena(&st.env, st.leaf, st.handle, false),
        };
        Poll::Ready(Some(format!("[X{}:{seen}]", st.leaf)))
    });
    Box::pin(async move {
        match cfg.mode {
            2 => {
                let app = app.to_html_stream_in_order().collect::<String>().await;
                let chunks = chunks();
                Box::pin(futures::stream::once(async move { app }).chain(chunks).chain(user_tail)) as PinnedStream<String>
            }
            1 => Box::pin(app.to_html_stream_out_of_order().chain(chunks()).chain(user_tail)) as PinnedStream<String>,
            _ => Box::pin(app.to_html_stream_in_order().chain(chunks()).chain(user_tail)) as PinnedStream<String>,
        }
    })
}

/// the response type of this "integration"
struct HxResponse(PinnedStream<String>);

/// bin `c20`: the REAL response assembly, `leptos_integration_utils::ExtendResponse::from_app` (which calls the real
/// `build_response`, awaits deferred (blocking) resources, lets leptos_meta inject into the first chunk, awaits the
/// first chunk OUTSIDE any `Sandboxed`, then wraps the rest of the body, ending with `owner.unset()`, in `Sandboxed`)
#[cfg(feature = "sandbox")]
mod assembly {
    use super::*;
    use leptos_integration_utils::ExtendResponse;

    impl ExtendResponse for HxResponse {
        type ResponseOptions = ();
        fn from_stream(stream: impl Stream<Item = String> + Send + 'static) -> Self {
            HxResponse(Box::pin(stream))
        }
        fn extend_response(&mut self, _: &()) {}
        fn set_default_content_type(&mut self, _: &str) {}
    }

    pub fn assemble(
        app_fn: impl FnOnce() -> AnyView + Send + 'static,
        additional_context: impl FnOnce() + Send + 'static,
    ) -> PinnedFuture<HxResponse> {
        let (_meta, meta_output) = leptos_meta::ServerMetaContext::new();
        Box::pin(HxResponse::from_app(app_fn, meta_output, additional_context, (), stream_builder, true))
    }
}

/// bin `c20g` (global arena): `leptos_integration_utils` cannot be linked without turning `sandboxed-arenas` on for
/// the whole build, so `build_response` and `from_app` (integrations/utils/src/lib.rs) are reproduced line by line,
/// minus `Sandboxed` (does not exist here), the nonce and the leptos_meta injection (a no-op without meta tags)
#[cfg(not(feature = "sandbox"))]
mod assembly {
    use super::*;

    fn build_response<IV>(
        app_fn: impl FnOnce() -> IV + Send + 'static,
        additional_context: impl FnOnce() + Send + 'static,
        stream_builder: fn(IV, BoxedFnOnce<PinnedStream<String>>, bool) -> PinnedFuture<PinnedStream<String>>,
        is_islands_router_navigation: bool,
    ) -> (Owner, PinnedFuture<PinnedStream<String>>)
    where
        IV: IntoView + 'static,
    {
        let shared_context = Arc::new(SsrSharedContext::new()) as Arc<dyn SharedContext + Send + Sync>;
        let owner = Owner::new_root(Some(Arc::clone(&shared_context)));
        let stream = Box::pin({
            let owner = owner.clone();
            async move {
                let stream = owner.with(|| {
                    additional_context();
                    let app = app_fn();
                    let nonce = String::new();
                    let shared_context = Owner::current_shared_context().unwrap();
                    let chunks = Box::new({
                        let shared_context = shared_context.clone();
                        move || {
                            Box::pin(
                                shared_context
                                    .pending_data()
                                    .unwrap()
                                    .map(move |chunk| format!("<script{nonce}>{chunk}</script>")),
                            ) as Pin<Box<dyn Stream<Item = String> + Send>>
                        }
                    });
                    stream_builder(app, chunks, is_islands_router_navigation)
                });
                stream.await
            }
        });
        (owner, stream)
    }

    pub fn assemble(
        app_fn: impl FnOnce() -> AnyView + Send + 'static,
        additional_context: impl FnOnce() + Send + 'static,
    ) -> PinnedFuture<HxResponse> {
        Box::pin(async move {
            let (owner, stream) = build_response(app_fn, additional_context, stream_builder, true);
            let sc = owner.shared_context().unwrap();
            let stream = stream.await.ready_chunks(32).map(|n| n.join(""));
            while let Some(pending) = sc.await_deferred() {
                pending.await;
            }
            let mut stream = Box::pin(stream.then({
                let sc = Arc::clone(&sc);
                move |chunk| {
                    let sc = Arc::clone(&sc);
                    async move {
                        while let Some(pending) = sc.await_deferred() {
                            pending.await;
                        }
                        chunk
                    }
                }
            }));
            let first_chunk = stream.next().await.unwrap_or_default();
            HxResponse(Box::pin(futures::stream::once(async move { first_chunk }).chain(stream).chain(
                futures::stream::once(async move {
                    owner.unset();
                    Default::default()
                }),
            )))
        })
    }
}

#[allow(dead_code)]
fn _keep_types(_: Option<Arc<SsrSharedContext>>, _: Option<Arc<dyn SharedContext>>) {}

// ------------------------------------------------------------------ one run (concurrent or solo)

#[derive(Clone, Debug, PartialEq)]
enum Act {
    Start,
    Fire(u32),
    Ps,
    Poll(usize), // local index among this request's tasks
    Finish,
    /// client abort while request `.0`'s arena is the thread's current one
    Abort(u32),
}

struct Req {
    me: u32,
    /// 0 in-order, 1 out-of-order, 2 async rendering
    ooo: u8,
    prog: P,
    gates: Vec<u32>,
    /// the response future (`from_app`): polled by hand, NOT inside `Sandboxed`, until it yields the body
    assembling: Option<PinnedFuture<HxResponse>>,
    /// futures the handler side polls itself, outside any `Sandboxed` (`K` nodes)
    side: Arc<Mutex<Vec<Pin<Box<dyn Future<Output = ()> + Send>>>>>,
    started: bool,
    dropped: bool,
    aborted: bool,
    /// polling it does what polling any `Sandboxed` future of this request does first: make its arena current
    arena_setter: Option<Pin<Box<dyn Future<Output = ()>>>>,
    stream: Option<PinnedStream<String>>,
    stream_done: bool,
    html: String,
    txs: HashMap<u32, oneshot::Sender<()>>,
    fired: BTreeSet<u32>,
    acts: Vec<Act>,
    tasks: Vec<usize>, // sched ids of the tasks attributed to this request, in spawn order
}

impl Req {
    fn new(me: u32, ooo: u8, prog: P) -> Self {
        let mut gates = vec![];
        gates_of(&prog, &mut gates);
        Req {
            me,
            ooo,
            prog,
            gates,
            assembling: None,
            side: Default::default(),
            started: false,
            dropped: false,
            aborted: false,
            arena_setter: None,
            stream: None,
            stream_done: false,
            html: String::new(),
            txs: HashMap::new(),
            fired: BTreeSet::new(),
            acts: vec![],
            tasks: vec![],
        }
    }
}

struct World {
    reqs: Vec<Req>,
    known_tasks: usize,
    panicked: bool,
    starting: bool,
    ambient_changed: bool,
}

impl World {
    fn new() -> Self {
        World { reqs: vec![], known_tasks: 0, panicked: false, starting: false, ambient_changed: false }
    }

    /// tasks spawned since the last call belong to request r
    fn attribute(&mut self, r: usize) {
        let n = sched::task_count();
        for id in self.known_tasks..n {
            self.reqs[r].tasks.push(id);
        }
        self.known_tasks = n;
    }

    fn guarded(&mut self, r: usize, f: impl FnOnce(&mut World)) {
        // oracle on the thread-local itself: only `start` (`Owner::new_root`) may INSTALL an owner; every other step
        // (task polls, stream polls, handler-side polls, gate completions, drops) leaves the ambient owner as it was or
        // clears it (`Owner::unset`, the root dying) — in particular "no current owner" stays "no current owner"
        let before = Owner::current().map(|o| o.debug_id());
        if catch_unwind(AssertUnwindSafe(|| f(self))).is_err() {
            self.panicked = true;
        }
        let after = Owner::current().map(|o| o.debug_id());
        if !self.starting && after.is_some() && after != before {
            self.ambient_changed = true;
        }
        self.attribute(r);
    }

    fn start(&mut self, r: usize) {
        self.starting = true;
        self.guarded(r, |w| {
            let q = &mut w.reqs[r];
            let me = q.me;
            let mut rxs = HashMap::new();
            for g in q.gates.clone() {
                let (tx, rx) = oneshot::channel::<()>();
                q.txs.insert(g, tx);
                rxs.insert(g, rx);
            }
            let gates = Arc::new(Mutex::new(rxs));
            let prog = q.prog.clone();
            let tail: Arc<Mutex<std::collections::VecDeque<TailStep>>> = Default::default();
            let tail2 = tail.clone();
            let side = q.side.clone();
            let app_fn = move || {
                // every response carries a marker in its hydration data: a resource that is ready at once
                let _hyd = Resource::new(|| (), move |_| async move { format!("HYD{me}") });
                let sig = RwSignal::new(10 + me);
                let env = Env { me, sig, gates, tail: tail2, side };
                build(&prog, &env)
            };
            let cfg = ReqCfg { mode: q.ooo, tail };
            let mut fut = assembly::assemble(app_fn, move || {
                provide_context(Tag { req: me, scope: 0 });
                provide_context(cfg);
                // what the integrations' `provide_contexts` gives the router
                provide_context(RequestUrl::new("http://leptos.dev/"));
            });
            // the handler's first poll: `Owner::new_root`, the component bodies, the stream builder
            let w2 = sched::noop_waker();
            let mut cx = Context::from_waker(&w2);
            match fut.as_mut().poll(&mut cx) {
                Poll::Ready(resp) => q.stream = Some(resp.0),
                Poll::Pending => q.assembling = Some(fut),
            }
            // created while this request's arena is current (just set by the `Sandboxed` build_response future)
            #[cfg(feature = "sandbox")]
            {
                q.arena_setter =
                    Some(Box::pin(leptos::reactive::owner::Sandboxed::new(std::future::pending::<()>())));
            }
            q.started = true;
        });
        self.starting = false;
        self.reqs[r].acts.push(Act::Start);
    }

    fn fire(&mut self, r: usize, g: u32) {
        self.guarded(r, |w| {
            let q = &mut w.reqs[r];
            q.fired.insert(g);
            if let Some(tx) = q.txs.remove(&g) {
                let _ = tx.send(());
            }
        });
        self.reqs[r].acts.push(Act::Fire(g));
    }

    fn ps_inner(&mut self, r: usize) {
        self.guarded(r, |w| {
            let q = &mut w.reqs[r];
            if q.stream_done {
                return;
            }
            let w2 = sched::noop_waker();
            let mut cx = Context::from_waker(&w2);
            // the handler side polls its own futures first: no `Sandboxed`, no owner entered by the poller
            let mut side = std::mem::take(&mut *q.side.lock().unwrap());
            side.retain_mut(|f| f.as_mut().poll(&mut cx).is_pending());
            q.side.lock().unwrap().extend(side);
            // then the response future (`from_app`), also outside `Sandboxed`, until the body exists
            if let Some(mut fut) = q.assembling.take() {
                match fut.as_mut().poll(&mut cx) {
                    Poll::Ready(resp) => q.stream = Some(resp.0),
                    Poll::Pending => {
                        q.assembling = Some(fut);
                        return;
                    }
                }
            }
            let Some(mut s) = q.stream.take() else { return };
            let mut pend = 0;
            let mut done = false;
            for _ in 0..10_000 {
                match s.as_mut().poll_next(&mut cx) {
                    Poll::Ready(Some(c)) => {
                        pend = 0;
                        q.html.push_str(&c)
                    }
                    Poll::Ready(None) => {
                        done = true;
                        break;
                    }
                    Poll::Pending => {
                        pend += 1;
                        if pend >= 8 {
                            break;
                        }
                    }
                }
            }
            q.stream_done = done;
            q.stream = Some(s);
        });
    }

    /// run r's own ready tasks until none is ready
    fn run_own_tasks(&mut self, r: usize) -> usize {
        let mut n = 0;
        for _ in 0..10_000 {
            let rd = sched::ready();
            let Some(&id) = rd.iter().find(|id| self.reqs[r].tasks.contains(id)) else { break };
            self.guarded(r, |_| {
                sched::poll(id);
            });
            n += 1;
        }
        n
    }

    /// everything r can do by itself with the gates fired so far: its ready tasks, then its stream, to a fixpoint
    fn progress(&mut self, r: usize) {
        for _ in 0..64 {
            let state = |q: &Req| (q.html.len(), q.assembling.is_some(), q.side.lock().unwrap().len());
            let before = state(&self.reqs[r]);
            // the handler side first (nothing of r that is `Sandboxed` has run yet in this round)
            self.ps_inner(r);
            let n = self.run_own_tasks(r);
            let rd = sched::ready();
            let more = rd.iter().any(|id| self.reqs[r].tasks.contains(id));
            if self.reqs[r].stream_done || (n == 0 && !more && state(&self.reqs[r]) == before) {
                break;
            }
        }
    }

    fn ps(&mut self, r: usize) {
        self.progress(r);
        self.reqs[r].acts.push(Act::Ps);
    }

    fn poll_task(&mut self, r: usize, k: usize) {
        self.guarded(r, |w| {
            if let Some(&id) = w.reqs[r].tasks.get(k) {
                sched::poll(id);
            }
        });
        self.reqs[r].acts.push(Act::Poll(k));
    }

    fn owner_of(&self, id: usize) -> Option<(usize, usize)> {
        for (r, q) in self.reqs.iter().enumerate() {
            if let Some(k) = q.tasks.iter().position(|&t| t == id) {
                return Some((r, k));
            }
        }
        None
    }

    fn poll_nth(&mut self, i: usize) {
        let rd = sched::ready();
        if rd.is_empty() {
            return;
        }
        let id = rd[i % rd.len()];
        if let Some((r, k)) = self.owner_of(id) {
            self.poll_task(r, k);
        }
    }

    /// drive r alone to completion, then drop it the way `from_app` does (`owner.unset()` after the stream)
    fn finish(&mut self, r: usize) {
        for g in self.reqs[r].gates.clone() {
            if !self.reqs[r].fired.contains(&g) {
                self.guarded(r, |w| {
                    let q = &mut w.reqs[r];
                    q.fired.insert(g);
                    if let Some(tx) = q.txs.remove(&g) {
                        let _ = tx.send(());
                    }
                });
            }
        }
        self.progress(r);
        self.guarded(r, |w| {
            let q = &mut w.reqs[r];
            q.stream = None;
            q.assembling = None;
            q.side.lock().unwrap().clear();
            q.txs.clear();
        });
        // tasks woken by the disposal (channel closed) finish here
        self.run_own_tasks(r);
        self.reqs[r].dropped = true;
        self.reqs[r].acts.push(Act::Finish);
    }
}

impl World {
    /// the client of request r goes away: the server drops the response body WITHOUT polling it, on a thread
    /// whose current arena is request b's (whatever was polled there last).  The pending fetches of r then
    /// complete in the background.
    fn abort(&mut self, r: usize, b_me: u32) {
        self.guarded(r, |w| {
            if let Some(bq) = w.reqs.iter_mut().find(|q| q.me == b_me) {
                if let Some(f) = bq.arena_setter.as_mut() {
                    let w2 = sched::noop_waker();
                    let mut cx = Context::from_waker(&w2);
                    let _ = f.as_mut().poll(&mut cx);
                }
            }
            let q = &mut w.reqs[r];
            q.stream = None;
            q.assembling = None;
            q.side.lock().unwrap().clear();
        });
        for g in self.reqs[r].gates.clone() {
            if !self.reqs[r].fired.contains(&g) {
                self.guarded(r, |w| {
                    let q = &mut w.reqs[r];
                    q.fired.insert(g);
                    if let Some(tx) = q.txs.remove(&g) {
                        let _ = tx.send(());
                    }
                });
            }
        }
        self.run_own_tasks(r);
        self.guarded(r, |w| w.reqs[r].txs.clear());
        self.run_own_tasks(r);
        self.reqs[r].dropped = true;
        self.reqs[r].aborted = true;
        self.reqs[r].acts.push(Act::Abort(b_me));
    }
}

fn solo(me: u32, ooo: u8, prog: &P, acts: &[Act]) -> (String, Vec<Rec>, bool, bool) {
    sched::reset();
    LOG.lock().unwrap().clear();
    let mut w = World::new();
    w.reqs.push(Req::new(me, ooo, prog.clone()));
    for a in acts {
        match a {
            Act::Start => w.start(0),
            Act::Fire(g) => w.fire(0, *g),
            Act::Ps => w.ps(0),
            Act::Poll(k) => w.poll_task(0, *k),
            Act::Finish => w.finish(0),
            Act::Abort(b) => w.abort(0, *b),
        }
    }
    let log = std::mem::take(&mut *LOG.lock().unwrap());
    let done = w.reqs[0].stream_done;
    let html = std::mem::take(&mut w.reqs[0].html);
    let p = w.panicked;
    drop(w);
    sched::reset();
    (html, log, done, p)
}

fn show_tag(t: &Option<(u32, u32)>) -> String {
    t.map(|t| format!("{}.{}", t.0, t.1)).unwrap_or("-".into())
}

/// whose hydration data the response carries: every request serialises a marker resource `HYD<request>`
fn hydration_of(html: &str) -> String {
    let mut set = BTreeSet::new();
    let mut rest = html;
    while let Some(i) = rest.find("HYD") {
        rest = &rest[i + 3..];
        let n: String = rest.chars().take_while(|c| c.is_ascii_digit()).collect();
        set.insert(n);
    }
    if set.is_empty() {
        "h=-".into()
    } else {
        format!("h={}", set.into_iter().collect::<Vec<_>>().join(","))
    }
}

fn observation(r: u32, log: &[Rec], hyd: &str) -> String {
    let mut m: BTreeMap<u32, BTreeSet<String>> = BTreeMap::new();
    for x in log.iter().filter(|x| x.me == r) {
        let seen = if let Some(v) = &x.arena_read {
            v.clone()
        } else if x.cleanup {
            // a cleanup leaf reports whose arena it saw (the per-request signal holds 10 + request)
            x.sig.map(|v| format!("a{}", v as i64 - 10)).unwrap_or("a-".into())
        } else {
            show_tag(&x.tag)
        };
        m.entry(x.leaf).or_default().insert(seen);
    }
    format!(
        "r{}:[{}]{}",
        r,
        m.iter()
            .map(|(l, ts)| format!("{}={}", l, ts.iter().cloned().collect::<Vec<_>>().join(",")))
            .collect::<Vec<_>>()
            .join(";"),
        hyd
    )
}

// ------------------------------------------------------------------ op interpreter

struct Case {
    w: World,
    ended: bool,
}

fn fresh_case() -> Case {
    sched::reset();
    LOG.lock().unwrap().clear();
    Case { w: World::new(), ended: false }
}

fn prog_tags(p: &P, under_async: bool, out: &mut BTreeSet<&'static str>) {
    match p {
        P::L(_) | P::E(_) => {
            out.insert("plain");
        }
        P::C(_) => {
            out.insert("cleanup");
        }
        P::V(_, c) => {
            out.insert("provider");
            prog_tags(c, under_async, out)
        }
        P::S(_, _, _, c) => {
            out.insert(if under_async { "suspend-in-suspense" } else { "bare-suspend" });
            prog_tags(c, under_async, out)
        }
        P::U(c) => {
            out.insert("suspense");
            prog_tags(c, true, out)
        }
        P::W(_, c) => {
            out.insert("router");
            prog_tags(c, under_async, out)
        }
        P::R(..) => {
            out.insert("resource");
        }
        P::O(v, ..) => {
            out.insert(match v {
                0 | 1 | 4 => "once-resource",
                2 | 3 => "resource",
                5 | 6 => "async-derived",
                _ => "local-resource",
            });
        }
        P::T(..) => {
            out.insert("spawn-scoped");
        }
        P::D(..) => {
            out.insert("action");
        }
        P::I(..) => {
            out.insert("effect");
        }
        P::A(..) => {
            out.insert("arena-alloc");
        }
        P::X(..) => {
            out.insert("sandboxed-stream-body");
        }
        P::Y(..) => {
            out.insert("sandboxed-task-body");
        }
        P::K(..) => {
            out.insert("handler-side-future");
        }
        P::M(..) => {
            out.insert("memo-rerun");
        }
        P::N(..) => {
            out.insert("cleanup-without-drop");
        }
        P::Z(..) => {
            out.insert("resource-rerun");
        }
        P::F(..) => {
            out.insert("for");
        }
        P::Q(v) => v.iter().for_each(|c| prog_tags(c, under_async, out)),
    }
}

/// the shape of the former finding F-C20-1 (repaired by hooks/fix-c20-1; kept as a case tag): a leaf that looks its context up lazily (reactive closure, `For`) in the
/// view produced by a Suspend that is not inside a Suspense, with no Provider/Suspense between them: it is
/// rendered by the response stream's poll, outside every `ScopedFuture` / `OwnedView`
fn exposed(p: &P, late: bool, covered: bool) -> bool {
    match p {
        P::L(_) | P::F(..) => late && !covered,
        P::E(_) | P::C(_) | P::R(..) | P::O(..) | P::T(..) | P::D(..) | P::I(_) | P::A(..) | P::X(..) | P::Y(..) | P::Z(..) | P::K(..) | P::M(..) | P::N(..) => {
            false
        }
        P::V(_, c) | P::W(_, c) => exposed(c, late, true),
        P::U(_) => false,
        P::S(_, _, _, c) => exposed(c, true, false),
        P::Q(v) => v.iter().any(|c| exposed(c, late, covered)),
    }
}

/// a Suspense / another async boundary / a Provider in the late view of a bare Suspend (former class F-C20-2, repaired, for
/// Suspense: `OwnedView::to_html_async_with_buf` parks its owner in the AMBIENT owner's cleanups)
fn late_kind(p: &P, late: bool, out: &mut BTreeSet<&'static str>) {
    match p {
        P::L(_) | P::F(..) | P::E(_) | P::C(_) | P::I(_) | P::X(..) => {}
        P::R(..) | P::O(..) | P::T(..) | P::D(..) | P::A(..) | P::Y(..) | P::Z(..) | P::K(..) | P::M(..) | P::N(..) => {
            if late {
                out.insert("late-resource");
            }
        }
        P::V(_, c) => {
            if late {
                out.insert("late-provider");
            }
            late_kind(c, late, out)
        }
        P::U(_) => {
            if late {
                out.insert("late-suspense");
            }
        }
        P::W(_, c) => {
            if late {
                out.insert("late-router");
            }
            late_kind(c, late, out)
        }
        P::S(_, _, _, c) => {
            if late {
                out.insert("late-suspend");
            }
            late_kind(c, true, out)
        }
        P::Q(v) => v.iter().for_each(|c| late_kind(c, late, out)),
    }
}

fn op(c: &mut Case, line: &str) -> String {
    let w: Vec<&str> = line.split_whitespace().collect();
    let idx = |s: &str, c: &Case| -> Option<usize> {
        let r: usize = s.parse().ok()?;
        if r < c.w.reqs.len() {
            Some(r)
        } else {
            None
        }
    };
    if c.ended {
        return "bad-op".into();
    }
    match w.as_slice() {
        ["req", r, mode, p] => {
            let Ok(r) = r.parse::<usize>() else { return "bad-op".into() };
            let m = match *mode {
                "io" => 0u8,
                "ooo" => 1,
                "async" => 2,
                _ => return "bad-op".into(),
            };
            if r != c.w.reqs.len() || r > 2 {
                return "bad-op".into();
            }
            let Some(p) = parse_prog(p) else { return "bad-op".into() };
            c.w.reqs.push(Req::new(r as u32, m, p));
            "ok".into()
        }
        ["start", r] => {
            let Some(r) = idx(r, c) else { return "bad-op".into() };
            if c.w.reqs[r].started {
                return "bad-op".into();
            }
            c.w.start(r);
            "ok".into()
        }
        ["fire", r, g] => {
            let Some(r) = idx(r, c) else { return "bad-op".into() };
            let Ok(g) = g.parse::<u32>() else { return "bad-op".into() };
            let q = &c.w.reqs[r];
            if !q.started || q.dropped || !q.gates.contains(&g) || q.fired.contains(&g) {
                return "bad-op".into();
            }
            c.w.fire(r, g);
            "ok".into()
        }
        ["ps", r] => {
            let Some(r) = idx(r, c) else { return "bad-op".into() };
            if !c.w.reqs[r].started || c.w.reqs[r].dropped {
                return "bad-op".into();
            }
            c.w.ps(r);
            "ok".into()
        }
        ["amb"] => {
            // unrelated work on the thread that starts from the ambient owner: what does it find there?
            let t = use_context::<Tag>().map(|t| format!("{}.{}", t.req, t.scope)).unwrap_or("-".into());
            format!("ok o={t}")
        }
        ["poll", i] => {
            let Ok(i) = i.parse::<usize>() else { return "bad-op".into() };
            c.w.poll_nth(i);
            "ok".into()
        }
        ["drop", r] => {
            let Some(r) = idx(r, c) else { return "bad-op".into() };
            if !c.w.reqs[r].started || c.w.reqs[r].dropped {
                return "bad-op".into();
            }
            c.w.finish(r);
            "ok".into()
        }
        ["abort", r, b] => {
            let (Some(r), Some(b)) = (idx(r, c), idx(b, c)) else { return "bad-op".into() };
            let ok = |q: &Req| q.started && !q.dropped;
            if !ok(&c.w.reqs[r]) || !ok(&c.w.reqs[b]) {
                return "bad-op".into();
            }
            c.w.abort(r, b as u32);
            "ok".into()
        }
        ["end"] => {
            for r in 0..c.w.reqs.len() {
                if c.w.reqs[r].started && !c.w.reqs[r].dropped {
                    c.w.finish(r);
                }
            }
            c.ended = true;
            let log = std::mem::take(&mut *LOG.lock().unwrap());
            let mut obs = vec![];
            let mut bad = vec![];
            if c.w.panicked {
                bad.push("panic".to_string());
            }
            if c.w.ambient_changed {
                bad.push("ambient-owner-installed".to_string());
            }
            let info: Vec<(u8, P, Vec<Act>, String, bool, bool, bool)> = c
                .w
                .reqs
                .iter_mut()
                .map(|q| (q.ooo, q.prog.clone(), q.acts.clone(), std::mem::take(&mut q.html), q.stream_done, q.started, q.aborted))
                .collect();
            c.w.reqs.clear();
            sched::reset();
            for (r, (ooo, prog, acts, html, done, started, aborted)) in info.iter().enumerate() {
                if !*started {
                    continue;
                }
                // an aborted response is truncated wherever the abort fell: only the oracle looks at it
                obs.push(if *aborted { format!("r{r}:aborted") } else { observation(r as u32, &log, &hydration_of(html)) });
                let (shtml, slog, sdone, spanic) = solo(r as u32, *ooo, prog, acts);
                let mine: Vec<Rec> = log.iter().filter(|x| x.me == r as u32).cloned().collect();
                let alone: Vec<Rec> = slog;
                if std::env::var("C20_DEBUG").is_ok() {
                    eprintln!("r{r} conc: {html}\nr{r} solo: {shtml}\n conc log {mine:?}\n solo log {alone:?}\n acts {acts:?}");
                }
                if !*done && !*aborted {
                    bad.push(format!("r{r}:incomplete"));
                }
                if spanic || (!sdone && !*aborted) {
                    bad.push(format!("r{r}:solo-broken"));
                }
                if *html != shtml {
                    bad.push(format!("r{r}:html"));
                } else if mine != alone {
                    bad.push(format!("r{r}:log"));
                }
            }
            let v = if bad.is_empty() { "ok".to_string() } else { format!("fail isolation {}", bad.join(",")) };
            format!("{} ## {}", obs.join(" "), v)
        }
        _ => "bad-op".into(),
    }
}

fn main() {
    #[cfg(feature = "sandbox")]
    if std::env::args().next().map(|a| a.ends_with("c20g")).unwrap_or(false) {
        eprintln!("c20g was built with the `sandbox` feature; rebuild with --no-default-features --bin c20g");
        std::process::exit(3);
    }
    if std::env::var("C20_DEBUG").is_err() {
        quiet_panics();
    }
    sched::install();
    match parse_cli() {
        Cmd::Gen { seed, n, ops, tier } => gen(seed, n, &ops, &tier),
        Cmd::Run { ops, out } => {
            // pre-scan: the tags of a case come from its `req` lines, but must be printed on its `case` line
            let text = std::fs::read_to_string(&ops).unwrap();
            let mut case_tags: Vec<BTreeSet<&'static str>> = vec![];
            for line in text.lines() {
                let w: Vec<&str> = line.split_whitespace().collect();
                match w.as_slice() {
                    ["case", ..] => case_tags.push(BTreeSet::new()),
                    ["req", _, mode, p] => {
                        if let (Some(t), Some(p)) = (case_tags.last_mut(), parse_prog(p)) {
                            prog_tags(&p, false, t);
                            late_kind(&p, false, t);
                            if exposed(&p, false, false) {
                                t.insert("exposed");
                            }
                            t.insert(match *mode {
                                "ooo" => "ooo",
                                "async" => "async-mode",
                                _ => "in-order",
                            });
                        }
                    }
                    ["drop", ..] => {
                        if let Some(t) = case_tags.last_mut() {
                            t.insert("early-drop");
                        }
                    }
                    ["abort", ..] => {
                        if let Some(t) = case_tags.last_mut() {
                            t.insert("abort");
                        }
                    }
                    _ => {}
                }
            }
            let mut c = fresh_case();
            let mut k = 0usize;
            run_ops(&ops, &out, |line| {
                if let Some(name) = line.strip_prefix("case ") {
                    c = fresh_case();
                    let tags = case_tags.get(k).map(|t| t.iter().cloned().collect::<Vec<_>>().join(",")).unwrap_or_default();
                    k += 1;
                    return if tags.is_empty() { format!("case {name}") } else { format!("case {name} tags={tags}") };
                }
                op(&mut c, line)
            })
            .unwrap();
        }
    }
}

// ------------------------------------------------------------------ generator

struct G {
    rng: Rng,
    leaf: u32,
    gate: u32,
}

/// where in the program the generator is (what the real code does with the node depends on it)
#[derive(Clone, Copy, Default)]
struct Gc {
    /// under a Suspense
    in_susp: bool,
    /// in the view a Suspend OUTSIDE Suspense resolves to (rendered later by the response stream)
    late: bool,
    /// ... and under a Provider there
    late_under_v: bool,
    /// in the view a Suspend INSIDE Suspense resolves to: a Suspend/Resource nested there is dropped by the
    /// real renderer when still pending (C07's business, timing-dependent content) — not generated
    in_susp_suspend: bool,
    /// under a Provider/Suspense that is itself rendered late: a Suspense or an `on_cleanup` below it is the
    /// second known class (F-C20-2: the owner is parked in another request's cleanups or dropped at once:
    /// the response may hang, the cleanup runs at the other request's disposal); only in the corpus
    no_u: bool,
    /// avoid the first known class (F-C20-1): no lazy leaf directly in a late view
    safe: bool,
}

impl G {
    fn leaf(&mut self) -> u32 {
        self.leaf += 1;
        self.leaf
    }
    fn gate(&mut self) -> u32 {
        self.gate += 1;
        self.gate
    }
    fn sync_leaf(&mut self, c: Gc) -> P {
        let exposed_pos = c.late && !c.late_under_v;
        match self.rng.below(10) {
            0..=4 if !(exposed_pos && c.safe) => P::L(self.leaf()),
            0..=6 => P::E(self.leaf()),
            7 if !c.no_u => P::C(self.leaf()),
            7 => P::E(self.leaf()),
            _ => P::F(self.rng.range(1, 3) as u32, self.leaf()),
        }
    }
    /// every API that stores or spawns a future for the request, as a leaf whose future reports AFTER an await
    fn async_leaf(&mut self, c: Gc, allow_u: bool) -> P {
        match self.rng.below(18) {
            // bodies behind the two `Sandboxed` entry points that touch arena handles, with/without an owner
            12..=13 => P::X(self.rng.below(2) as u32, self.gate(), self.leaf()),
            14 if self.rng.chance(1, 2) => P::Y(self.rng.below(2) as u32, self.gate(), self.leaf()),
            // a future the handler side polls itself, outside `Sandboxed` (own root possibly still current)
            14 => match self.rng.below(4) {
                0..=1 => P::K(self.rng.below(2) as u32, self.gate(), self.leaf(), self.leaf()),
                // a memo re-evaluated / a scope cleaned up (not dropped) from the handler's top level
                2 => P::M(self.gate(), self.leaf()),
                _ => P::N(self.rng.below(2) as u32, self.gate(), self.leaf()),
            },
            // resources / async deriveds whose fetcher re-runs
            15..=17 => {
                let kind = self.rng.below(4) as u32;
                let trig = if kind < 2 { self.rng.below(3) } else { self.rng.below(2) } as u32;
                P::Z(
                    kind * 10 + trig,
                    self.gate(),
                    self.gate(),
                    self.gate(),
                    self.leaf(),
                    self.leaf(),
                    self.leaf(),
                    self.leaf(),
                )
            }
            0..=1 => P::R(self.gate(), self.leaf(), self.leaf()),
            2..=5 => P::O(self.rng.below(7) as u32, self.gate(), self.leaf(), self.leaf()),
            6 if allow_u => P::U(Box::new(P::O(7, self.gate(), self.leaf(), self.leaf()))),
            6..=7 => P::T(self.gate(), self.leaf()),
            8..=9 => P::A(self.gate(), self.leaf()),
            10 => P::I(self.leaf()),
            // an Action dispatched while rendering: its future is spawned unscoped (known class F-C20-3)
            _ if !c.safe => P::D(self.gate(), self.leaf()),
            _ => P::A(self.gate(), self.leaf()),
        }
    }
    fn prog(&mut self, depth: u32, c: Gc) -> P {
        if depth == 0 {
            return self.sync_leaf(c);
        }
        let allow_s = !c.in_susp_suspend && !(c.safe && c.late && c.late_under_v);
        let allow_r = !c.in_susp_suspend;
        let allow_u = !c.no_u;
        match self.rng.below(17) {
            0..=1 => self.sync_leaf(c),
            14..=16 if allow_r => self.async_leaf(c, allow_u),
            14..=16 => self.sync_leaf(c),
            2..=3 => {
                let k = self.rng.range(1, 9) as u32;
                let mut c2 = c;
                if c.late {
                    c2.late_under_v = true;
                    c2.no_u = c.safe;
                }
                P::V(k, Box::new(self.prog(depth - 1, c2)))
            }
            4..=6 if allow_s => {
                let (g, a, b) = (self.gate(), self.leaf(), self.leaf());
                let mut c2 = c;
                if c.in_susp {
                    c2.in_susp_suspend = true;
                } else {
                    c2.late = true;
                    c2.late_under_v = false;
                }
                P::S(g, a, b, Box::new(self.prog(depth - 1, c2)))
            }
            7..=9 if allow_u => {
                let mut c2 = c;
                if c.late {
                    c2.no_u = c.safe;
                }
                c2.in_susp = true;
                c2.late = false;
                c2.late_under_v = false;
                P::U(Box::new(self.prog(depth - 1, c2)))
            }
            10..=11 if allow_r => P::R(self.gate(), self.leaf(), self.leaf()),
            4..=11 => self.sync_leaf(c),
            _ => {
                let n = self.rng.range(2, 3);
                P::Q((0..n).map(|_| self.prog(depth - 1, c)).collect())
            }
        }
    }
}

fn action_gates(p: &P, out: &mut Vec<u32>) {
    match p {
        P::D(g, _) => out.push(*g),
        P::S(_, _, _, c) | P::V(_, c) | P::U(c) | P::W(_, c) => action_gates(c, out),
        P::Q(v) => v.iter().for_each(|c| action_gates(c, out)),
        _ => {}
    }
}

fn gen_case(rng: &mut Rng, name: &str, out: &mut String, tier: &str) {
    let nreq = if rng.chance(7, 10) { 2 } else { 3 };
    // since the repairs fix-c20-1/3/4 nothing has to be avoided any more (lazy leaves, Providers, Suspenses, cleanups and
    // Actions in late views; aborts of pages with cleanups): `safe` stays as a switch for replaying against an old tree
    let safe = false;
    let mut progs = vec![];
    let mut has_cleanup = vec![];
    let mut no_abort = vec![];
    out.push_str(&format!("case {name}\n"));
    // one case in three renders the SAME page for every request: the same sequence of arena keys, context types
    // and SerializedDataIds in every request, so that anything looked up in the wrong request finds something
    let same = rng.chance(1, 3);
    let mut first: Option<P> = None;
    for r in 0..nreq {
        let mut g = G { rng: rng.clone(), leaf: 0, gate: 0 };
        let depth = if tier == "thorough" { rng.range(1, 4) } else { rng.range(1, 3) } as u32;
        let mut p = g.prog(depth, Gc { safe, ..Default::default() });
        *rng = g.rng;
        // one request in four is routed: the program is the matched route's view (flat or nested router)
        if rng.chance(1, 4) {
            p = P::W(rng.below(2) as u32, Box::new(p));
        }
        if same {
            p = first.get_or_insert(p).clone();
        }
        let mode = *rng.pick(&["io", "io", "ooo", "ooo", "async"]);
        out.push_str(&format!("req {r} {mode} {}\n", show_prog(&p)));
        let mut gs = vec![];
        gates_of(&p, &mut gs);
        // the gate of an Action is only fired by drop/abort/end (when its unscoped future runs is then determinate)
        let mut dg = vec![];
        action_gates(&p, &mut dg);
        if safe {
            gs.retain(|g| !dg.contains(g));
        }
        progs.push(gs);
        let mut t = BTreeSet::new();
        prog_tags(&p, false, &mut t);
        late_kind(&p, false, &mut t);
        // no client abort for a page with an `on_cleanup` (F-C20-4 when the arena is foreign) unless the arena is its
        // own, nor for one with a Provider/Suspense in a late view (F-C20-2: its owner may outlive the request)
        has_cleanup.push(t.contains("cleanup"));
        no_abort.push(t.contains("late-provider") || t.contains("late-suspense") || t.contains("late-router"));
    }
    // schedule
    let mut started = vec![false; nreq];
    let mut dropped = vec![false; nreq];
    let mut unfired: Vec<Vec<u32>> = progs.clone();
    let len = rng.range(nreq + 2, nreq + 14);
    for step in 0..len {
        let not_started: Vec<usize> = (0..nreq).filter(|&r| !started[r]).collect();
        let live: Vec<usize> = (0..nreq).filter(|&r| started[r] && !dropped[r]).collect();
        let must_start = !not_started.is_empty() && (live.is_empty() || step + not_started.len() >= len);
        let c = rng.below(12);
        if must_start || (!not_started.is_empty() && c < 3) {
            let r = *rng.pick(&not_started);
            started[r] = true;
            out.push_str(&format!("start {r}\n"));
            continue;
        }
        if live.is_empty() {
            continue;
        }
        let r = *rng.pick(&live);
        match c {
            0..=5 if !unfired[r].is_empty() => {
                let k = rng.below(unfired[r].len());
                let g = unfired[r].remove(k);
                out.push_str(&format!("fire {r} {g}\n"));
            }
            0..=7 => out.push_str(&format!("poll {}\n", rng.below(4))),
            8..=10 => out.push_str(&format!("ps {r}\n")),
            _ if (safe && no_abort[r]) || rng.chance(1, 2) => {
                dropped[r] = true;
                out.push_str(&format!("drop {r}\n"));
            }
            _ => {
                // client abort while some request's arena is current; an `on_cleanup` of the aborted request reading
                // an arena item under a FOREIGN arena is the known class F-C20-4 (per-request arenas only): corpus
                let b = if safe && has_cleanup[r] { r } else { *rng.pick(&live) };
                dropped[r] = true;
                out.push_str(&format!("abort {r} {b}\n"));
            }
        }
    }
    for r in 0..nreq {
        if !started[r] {
            out.push_str(&format!("start {r}\n"));
        }
    }
    out.push_str("end\n");
}

/// exhaustive small scope: for fixed program pairs, ALL interleavings of {start r, fire r 1, ps r} (r = 0, 1) in
/// which `start r` comes first among r's actions (80 per pair); plus the abort family below
fn gen_exhaustive(out: &mut String, tier: &str) -> usize {
    let progs: &[(&str, &str, &str, &str)] = &[
        ("io", "Q(L1,S1.2.3(L4))", "io", "Q(L1,S1.2.3(L4))"),
        ("ooo", "S1.1.2(L3)", "io", "U(S1.1.2(L3))"),
        ("io", "U(S1.1.2(V4(L3)))", "ooo", "U(S1.1.2(L3))"),
        ("io", "Q(U(R1.1.2),C3)", "ooo", "Q(U(R1.1.2),C3)"),
        ("ooo", "V2(U(Q(R1.1.2,F2.3)))", "io", "S1.1.2(V4(L3))"),
        ("io", "Q(R1.1.2,E3)", "ooo", "Q(S1.1.2(E3),C4)"),
        ("ooo", "U(Q(S1.1.2(E3),F2.4))", "ooo", "Q(V3(L1),S1.2.3(Q(E4,L5)))"),
        ("io", "S1.1.2(U(L3))", "io", "Q(E1,U(S1.2.3(F2.4)))"),
        ("io", "U(O0.1.2.3)", "ooo", "U(O0.1.2.3)"),
        ("ooo", "Q(U(O1.1.2.3),T2.4)", "io", "W0(U(O6.1.2.3))"),
    ];
    let n_pairs = if tier == "thorough" { progs.len() } else { 8 };
    let mut count = 0;
    for (t, (m0, p0, m1, p1)) in progs.iter().take(n_pairs).enumerate() {
        // choose which 3 of the 6 slots belong to request 0; each request orders fire/ps both ways
        for mask in 0u32..64 {
            if mask.count_ones() != 3 {
                continue;
            }
            for o0 in 0..2 {
                for o1 in 0..2 {
                    let seq = |r: usize, o: usize| -> Vec<String> {
                        let mut v = vec![format!("start {r}")];
                        if o == 0 {
                            v.push(format!("fire {r} 1"));
                            v.push(format!("ps {r}"));
                        } else {
                            v.push(format!("ps {r}"));
                            v.push(format!("fire {r} 1"));
                        }
                        v
                    };
                    let (mut a, mut b) = (seq(0, o0).into_iter(), seq(1, o1).into_iter());
                    out.push_str(&format!("case x{t}-{count}\nreq 0 {m0} {p0}\nreq 1 {m1} {p1}\n"));
                    for slot in 0..6 {
                        let line = if mask >> slot & 1 == 1 { a.next() } else { b.next() };
                        out.push_str(&line.unwrap());
                        out.push_str("\namb\n");
                    }
                    out.push_str("end\n");
                    count += 1;
                }
            }
        }
    }
    // second family: request 0 is aborted by its client while request 1's arena is current, at every point of
    // request 1's progress: all interleavings of [start 0, ps 0, abort 0 1] with [start 1, ps 1, fire 1 1, ps 1] in
    // which `start 1` precedes the abort; same page in both requests (same arena keys), items in child owners
    let pages = ["U(Q(A1.2,V3(A2.4)))", "W1(Q(V2(A1.1),U(A1.2)))", "Q(U(A1.1),U(O0.2.2.3),T3.4)"];
    for (t, page) in pages.iter().enumerate() {
        for mask in 0u32..128 {
            if mask.count_ones() != 3 {
                continue;
            }
            let a = ["start 0", "ps 0", "abort 0 1"];
            let b = ["start 1", "ps 1", "fire 1 1", "ps 1"];
            let (mut ia, mut ib) = (0, 0);
            let mut lines = vec![];
            let mut ok = true;
            for slot in 0..7 {
                if mask >> slot & 1 == 1 {
                    if ia == 2 && ib == 0 {
                        ok = false; // abort before request 1 exists
                    }
                    lines.push(a[ia]);
                    ia += 1;
                } else {
                    lines.push(b[ib]);
                    ib += 1;
                }
            }
            if !ok {
                continue;
            }
            for (m0, m1) in [("io", "io"), ("ooo", "io")] {
                out.push_str(&format!("case y{t}-{count}\nreq 0 {m0} {page}\nreq 1 {m1} {page}\n"));
                for l in &lines {
                    out.push_str(l);
                    out.push('\n');
                }
                out.push_str("end\n");
                count += 1;
            }
        }
    }
    // third family: two response bodies (and their tasks) polled ALTERNATELY on the thread, at every point of each
    // other's progress: all 70 interleavings of [start r, ps r, fire r 1, ps r] for r = 0, 1; pages with bodies that
    // touch arena handles behind `Sandboxed::poll_next` / `Sandboxed::poll` without entering an owner, and with
    // resources whose fetcher re-runs while the other request's owner is the thread's current one
    // (request 0's mode, page): with `io` and a page that starts with an async chunk, or with `async`, the response
    // future (`from_app`) is still waiting for its first chunk — polled OUTSIDE `Sandboxed`, with the request's root
    // possibly still the thread's current owner — while the other request runs
    let pages = [
        ("io", "Q(E1,X0.1.2,X0.2.3)"),
        ("io", "Q(U(Y0.1.2),X1.2.3,X0.3.4)"),
        ("io", "U(Z0.2.3.1.4.5.6.7)"),
        ("io", "Q(S1.2.3(L4),K0.1.5.6,E7)"),
        ("async", "Q(L1,U(R1.2.3),K1.1.4.5)"),
        ("io", "Q(U(Z11.1.2.3.4.5.6.7),X0.2.8)"),
        ("async", "Q(O2.1.2.3,S1.4.5(L6))"),
        ("io", "U(Z20.2.3.1.4.5.6.7)"),
        ("io", "Q(S1.2.3(L4),M1.5,N0.1.6)"),
        ("async", "Q(N1.1.2,V3(M1.3),E4)"),
    ];
    let n_pages = if tier == "thorough" { pages.len() } else { 5 };
    let pick: Vec<usize> = if tier == "thorough" { (0..pages.len()).collect() } else { vec![0, 2, 3, 4, 8, 9] };
    let _ = n_pages;
    for (t, (m0, page)) in pick.iter().map(|&i| pages[i]).enumerate() {
        for mask in 0u32..256 {
            if mask.count_ones() != 4 {
                continue;
            }
            let seq = |r: usize| [format!("start {r}"), format!("ps {r}"), format!("fire {r} 1"), format!("ps {r}")];
            let (a, b) = (seq(0), seq(1));
            let (mut ia, mut ib) = (0, 0);
            out.push_str(&format!("case z{t}-{count}\nreq 0 {m0} {page}\nreq 1 {} {page}\n", ["io", "ooo", "async"][mask as usize % 3]));
            for slot in 0..8 {
                if mask >> slot & 1 == 1 {
                    out.push_str(&a[ia]);
                    ia += 1;
                } else {
                    out.push_str(&b[ib]);
                    ib += 1;
                }
                out.push('\n');
            }
            out.push_str("end\n");
            count += 1;
        }
    }
    count
}

fn gen(seed: u64, n: usize, ops: &str, tier: &str) {
    let mut rng = Rng::new(seed);
    let mut out = String::new();
    let k = gen_exhaustive(&mut out, tier);
    for i in 0..n.saturating_sub(k) {
        gen_case(&mut rng, &format!("g{i}"), &mut out, tier);
    }
    std::fs::write(ops, out).unwrap();
}
