// probe
use futures::channel::oneshot;
use futures::{Stream, StreamExt};
use hx_common::sched;
use leptos::prelude::*;
use std::pin::Pin;
use std::sync::{Arc, Mutex};
use std::task::{Context, Poll};

#[derive(Clone, Debug)]
struct Tag(u32);

type PinnedStream<T> = Pin<Box<dyn Stream<Item = T> + Send>>;

fn report(leaf: u32) -> String {
    let t = use_context::<Tag>().map(|t| t.0 as i64).unwrap_or(-1);
    format!("[L{leaf}:t{t}]")
}

fn main() {
    sched::install();
    let mut streams: Vec<PinnedStream<String>> = vec![];
    let mut owners = vec![];
    let mut txs = vec![];
    for r in 0..2u32 {
        let (tx, rx) = oneshot::channel::<()>();
        txs.push(tx);
        let rx = Arc::new(Mutex::new(Some(rx)));
        let app = move || {
            let rx = rx.lock().unwrap().take().unwrap();
            view! {
                <p>{move || report(1)}</p>
                {Suspend::new(async move {
                    let a = report(2);
                    let _ = rx.await;
                    let b = report(3);
                    view! { <b>{a}{b}{move || report(4)}</b> }
                })}
            }
        };
        let (owner, fut) = leptos_integration_utils::build_response(
            app,
            move || provide_context(Tag(r)),
            |app, chunks, _| {
                Box::pin(async move {
                    Box::pin(app.to_html_stream_in_order().chain(chunks())) as PinnedStream<String>
                })
            },
            false,
        );
        let mut fut = fut;
        let w = sched::noop_waker();
        let mut cx = Context::from_waker(&w);
        match fut.as_mut().poll(&mut cx) {
            Poll::Ready(s) => streams.push(s),
            Poll::Pending => panic!("pending"),
        }
        owners.push(owner);
    }
    println!("tasks {}", sched::task_count());
    for tx in txs {
        let _ = tx.send(());
    }
    let w = sched::noop_waker();
    let mut cx = Context::from_waker(&w);
    for (i, s) in streams.iter_mut().enumerate() {
        let mut out = String::new();
        for _ in 0..20 {
            sched::run_until_idle(100);
            match s.as_mut().poll_next(&mut cx) {
                Poll::Ready(Some(c)) => out.push_str(&c),
                Poll::Ready(None) => break,
                Poll::Pending => {}
            }
        }
        println!("req {i}: {out}");
    }
}
