//! C11 correspondence harness: the REAL `tachys::view::keyed::keyed(..)` (build / mount / rebuild /
//! unmount / insert_before_this) and leptos `<ForEnumerate>` rendered into the native in-memory DOM
//! (`tachys::renderer::native_dom`, hooks/native_dom.patch, `--cfg leptos_verif`).
//!
//! Op grammar (keys are decimal numbers, duplicate-free):
//!   case <name>
//!   init  <pre> <post> <bs> k k k…     keyed(): build + mount between <pre> and <post> sibling nodes;
//!                                      every item is a block of <bs> elements (1 = `<li>`, 2/3 = a tuple)
//!   initf <pre> <post> <bs> k k k…     the same list as leptos `<ForEnumerate>` driven by a signal
//!   update k k k…                      rebuild with the new key sequence (signal write + effects for `initf`)
//!   trans  <pre> <post> <bs> k… / k…   fresh `init` then `update`; prints the update's line
//!   transf <pre> <post> <bs> k… / k…   fresh `initf` then `update`
//!   sib                                KeyedState::insert_before_this(<fresh element>)      (keyed() only)
//!   remount <j>|e                      KeyedState::unmount, then mount before the j-th following sibling / at the end
//! Output of every list op:
//!   <children of the parent> ; e=<KeyedState::elements()> ; b=<k@i…> ; u=<k…> ; s=<k>i…> ## ok | fail <class>
//! (`e=-` and `i=<k=i…>` — the index each mounted item was last told — instead of `s=` for `<ForEnumerate>`).
//! children: `P<i>` leading siblings, `S<i>` siblings inserted by `sib`, `Q<i>` following siblings, `M` the
//! list's marker comment, `k:j` the j-th node of the item keyed k, `?` anything else.
//! b = view_fn calls (key@index), u = item unmounts (owner clean-ups for `<ForEnumerate>`), s = set_index calls.
//! The verdict is the property's clauses evaluated here on the real DOM and logs (independent of the model).
use hx_common::*;
use std::cell::RefCell;
use std::collections::HashMap;
use std::fmt::Write as _;
use std::panic::{catch_unwind, AssertUnwindSafe};
use tachys::{
    html::element::{li, span},
    prelude::*,
    renderer::native_dom as nd,
    view::keyed::{keyed, KeyedState},
};

type Key = u32;

#[derive(Default)]
struct Log {
    builds: Vec<(Key, usize)>,
    unmounts: Vec<Key>,
    set_index: Vec<(Key, usize)>,
    /// nodes of the items built since the log was taken
    new_nodes: Vec<(Key, Vec<usize>)>,
}
thread_local! {
    static LOG: RefCell<Log> = RefCell::new(Log::default());
}
fn take_log() -> Log {
    LOG.with(|l| std::mem::take(&mut *l.borrow_mut()))
}

// ------------------------------------------------------------------ a view that reports its life cycle

struct Tracked<V> {
    key: Key,
    inner: V,
}
struct TrackedState<S> {
    key: Key,
    inner: S,
}
impl<V: Render> Render for Tracked<V> {
    type State = TrackedState<V::State>;
    fn build(self) -> Self::State {
        let inner = self.inner.build();
        let ids = inner.elements().iter().map(|e| nd::node_id(e)).collect();
        LOG.with(|l| l.borrow_mut().new_nodes.push((self.key, ids)));
        TrackedState { key: self.key, inner }
    }
    fn rebuild(self, state: &mut Self::State) {
        self.inner.rebuild(&mut state.inner)
    }
}
impl<S: Mountable> Mountable for TrackedState<S> {
    fn unmount(&mut self) {
        LOG.with(|l| l.borrow_mut().unmounts.push(self.key));
        self.inner.unmount()
    }
    fn mount(&mut self, parent: &tachys::renderer::types::Element, marker: Option<&tachys::renderer::types::Node>) {
        self.inner.mount(parent, marker)
    }
    fn insert_before_this(&self, child: &mut dyn Mountable) -> bool {
        self.inner.insert_before_this(child)
    }
    fn elements(&self) -> Vec<tachys::renderer::types::Element> {
        self.inner.elements()
    }
}

// ------------------------------------------------------------------ the list under test

trait KList {
    fn update(&mut self, keys: Vec<Key>);
    fn elements(&self) -> Option<Vec<usize>>;
    fn sib(&mut self, _child: &mut dyn Mountable) -> Option<bool> {
        None
    }
    fn remount(&mut self, _parent: &nd::Element, _marker: Option<&nd::Node>) -> bool {
        false
    }
    /// index each item was last told (ForEnumerate)
    fn told(&self) -> Option<Vec<(Key, usize)>> {
        None
    }
}

type SetIndex = Box<dyn Fn(usize)>;

struct Holder<V: Render, F: Fn(Key) -> V + Clone + 'static> {
    state: KeyedState<Key, SetIndex, Tracked<V>>,
    mk: F,
}
fn list_view<V: Render, F: Fn(Key) -> V + Clone + 'static>(
    keys: Vec<Key>,
    mk: F,
) -> impl Render<State = KeyedState<Key, SetIndex, Tracked<V>>> {
    keyed(
        keys,
        |k| *k,
        move |index, k: Key| {
            LOG.with(|l| l.borrow_mut().builds.push((k, index)));
            let set_index: SetIndex = Box::new(move |i| LOG.with(|l| l.borrow_mut().set_index.push((k, i))));
            (set_index, Tracked { key: k, inner: mk(k) })
        },
    )
}
impl<V: Render, F: Fn(Key) -> V + Clone + 'static> KList for Holder<V, F> {
    fn update(&mut self, keys: Vec<Key>) {
        list_view(keys, self.mk.clone()).rebuild(&mut self.state)
    }
    fn elements(&self) -> Option<Vec<usize>> {
        Some(self.state.elements().iter().map(|e| nd::node_id(e)).collect())
    }
    fn sib(&mut self, child: &mut dyn Mountable) -> Option<bool> {
        Some(self.state.insert_before_this(child))
    }
    fn remount(&mut self, parent: &nd::Element, marker: Option<&nd::Node>) -> bool {
        self.state.unmount();
        self.state.mount(parent, marker);
        true
    }
}
fn new_keyed<V: Render + 'static, F: Fn(Key) -> V + Clone + 'static>(
    root: &nd::Element,
    keys: Vec<Key>,
    mk: F,
) -> Box<dyn KList> {
    let mut state = list_view(keys, mk.clone()).build();
    state.mount(root, None);
    Box::new(Holder { state, mk })
}

// ---- leptos <ForEnumerate>
mod forlist {
    use super::{Key, KList, LOG};
    use leptos::prelude::*;
    use std::cell::RefCell;
    use std::collections::HashMap;
    use tachys::renderer::native_dom as nd;

    thread_local! {
        static INDEX: RefCell<HashMap<Key, ReadSignal<usize>>> = RefCell::new(HashMap::new());
    }

    pub struct ForList {
        keys: RwSignal<Vec<Key>>,
        _owner: Owner,
        _handle: Box<dyn std::any::Any>,
    }
    impl KList for ForList {
        fn update(&mut self, keys: Vec<Key>) {
            self.keys.set(keys);
            any_spawner::Executor::poll_local();
        }
        fn elements(&self) -> Option<Vec<usize>> {
            None
        }
        fn told(&self) -> Option<Vec<(Key, usize)>> {
            let keys = self.keys.get_untracked();
            Some(INDEX.with(|m| {
                let m = m.borrow();
                keys.iter().map(|k| (*k, m.get(k).map(|s| s.get_untracked()).unwrap_or(usize::MAX))).collect()
            }))
        }
    }

    fn item(index: ReadSignal<usize>, k: Key, bs: usize) -> impl IntoView {
        LOG.with(|l| l.borrow_mut().builds.push((k, index.get_untracked())));
        INDEX.with(|m| m.borrow_mut().insert(k, index));
        on_cleanup(move || LOG.with(|l| l.borrow_mut().unmounts.push(k)));
        // the nodes are found afterwards through their `data-k` / `data-j` attributes
        let el = move |j: usize| {
            leptos::html::li().attr("data-k", k.to_string()).attr("data-j", j.to_string())
        };
        match bs {
            1 => leptos::either::EitherOf3::A(el(0)),
            2 => leptos::either::EitherOf3::B((el(0), el(1))),
            _ => leptos::either::EitherOf3::C((el(0), el(1), el(2))),
        }
    }

    pub fn new(root: &nd::Element, keys: Vec<Key>, bs: usize) -> Box<dyn KList> {
        let _ = any_spawner::Executor::init_futures_executor();
        INDEX.with(|m| m.borrow_mut().clear());
        let owner = Owner::new();
        let (sig, handle) = owner.with(|| {
            let sig = RwSignal::new(keys);
            let handle = leptos::mount::mount_to(root.clone(), move || {
                view! {
                    <ForEnumerate each=move || sig.get() key=|k| *k children=move |index, k| item(index, k, bs) />
                }
            });
            (sig, handle)
        });
        any_spawner::Executor::poll_local();
        Box::new(ForList { keys: sig, _owner: owner, _handle: Box::new(handle) })
    }
}

// ------------------------------------------------------------------ one case

struct Session {
    root: nd::Element,
    list: Box<dyn KList>,
    bs: usize,
    keys: Vec<Key>,
    pre: Vec<(usize, String)>,
    post: Vec<(usize, String)>,
    nsib: usize,
    /// node id -> (key, j) for every item node ever built
    names: HashMap<usize, (Key, usize)>,
    /// key -> node ids of its current incarnation
    nodes_of: HashMap<Key, Vec<usize>>,
    is_for: bool,
}

fn sibling(root: &nd::Element, tag: &str) -> usize {
    let el = nd::create_element(tag);
    nd::append_child(root, &el);
    nd::node_id(&el)
}

impl Session {
    fn start(pre: usize, post: usize, bs: usize, keys: Vec<Key>, is_for: bool) -> (Session, String) {
        nd::reset();
        let _ = take_log();
        let root = nd::create_root("ul");
        let pre: Vec<_> = (0..pre).map(|i| (sibling(&root, "p"), format!("P{i}"))).collect();
        let list: Box<dyn KList> = if is_for {
            forlist::new(&root, keys.clone(), bs)
        } else {
            match bs {
                1 => new_keyed(&root, keys.clone(), |_k| li()),
                2 => new_keyed(&root, keys.clone(), |_k| (li(), span())),
                _ => new_keyed(&root, keys.clone(), |_k| (li(), span(), li())),
            }
        };
        let post: Vec<_> = (0..post).map(|i| (sibling(&root, "q"), format!("Q{i}"))).collect();
        let mut s = Session {
            root,
            list,
            bs,
            keys: vec![],
            pre,
            post,
            nsib: 0,
            names: HashMap::new(),
            nodes_of: HashMap::new(),
            is_for,
        };
        let log = take_log();
        s.register(&log);
        let mut v = None;
        let want_b: Vec<(Key, usize)> = keys.iter().enumerate().map(|(i, k)| (*k, i)).collect();
        if log.builds != want_b {
            v = Some("builds");
        }
        s.keys = keys;
        let line = s.finish(&log, v);
        (s, line)
    }

    /// learn the nodes of freshly built items
    fn register(&mut self, log: &Log) {
        if self.is_for {
            for n in nd::children(&self.root) {
                let id = nd::node_id(&n);
                if self.names.contains_key(&id) {
                    continue;
                }
                let attrs = nd::attributes(&n);
                let get = |name: &str| attrs.iter().find(|a| a.0 == name).and_then(|a| a.1.parse::<usize>().ok());
                if let (Some(k), Some(j)) = (get("data-k"), get("data-j")) {
                    self.names.insert(id, (k as Key, j));
                    if j == 0 {
                        self.nodes_of.insert(k as Key, vec![]);
                    }
                    self.nodes_of.entry(k as Key).or_default().push(id);
                }
            }
        } else {
            for (k, ids) in &log.new_nodes {
                for (j, id) in ids.iter().enumerate() {
                    self.names.insert(*id, (*k, j));
                }
                self.nodes_of.insert(*k, ids.clone());
            }
        }
    }

    fn name(&self, n: &nd::Node) -> String {
        let id = nd::node_id(n);
        if let Some((_, s)) = self.pre.iter().chain(self.post.iter()).find(|p| p.0 == id) {
            return s.clone();
        }
        if let Some((k, j)) = self.names.get(&id) {
            return format!("{k}:{j}");
        }
        if n.node_type() == 8 {
            return "M".into();
        }
        "?".into()
    }

    fn dom(&self) -> Vec<String> {
        nd::children(&self.root).iter().map(|n| self.name(n)).collect()
    }

    fn expected_dom(&self) -> Vec<String> {
        let mut v: Vec<String> = self.pre.iter().map(|p| p.1.clone()).collect();
        for k in &self.keys {
            for j in 0..self.bs {
                v.push(format!("{k}:{j}"));
            }
        }
        v.push("M".into());
        v.extend(self.post.iter().map(|p| p.1.clone()));
        v
    }

    /// render the observable; `v` = verdict of the clauses checked by the caller, DOM order is checked here
    fn finish(&mut self, log: &Log, v: Option<&'static str>) -> String {
        let dom = self.dom();
        let mut out = dom.join(" ");
        let join = |xs: Vec<String>| if xs.is_empty() { "-".to_string() } else { xs.join(",") };
        let els = match self.list.elements() {
            Some(ids) => join(
                ids.iter()
                    .map(|id| self.names.get(id).map(|(k, j)| format!("{k}:{j}")).unwrap_or("?".into()))
                    .collect(),
            ),
            None => "-".into(),
        };
        let _ = write!(out, " ; e={els}");
        let _ = write!(out, " ; b={}", join(log.builds.iter().map(|(k, i)| format!("{k}@{i}")).collect()));
        let _ = write!(out, " ; u={}", join(log.unmounts.iter().map(|k| k.to_string()).collect()));
        let mut v = v;
        if let Some(told) = self.list.told() {
            let _ = write!(out, " ; i={}", join(told.iter().map(|(k, i)| format!("{k}={i}")).collect()));
            if v.is_none() && told.iter().enumerate().any(|(pos, (_, i))| pos != *i) {
                v = Some("set-index");
            }
        } else {
            let _ = write!(out, " ; s={}", join(log.set_index.iter().map(|(k, i)| format!("{k}>{i}")).collect()));
        }
        let errs = nd::take_errors();
        if v.is_none() && !errs.is_empty() {
            v = Some("dom-error");
        }
        if v.is_none() && self.list.elements().is_some() && els != {
            let mut e = vec![];
            for k in &self.keys {
                for j in 0..self.bs {
                    e.push(format!("{k}:{j}"));
                }
            }
            join(e)
        } {
            v = Some("storage");
        }
        if v.is_none() && dom != self.expected_dom() {
            v = Some("dom-order");
        }
        match v {
            None => format!("{out} ## ok"),
            Some(c) => format!("{out} ## fail {c}"),
        }
    }

    fn update(&mut self, to: Vec<Key>) -> String {
        let from = std::mem::take(&mut self.keys);
        let old_nodes = self.nodes_of.clone();
        let _ = take_log();
        self.list.update(to.clone());
        let log = take_log();
        self.register(&log);
        self.keys = to.clone();
        let kids: Vec<usize> = nd::children(&self.root).iter().map(|n| nd::node_id(n)).collect();
        let sorted = |mut v: Vec<Key>| {
            v.sort();
            v
        };
        let mut v = None;
        // new keys: exactly one view_fn call each, with their index; nothing else is built
        let want_b = sorted(to.iter().filter(|k| !from.contains(k)).cloned().collect());
        if sorted(log.builds.iter().map(|b| b.0).collect()) != want_b
            || log.builds.iter().any(|(k, i)| to.get(*i) != Some(k))
        {
            v = Some("builds");
        }
        // retained keys: the same nodes as before, still children of the parent
        if v.is_none() {
            for k in to.iter().filter(|k| from.contains(k)) {
                let before = old_nodes.get(k);
                if before != self.nodes_of.get(k) || before.map_or(true, |ids| ids.iter().any(|id| !kids.contains(id))) {
                    v = Some("identity");
                }
            }
        }
        // vanished keys: exactly one unmount each, their nodes left the parent
        if v.is_none() {
            let gone: Vec<Key> = from.iter().filter(|k| !to.contains(k)).cloned().collect();
            if sorted(log.unmounts.clone()) != sorted(gone.clone())
                || gone.iter().any(|k| old_nodes.get(k).map_or(true, |ids| ids.iter().any(|id| kids.contains(id))))
            {
                v = Some("unmounts");
            }
        }
        // retained items whose index changed are told it; the last value told is the final index
        if v.is_none() && !self.is_for {
            if log.set_index.iter().any(|(k, _)| !(from.contains(k) && to.contains(k))) {
                v = Some("set-index");
            }
            for (fin, k) in to.iter().enumerate() {
                if let Some(old) = from.iter().position(|x| x == k) {
                    let last = log.set_index.iter().rev().find(|c| c.0 == *k).map(|c| c.1);
                    if (old != fin && last.is_none()) || last.map_or(false, |l| l != fin) {
                        v = Some("set-index");
                    }
                }
            }
        }
        self.finish(&log, v)
    }

    fn sib(&mut self) -> String {
        let _ = take_log();
        let mut st = li().build();
        let id = nd::node_id(&st.elements()[0]);
        let Some(ok) = self.list.sib(&mut st) else { return "bad-op".into() };
        self.pre.push((id, format!("S{}", self.nsib)));
        self.nsib += 1;
        std::mem::forget(st);
        let log = take_log();
        self.finish(&log, if ok { None } else { Some("insert-before-this") })
    }

    fn remount(&mut self, j: usize) -> String {
        let _ = take_log();
        let marker = self.post.get(j).and_then(|p| nd::node_by_id(p.0));
        let root = self.root.clone();
        if !self.list.remount(&root, marker.as_ref()) {
            return "bad-op".into();
        }
        let moved: Vec<_> = self.post.drain(..j).collect();
        self.pre.extend(moved);
        let log = take_log();
        self.finish(&log, None)
    }
}

fn parse_keys(ws: &[&str]) -> Option<Vec<Key>> {
    let ks: Vec<Key> = ws.iter().map(|w| w.parse().ok()).collect::<Option<_>>()?;
    let mut s = ks.clone();
    s.sort();
    s.dedup();
    (s.len() == ks.len()).then_some(ks)
}

fn parse_init(ws: &[&str]) -> Option<(usize, usize, usize, Vec<Key>)> {
    if ws.len() < 3 {
        return None;
    }
    let p: usize = ws[0].parse().ok()?;
    let q: usize = ws[1].parse().ok()?;
    let b: usize = ws[2].parse().ok()?;
    if b == 0 || b > 3 || p > 64 || q > 64 {
        return None;
    }
    Some((p, q, b, parse_keys(&ws[3..])?))
}

fn case_tags(name: &str) -> String {
    // generated names carry their tags: <id>.<tag>.<tag>…
    let tags: Vec<&str> = name.split('.').skip(1).collect();
    if tags.is_empty() {
        format!("case {name}")
    } else {
        format!("case {name} tags={}", tags.join(","))
    }
}

fn op(sess: &mut Option<Session>, line: &str) -> String {
    let w: Vec<&str> = line.split_whitespace().collect();
    let r = catch_unwind(AssertUnwindSafe(|| match w.as_slice() {
        ["case", n] => {
            *sess = None;
            case_tags(n)
        }
        [cmd @ ("init" | "initf"), rest @ ..] => match parse_init(rest) {
            Some((p, q, b, ks)) => {
                *sess = None;
                let (s, line) = Session::start(p, q, b, ks, *cmd == "initf");
                *sess = Some(s);
                line
            }
            None => "bad-op".into(),
        },
        ["update", rest @ ..] => match (sess.as_mut(), parse_keys(rest)) {
            (Some(s), Some(ks)) => s.update(ks),
            _ => "bad-op".into(),
        },
        [cmd @ ("trans" | "transf"), rest @ ..] => {
            let Some(cut) = rest.iter().position(|x| *x == "/") else { return "bad-op".into() };
            match (parse_init(&rest[..cut]), parse_keys(&rest[cut + 1..])) {
                (Some((p, q, b, f)), Some(t)) => {
                    *sess = None;
                    let (mut s, _) = Session::start(p, q, b, f, *cmd == "transf");
                    let line = s.update(t);
                    *sess = Some(s);
                    line
                }
                _ => "bad-op".into(),
            }
        }
        ["sib"] => match sess.as_mut() {
            Some(s) => s.sib(),
            None => "bad-op".into(),
        },
        ["remount", j] => match sess.as_mut() {
            Some(s) => {
                let j = if *j == "e" { Some(s.post.len()) } else { j.parse::<usize>().ok() };
                match j {
                    Some(j) if j <= s.post.len() => s.remount(j),
                    _ => "bad-op".into(),
                }
            }
            None => "bad-op".into(),
        },
        _ => "bad-op".into(),
    }));
    match r {
        Ok(s) => s,
        Err(_) => {
            *sess = None;
            "panic ## fail panic".into()
        }
    }
}

// ------------------------------------------------------------------ generator

fn all_seqs(nkeys: usize, maxlen: usize) -> Vec<Vec<Key>> {
    fn go(nkeys: usize, maxlen: usize, cur: &mut Vec<Key>, out: &mut Vec<Vec<Key>>) {
        out.push(cur.clone());
        if cur.len() == maxlen {
            return;
        }
        for k in 0..nkeys as Key {
            if !cur.contains(&k) {
                cur.push(k);
                go(nkeys, maxlen, cur, out);
                cur.pop();
            }
        }
    }
    let mut out = vec![];
    go(nkeys, maxlen, &mut vec![], &mut out);
    out
}

fn show(ks: &[Key]) -> String {
    ks.iter().map(|k| k.to_string()).collect::<Vec<_>>().join(" ")
}

fn random_seq(r: &mut Rng, alphabet: usize, maxlen: usize) -> Vec<Key> {
    let n = r.below(maxlen.min(alphabet) + 1);
    let mut pool: Vec<Key> = (0..alphabet as Key).collect();
    let mut out = vec![];
    for _ in 0..n {
        let i = r.below(pool.len());
        out.push(pool.swap_remove(i));
    }
    out
}

/// a new sequence related to `cur`, biased to the shapes of DESIGN §7 C11
fn mutate(r: &mut Rng, cur: &[Key], alphabet: usize) -> (Vec<Key>, &'static str) {
    let fresh = |r: &mut Rng, used: &[Key]| -> Option<Key> {
        let free: Vec<Key> = (0..alphabet as Key).filter(|k| !used.contains(k)).collect();
        if free.is_empty() {
            None
        } else {
            Some(*r.pick(&free))
        }
    };
    let mut v = cur.to_vec();
    match r.below(14) {
        0 => (random_seq(r, alphabet, 8), "random"),
        12 => {
            // F-C11-1 proper: the retained items reversed (or two of them swapped) behind 1..3 new items:
            // an item whose index shift equals the number of additions is not moved in the DOM
            if r.chance(1, 2) {
                v.reverse();
            } else if v.len() > 1 {
                let (i, j) = (r.below(v.len()), r.below(v.len()));
                v.swap(i, j);
            }
            for _ in 0..r.range(1, 3) {
                if let Some(k) = fresh(r, &v) {
                    v.insert(0, k);
                }
            }
            (v, "reverse-behind-new")
        }
        13 => {
            // removals in front and a retained item pulled forward by the same amount
            let cut = r.below(v.len() / 2 + 1);
            let mut w: Vec<Key> = v[cut..].to_vec();
            if w.len() > 2 {
                let i = r.range(1, w.len() - 1);
                let k = w.remove(i);
                let at = r.below(i);
                w.insert(at, k);
            }
            (w, "drop-front-pull")
        }
        1 => {
            v.reverse();
            (v, "reverse")
        }
        2 => {
            if v.len() > 1 {
                let k = r.range(1, v.len() - 1);
                v.rotate_left(k);
            }
            (v, "rotate")
        }
        3 => {
            if v.len() > 1 {
                let (i, j) = (r.below(v.len()), r.below(v.len()));
                v.swap(i, j);
            }
            (v, "swap")
        }
        4 => {
            v.retain(|_| r.chance(2, 3));
            (v, "remove")
        }
        5 => {
            for _ in 0..r.range(1, 3) {
                if let Some(k) = fresh(r, &v) {
                    let at = r.below(v.len() + 1);
                    v.insert(at, k);
                }
            }
            (v, "insert")
        }
        6 => (vec![], "clear"),
        7 => {
            // the F-C11-1 shape: new items in front and a retained item carried past a resting one
            for _ in 0..r.range(1, 3) {
                if let Some(k) = fresh(r, &v) {
                    v.insert(0, k);
                }
            }
            if v.len() > 2 {
                let i = r.below(v.len());
                let k = v.remove(i);
                let at = r.below(v.len() + 1);
                v.insert(at, k);
            }
            (v, "front-insert-move")
        }
        8 => {
            // shuffle
            for i in (1..v.len()).rev() {
                let j = r.below(i + 1);
                v.swap(i, j);
            }
            (v, "shuffle")
        }
        9 => {
            // replace some keys in place
            for i in 0..v.len() {
                if r.chance(1, 3) {
                    let used = v.clone();
                    if let Some(k) = fresh(r, &used) {
                        v[i] = k;
                    }
                }
            }
            (v, "replace")
        }
        10 => {
            if let Some(k) = fresh(r, &v) {
                v.push(k);
            }
            (v, "append")
        }
        _ => {
            // move one item
            if v.len() > 1 {
                let i = r.below(v.len());
                let k = v.remove(i);
                let at = r.below(v.len() + 1);
                v.insert(at, k);
            }
            (v, "move-one")
        }
    }
}

const SHAPES: &[(usize, usize, usize)] = &[(1, 1, 1), (0, 0, 1), (1, 0, 2), (2, 2, 2), (0, 1, 3), (1, 2, 1), (0, 2, 2)];

fn gen(seed: u64, n: usize, path: &str, tier: &str) -> std::io::Result<()> {
    use std::io::Write;
    quiet_panics();
    let mut r = Rng::new(seed);
    let mut f = std::io::BufWriter::new(std::fs::File::create(path)?);
    // 1. exhaustive small scope: every pair of duplicate-free sequences
    let seqs = all_seqs(6, 5);
    for (i, from) in seqs.iter().enumerate() {
        let (p, q, b) = SHAPES[i % SHAPES.len()];
        let tf = if i % 16 == 5 { "transf" } else { "trans" };
        writeln!(f, "case x{i}.exhaustive.{}", if tf == "transf" { "for" } else { "keyed" })?;
        for to in &seqs {
            writeln!(f, "{tf} {p} {q} {b} {} / {}", show(from), show(to))?;
        }
    }
    // 1b. thorough tier: every pair of sequences of length <= 6 over 7 keys (8660^2 = 74 995 600 transitions)
    // is run HERE on the real code (all cores) and judged by the implementation-side oracle; every
    // transition the oracle rejects and every 64th other one goes into the ops file (so the model sees them)
    if tier == "thorough" {
        let seqs7 = all_seqs(7, 6);
        let nthreads = std::thread::available_parallelism().map(|n| n.get()).unwrap_or(1).min(16).max(1);
        let next = std::sync::atomic::AtomicUsize::new(0);
        let results: Vec<std::sync::Mutex<Vec<String>>> = (0..seqs7.len()).map(|_| Default::default()).collect();
        quiet_panics();
        std::thread::scope(|sc| {
            for _ in 0..nthreads {
                sc.spawn(|| loop {
                    let i = next.fetch_add(1, std::sync::atomic::Ordering::Relaxed);
                    if i >= seqs7.len() {
                        break;
                    }
                    let (p, q, b) = SHAPES[i % SHAPES.len()];
                    let tf = if i % 64 == 5 { "transf" } else { "trans" };
                    let mut keep = vec![];
                    let mut sess: Option<Session> = None;
                    for (j, to) in seqs7.iter().enumerate() {
                        let line = format!("{tf} {p} {q} {b} {} / {}", show(&seqs7[i]), show(to));
                        let out = op(&mut sess, &line);
                        if !out.ends_with("## ok") || (i * seqs7.len() + j) % 64 == 0 {
                            keep.push(line);
                        }
                    }
                    drop(sess);
                    *results[i].lock().unwrap() = keep;
                });
            }
        });
        for (i, r) in results.into_iter().enumerate() {
            let lines = r.into_inner().unwrap();
            if lines.is_empty() {
                continue;
            }
            writeln!(f, "case y{i}.exhaustive7.{}", if i % 64 == 5 { "for" } else { "keyed" })?;
            for l in lines {
                writeln!(f, "{l}")?;
            }
        }
    }
    // 2. random histories
    for i in 0..n {
        let alphabet = r.range(3, 12);
        let (p, q, b) = (r.below(3), r.below(3), r.range(1, 3));
        let is_for = r.chance(1, 4);
        let start = random_seq(&mut r, alphabet, 8);
        let mut lines = vec![format!("{} {p} {q} {b} {}", if is_for { "initf" } else { "init" }, show(&start))];
        let mut tags: Vec<&str> = vec![if is_for { "for" } else { "keyed" }];
        if b > 1 {
            tags.push("multi-node");
        }
        if q > 0 {
            tags.push("post-siblings");
        }
        let mut cur = start;
        let mut post = q;
        for _ in 0..r.range(1, 6) {
            if !is_for && r.chance(1, 10) {
                lines.push("sib".into());
                tags.push("sib");
            } else if !is_for && r.chance(1, 12) {
                let j = r.below(post + 2);
                if j > post {
                    lines.push("remount e".into());
                    post = 0;
                } else {
                    lines.push(format!("remount {j}"));
                    post -= j;
                }
                tags.push("remount");
            } else {
                let (next, tag) = mutate(&mut r, &cur, alphabet);
                lines.push(format!("update {}", show(&next)));
                tags.push(tag);
                cur = next;
            }
        }
        // run the history here to tag the ones that leave the DOM mis-ordered (known-finding class)
        {
            let mut sess: Option<Session> = None;
            if lines.iter().any(|l| op(&mut sess, l).contains("## fail")) {
                tags.push("dom-order-broken");
            }
        }
        tags.sort();
        tags.dedup();
        writeln!(f, "case r{i}.{}", tags.join("."))?;
        for l in lines {
            writeln!(f, "{l}")?;
        }
    }
    f.flush()
}

/// one output line per input line, in order (like `hx_common::run_ops`); cases are independent (state is
/// per case, the native DOM arena and the logs are thread-local), so they are spread over threads
fn run_parallel(ops_path: &str, out_path: &str) -> std::io::Result<()> {
    use std::io::Write;
    let text = std::fs::read_to_string(ops_path)?;
    let lines: Vec<&str> = text.lines().map(|l| l.trim()).collect();
    let mut starts = vec![0usize];
    for (i, l) in lines.iter().enumerate() {
        if i > 0 && l.starts_with("case ") {
            starts.push(i);
        }
    }
    starts.push(lines.len());
    let ncase = starts.len() - 1;
    let nthreads = std::thread::available_parallelism().map(|n| n.get()).unwrap_or(1).min(16).max(1);
    let next = std::sync::atomic::AtomicUsize::new(0);
    let results: Vec<std::sync::Mutex<Vec<String>>> = (0..ncase).map(|_| Default::default()).collect();
    std::thread::scope(|sc| {
        for _ in 0..nthreads {
            sc.spawn(|| loop {
                let c = next.fetch_add(1, std::sync::atomic::Ordering::Relaxed);
                if c >= ncase {
                    break;
                }
                let mut sess: Option<Session> = None;
                let outs: Vec<String> = lines[starts[c]..starts[c + 1]].iter().map(|l| op(&mut sess, l)).collect();
                drop(sess);
                *results[c].lock().unwrap() = outs;
            });
        }
    });
    let mut out = std::io::BufWriter::new(std::fs::File::create(out_path)?);
    for r in results {
        for l in r.into_inner().unwrap() {
            writeln!(out, "{l}")?;
        }
    }
    out.flush()
}

fn main() {
    match parse_cli() {
        Cmd::Gen { seed, n, ops, tier } => gen(seed, n, &ops, &tier).unwrap(),
        Cmd::Run { ops, out } => {
            quiet_panics();
            run_parallel(&ops, &out).unwrap()
        }
    }
}
