//! C11 correspondence harness: the REAL `tachys::view::keyed::keyed(..)` (build / mount / rebuild /
//! unmount / insert_before_this) and leptos `<ForEnumerate>` rendered into the native in-memory DOM
//! (`tachys::renderer::native_dom`, hooks/native_dom.patch, `--cfg leptos_verif`).
//!
//! Op grammar (keys are decimal numbers, duplicate-free):
//!   case <name>
//!   init  <pre> <post> <bs> k k k…     keyed(): build + mount between <pre> and <post> sibling nodes;
//!                                      every item is a block of <bs> elements (1 = `<li>`, 2/3 = a tuple)
//!   initf <pre> <post> <bs> k k k…     the same list as leptos `<ForEnumerate>` driven by a signal
//!   update k k k…                      rebuild with the new key sequence (signal write + effects for `initf`)
//!   trans  <pre> <post> <bs> k… / k…   fresh `init` then `update`; prints the update's line
//!   transf <pre> <post> <bs> k… / k…   fresh `initf` then `update`
//!   inith <0|1> <0|1> 1 k k k…         keyed() inside `<ul>[<p>]…[<span>]</ul>`: rendered to HTML (`to_html`), parsed into the
//!                                      native DOM, hydrated (`RenderHtml::hydrate`), then updated by rebuilding the whole view
//!                                      (`e=-`; `u=` = the vanished rows whose nodes left the parent)
//!   initp <pre> <post> <bs> k k k…     the same list as leptos `<For>` (rows get no index: `b=k@-`, `i=-`)
//!   bump <k> <v>                       `<For>` / `<ForEnumerate>`: write the row-local signal of row k. Every row body creates
//!                                      an `RwSignal` (k*100), a `StoredValue` (k*100+1) and a `Memo` (signal+1) and renders the
//!                                      memo; extra field `r=<k=signal.stored.memo.text…>` (`X` = disposed)
//!   inits <pre> <post> <bs> k k k…     `<ForEnumerate each=move || store.rows() key=|row| row.id().get() …>` over a keyed
//!                                      store field (reactive_stores `KeyedSubfield`); row k shows its label (k*10 at first);
//!                                      `update` writes the new rows through `store.rows().write()`; extra field `l=<k=text…>`
//!   updset k k k… / updroot k k k…     keyed store field only: the same update through `store.rows().set(..)` / `store.set(..)`
//!   label <k> <v>                      keyed store field only: `AtKeyed::new(store.rows(), k).label().set(v)`
//!   initu <pre> <post> <bs> k k k…     keyed(): build only (parent = None): the list is not in the DOM yet
//!   sib                                KeyedState::insert_before_this(<fresh element>)      (keyed() only)
//!   unmount                            KeyedState::unmount
//!   mount <j>|e                        KeyedState::mount(parent, before the j-th following sibling | None)
//!   remount <j>|e                      unmount, then mount
//!   inner <k> i i i…                   shape `n` only: rebuild the inner keyed list of the outer item k (prints the
//!                                      inner list's view_fn / unmount / set_index logs in b / u / s)
//! <bs>: 1 2 3 = tuples of 1..3 elements; t te et = text nodes; u ue eu oe = `()` / `None` members (placeholders);
//!       v2 v0 = a `Vec` fragment (items + its marker); k2 k0 = a keyed list as the item (items + its marker);
//!       n = a keyed list [0, 1] as the item whose inner list is updated by `inner` (nodes `k.i:0`, marker `k.M`)
//! Output of every list op:
//!   <children of the parent> ; e=<KeyedState::elements()> ; b=<k@i…> ; u=<k…> ; s=<k>i…> ## ok | fail <class>
//! (`e=-` and `i=<k=i…>` — the index each mounted item was last told — instead of `s=` for `<ForEnumerate>`).
//! children: `P<i>` leading siblings, `S<i>` siblings inserted by `sib`, `Q<i>` following siblings, `M` the
//! list's marker comment, `k:j` the j-th node of the item keyed k, `?` anything else.
//! b = view_fn calls (key@index), u = item unmounts (owner clean-ups for `<ForEnumerate>`), s = set_index calls,
//! x = DOM calls that failed without effect (a list rebuilt after `unmount` still holds its old parent; only if > 0).
//! The verdict is the property's clauses evaluated here on the real DOM and logs (independent of the model).
use hx_common::*;
use std::cell::RefCell;
use std::collections::HashMap;
use std::fmt::Write as _;
use std::panic::{catch_unwind, AssertUnwindSafe};
use tachys::{
    html::element::{li, span},
    prelude::*,
    renderer::native_dom as nd,
    view::keyed::{keyed, KeyedState},
};

type Key = u32;

#[derive(Default)]
struct Log {
    builds: Vec<(Key, usize)>,
    unmounts: Vec<Key>,
    set_index: Vec<(Key, usize)>,
    /// nodes of the items built since the log was taken
    new_nodes: Vec<(Key, Vec<usize>)>,
    /// nested lists: inner items built `(outer, inner, index, node)`, inner markers `(outer, node)`,
    /// inner unmounts and set_index calls
    inner_builds: Vec<(Key, Key, usize, usize)>,
    inner_markers: Vec<(Key, usize)>,
    inner_unmounts: Vec<(Key, Key)>,
    inner_set_index: Vec<(Key, Key, usize)>,
}
thread_local! {
    static LOG: RefCell<Log> = RefCell::new(Log::default());
    /// kinds of the nodes of one item of the current case (to put the node ids in DOM order)
    static KINDS: RefCell<Vec<char>> = RefCell::new(vec![]);
}
fn take_log() -> Log {
    LOG.with(|l| std::mem::take(&mut *l.borrow_mut()))
}

// ------------------------------------------------------------------ a view that reports its life cycle

struct Tracked<V> {
    key: Key,
    inner: V,
}
struct TrackedState<S> {
    key: Key,
    inner: S,
}
impl<V: Render> Render for Tracked<V> {
    type State = TrackedState<V::State>;
    fn build(self) -> Self::State {
        // node ids are creation indices: the top-level nodes of the item are the parentless nodes
        // created by its `build` (works for text nodes, placeholders and nested lists too)
        let first = nd::nodes_created();
        let inner = self.inner.build();
        let created: Vec<usize> = (first..nd::nodes_created())
            .filter(|id| nd::node_by_id(*id).is_some_and(|n| nd::parent(&n).is_none()))
            .collect();
        // DOM order: element slots in `elements()` order, the other slots in creation order
        let els: Vec<usize> =
            inner.elements().iter().map(|e| nd::node_id(e)).filter(|id| created.contains(id)).collect();
        let mut others = created.iter().filter(|id| !els.contains(id));
        let mut els_it = els.iter();
        let kinds = KINDS.with(|k| k.borrow().clone());
        let mut ids: Vec<usize> = kinds
            .iter()
            .filter_map(|k| if *k == 'e' { els_it.next().copied() } else { others.next().copied() })
            .collect();
        if ids.len() != created.len() {
            ids = created;
        }
        LOG.with(|l| l.borrow_mut().new_nodes.push((self.key, ids)));
        TrackedState { key: self.key, inner }
    }
    fn rebuild(self, state: &mut Self::State) {
        self.inner.rebuild(&mut state.inner)
    }
}
impl<S: Mountable> Mountable for TrackedState<S> {
    fn unmount(&mut self) {
        LOG.with(|l| l.borrow_mut().unmounts.push(self.key));
        self.inner.unmount()
    }
    fn mount(&mut self, parent: &tachys::renderer::types::Element, marker: Option<&tachys::renderer::types::Node>) {
        self.inner.mount(parent, marker)
    }
    fn insert_before_this(&self, child: &mut dyn Mountable) -> bool {
        self.inner.insert_before_this(child)
    }
    fn elements(&self) -> Vec<tachys::renderer::types::Element> {
        self.inner.elements()
    }
}

// ------------------------------------------------------------------ the list under test

trait KList {
    fn update(&mut self, keys: Vec<Key>);
    /// keyed store field: other ways of writing the rows (1 = `store.rows().set(..)`, 2 = `store.set(..)`)
    fn update_how(&mut self, keys: Vec<Key>, _how: u8) {
        self.update(keys)
    }
    fn elements(&self) -> Option<Vec<usize>>;
    fn sib(&mut self, _child: &mut dyn Mountable) -> Option<bool> {
        None
    }
    fn unmount(&mut self) -> bool {
        false
    }
    fn mount(&mut self, _parent: &nd::Element, _marker: Option<&nd::Node>) -> bool {
        false
    }
    /// index each item was last told (ForEnumerate)
    fn told(&self) -> Option<Vec<(Key, usize)>> {
        None
    }
    /// the list was hydrated from server HTML (no access to the list state: `e=-`; unmounts are observed as the
    /// rows that left the DOM)
    fn hydrated(&self) -> bool {
        false
    }
    /// `<For>` / `<ForEnumerate>`: the row-local state of row `k` (`None` inside = disposed): signal, stored value, memo
    fn row_state(&self, _k: Key) -> Option<[Option<u32>; 3]> {
        None
    }
    /// write the row-local signal of row `k`
    fn bump(&mut self, _k: Key, _v: u32) -> bool {
        false
    }
    /// keyed store field: write one row's label through `AtKeyed`
    fn set_label(&mut self, _k: Key, _v: u32) -> bool {
        false
    }
    /// keyed store field: the rows' labels in the store
    fn labels(&self) -> Option<Vec<(Key, u32)>> {
        None
    }
}

type SetIndex = Box<dyn Fn(usize)>;

struct Holder<V: Render, F: Fn(Key) -> V + Clone + 'static> {
    state: KeyedState<Key, SetIndex, Tracked<V>>,
    mk: F,
}
fn list_view<V: Render, F: Fn(Key) -> V + Clone + 'static>(
    keys: Vec<Key>,
    mk: F,
) -> impl Render<State = KeyedState<Key, SetIndex, Tracked<V>>> {
    keyed(
        keys,
        |k| *k,
        move |index, k: Key| {
            LOG.with(|l| l.borrow_mut().builds.push((k, index)));
            let set_index: SetIndex = Box::new(move |i| LOG.with(|l| l.borrow_mut().set_index.push((k, i))));
            (set_index, Tracked { key: k, inner: mk(k) })
        },
    )
}
impl<V: Render, F: Fn(Key) -> V + Clone + 'static> KList for Holder<V, F> {
    fn update(&mut self, keys: Vec<Key>) {
        list_view(keys, self.mk.clone()).rebuild(&mut self.state)
    }
    fn elements(&self) -> Option<Vec<usize>> {
        Some(self.state.elements().iter().map(|e| nd::node_id(e)).collect())
    }
    fn sib(&mut self, child: &mut dyn Mountable) -> Option<bool> {
        Some(self.state.insert_before_this(child))
    }
    fn unmount(&mut self) -> bool {
        self.state.unmount();
        true
    }
    fn mount(&mut self, parent: &nd::Element, marker: Option<&nd::Node>) -> bool {
        self.state.mount(parent, marker);
        true
    }
}
fn new_keyed<V: Render + 'static, F: Fn(Key) -> V + Clone + 'static>(
    root: Option<&nd::Element>,
    keys: Vec<Key>,
    mk: F,
) -> Box<dyn KList> {
    let mut state = list_view(keys, mk.clone()).build();
    if let Some(root) = root {
        state.mount(root, None);
    }
    Box::new(Holder { state, mk })
}

// ---- a keyed list as an item, reachable from outside so that it can be updated on its own
type InnerState = KeyedState<Key, SetIndex, InnerItem>;
thread_local! {
    static NESTED: RefCell<HashMap<Key, std::rc::Rc<RefCell<InnerState>>>> = RefCell::new(HashMap::new());
}
struct InnerItem {
    outer: Key,
    key: Key,
    index: usize,
}
struct InnerItemState {
    outer: Key,
    key: Key,
    el: <tachys::html::element::HtmlElement<tachys::html::element::Li, (), ()> as Render>::State,
}
impl Render for InnerItem {
    type State = InnerItemState;
    fn build(self) -> Self::State {
        let el = li().build();
        let id = nd::node_id(&el.elements()[0]);
        LOG.with(|l| l.borrow_mut().inner_builds.push((self.outer, self.key, self.index, id)));
        InnerItemState { outer: self.outer, key: self.key, el }
    }
    fn rebuild(self, _state: &mut Self::State) {}
}
impl Mountable for InnerItemState {
    fn unmount(&mut self) {
        LOG.with(|l| l.borrow_mut().inner_unmounts.push((self.outer, self.key)));
        self.el.unmount()
    }
    fn mount(&mut self, parent: &tachys::renderer::types::Element, marker: Option<&tachys::renderer::types::Node>) {
        self.el.mount(parent, marker)
    }
    fn insert_before_this(&self, child: &mut dyn Mountable) -> bool {
        self.el.insert_before_this(child)
    }
    fn elements(&self) -> Vec<tachys::renderer::types::Element> {
        self.el.elements()
    }
}
fn inner_view(outer: Key, keys: Vec<Key>) -> impl Render<State = InnerState> {
    keyed(
        keys,
        |k| *k,
        move |index, k: Key| {
            let set_index: SetIndex =
                Box::new(move |i| LOG.with(|l| l.borrow_mut().inner_set_index.push((outer, k, i))));
            (set_index, InnerItem { outer, key: k, index })
        },
    )
}
/// the outer item: an inner keyed list `[0, 1]`, shared with the harness
struct SharedList {
    outer: Key,
}
impl Render for SharedList {
    type State = std::rc::Rc<RefCell<InnerState>>;
    fn build(self) -> Self::State {
        let first = nd::nodes_created();
        let st = inner_view(self.outer, vec![0, 1]).build();
        // the parentless node that is not an inner item is the inner list's marker
        let items: Vec<usize> = st.elements().iter().map(|e| nd::node_id(e)).collect();
        if let Some(m) = (first..nd::nodes_created()).find(|id| {
            !items.contains(id) && nd::node_by_id(*id).is_some_and(|n| nd::parent(&n).is_none())
        }) {
            LOG.with(|l| l.borrow_mut().inner_markers.push((self.outer, m)));
        }
        let rc = std::rc::Rc::new(RefCell::new(st));
        NESTED.with(|n| n.borrow_mut().insert(self.outer, rc.clone()));
        rc
    }
    fn rebuild(self, _state: &mut Self::State) {}
}

/// item shapes: token of the op grammar -> kinds of the nodes of one item, in order
/// (`e` element, `t` text node, `c` comment / placeholder)
const ITEM_SHAPES: &[(&str, &str)] = &[
    ("1", "e"),    // <li>
    ("2", "ee"),   // (<li>, <span>)
    ("3", "eee"),  // (<li>, <span>, <li>)
    ("t", "t"),    // "x"
    ("te", "te"),  // ("x", <li>)
    ("et", "et"),  // (<li>, "x")
    ("u", "c"),    // ()
    ("ue", "ce"),  // ((), <li>)
    ("eu", "ec"),  // (<li>, ())
    ("oe", "ce"),  // (None::<li>, <li>)
    ("v2", "eec"), // vec![<li>, <li>]  (a fragment: its items, then its own marker)
    ("v0", "c"),   // Vec::new()
    ("k2", "eec"), // keyed([0, 1], ..<li>)  (a keyed list as an item)
    ("k0", "c"),   // keyed([], ..)
    ("n", "eec"),  // a keyed list [0, 1] as the item that is updated on its own (`inner` op)
];
fn shape_kinds(tok: &str) -> Option<&'static str> {
    ITEM_SHAPES.iter().find(|s| s.0 == tok).map(|s| s.1)
}

fn nested(keys: Vec<Key>) -> impl Render {
    keyed(keys, |k| *k, |_, _k: Key| (|_: usize| (), li()))
}

fn new_shape(root: Option<&nd::Element>, keys: Vec<Key>, tok: &str) -> Option<Box<dyn KList>> {
    Some(match tok {
        "1" => new_keyed(root, keys, |_k| li()),
        "2" => new_keyed(root, keys, |_k| (li(), span())),
        "3" => new_keyed(root, keys, |_k| (li(), span(), li())),
        "t" => new_keyed(root, keys, |_k| "x"),
        "te" => new_keyed(root, keys, |_k| ("x", li())),
        "et" => new_keyed(root, keys, |_k| (li(), "x")),
        "u" => new_keyed(root, keys, |_k| ()),
        "ue" => new_keyed(root, keys, |_k| ((), li())),
        "eu" => new_keyed(root, keys, |_k| (li(), ())),
        "oe" => new_keyed(root, keys, |_k| (Some(li()).filter(|_| false), li())),
        "v2" => new_keyed(root, keys, |_k| vec![li(), li()]),
        "v0" => new_keyed(root, keys, |_k| vec![li()].into_iter().filter(|_| false).collect::<Vec<_>>()),
        "k2" => new_keyed(root, keys, |_k| nested(vec![0, 1])),
        "k0" => new_keyed(root, keys, |_k| nested(vec![])),
        "n" => new_keyed(root, keys, |k| SharedList { outer: k }),
        _ => return None,
    })
}

// ---- keyed() rendered to HTML, parsed into the native DOM and hydrated (`RenderHtml::hydrate`)
mod hydlist {
    use super::{Key, KList, SetIndex, LOG};
    use tachys::{
        html::{
            attribute::global::GlobalAttributes,
            element::{li, p, span, ul, ElementChild},
        },
        prelude::*,
        renderer::native_dom as nd,
        view::keyed::keyed,
    };

    fn rows(keys: Vec<Key>) -> impl RenderHtml {
        keyed(
            keys,
            |k| *k,
            |index, k: Key| {
                LOG.with(|l| l.borrow_mut().builds.push((k, index)));
                let set_index: SetIndex = Box::new(move |i| LOG.with(|l| l.borrow_mut().set_index.push((k, i))));
                // the nodes are found afterwards through their `id` attribute
                (set_index, li().id(format!("k{k}")))
            },
        )
    }

    struct Holder<V: RenderHtml, F: Fn(Vec<Key>) -> V> {
        state: V::State,
        mk: F,
    }
    impl<V: RenderHtml, F: Fn(Vec<Key>) -> V> KList for Holder<V, F> {
        fn update(&mut self, keys: Vec<Key>) {
            (self.mk)(keys).rebuild(&mut self.state)
        }
        fn elements(&self) -> Option<Vec<usize>> {
            None
        }
        fn hydrated(&self) -> bool {
            true
        }
    }

    fn start<V: RenderHtml + 'static, F: Fn(Vec<Key>) -> V + 'static>(
        holder: &nd::Element,
        keys: Vec<Key>,
        mk: F,
    ) -> Box<dyn KList> {
        // server side: the HTML of the view; client side: parse it, then hydrate the same view on it
        let html = mk(keys.clone()).to_html();
        nd::parse_html_into(holder, &html);
        let _ = super::take_log();
        let state = mk(keys).hydrate_from::<true>(holder);
        Box::new(Holder { state, mk })
    }

    /// `<ul>` with an optional leading `<p>` and an optional following `<span>` around the list
    pub fn new(holder: &nd::Element, pre: bool, post: bool, keys: Vec<Key>) -> Box<dyn KList> {
        match (pre, post) {
            (false, false) => start(holder, keys, |ks| ul().child(rows(ks))),
            (true, false) => start(holder, keys, |ks| ul().child((p(), rows(ks)))),
            (false, true) => start(holder, keys, |ks| ul().child((rows(ks), span()))),
            (true, true) => start(holder, keys, |ks| ul().child((p(), rows(ks), span()))),
        }
    }
}

// ---- leptos <ForEnumerate>
mod forlist {
    use super::{Key, KList, LOG};
    use leptos::prelude::*;
    use std::cell::RefCell;
    use std::collections::HashMap;
    use tachys::renderer::native_dom as nd;

    /// the state a row body creates for itself: it lives in the row's owner
    #[derive(Clone, Copy)]
    pub struct RowState {
        pub local: RwSignal<u32>,
        pub stored: StoredValue<u32>,
        pub memo: Memo<u32>,
    }
    thread_local! {
        static INDEX: RefCell<HashMap<Key, ReadSignal<usize>>> = RefCell::new(HashMap::new());
        /// every row body that has run: key -> the state of its latest incarnation
        static ROWS: RefCell<HashMap<Key, RowState>> = RefCell::new(HashMap::new());
    }

    pub struct ForList {
        keys: RwSignal<Vec<Key>>,
        plain: bool,
        _owner: Owner,
        _handle: Box<dyn std::any::Any>,
    }
    impl KList for ForList {
        fn update(&mut self, keys: Vec<Key>) {
            self.keys.set(keys);
            any_spawner::Executor::poll_local();
        }
        fn elements(&self) -> Option<Vec<usize>> {
            None
        }
        fn told(&self) -> Option<Vec<(Key, usize)>> {
            if self.plain {
                return Some(vec![]);
            }
            let keys = self.keys.get_untracked();
            Some(INDEX.with(|m| {
                let m = m.borrow();
                keys.iter().map(|k| (*k, m.get(k).map(|s| s.get_untracked()).unwrap_or(usize::MAX))).collect()
            }))
        }
        fn row_state(&self, k: Key) -> Option<[Option<u32>; 3]> {
            ROWS.with(|m| m.borrow().get(&k).copied()).map(|r| {
                [r.local.try_get_untracked(), r.stored.try_get_value(), r.memo.try_get_untracked()]
            })
        }
        fn bump(&mut self, k: Key, v: u32) -> bool {
            let Some(r) = ROWS.with(|m| m.borrow().get(&k).copied()) else { return false };
            if r.local.try_set(v).is_some() {
                // `try_set` hands the value back when the signal is disposed
                return false;
            }
            any_spawner::Executor::poll_local();
            true
        }
    }

    fn item(index: Option<ReadSignal<usize>>, k: Key, bs: usize) -> impl IntoView {
        LOG.with(|l| {
            l.borrow_mut().builds.push((k, index.map(|i| i.get_untracked()).unwrap_or(usize::MAX)))
        });
        if let Some(index) = index {
            INDEX.with(|m| m.borrow_mut().insert(k, index));
        }
        on_cleanup(move || LOG.with(|l| l.borrow_mut().unmounts.push(k)));
        // row-local state, created by the row body and rendered by the row
        let local = RwSignal::new(k * 100);
        let stored = StoredValue::new(k * 100 + 1);
        let memo = Memo::new(move |_| local.get() + 1);
        ROWS.with(|m| m.borrow_mut().insert(k, RowState { local, stored, memo }));
        // the nodes are found afterwards through their `data-k` / `data-j` attributes
        let first = leptos::html::li()
            .attr("data-k", k.to_string())
            .attr("data-j", "0")
            .child(move || memo.get().to_string());
        let el = move |j: usize| {
            leptos::html::li().attr("data-k", k.to_string()).attr("data-j", j.to_string())
        };
        match bs {
            1 => leptos::either::EitherOf3::A(first),
            2 => leptos::either::EitherOf3::B((first, el(1))),
            _ => leptos::either::EitherOf3::C((first, el(1), el(2))),
        }
    }

    /// `plain`: `<For>` (no index), else `<ForEnumerate>`
    pub fn new(root: &nd::Element, keys: Vec<Key>, bs: usize, plain: bool) -> Box<dyn KList> {
        let _ = any_spawner::Executor::init_futures_executor();
        INDEX.with(|m| m.borrow_mut().clear());
        ROWS.with(|m| m.borrow_mut().clear());
        let owner = Owner::new();
        let (sig, handle) = owner.with(|| {
            let sig = RwSignal::new(keys);
            let handle: Box<dyn std::any::Any> = if plain {
                Box::new(leptos::mount::mount_to(root.clone(), move || {
                    view! { <For each=move || sig.get() key=|k| *k children=move |k| item(None, k, bs) /> }
                }))
            } else {
                Box::new(leptos::mount::mount_to(root.clone(), move || {
                    view! {
                        <ForEnumerate each=move || sig.get() key=|k| *k children=move |index, k| item(Some(index), k, bs) />
                    }
                }))
            };
            (sig, handle)
        });
        any_spawner::Executor::poll_local();
        Box::new(ForList { keys: sig, plain, _owner: owner, _handle: handle })
    }
}

// ---- leptos <ForEnumerate> over a keyed store field (`reactive_stores::KeyedSubfield`)
mod storelist {
    use super::{Key, KList, LOG};
    use leptos::prelude::*;
    use reactive_stores::{AtKeyed, Field, Store};
    use std::cell::RefCell;
    use std::collections::HashMap;
    use tachys::renderer::native_dom as nd;

    #[derive(Store, Clone, Debug)]
    pub struct Data {
        #[store(key: u32 = |row| row.id)]
        rows: Vec<Row>,
    }
    #[derive(Store, Clone, Debug)]
    pub struct Row {
        id: u32,
        label: u32,
    }

    thread_local! {
        static INDEX: RefCell<HashMap<Key, ReadSignal<usize>>> = RefCell::new(HashMap::new());
    }

    pub struct StoreList {
        store: Store<Data>,
        _owner: Owner,
        _handle: Box<dyn std::any::Any>,
    }
    impl KList for StoreList {
        fn update(&mut self, keys: Vec<Key>) {
            self.update_how(keys, 0)
        }
        fn update_how(&mut self, keys: Vec<Key>, how: u8) {
            let old: Vec<Row> = self.store.rows().get_untracked();
            let new: Vec<Row> = keys
                .iter()
                .map(|k| old.iter().find(|r| r.id == *k).cloned().unwrap_or(Row { id: *k, label: k * 10 }))
                .collect();
            match how {
                // through the keyed write guard, as an application does (`store.rows().write()`)
                0 => *self.store.rows().write() = new,
                1 => self.store.rows().set(new),
                _ => self.store.set(Data { rows: new }),
            }
            any_spawner::Executor::poll_local();
        }
        fn elements(&self) -> Option<Vec<usize>> {
            None
        }
        fn told(&self) -> Option<Vec<(Key, usize)>> {
            let keys: Vec<Key> = self.store.rows().get_untracked().iter().map(|r| r.id).collect();
            Some(INDEX.with(|m| {
                let m = m.borrow();
                keys.iter().map(|k| (*k, m.get(k).map(|s| s.get_untracked()).unwrap_or(usize::MAX))).collect()
            }))
        }
        fn set_label(&mut self, k: Key, v: u32) -> bool {
            if !self.store.rows().get_untracked().iter().any(|r| r.id == k) {
                return false;
            }
            AtKeyed::new(self.store.rows(), k).label().set(v);
            any_spawner::Executor::poll_local();
            true
        }
        fn labels(&self) -> Option<Vec<(Key, u32)>> {
            Some(self.store.rows().get_untracked().iter().map(|r| (r.id, r.label)).collect())
        }
    }

    fn item(index: ReadSignal<usize>, row: Field<Row>, bs: usize) -> impl IntoView {
        let k = row.id().get_untracked();
        LOG.with(|l| l.borrow_mut().builds.push((k, index.get_untracked())));
        INDEX.with(|m| m.borrow_mut().insert(k, index));
        on_cleanup(move || LOG.with(|l| l.borrow_mut().unmounts.push(k)));
        let first = leptos::html::li()
            .attr("data-k", k.to_string())
            .attr("data-j", "0")
            .child(move || row.label().get().to_string());
        let el = move |j: usize| leptos::html::li().attr("data-k", k.to_string()).attr("data-j", j.to_string());
        match bs {
            1 => leptos::either::EitherOf3::A(first),
            2 => leptos::either::EitherOf3::B((first, el(1))),
            _ => leptos::either::EitherOf3::C((first, el(1), el(2))),
        }
    }

    pub fn new(root: &nd::Element, keys: Vec<Key>, bs: usize) -> Box<dyn KList> {
        let _ = any_spawner::Executor::init_futures_executor();
        INDEX.with(|m| m.borrow_mut().clear());
        let owner = Owner::new();
        let (store, handle) = owner.with(|| {
            let store = Store::new(Data { rows: keys.iter().map(|k| Row { id: *k, label: k * 10 }).collect() });
            let handle = leptos::mount::mount_to(root.clone(), move || {
                view! {
                    <ForEnumerate
                        each=move || store.rows()
                        key=|row| row.id().get()
                        children=move |index, row| item(index, row.into(), bs)
                    />
                }
            });
            (store, handle)
        });
        any_spawner::Executor::poll_local();
        Box::new(StoreList { store, _owner: owner, _handle: Box::new(handle) })
    }
}

// ------------------------------------------------------------------ one case

struct Session {
    root: nd::Element,
    list: Box<dyn KList>,
    /// kinds of the nodes of one item
    kinds: Vec<char>,
    /// the list is mounted (its nodes are expected among the parent's children)
    mounted: bool,
    keys: Vec<Key>,
    pre: Vec<(usize, String)>,
    post: Vec<(usize, String)>,
    nsib: usize,
    /// node id -> name, for every item node ever built
    names: HashMap<usize, String>,
    /// key -> node ids of its current incarnation, in DOM order
    nodes_of: HashMap<Key, Vec<usize>>,
    is_for: bool,
    /// shape `n`: the inner lists (keys, node of every inner item, marker)
    inner_keys: HashMap<Key, Vec<Key>>,
    inner_node: HashMap<(Key, Key), usize>,
    inner_marker: HashMap<Key, usize>,
    /// `<For>` / `<ForEnumerate>`: the value each row's local signal should hold; the rows removed by the last update
    row_local: HashMap<Key, u32>,
    row_gone: Vec<Key>,
}

fn sibling(root: &nd::Element, tag: &str) -> usize {
    let el = nd::create_element(tag);
    nd::append_child(root, &el);
    nd::node_id(&el)
}

impl Session {
    /// `mode`: "init" (keyed, mounted), "initu" (keyed, built but not mounted), "initf" (ForEnumerate)
    fn start(pre: usize, post: usize, shape: &str, keys: Vec<Key>, mode: &str) -> Option<(Session, String)> {
        let is_for = mode == "initf" || mode == "inits" || mode == "initp";
        let kinds: Vec<char> = shape_kinds(shape)?.chars().collect();
        if is_for && !matches!(shape, "1" | "2" | "3") {
            return None;
        }
        if mode == "inith" {
            if shape != "1" || pre > 1 || post > 1 {
                return None;
            }
            return Self::start_hydrated(pre == 1, post == 1, keys);
        }
        nd::reset();
        let _ = take_log();
        KINDS.with(|k| *k.borrow_mut() = kinds.clone());
        NESTED.with(|n| n.borrow_mut().clear());
        let root = nd::create_root("ul");
        let pre: Vec<_> = (0..pre).map(|i| (sibling(&root, "p"), format!("P{i}"))).collect();
        let list: Box<dyn KList> = if mode == "inits" {
            storelist::new(&root, keys.clone(), kinds.len())
        } else if is_for {
            forlist::new(&root, keys.clone(), kinds.len(), mode == "initp")
        } else {
            new_shape((mode == "init").then_some(&root), keys.clone(), shape)?
        };
        let post: Vec<_> = (0..post).map(|i| (sibling(&root, "q"), format!("Q{i}"))).collect();
        let mut s = Session {
            root,
            list,
            kinds,
            mounted: mode != "initu",
            keys: vec![],
            pre,
            post,
            nsib: 0,
            names: HashMap::new(),
            nodes_of: HashMap::new(),
            is_for,
            inner_keys: HashMap::new(),
            inner_node: HashMap::new(),
            inner_marker: HashMap::new(),
            row_local: HashMap::new(),
            row_gone: vec![],
        };

        let log = take_log();
        s.register(&log);
        let mut v = None;
        let want_b: Vec<(Key, usize)> = keys.iter().enumerate().map(|(i, k)| (*k, i)).collect();
        // (a plain `<For>` gives its rows no index: `usize::MAX`)
        if log.builds.len() != want_b.len()
            || log.builds.iter().zip(&want_b).any(|(b, w)| b.0 != w.0 || (b.1 != usize::MAX && b.1 != w.1))
        {
            v = Some("builds");
        }
        for k in &keys {
            s.row_local.insert(*k, k * 100);
        }
        s.keys = keys;
        let line = s.finish(&log, v);
        Some((s, line))
    }

    /// server HTML -> native DOM -> `hydrate`: `<ul>[<p>]<li id=k..>…<!>[<span>]</ul>`
    fn start_hydrated(pre: bool, post: bool, keys: Vec<Key>) -> Option<(Session, String)> {
        nd::reset();
        let _ = take_log();
        KINDS.with(|k| *k.borrow_mut() = vec!['e']);
        NESTED.with(|n| n.borrow_mut().clear());
        let holder = nd::create_root("div");
        let list = hydlist::new(&holder, pre, post, keys.clone());
        let first = nd::children(&holder).into_iter().next()?;
        let root = <nd::Element as tachys::renderer::CastFrom<nd::Node>>::cast_from(first)?;
        let kids = nd::children(&root);
        let pre: Vec<(usize, String)> =
            if pre { vec![(nd::node_id(kids.first()?), "P0".to_string())] } else { vec![] };
        let post: Vec<(usize, String)> =
            if post { vec![(nd::node_id(kids.last()?), "Q0".to_string())] } else { vec![] };
        let mut s = Session {
            root,
            list,
            kinds: vec!['e'],
            mounted: true,
            keys: vec![],
            pre,
            post,
            nsib: 0,
            names: HashMap::new(),
            nodes_of: HashMap::new(),
            is_for: false,
            inner_keys: HashMap::new(),
            inner_node: HashMap::new(),
            inner_marker: HashMap::new(),
            row_local: HashMap::new(),
            row_gone: vec![],
        };
        let log = take_log();
        s.register(&log);
        let mut v = None;
        let want_b: Vec<(Key, usize)> = keys.iter().enumerate().map(|(i, k)| (*k, i)).collect();
        if log.builds != want_b {
            v = Some("builds");
        }
        s.keys = keys;
        let line = s.finish(&log, v);
        Some((s, line))
    }

    /// learn the nodes of freshly built items
    fn register(&mut self, log: &Log) {
        if self.list.hydrated() {
            for n in nd::children(&self.root) {
                let id = nd::node_id(&n);
                if self.names.contains_key(&id) {
                    continue;
                }
                let attrs = nd::attributes(&n);
                if let Some(k) = attrs
                    .iter()
                    .find(|a| a.0 == "id")
                    .and_then(|a| a.1.strip_prefix('k'))
                    .and_then(|k| k.parse::<Key>().ok())
                {
                    self.names.insert(id, format!("{k}:0"));
                    self.nodes_of.insert(k, vec![id]);
                }
            }
        } else if self.is_for {
            for n in nd::children(&self.root) {
                let id = nd::node_id(&n);
                if self.names.contains_key(&id) {
                    continue;
                }
                let attrs = nd::attributes(&n);
                let get = |name: &str| attrs.iter().find(|a| a.0 == name).and_then(|a| a.1.parse::<usize>().ok());
                if let (Some(k), Some(j)) = (get("data-k"), get("data-j")) {
                    self.names.insert(id, format!("{k}:{j}"));
                    if j == 0 {
                        self.nodes_of.insert(k as Key, vec![]);
                    }
                    self.nodes_of.entry(k as Key).or_default().push(id);
                }
            }
        } else {
            for (k, ids) in &log.new_nodes {
                for (j, id) in ids.iter().enumerate() {
                    self.names.insert(*id, format!("{k}:{j}"));
                }
                self.nodes_of.insert(*k, ids.clone());
            }
            // nested lists: name the inner nodes, remember the inner lists of the new outer items
            for (o, m) in &log.inner_markers {
                self.names.insert(*m, format!("{o}.M"));
                self.inner_marker.insert(*o, *m);
                self.inner_keys.insert(*o, vec![0, 1]);
            }
            for (o, i, _, node) in &log.inner_builds {
                self.names.insert(*node, format!("{o}.{i}:0"));
                self.inner_node.insert((*o, *i), *node);
            }
        }
    }

    /// shape `n`: the block of an outer item = its inner items in order, then the inner marker
    fn refresh_nested(&mut self, o: Key) {
        if let (Some(ks), Some(m)) = (self.inner_keys.get(&o), self.inner_marker.get(&o)) {
            let mut ids: Vec<usize> = ks.iter().filter_map(|i| self.inner_node.get(&(o, *i)).copied()).collect();
            ids.push(*m);
            self.nodes_of.insert(o, ids);
        }
    }

    fn name(&self, n: &nd::Node) -> String {
        let id = nd::node_id(n);
        if let Some((_, s)) = self.pre.iter().chain(self.post.iter()).find(|p| p.0 == id) {
            return s.clone();
        }
        if let Some(name) = self.names.get(&id) {
            return name.clone();
        }
        if n.node_type() == 8 {
            return "M".into();
        }
        "?".into()
    }

    fn dom(&self) -> Vec<String> {
        nd::children(&self.root).iter().map(|n| self.name(n)).collect()
    }

    fn expected_dom(&self) -> Vec<String> {
        let mut v: Vec<String> = self.pre.iter().map(|p| p.1.clone()).collect();
        if self.mounted {
            for k in &self.keys {
                for id in self.nodes_of.get(k).map(|v| v.as_slice()).unwrap_or(&[]) {
                    v.push(self.names.get(id).cloned().unwrap_or("?".into()));
                }
            }
            v.push("M".into());
        }
        v.extend(self.post.iter().map(|p| p.1.clone()));
        v
    }

    /// render the observable; `v` = verdict of the clauses checked by the caller, DOM order is checked here
    fn finish(&mut self, log: &Log, v: Option<&'static str>) -> String {
        let dom = self.dom();
        let mut out = dom.join(" ");
        let join = |xs: Vec<String>| if xs.is_empty() { "-".to_string() } else { xs.join(",") };
        let els = match self.list.elements() {
            Some(ids) => join(
                ids.iter().map(|id| self.names.get(id).cloned().unwrap_or("?".into())).collect(),
            ),
            None => "-".into(),
        };
        let _ = write!(out, " ; e={els}");
        let _ = write!(
            out,
            " ; b={}",
            join(
                log.builds
                    .iter()
                    .map(|(k, i)| if *i == usize::MAX { format!("{k}@-") } else { format!("{k}@{i}") })
                    .collect()
            )
        );
        let _ = write!(out, " ; u={}", join(log.unmounts.iter().map(|k| k.to_string()).collect()));
        let mut v = v;
        if let Some(told) = self.list.told() {
            let _ = write!(out, " ; i={}", join(told.iter().map(|(k, i)| format!("{k}={i}")).collect()));
            if v.is_none() && told.iter().enumerate().any(|(pos, (_, i))| pos != *i) {
                v = Some("set-index");
            }
            // row-local state (signal . stored value . memo . rendered text): a retained row keeps it, with the
            // value last written; `X` = disposed
            if self.keys.first().is_some_and(|k| self.list.row_state(*k).is_some()) || self.keys.is_empty() {
                let show = |o: Option<u32>| o.map(|x| x.to_string()).unwrap_or("X".into());
                let mut rows = vec![];
                let mut bad = false;
                for k in &self.keys {
                    let st = self.list.row_state(*k).unwrap_or([None; 3]);
                    let text = self
                        .nodes_of
                        .get(k)
                        .and_then(|ids| ids.first())
                        .and_then(|id| nd::node_by_id(*id))
                        .and_then(|n| n.text_content())
                        .unwrap_or("?".into());
                    rows.push(format!("{k}={}.{}.{}.{text}", show(st[0]), show(st[1]), show(st[2])));
                    let want = self.row_local.get(k).copied();
                    if st[0] != want
                        || st[1] != Some(k * 100 + 1)
                        || st[2] != want.map(|x| x + 1)
                        || Some(text) != want.map(|x| (x + 1).to_string())
                    {
                        bad = true;
                    }
                }
                if self.list.labels().is_none() {
                    let _ = write!(out, " ; r={}", join(rows));
                    if v.is_none() && bad {
                        v = Some("row-state");
                    }
                    // the state of a removed row is disposed with the row's owner
                    if v.is_none()
                        && self.row_gone.iter().any(|k| {
                            self.list.row_state(*k).is_some_and(|st| st.iter().any(|x| x.is_some()))
                        })
                    {
                        v = Some("row-state-leak");
                    }
                }
            }
        } else {
            let _ = write!(out, " ; s={}", join(log.set_index.iter().map(|(k, i)| format!("{k}>{i}")).collect()));
        }
        if let Some(labels) = self.list.labels() {
            // the text each row shows (first node of the row) against the label the store holds for its key
            let shown: Vec<String> = self
                .keys
                .iter()
                .map(|k| {
                    let text = self
                        .nodes_of
                        .get(k)
                        .and_then(|ids| ids.first())
                        .and_then(|id| nd::node_by_id(*id))
                        .and_then(|n| n.text_content())
                        .unwrap_or("?".into());
                    format!("{k}={text}")
                })
                .collect();
            let _ = write!(out, " ; l={}", join(shown.clone()));
            let want: Vec<String> = labels.iter().map(|(k, l)| format!("{k}={l}")).collect();
            if v.is_none() && shown != want {
                v = Some("label");
            }
        }
        // DOM calls that failed without effect (swallowed by tachys): part of the observable, not of the verdict
        let errs = nd::take_errors();
        if !errs.is_empty() {
            let _ = write!(out, " ; x={}", errs.len());
        }
        if v.is_none() && self.list.elements().is_some() && els != {
            let mut e = vec![];
            for k in &self.keys {
                for id in self.nodes_of.get(k).map(|v| v.as_slice()).unwrap_or(&[]) {
                    if nd::node_by_id(*id).is_some_and(|n| n.node_type() == 1) {
                        e.push(self.names.get(id).cloned().unwrap_or("?".into()));
                    }
                }
            }
            join(e)
        } {
            v = Some("storage");
        }
        if v.is_none() && dom != self.expected_dom() {
            v = Some("dom-order");
        }
        match v {
            None => format!("{out} ## ok"),
            Some(c) => format!("{out} ## fail {c}"),
        }
    }

    fn update(&mut self, to: Vec<Key>) -> String {
        self.update_how(to, 0)
    }

    fn update_how(&mut self, to: Vec<Key>, how: u8) -> String {
        let from = std::mem::take(&mut self.keys);
        let old_nodes = self.nodes_of.clone();
        let _ = take_log();
        self.list.update_how(to.clone(), how);
        let mut log = take_log();
        if self.list.hydrated() {
            // no access to the item states: the unmounted rows are the vanished keys whose nodes left the parent
            let now: Vec<usize> = nd::children(&self.root).iter().map(|n| nd::node_id(n)).collect();
            log.unmounts = from
                .iter()
                .filter(|k| !to.contains(k) && old_nodes.get(k).is_some_and(|ids| ids.iter().all(|id| !now.contains(id))))
                .cloned()
                .collect();
        }
        self.register(&log);
        self.keys = to.clone();
        let kids: Vec<usize> = nd::children(&self.root).iter().map(|n| nd::node_id(n)).collect();
        let sorted = |mut v: Vec<Key>| {
            v.sort();
            v
        };
        let mut v = None;
        // new keys: exactly one view_fn call each, with their index; nothing else is built
        let want_b = sorted(to.iter().filter(|k| !from.contains(k)).cloned().collect());
        if sorted(log.builds.iter().map(|b| b.0).collect()) != want_b
            || log.builds.iter().any(|(k, i)| *i != usize::MAX && to.get(*i) != Some(k))
        {
            v = Some("builds");
        }
        // row-local state: new rows start fresh, removed rows are gone
        for (k, _) in &log.builds {
            self.row_local.insert(*k, k * 100);
        }
        self.row_gone = from.iter().filter(|k| !to.contains(k)).cloned().collect();
        for k in &self.row_gone {
            self.row_local.remove(k);
        }
        // retained keys: the same nodes as before, still children of the parent
        if v.is_none() {
            for k in to.iter().filter(|k| from.contains(k)) {
                let before = old_nodes.get(k);
                if before != self.nodes_of.get(k)
                    || before.map_or(true, |ids| self.mounted && ids.iter().any(|id| !kids.contains(id)))
                {
                    v = Some("identity");
                }
            }
        }
        // vanished keys: exactly one unmount each, their nodes left the parent
        if v.is_none() {
            let gone: Vec<Key> = from.iter().filter(|k| !to.contains(k)).cloned().collect();
            if sorted(log.unmounts.clone()) != sorted(gone.clone())
                || gone.iter().any(|k| old_nodes.get(k).map_or(true, |ids| ids.iter().any(|id| kids.contains(id))))
            {
                v = Some("unmounts");
            }
        }
        // retained items whose index changed are told it; the last value told is the final index
        if v.is_none() && !self.is_for {
            if log.set_index.iter().any(|(k, _)| !(from.contains(k) && to.contains(k))) {
                v = Some("set-index");
            }
            for (fin, k) in to.iter().enumerate() {
                if let Some(old) = from.iter().position(|x| x == k) {
                    let last = log.set_index.iter().rev().find(|c| c.0 == *k).map(|c| c.1);
                    if (old != fin && last.is_none()) || last.map_or(false, |l| l != fin) {
                        v = Some("set-index");
                    }
                }
            }
        }
        self.finish(&log, v)
    }

    /// shape `n`: rebuild the inner list of the outer item `o` with the inner keys `to`
    fn inner(&mut self, o: Key, to: Vec<Key>) -> String {
        let Some(rc) = NESTED.with(|n| n.borrow().get(&o).cloned()) else { return "bad-op".into() };
        if !self.keys.contains(&o) {
            return "bad-op".into();
        }
        let from = self.inner_keys.get(&o).cloned().unwrap_or_default();
        let old_node = self.inner_node.clone();
        let _ = take_log();
        inner_view(o, to.clone()).rebuild(&mut rc.borrow_mut());
        let log = take_log();
        self.register(&log);
        self.inner_keys.insert(o, to.clone());
        self.refresh_nested(o);
        let kids: Vec<usize> = nd::children(&self.root).iter().map(|n| nd::node_id(n)).collect();
        let sorted = |mut v: Vec<Key>| {
            v.sort();
            v
        };
        let mut v = None;
        let built: Vec<Key> = log.inner_builds.iter().map(|b| b.1).collect();
        if sorted(built) != sorted(to.iter().filter(|k| !from.contains(k)).cloned().collect())
            || log.inner_builds.iter().any(|(_, i, idx, _)| to.get(*idx) != Some(i))
        {
            v = Some("builds");
        }
        if v.is_none() {
            for i in to.iter().filter(|i| from.contains(i)) {
                if old_node.get(&(o, *i)) != self.inner_node.get(&(o, *i)) {
                    v = Some("identity");
                }
            }
        }
        if v.is_none() {
            let gone: Vec<Key> = from.iter().filter(|k| !to.contains(k)).cloned().collect();
            if sorted(log.inner_unmounts.iter().map(|u| u.1).collect()) != sorted(gone.clone())
                || gone.iter().any(|i| old_node.get(&(o, *i)).map_or(true, |id| kids.contains(id)))
            {
                v = Some("unmounts");
            }
        }
        if v.is_none() {
            for (fin, i) in to.iter().enumerate() {
                if let Some(old) = from.iter().position(|x| x == i) {
                    let last = log.inner_set_index.iter().rev().find(|c| c.1 == *i).map(|c| c.2);
                    if (old != fin && last.is_none()) || last.map_or(false, |l| l != fin) {
                        v = Some("set-index");
                    }
                }
            }
        }
        // print the inner list's logs in the b / u / s fields
        let shown = Log {
            builds: log.inner_builds.iter().map(|b| (b.1, b.2)).collect(),
            unmounts: log.inner_unmounts.iter().map(|u| u.1).collect(),
            set_index: log.inner_set_index.iter().map(|c| (c.1, c.2)).collect(),
            ..Default::default()
        };
        self.finish(&shown, v)
    }

    /// write the row-local signal of row `k`
    fn bump(&mut self, k: Key, v: u32) -> String {
        let _ = take_log();
        if !self.keys.contains(&k) || self.list.row_state(k).is_none() {
            return "bad-op".into();
        }
        let ok = self.list.bump(k, v);
        self.row_local.insert(k, v);
        self.row_gone.clear();
        let log = take_log();
        self.finish(&log, if ok { None } else { Some("row-state") })
    }

    fn label(&mut self, k: Key, v: u32) -> String {
        let _ = take_log();
        if !self.list.set_label(k, v) {
            return "bad-op".into();
        }
        let log = take_log();
        // a label write rebuilds nothing
        let verdict = if !log.builds.is_empty() || !log.unmounts.is_empty() { Some("builds") } else { None };
        self.finish(&log, verdict)
    }

    fn sib(&mut self) -> String {
        let _ = take_log();
        let mut st = li().build();
        let id = nd::node_id(&st.elements()[0]);
        let Some(ok) = self.list.sib(&mut st) else { return "bad-op".into() };
        // a list that is not in the DOM answers `false` and inserts nothing
        if self.mounted {
            self.pre.push((id, format!("S{}", self.nsib)));
            self.nsib += 1;
        }
        std::mem::forget(st);
        let log = take_log();
        self.finish(&log, if ok == self.mounted { None } else { Some("insert-before-this") })
    }

    /// `unmount` and / or `mount(parent, anchor = j-th following sibling | None)`
    fn remount(&mut self, unmount: bool, mount: Option<usize>) -> String {
        let _ = take_log();
        if unmount {
            if !self.list.unmount() {
                return "bad-op".into();
            }
            // all siblings now follow each other; keep them in one list split at the old place
            self.mounted = false;
        }
        if let Some(j) = mount {
            let marker = self.post.get(j).and_then(|p| nd::node_by_id(p.0));
            let root = self.root.clone();
            if !self.list.mount(&root, marker.as_ref()) {
                return "bad-op".into();
            }
            let moved: Vec<_> = self.post.drain(..j).collect();
            self.pre.extend(moved);
            self.mounted = true;
        }
        let log = take_log();
        self.finish(&log, None)
    }
}

fn parse_keys(ws: &[&str]) -> Option<Vec<Key>> {
    let ks: Vec<Key> = ws.iter().map(|w| w.parse().ok()).collect::<Option<_>>()?;
    let mut s = ks.clone();
    s.sort();
    s.dedup();
    (s.len() == ks.len()).then_some(ks)
}

fn parse_init<'a>(ws: &[&'a str]) -> Option<(usize, usize, &'a str, Vec<Key>)> {
    if ws.len() < 3 {
        return None;
    }
    let p: usize = ws[0].parse().ok()?;
    let q: usize = ws[1].parse().ok()?;
    let b = ws[2];
    if shape_kinds(b).is_none() || p > 64 || q > 64 {
        return None;
    }
    Some((p, q, b, parse_keys(&ws[3..])?))
}

fn case_tags(name: &str) -> String {
    // generated names carry their tags: <id>.<tag>.<tag>…
    let tags: Vec<&str> = name.split('.').skip(1).collect();
    if tags.is_empty() {
        format!("case {name}")
    } else {
        format!("case {name} tags={}", tags.join(","))
    }
}

fn op(sess: &mut Option<Session>, line: &str) -> String {
    let w: Vec<&str> = line.split_whitespace().collect();
    let r = catch_unwind(AssertUnwindSafe(|| match w.as_slice() {
        ["case", n] => {
            *sess = None;
            case_tags(n)
        }
        [cmd @ ("init" | "initf" | "initu" | "inits" | "initp" | "inith"), rest @ ..] => match parse_init(rest) {
            Some((p, q, b, ks)) => {
                *sess = None;
                match Session::start(p, q, b, ks, cmd) {
                    Some((s, line)) => {
                        *sess = Some(s);
                        line
                    }
                    None => "bad-op".into(),
                }
            }
            None => "bad-op".into(),
        },
        [cmd @ ("update" | "updset" | "updroot"), rest @ ..] => match (sess.as_mut(), parse_keys(rest)) {
            (Some(s), Some(ks)) => {
                let how = match *cmd {
                    "update" => 0,
                    "updset" => 1,
                    _ => 2,
                };
                if how > 0 && s.list.labels().is_none() {
                    "bad-op".into()
                } else {
                    s.update_how(ks, how)
                }
            }
            _ => "bad-op".into(),
        },
        [cmd @ ("trans" | "transf"), rest @ ..] => {
            let Some(cut) = rest.iter().position(|x| *x == "/") else { return "bad-op".into() };
            match (parse_init(&rest[..cut]), parse_keys(&rest[cut + 1..])) {
                (Some((p, q, b, f)), Some(t)) => {
                    *sess = None;
                    match Session::start(p, q, b, f, if *cmd == "transf" { "initf" } else { "init" }) {
                        Some((mut s, _)) => {
                            let line = s.update(t);
                            *sess = Some(s);
                            line
                        }
                        None => "bad-op".into(),
                    }
                }
                _ => "bad-op".into(),
            }
        }
        ["sib"] => match sess.as_mut() {
            Some(s) => s.sib(),
            None => "bad-op".into(),
        },
        [cmd @ ("remount" | "mount"), j] => match sess.as_mut() {
            Some(s) => {
                let j = if *j == "e" { Some(s.post.len()) } else { j.parse::<usize>().ok() };
                match j {
                    Some(j) if j <= s.post.len() => s.remount(*cmd == "remount", Some(j)),
                    _ => "bad-op".into(),
                }
            }
            None => "bad-op".into(),
        },
        ["inner", o, rest @ ..] => match (sess.as_mut(), o.parse::<Key>().ok(), parse_keys(rest)) {
            (Some(s), Some(o), Some(ks)) => s.inner(o, ks),
            _ => "bad-op".into(),
        },
        ["bump", k, v] => match (sess.as_mut(), k.parse::<Key>().ok(), v.parse::<u32>().ok()) {
            (Some(s), Some(k), Some(v)) => s.bump(k, v),
            _ => "bad-op".into(),
        },
        ["label", k, v] => match (sess.as_mut(), k.parse::<Key>().ok(), v.parse::<u32>().ok()) {
            (Some(s), Some(k), Some(v)) => s.label(k, v),
            _ => "bad-op".into(),
        },
        ["unmount"] => match sess.as_mut() {
            Some(s) => s.remount(true, None),
            None => "bad-op".into(),
        },
        _ => "bad-op".into(),
    }));
    match r {
        Ok(s) => s,
        Err(_) => {
            *sess = None;
            "panic ## fail panic".into()
        }
    }
}

// ------------------------------------------------------------------ generator

fn all_seqs(nkeys: usize, maxlen: usize) -> Vec<Vec<Key>> {
    fn go(nkeys: usize, maxlen: usize, cur: &mut Vec<Key>, out: &mut Vec<Vec<Key>>) {
        out.push(cur.clone());
        if cur.len() == maxlen {
            return;
        }
        for k in 0..nkeys as Key {
            if !cur.contains(&k) {
                cur.push(k);
                go(nkeys, maxlen, cur, out);
                cur.pop();
            }
        }
    }
    let mut out = vec![];
    go(nkeys, maxlen, &mut vec![], &mut out);
    out
}

fn show(ks: &[Key]) -> String {
    ks.iter().map(|k| k.to_string()).collect::<Vec<_>>().join(" ")
}

fn random_seq(r: &mut Rng, alphabet: usize, maxlen: usize) -> Vec<Key> {
    let n = r.below(maxlen.min(alphabet) + 1);
    let mut pool: Vec<Key> = (0..alphabet as Key).collect();
    let mut out = vec![];
    for _ in 0..n {
        let i = r.below(pool.len());
        out.push(pool.swap_remove(i));
    }
    out
}

/// a new sequence related to `cur`, biased to the shapes of DESIGN §7 C11
fn mutate(r: &mut Rng, cur: &[Key], alphabet: usize) -> (Vec<Key>, &'static str) {
    let fresh = |r: &mut Rng, used: &[Key]| -> Option<Key> {
        let free: Vec<Key> = (0..alphabet as Key).filter(|k| !used.contains(k)).collect();
        if free.is_empty() {
            None
        } else {
            Some(*r.pick(&free))
        }
    };
    let mut v = cur.to_vec();
    match r.below(14) {
        0 => (random_seq(r, alphabet, 8), "random"),
        12 => {
            // F-C11-1 proper: the retained items reversed (or two of them swapped) behind 1..3 new items:
            // an item whose index shift equals the number of additions is not moved in the DOM
            if r.chance(1, 2) {
                v.reverse();
            } else if v.len() > 1 {
                let (i, j) = (r.below(v.len()), r.below(v.len()));
                v.swap(i, j);
            }
            for _ in 0..r.range(1, 3) {
                if let Some(k) = fresh(r, &v) {
                    v.insert(0, k);
                }
            }
            (v, "reverse-behind-new")
        }
        13 => {
            // removals in front and a retained item pulled forward by the same amount
            let cut = r.below(v.len() / 2 + 1);
            let mut w: Vec<Key> = v[cut..].to_vec();
            if w.len() > 2 {
                let i = r.range(1, w.len() - 1);
                let k = w.remove(i);
                let at = r.below(i);
                w.insert(at, k);
            }
            (w, "drop-front-pull")
        }
        1 => {
            v.reverse();
            (v, "reverse")
        }
        2 => {
            if v.len() > 1 {
                let k = r.range(1, v.len() - 1);
                v.rotate_left(k);
            }
            (v, "rotate")
        }
        3 => {
            if v.len() > 1 {
                let (i, j) = (r.below(v.len()), r.below(v.len()));
                v.swap(i, j);
            }
            (v, "swap")
        }
        4 => {
            v.retain(|_| r.chance(2, 3));
            (v, "remove")
        }
        5 => {
            for _ in 0..r.range(1, 3) {
                if let Some(k) = fresh(r, &v) {
                    let at = r.below(v.len() + 1);
                    v.insert(at, k);
                }
            }
            (v, "insert")
        }
        6 => (vec![], "clear"),
        7 => {
            // the F-C11-1 shape: new items in front and a retained item carried past a resting one
            for _ in 0..r.range(1, 3) {
                if let Some(k) = fresh(r, &v) {
                    v.insert(0, k);
                }
            }
            if v.len() > 2 {
                let i = r.below(v.len());
                let k = v.remove(i);
                let at = r.below(v.len() + 1);
                v.insert(at, k);
            }
            (v, "front-insert-move")
        }
        8 => {
            // shuffle
            for i in (1..v.len()).rev() {
                let j = r.below(i + 1);
                v.swap(i, j);
            }
            (v, "shuffle")
        }
        9 => {
            // replace some keys in place
            for i in 0..v.len() {
                if r.chance(1, 3) {
                    let used = v.clone();
                    if let Some(k) = fresh(r, &used) {
                        v[i] = k;
                    }
                }
            }
            (v, "replace")
        }
        10 => {
            if let Some(k) = fresh(r, &v) {
                v.push(k);
            }
            (v, "append")
        }
        _ => {
            // move one item
            if v.len() > 1 {
                let i = r.below(v.len());
                let k = v.remove(i);
                let at = r.below(v.len() + 1);
                v.insert(at, k);
            }
            (v, "move-one")
        }
    }
}

const SHAPES: &[(usize, usize, usize)] = &[(1, 1, 1), (0, 0, 1), (1, 0, 2), (2, 2, 2), (0, 1, 3), (1, 2, 1), (0, 2, 2)];

fn gen(seed: u64, n: usize, path: &str, tier: &str) -> std::io::Result<()> {
    use std::io::Write;
    quiet_panics();
    let mut r = Rng::new(seed);
    let mut f = std::io::BufWriter::new(std::fs::File::create(path)?);
    // 1. exhaustive small scope: every pair of duplicate-free sequences
    let seqs = all_seqs(6, 5);
    for (i, from) in seqs.iter().enumerate() {
        let (p, q, b) = SHAPES[i % SHAPES.len()];
        let tf = if i % 16 == 5 { "transf" } else { "trans" };
        writeln!(f, "case x{i}.exhaustive.{}", if tf == "transf" { "for" } else { "keyed" })?;
        for to in &seqs {
            writeln!(f, "{tf} {p} {q} {b} {} / {}", show(from), show(to))?;
        }
    }
    // 1b. thorough tier: every pair of sequences of length <= 6 over 7 keys (8660^2 = 74 995 600 transitions)
    // is run HERE on the real code (all cores) and judged by the implementation-side oracle; every
    // transition the oracle rejects and every 64th other one goes into the ops file (so the model sees them)
    if tier == "thorough" {
        let seqs7 = all_seqs(7, 6);
        let nthreads = std::thread::available_parallelism().map(|n| n.get()).unwrap_or(1).min(16).max(1);
        let next = std::sync::atomic::AtomicUsize::new(0);
        let results: Vec<std::sync::Mutex<Vec<String>>> = (0..seqs7.len()).map(|_| Default::default()).collect();
        quiet_panics();
        std::thread::scope(|sc| {
            for _ in 0..nthreads {
                sc.spawn(|| loop {
                    let i = next.fetch_add(1, std::sync::atomic::Ordering::Relaxed);
                    if i >= seqs7.len() {
                        break;
                    }
                    let (p, q, b) = SHAPES[i % SHAPES.len()];
                    let tf = if i % 64 == 5 { "transf" } else { "trans" };
                    let mut keep = vec![];
                    let mut sess: Option<Session> = None;
                    for (j, to) in seqs7.iter().enumerate() {
                        let line = format!("{tf} {p} {q} {b} {} / {}", show(&seqs7[i]), show(to));
                        let out = op(&mut sess, &line);
                        if !out.ends_with("## ok") || (i * seqs7.len() + j) % 64 == 0 {
                            keep.push(line);
                        }
                    }
                    drop(sess);
                    *results[i].lock().unwrap() = keep;
                });
            }
        });
        for (i, r) in results.into_iter().enumerate() {
            let lines = r.into_inner().unwrap();
            if lines.is_empty() {
                continue;
            }
            writeln!(f, "case y{i}.exhaustive7.{}", if i % 64 == 5 { "for" } else { "keyed" })?;
            for l in lines {
                writeln!(f, "{l}")?;
            }
        }
    }
    // 2. random histories
    const FLAT: &[(&str, &str)] = &[
        ("1", "one-node"), ("1", "one-node"), ("2", "multi-node"), ("3", "multi-node"), ("t", "text"),
        ("te", "text"), ("et", "text"), ("u", "placeholder"), ("ue", "placeholder"), ("eu", "placeholder"),
        ("oe", "placeholder"), ("v2", "fragment"), ("v0", "fragment"), ("k2", "nested-static"), ("k0", "nested-static"),
    ];
    for i in 0..n {
        let alphabet = r.range(3, 12);
        let (p, q) = (r.below(3), r.below(3));
        // 0 keyed() with any item shape, 1 nested lists updated on their own, 2 <ForEnumerate>, 3 keyed store field
        // … 4 keyed() hydrated from server HTML
        let mode = match r.below(22) {
            0..=9 => 0,
            10..=12 => 1,
            13..=15 => 2,
            16..=19 => 3,
            _ => 4,
        };
        let (p, q) = if mode == 4 { (p.min(1), q.min(1)) } else { (p, q) };
        let start = random_seq(&mut r, alphabet, 8);
        let mut tags: Vec<&str> = vec![];
        let (shape, unmounted_start) = match mode {
            0 => {
                let s = *r.pick(FLAT);
                tags.push("keyed");
                tags.push(s.1);
                (s.0.to_string(), r.chance(1, 5))
            }
            1 => {
                tags.push("keyed");
                tags.push("nested");
                ("n".to_string(), r.chance(1, 6))
            }
            2 => {
                tags.push("for");
                tags.push("row-state");
                (r.range(1, 3).to_string(), false)
            }
            3 => {
                tags.push("store");
                (r.range(1, 3).to_string(), false)
            }
            _ => {
                tags.push("keyed");
                tags.push("hydrated");
                ("1".to_string(), false)
            }
        };
        let init = match (mode, unmounted_start) {
            (2, _) => {
                if r.chance(1, 2) {
                    tags.push("plain-for");
                    "initp"
                } else {
                    "initf"
                }
            }
            (3, _) => "inits",
            (4, _) => "inith",
            (_, true) => "initu",
            _ => "init",
        };
        if unmounted_start {
            tags.push("unmounted-start");
        }
        if q > 0 {
            tags.push("post-siblings");
        }
        let mut lines = vec![format!("{init} {p} {q} {shape} {}", show(&start))];
        let mut cur = start;
        let mut post = q;
        let mut is_mounted = !unmounted_start;
        // shape `n`: the inner key sequences
        let mut inner: HashMap<Key, Vec<Key>> = cur.iter().map(|k| (*k, vec![0, 1])).collect();
        for _ in 0..r.range(1, 7) {
            let keyed = mode <= 1;
            if keyed && r.chance(1, 10) {
                lines.push("sib".into());
                tags.push("sib");
            } else if keyed && r.chance(1, 7) {
                // unmount / mount before a following sibling / both
                let j = r.below(post + 2);
                let at = if j > post { "e".to_string() } else { j.to_string() };
                let moved = if j > post { post } else { j };
                match (is_mounted, r.below(3)) {
                    (true, 0) => {
                        lines.push("unmount".into());
                        is_mounted = false;
                        tags.push("unmount");
                    }
                    (false, _) => {
                        lines.push(format!("mount {at}"));
                        post -= moved;
                        is_mounted = true;
                        tags.push("mount-anchor");
                    }
                    _ => {
                        lines.push(format!("remount {at}"));
                        post -= moved;
                        tags.push("remount");
                    }
                }
            } else if mode == 1 && !cur.is_empty() && r.chance(1, 2) {
                let o = *r.pick(&cur);
                let ik = inner.get(&o).cloned().unwrap_or_default();
                let (next, _) = mutate(&mut r, &ik, 6);
                lines.push(format!("inner {o} {}", show(&next)));
                inner.insert(o, next);
                tags.push("inner-update");
            } else if mode == 2 && !cur.is_empty() && r.chance(1, 3) {
                // write a row's local signal: it must survive the following list updates
                let k = *r.pick(&cur);
                lines.push(format!("bump {k} {}", r.below(100)));
                tags.push("bump");
            } else if mode == 3 && !cur.is_empty() && r.chance(1, 4) {
                let k = *r.pick(&cur);
                lines.push(format!("label {k} {}", r.below(100)));
                tags.push("label");
            } else {
                let (next, tag) = mutate(&mut r, &cur, alphabet);
                let cmd = if mode == 3 && r.chance(1, 3) { "updset" } else { "update" };
                lines.push(format!("{cmd} {}", show(&next)));
                tags.push(tag);
                if !is_mounted {
                    tags.push("unmounted-update");
                }
                for k in &next {
                    if !cur.contains(k) {
                        inner.insert(*k, vec![0, 1]);
                    }
                }
                cur = next;
            }
        }
        // run the history here to tag the ones that end in a known-finding class
        {
            let mut sess: Option<Session> = None;
            let outs: Vec<String> = lines.iter().map(|l| op(&mut sess, l)).collect();
            if outs.iter().any(|o| o.contains(" ; x=")) {
                tags.push("stale-parent");
            }
            if outs.iter().any(|o| o.contains("## fail")) {
                tags.push("dom-order-broken");
            }
        }
        tags.sort();
        tags.dedup();
        writeln!(f, "case r{i}.{}", tags.join("."))?;
        for l in lines {
            writeln!(f, "{l}")?;
        }
    }
    f.flush()
}

/// one output line per input line, in order (like `hx_common::run_ops`); cases are independent (state is
/// per case, the native DOM arena and the logs are thread-local), so they are spread over threads
fn run_parallel(ops_path: &str, out_path: &str) -> std::io::Result<()> {
    use std::io::Write;
    let text = std::fs::read_to_string(ops_path)?;
    let lines: Vec<&str> = text.lines().map(|l| l.trim()).collect();
    let mut starts = vec![0usize];
    for (i, l) in lines.iter().enumerate() {
        if i > 0 && l.starts_with("case ") {
            starts.push(i);
        }
    }
    starts.push(lines.len());
    let ncase = starts.len() - 1;
    let nthreads = std::thread::available_parallelism().map(|n| n.get()).unwrap_or(1).min(16).max(1);
    let next = std::sync::atomic::AtomicUsize::new(0);
    let results: Vec<std::sync::Mutex<Vec<String>>> = (0..ncase).map(|_| Default::default()).collect();
    std::thread::scope(|sc| {
        for _ in 0..nthreads {
            sc.spawn(|| loop {
                let c = next.fetch_add(1, std::sync::atomic::Ordering::Relaxed);
                if c >= ncase {
                    break;
                }
                let mut sess: Option<Session> = None;
                let outs: Vec<String> = lines[starts[c]..starts[c + 1]].iter().map(|l| op(&mut sess, l)).collect();
                drop(sess);
                *results[c].lock().unwrap() = outs;
            });
        }
    });
    let mut out = std::io::BufWriter::new(std::fs::File::create(out_path)?);
    for r in results {
        for l in r.into_inner().unwrap() {
            writeln!(out, "{l}")?;
        }
    }
    out.flush()
}

fn main() {
    match parse_cli() {
        Cmd::Gen { seed, n, ops, tier } => gen(seed, n, &ops, &tier).unwrap(),
        Cmd::Run { ops, out } => {
            quiet_panics();
            run_parallel(&ops, &out).unwrap()
        }
    }
}
