-- Root of the `LeptosModel` library: models (import-free), proofs, property theorems.
import LeptosModel.Model.Wire
import LeptosModel.Model.Url
import LeptosModel.Theorems.C15
