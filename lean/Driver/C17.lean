import LeptosModel.Model.Wire
import LeptosModel.Model.Action
/-! Line-protocol driver for C17 (see harness/hx-c17/src/bin/c17.rs for the op grammar). -/
open Leptos Leptos.Wire Leptos.Action

inductive Mode where
  | single (s : State)
  | multi (s : M.State)

structure D where
  mode : Mode := .single (init none)
  /-- an op other than `kind` was seen in this case -/
  started : Bool := false
  /-- the action is an arena handle (`Action`, `MultiAction`, `ServerAction`, …): it can be disposed -/
  arena : Bool := false
  /-- `leptos_server` wrapper: the output type is `Result<u32, ServerFnError>`; values ≥ 1000 are
  `Err(ServerError("<v>"))` and print as `E<v>` -/
  server : Bool := false

def showB (b : Bool) : String := if b then "1" else "0"

def showVal (server : Bool) : Option Nat → String
  | none => "-"
  | some v => if server && v ≥ 1000 then s!"E{v}" else toString v

def showOpt : Option Nat → String := showVal false

def verdict : Option String → String
  | none => "ok"
  | some c => s!"fail {c}"

def obsSingle (server : Bool) (s : State) : String :=
  s!"p={showB s.pending} ver={s.version} val={showVal server s.value} in={showOpt s.input} rl={(readyList s).length} ## {verdict (oracle s)}"

def showSub (server : Bool) (r : M.Sub) : String :=
  s!"{showOpt r.input}:{showVal server r.value}:{showB r.pending}:{showB r.canceled}"

def obsMulti (server : Bool) (s : M.State) : String :=
  s!"ver={s.version} subs=[{";".intercalate (s.subs.map (showSub server))}] rl={(M.readyList s).length} ## {verdict (M.oracle s)}"

/-- (name, arena?) of the plain single-action kinds -/
def singleKinds : List (String × Bool) :=
  [("arc", false), ("arc-local", false), ("arc-unsync", false),
   ("arena", true), ("arena-local", true), ("arena-unsync", true), ("arena-unsync-local", true)]

/-- (name, arena?, does the `ServerActionError` context name this server function's path?) -/
def serverKinds : List (String × Bool × Bool) :=
  [("server-arc", false, true), ("server-arena", true, true),
   ("server-arc-xpath", false, false), ("server-arena-xpath", true, false)]

def multiKinds : List (String × Bool × Bool) :=
  [("multi-arc", false, false), ("multi-arena", true, false),
   ("server-multi-arc", false, true), ("server-multi-arena", true, true)]

def parseB : String → Option Bool
  | "0" => some false
  | "1" => some true
  | _ => none

/-- `some (state, panicked)`; `dispatch`/`dispatchl` through a disposed arena handle panic -/
def stepSingle (arena : Bool) (s : State) (w : List String) : Option (State × Bool) :=
  let ok (s : State) : Option (State × Bool) := some (s, false)
  match w with
  | ["dispatch", i] => i.toNat?.map fun i => (step s (.dispatch i), s.disposed)
  -- `dispatch_local`: the same body with `Executor::spawn_local`
  | ["dispatchl", i] => i.toNat?.map fun i => (step s (.dispatch i), s.disposed)
  | ["abort", k] => k.toNat?.bind fun k => ok (step s (.abort k))
  | ["drop", k] => k.toNat?.bind fun k => ok (step s (.dropHandle k))
  | ["ready", k, v] =>
    match k.toNat?, v.toNat? with
    | some k, some v => ok (step s (.ready k v))
    | _, _ => none
  | ["poll", j] => j.toNat?.bind fun j => ok (step s (.poll j))
  -- (observers may add tasks while the queue is drained: at most their budgets)
  | ["idle"] => ok (runIdle (s.tasks.length + s.hookVersion.budget + s.hookValue.budget + 1) s)
  | ["clear"] => ok (step s .clear)
  -- the executor polls a task inline when it is spawned
  | ["eager", b] => (parseB b).bind fun b => ok (step s (.eager b))
  -- dispatch with a future that is already resolved
  | ["dispatchr", i, v] =>
    match i.toNat?, v.toNat? with
    | some i, some v => some (step s (.dispatchReady i v), s.disposed)
    | _, _ => none
  -- an `ImmediateEffect` on `version()` / `value()` that dispatches `i` again, `b` times
  | ["hook", "version", b, i] =>
    match b.toNat?, i.toNat? with
    | some b, some i => ok (step s (.hook .version b i))
    | _, _ => none
  | ["hook", "value", b, i] =>
    match b.toNat?, i.toNat? with
    | some b, some i => ok (step s (.hook .value b i))
    | _, _ => none
  | ["suppress", b] => (parseB b).bind fun b => ok (step s (.suppress b))
  -- explicit `Dispose::dispose` of the handle: arena kinds only
  | ["dispose"] => if arena then ok (step s .dispose) else none
  -- clean-up of the owner the action was created under: disposes an arena handle, does nothing to an `Arc` action
  | ["cleanup"] => if arena then ok (step s .dispose) else ok s
  | ["obs"] => ok s
  | _ => none

def stepMulti (arena : Bool) (s : M.State) (w : List String) : Option M.State :=
  match w with
  | ["dispatch", i] => i.toNat?.map fun i => M.step s (.dispatch i)
  | ["dsync", v] => v.toNat?.map fun v => M.step s (.dispatchSync v)
  | ["cancel", k] => k.toNat?.map fun k => M.step s (.cancel k)
  | ["ready", k, v] =>
    match k.toNat?, v.toNat? with
    | some k, some v => some (M.step s (.ready k v))
    | _, _ => none
  | ["poll", j] => j.toNat?.map fun j => M.step s (.poll j)
  | ["idle"] => some (M.runIdle (s.tasks.length + 1) s)
  | ["eager", b] => (parseB b).map fun b => M.step s (.eager b)
  | ["dispatchr", i, v] =>
    match i.toNat?, v.toNat? with
    | some i, some v => some (M.step s (.dispatchReady i v))
    | _, _ => none
  | ["suppress", b] => (parseB b).map fun b => M.step s (.suppress b)
  | ["dispose"] => if arena then some (M.step s .dispose) else none
  | ["cleanup"] => if arena then some (M.step s .dispose) else some s
  | ["obs"] => some s
  | _ => none

def kindLine (d : D) (k : String) (v0 : Option Nat) : Option (D × String) :=
  let echo := match v0 with | some v => s!"kind {k} {v}" | none => s!"kind {k}"
  if d.started then none
  else match singleKinds.lookup k with
  | some arena => some ({ mode := .single (init v0), started := true, arena := arena }, echo)
  | none =>
    match serverKinds.lookup k with
    | some (arena, samePath) =>
      -- the initial value of a server action can only be an error (≥ 1000)
      if (v0.getD 1000) < 1000 then none
      else some ({ mode := .single (init (if samePath then v0 else none)), started := true, arena := arena, server := true }, echo)
    | none =>
      match multiKinds.lookup k, v0 with
      | some (arena, server), none => some ({ mode := .multi M.init, started := true, arena := arena, server := server }, echo)
      | _, _ => none

def stepLine (d : D) (line : String) : D × String :=
  match words line with
  | ["case", n] => ({}, s!"case {n}")
  | ["kind", k] =>
    match kindLine d k none with
    | some r => r
    | none => (d, "bad-op")
  | ["kind", k, v0] =>
    match v0.toNat? with
    | some v0 =>
      match kindLine d k (some v0) with
      | some r => r
      | none => (d, "bad-op")
    | none => (d, "bad-op")
  | w =>
    match d.mode with
    | .single s =>
      match stepSingle d.arena s w with
      | some (s', panicked) =>
        ({ d with mode := .single s', started := true },
         (if panicked then "panic-disposed " else "") ++ obsSingle d.server s')
      | none => (d, "bad-op")
    | .multi s =>
      match stepMulti d.arena s w with
      | some s' => ({ d with mode := .multi s', started := true }, obsMulti d.server s')
      | none => (d, "bad-op")

def main : IO Unit := runDriver stepLine {}
