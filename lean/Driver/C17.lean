import LeptosModel.Model.Wire
import LeptosModel.Model.Action
/-! Line-protocol driver for C17 (see harness/hx-c17/src/bin/c17.rs for the op grammar). -/
open Leptos Leptos.Wire Leptos.Action

inductive Mode where
  | single (s : State)
  | multi (s : M.State)

structure D where
  mode : Mode := .single (init none)
  /-- an op other than `kind` was seen in this case -/
  started : Bool := false

def showOpt : Option Nat → String
  | none => "-"
  | some v => toString v

def showB (b : Bool) : String := if b then "1" else "0"

def verdict : Option String → String
  | none => "ok"
  | some c => s!"fail {c}"

def obsSingle (s : State) : String :=
  s!"p={showB s.pending} ver={s.version} val={showOpt s.value} in={showOpt s.input} rl={(readyList s).length} ## {verdict (oracle s)}"

def showSub (r : M.Sub) : String :=
  s!"{showOpt r.input}:{showOpt r.value}:{showB r.pending}:{showB r.canceled}"

def obsMulti (s : M.State) : String :=
  s!"ver={s.version} subs=[{";".intercalate (s.subs.map showSub)}] rl={(M.readyList s).length} ## {verdict (M.oracle s)}"

def singleKinds : List String :=
  ["arc", "arc-local", "arc-unsync", "arena", "arena-local", "arena-unsync"]

def stepSingle (s : State) (w : List String) : Option State :=
  match w with
  | ["dispatch", i] => i.toNat?.map fun i => step s (.dispatch i)
  | ["abort", k] => k.toNat?.map fun k => step s (.abort k)
  | ["drop", k] => k.toNat?.map fun k => step s (.dropHandle k)
  | ["ready", k, v] =>
    match k.toNat?, v.toNat? with
    | some k, some v => some (step s (.ready k v))
    | _, _ => none
  | ["poll", j] => j.toNat?.map fun j => step s (.poll j)
  | ["idle"] => some (runIdle (s.tasks.length + 1) s)
  | ["clear"] => some (step s .clear)
  | ["obs"] => some s
  | _ => none

def stepMulti (s : M.State) (w : List String) : Option M.State :=
  match w with
  | ["dispatch", i] => i.toNat?.map fun i => M.step s (.dispatch i)
  | ["dsync", v] => v.toNat?.map fun v => M.step s (.dispatchSync v)
  | ["cancel", k] => k.toNat?.map fun k => M.step s (.cancel k)
  | ["ready", k, v] =>
    match k.toNat?, v.toNat? with
    | some k, some v => some (M.step s (.ready k v))
    | _, _ => none
  | ["poll", j] => j.toNat?.map fun j => M.step s (.poll j)
  | ["idle"] => some (M.runIdle (s.tasks.length + 1) s)
  | ["obs"] => some s
  | _ => none

def stepLine (d : D) (line : String) : D × String :=
  match words line with
  | ["case", n] => ({}, s!"case {n}")
  | ["kind", k] =>
    if d.started then (d, "bad-op")
    else if singleKinds.contains k then ({ mode := .single (init none), started := true }, s!"kind {k}")
    else if k == "multi-arc" || k == "multi-arena" then ({ mode := .multi M.init, started := true }, s!"kind {k}")
    else (d, "bad-op")
  | ["kind", k, v0] =>
    match v0.toNat? with
    | some v0 =>
      if !d.started && singleKinds.contains k then
        ({ mode := .single (init (some v0)), started := true }, s!"kind {k} {v0}")
      else (d, "bad-op")
    | none => (d, "bad-op")
  | w =>
    match d.mode with
    | .single s =>
      match stepSingle s w with
      | some s' => ({ mode := .single s', started := true }, obsSingle s')
      | none => (d, "bad-op")
    | .multi s =>
      match stepMulti s w with
      | some s' => ({ mode := .multi s', started := true }, obsMulti s')
      | none => (d, "bad-op")

def main : IO Unit := runDriver stepLine {}
