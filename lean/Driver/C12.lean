import LeptosModel.Model.Wire
import LeptosModel.Model.Transfer
/-!
Line-protocol driver for C12 (op grammar: harness/hx-c12/src/bin/c12.rs).

The two abstract Unicode predicates of the model are instantiated here by a table
that agrees with rustc's `char::escape_debug` **on the generator's alphabet**
(the harness re-validates the same table against the real `{:?}` of the running
toolchain every time it generates):

  U+0000–02FF, 0300–036F, 0391–03A1, 03A3–0482, 2000–206F, 4E00–9FA5, AC00–D7A3,
  E000–F8FF, FE00–FE0F, FEFF, FF01–FF5E, FFFC–FFFF, 1F600–1F64F, E0100–E01EF,
  F0000–10FFFF.

Outside the alphabet the table answers "not printable" (escaped); the harness
never sends such code points.
-/
open Leptos Leptos.Wire Leptos.Transfer

def inR (c lo hi : Nat) : Bool := lo ≤ c && c ≤ hi

def graphemeExtendT (c : Nat) : Bool :=
  inR c 0x300 0x36F || inR c 0xFE00 0xFE0F || inR c 0xE0100 0xE01EF

def printableT (c : Nat) : Bool :=
  inR c 0x20 0x7E || (inR c 0xA1 0x2FF && c != 0xAD) || inR c 0x391 0x3A1 || inR c 0x3A3 0x482
  || inR c 0x2010 0x2027 || inR c 0x2030 0x205E || inR c 0x4E00 0x9FA5 || inR c 0xAC00 0xD7A3
  || inR c 0xFF01 0xFF5E || inR c 0xFFFC 0xFFFD || inR c 0x1F600 0x1F64F

def P := printableT
def G := graphemeExtendT

/-- lone surrogates (only a hand-written `js` literal can produce them) are shown as U+FFFD -/
def hexOfStr (s : Str) : String :=
  hexOfBytes (utf8Encode (s.map fun c => if 0xD800 ≤ c ∧ c ≤ 0xDFFF then 0xFFFD else c))

def strOfHex (h : String) : Option Str :=
  match bytesOfHex h with
  | some bs => utf8Decode bs
  | none => none

/-- what the oracle remembers about one `write` op -/
structure W where
  id : Nat
  kind : String     -- str jstr json slite mini bytes rkyvs rkyvi
  direct : Bool     -- variant `d` (no resource object on the client)
  nested : String := ""  -- "sv" / "res": its initialiser / fetcher creates an inner SharedValue (write k + 1)
  raw : List Nat    -- the op's value payload (bytes)
  aux : List Nat    -- the op's second payload (kinds whose encoding is not modelled)
  enc : Str         -- the encoded string handed to `write_async`
  reg : Bool        -- `write_async` was called (the flag was on)
  late : Bool       -- registered after the stream had ended / `consume_buffers` had started
  consumed : Bool   -- taken by `consume_buffers`
  completed : Bool
  emitted : Nat

/-- the flag-on creations the client replays: a write (index) or a bare `next_id` -/
inductive Created where
  | write (k : Nat) (hyd : Bool)
  | bareId (hyd : Bool)

structure E where
  b : Nat
  e : Nat
  msg : Str
  late : Bool
  emitted : Bool

structure St where
  srv : Srv
  islands : Bool := false
  started : Bool
  consumeRequested : Bool := false
  consumeStarted : Bool := false
  consumedPairs : Option (List (Nat × Str)) := none
  clientCtr : Option CliCtr := none          -- the hydrated page's id counter (after `hydrate`)
  clientMap : List (Nat × Str) := []         -- what `read_data` can see on that page
  shifted : Bool := false                    -- F-C12-4: the page has a nesting SharedValue whose data arrived
  created : List Created := []
  writes : List W
  errs : List E
  everSealed : List Nat
  incs : List Nat
  js : JsState

def St.init : St :=
  { srv := Srv.new false, started := false, writes := [], errs := [], everSealed := [], incs := [], js := JsState.empty }

def tokShow (chunk : Str) : String :=
  if inertTok chunk then "ok" else
  match tokClose (chunk ++ kScriptClose) with
  | some n => toString n
  | none => "none"

def showReads (rs : List (Nat × Str)) : String :=
  if rs.isEmpty then "-" else ",".intercalate (rs.map fun (i, v) => s!"{i}:{hexOfStr v}")

def showErrs (es : List ErrRec) : String :=
  if es.isEmpty then "-" else ",".intercalate (es.map fun (b, e, m) => s!"{b}:{e}:{hexOfStr m}")

def showNats (ns : List Nat) : String :=
  if ns.isEmpty then "-" else ",".intercalate (ns.map toString)

/-- class of a data value that did not read back as written -/
def dataClass (payload : Str) : String :=
  if nulOct payload then "nul-octal" else if hasLt payload then "lt-rewritten" else "mismatch"

/-- `Ser::encode(value).into_encoded_string()` for the modelled kinds; the op's second payload
for the others -/
def encodeOf (kind : String) (raw aux : List Nat) : Option Str :=
  if kind == "str" || kind == "json" then utf8Decode raw
  else if kind == "jstr" then (utf8Decode raw).map jsonStrEncode
  else if kind == "slite" || kind == "mini" then utf8Decode aux
  else if kind == "bytes" then some (encBytes raw)
  else if kind == "rkyvs" || kind == "rkyvi" then some (encBytes aux)
  else none

/-- `from_encoded_str` then `Ser::decode`, compared with the server's value: ok / wrong / none -/
def decStatus (w : W) (read : Str) : String :=
  if w.kind == "str" then (if some read == utf8Decode w.raw then "ok" else "wrong")
  else if w.kind == "jstr" then
    match jsonStrDecode read with
    | some v => if some v == utf8Decode w.raw then "ok" else "wrong"
    | none => "none"
  else if w.kind == "json" then
    match jsonNorm read, (utf8Decode w.raw).bind jsonNorm with
    | some a, some b => if a == b then "ok" else "wrong"
    | _, _ => "none"
  else if w.kind == "bytes" then
    match decBytes read with
    | some bs => if bs == w.raw then "ok" else "wrong"
    | none => "none"
  else if w.kind == "rkyvs" || w.kind == "rkyvi" then
    match decBytes read with
    | some bs => if bs == w.aux then "ok" else "wrong"
    | none => "none"
  else (if read == w.enc then "ok" else "wrong")

def sameValue (w : W) (read : Str) : Bool := decStatus w read == "ok"

def markEmitted (id : Nat) : List W → List W
  | [] => []
  | w :: ws => if w.reg && w.id == id then { w with emitted := w.emitted + 1 } :: ws else w :: markEmitted id ws

/-- check the new assignments in order; `none` = all fine -/
def checkReads : List (Nat × Str) → List W → Option String × List W
  | [], ws => (none, ws)
  | (id, v) :: rest, ws =>
    match ws.find? (fun w => w.reg && w.id == id) with
    | none => (some "unknown-id", ws)
    | some w =>
      if w.emitted > 0 then (some "emitted-twice", ws)
      else if !w.completed then (some "emitted-before-complete", ws)
      else
        let ws' := markEmitted id ws
        if sameValue w v then checkReads rest ws'
        else
          -- keep checking bookkeeping for the rest, report the first failure
          let (_, ws'') := checkReads rest ws'
          (some (dataClass w.enc), ws'')

def markErr (b e : Nat) : List E → Option E × List E
  | [] => (none, [])
  | x :: xs =>
    if x.b == b && x.e == e && !x.emitted then (some x, { x with emitted := true } :: xs)
    else let (r, xs') := markErr b e xs; (r, x :: xs')

def checkErrs : List ErrRec → List E → Option String × List E
  | [], es => (none, es)
  | (b, e, m) :: rest, es =>
    match markErr b e es with
    | (none, _) => (some "unknown-error", es)
    | (some x, es') =>
      if x.msg == m then checkErrs rest es'
      else
        let (_, es'') := checkErrs rest es'
        (some (if nulOct x.msg then "nul-octal" else "error-mismatch"), es'')

def markupClass (es : List E) : String :=
  if es.any (fun x => hasLt x.msg) then "error-markup" else "data-markup"

/-- the oracle on one emitted chunk -/
def judgeChunk (st : St) (chunk : Str) : String × St :=
  let wrapped := wrapScript chunk
  let danger := hasDanger chunk
  let head := s!"chunk {hexOfStr wrapped} tok={tokShow chunk} danger={if danger then 1 else 0}"
  match evalChunk chunk st.js with
  | none =>
    let v := if danger || !inertTok chunk then s!"fail {markupClass st.errs}" else "fail js-syntax"
    (s!"{head} syntax-error ## {v}", st)
  | some js' =>
    let newReads := js'.resolved.drop st.js.resolved.length
    let newErrs := js'.errors.drop st.js.errors.length
    let incPart := if js'.incomplete != st.js.incomplete || js'.incomplete != [] then s!" inc={showNats js'.incomplete}" else ""
    let obs := s!"{head} reads={showReads newReads} errs={showErrs newErrs}{incPart}"
    let (r1, ws) := checkReads newReads st.writes
    let (r2, es) := checkErrs newErrs st.errs
    let st' := { st with js := js', writes := ws, errs := es }
    let verdict :=
      if danger || !inertTok chunk then s!"fail {markupClass st.errs}"
      else match r1 with
        | some c => s!"fail {c}"
        | none =>
          match r2 with
          | some c => s!"fail {c}"
          | none => "ok"
    (s!"{obs} ## {verdict}", st')

/-- the oracle at the end of the stream -/
def judgeEnd (st : St) : String :=
  if st.writes.any (fun w => w.reg && !w.late && !w.consumed && w.emitted != 1) then "fail lost-value"
  else if st.errs.any (fun x => !x.late && !x.emitted && !st.everSealed.contains x.b) then "fail lost-error"
  else if st.js.incomplete != st.incs then "fail incomplete-mismatch"
  else "ok"

def parseProg (s : String) : Option (List IdOp) :=
  s.toList.mapM fun c =>
    if c == 'c' then some IdOp.create
    else if c == 't' then some (IdOp.setHyd true)
    else if c == 'f' then some (IdOp.setHyd false)
    else none

def showSrvIds (l : List (Bool × Nat)) : String :=
  if l.isEmpty then "-" else ",".intercalate (l.map fun (h, i) => (if h then "h" else "n") ++ toString i)

def isDone (s : Srv) : Bool := match s.phase with | .done => true | _ => false

def step (st : St) (line : String) : St × String :=
  match words line with
  | ["case", n] => (St.init, s!"case {n}")
  | ["ctx", k] =>
    if k == "new" then ({ St.init with srv := Srv.new false }, "ok")
    else if k == "islands" then ({ St.init with srv := Srv.new true, islands := true }, "ok")
    else (st, "bad-op")
  | ["hyd", b] =>
    if b == "0" then ({ st with srv := st.srv.setHyd false }, "ok")
    else if b == "1" then ({ st with srv := st.srv.setHyd true }, "ok")
    else (st, "bad-op")
  | ["id"] =>
    let hyd := st.srv.ctr.hyd
    let (i, srv) := st.srv.nextId
    ({ st with srv := srv, created := st.created ++ [Created.bareId hyd] }, s!"id {i}")
  | "write" :: kind :: variant :: rest =>
    let kinds := ["str", "jstr", "json", "slite", "mini", "bytes", "rkyvs", "rkyvi"]
    let hasAux := kind == "slite" || kind == "mini" || kind == "rkyvs" || kind == "rkyvi"
    let nested := if variant == "svn" then "sv" else if variant == "arn" || variant == "rn" then "res" else ""
    let variant := if variant == "svn" then "sv" else if variant == "arn" then "ar" else if variant == "rn" then "r" else variant
    if !kinds.contains kind || !["d", "ar", "r", "ao", "o", "sv", "arb", "rb", "aob", "ob"].contains variant then (st, "bad-op") else
    let payloads : Option (List Nat × List Nat) :=
      match rest, hasAux with
      | [h], false => (bytesOfHex h).map fun r => (r, [])
      | [h, x], true => match bytesOfHex h, bytesOfHex x with
        | some r, some a => some (r, a)
        | _, _ => none
      | _, _ => none
    match payloads with
    | none => (st, "bad-op")
    | some (raw, aux) =>
      match encodeOf kind raw aux with
      | none => (st, "bad-op")
      | some enc =>
        let hyd := st.srv.ctr.hyd
        let key := st.writes.length
        let shared := variant == "sv"
        let blocking := variant == "arb" || variant == "rb" || variant == "aob" || variant == "ob"
        -- resource.rs / once_resource.rs / shared.rs: draw an id, (defer the stream if blocking,) write if the flag is on
        if nested == "" then
          let (i, srv, _deferred) := st.srv.createCarrier blocking shared key enc
          let w : W := { id := i, kind := kind, direct := variant == "d", raw := raw, aux := aux, enc := enc,
                         reg := hyd, late := isDone srv || st.consumeStarted, consumed := false,
                         completed := hyd && shared, emitted := 0 }
          ({ st with srv := srv, writes := st.writes ++ [w], created := st.created ++ [Created.write key hyd] },
           s!"w {key} {i} {if hyd then 1 else 0} enc={hexOfStr enc} ## ok")
        else
          -- ids are drawn in creation-START order: the outer carrier's first, then the one its
          -- initialiser / fetcher creates; the inner value is handed to `write_async` first
          let innerEnc : Str := ("inner-of-" ++ hexOfBytes raw).toList.map Char.toNat
          let (i, srv1) := st.srv.nextId
          let (j, srv2) := srv1.nextId
          let srv3 := if hyd then srv2.writeReady (key + 1) j innerEnc else srv2
          let srv := if hyd then (if shared then srv3.writeReady key i enc else srv3.writeAsync key i enc) else srv3
          let late := isDone srv || st.consumeStarted
          let w : W := { id := i, kind := kind, direct := false, nested := nested, raw := raw, aux := aux, enc := enc,
                         reg := hyd, late := late, consumed := false, completed := hyd && shared, emitted := 0 }
          let wi : W := { id := j, kind := "str", direct := false, raw := utf8Encode innerEnc, aux := [], enc := innerEnc,
                          reg := hyd, late := late, consumed := false, completed := hyd, emitted := 0 }
          ({ st with srv := srv, writes := st.writes ++ [w, wi], created := st.created ++ [Created.write key hyd] },
           s!"w {key} {i} {if hyd then 1 else 0} enc={hexOfStr enc} inner={j} ## ok")
  | ["err", b, e, h] =>
    match b.toNat?, e.toNat?, strOfHex h with
    | some b, some e, some m =>
      ({ st with srv := st.srv.registerError b e m,
                 errs := st.errs ++ [{ b := b, e := e, msg := m, late := isDone st.srv, emitted := false }] }, "ok")
    | _, _, _ => (st, "bad-op")
  | ["seal", b] =>
    match b.toNat? with
    | some b => ({ st with srv := st.srv.seal b, everSealed := st.everSealed ++ [b] }, "ok")
    | none => (st, "bad-op")
  | ["inc", i] =>
    match i.toNat? with
    | some i =>
      let incs := if isDone st.srv then st.incs else st.incs ++ [i]
      ({ st with srv := st.srv.setIncomplete i, incs := incs }, "ok")
    | none => (st, "bad-op")
  | ["start"] =>
    if st.started then (st, "skip") else ({ st with srv := st.srv.start P G, started := true }, "ok")
  | ["complete", k] =>
    match k.toNat? with
    | none => (st, "bad-op")
    | some k =>
      match st.writes[k]? with
      | some w =>
        if w.reg && !w.completed then
          ({ st with srv := st.srv.complete k,
                     writes := st.writes.set k { w with completed := true } }, "ok")
        else (st, "skip")
      | none => (st, "skip")
  | ["consume"] =>
    if st.consumeRequested then (st, "skip") else ({ st with consumeRequested := true }, "ok")
  | ["cpoll"] =>
    if !st.consumeRequested || st.consumedPairs.isSome then (st, "skip") else
    let writes := if st.consumeStarted then st.writes else
      st.writes.map fun w => if w.reg && !w.late && w.emitted == 0 then { w with consumed := true } else w
    let (r, srv) := st.srv.consumePoll
    let st := { st with srv := srv, consumeStarted := true, writes := writes }
    match r with
    | none => (st, "pending")
    | some pairs =>
      let obs := s!"done {showReads pairs}"
      let rec judge (ps : List (Nat × Str)) (seen : List Nat) (v : Option String) : Option String × List Nat :=
        match ps with
        | [] => (v, seen)
        | (id, data) :: rest =>
          match st.writes.find? (fun w => w.consumed && w.id == id) with
          | none => judge rest seen (v.orElse fun _ => some "consume-unknown-id")
          | some w =>
            let v := if seen.contains id then v.orElse fun _ => some "consume-twice" else v
            let v := if !w.completed then v.orElse fun _ => some "consume-before-complete" else v
            let v := if decStatus w data != "ok" then v.orElse fun _ => some "consume-mismatch" else v
            judge rest (seen ++ [id]) v
      let (v, seen) := judge pairs [] none
      let v := if st.writes.any (fun w => w.consumed && !seen.contains w.id) then v.orElse fun _ => some "consume-lost" else v
      let st := { st with consumedPairs := some pairs }
      match v with
      | some c => (st, s!"{obs} ## fail {c}")
      | none => (st, s!"{obs} ## ok")
  | ["hydrate"] =>
    let map : List (Nat × Str) := match st.consumedPairs with
      | some pairs => pairs
      | none => st.js.resolved
    let lookup (id : Nat) : Option Str := (map.reverse.find? (·.1 == id)).map (·.2)
    let c0 := if st.islands then CliCtr.newIslands else CliCtr.new
    let rec go (cs : List Created) (c : CliCtr) (shown : List String) (fetches : Nat) (bad : Bool) :
        List String × Nat × Bool × CliCtr :=
      match cs with
      | [] => (shown, fetches, bad, c)
      | Created.bareId true :: rest => go rest c.nextId.2 shown fetches bad
      | Created.write k true :: rest =>
        match st.writes[k]? with
        | none => go rest c shown fetches bad
        | some w =>
          let cid := c.nextId.1
          let stt := match lookup cid with
            | some read => decStatus w read
            | none => "none"
          let fetches := if !w.direct && stt == "none" then fetches + 1 else fetches
          let bad := bad || ((lookup w.id).isSome && stt != "ok")
          -- the inner SharedValue: a fetcher always runs at creation; an initialiser only when
          -- nothing usable arrived for the outer value
          let innerRuns := w.nested == "res" || (w.nested == "sv" && stt == "none")
          let c1 := c.nextId.2
          let innerFound := (lookup c1.nextId.1).isSome
          let fetches := if innerRuns && !innerFound then fetches + 1 else fetches
          let c2 := if innerRuns then c1.nextId.2 else c1
          go rest c2 (shown ++ [s!"{k}:{stt}"]) fetches bad
      | _ :: rest => go rest c shown fetches bad
    let (shown, fetches, bad, cEnd) := go st.created c0 [] 0 false
    let shownS := if shown.isEmpty then "-" else ",".intercalate shown
    -- F-C12-4 (class `nested-sharedvalue-id-shift`): a SharedValue whose initialiser creates a serialized
    -- carrier, on a client that finds the outer value: the initialiser is skipped, the inner id is never
    -- drawn, every later id is one too small
    let shifted := st.created.any fun cr => match cr with
      | Created.write k true => (match st.writes[k]? with
          | some w => w.nested == "sv" && w.reg && (lookup w.id).isSome
          | none => false)
      | _ => false
    let verdict := if !bad then "ok" else if shifted then "fail nested-sharedvalue-id-shift" else "fail client-value"
    ({ st with clientCtr := some cEnd, clientMap := map, shifted := shifted },
     s!"hydrate {shownS} fetches={fetches} ## {verdict}")
  | "client" :: moment :: kind :: variant :: rest =>
    let kinds := ["str", "jstr", "json", "slite", "mini", "bytes", "rkyvs", "rkyvi"]
    let hasAux := kind == "slite" || kind == "mini" || kind == "rkyvs" || kind == "rkyvi"
    if (moment != "post" && moment != "csr") || !kinds.contains kind
        || !["d", "ar", "r", "ao", "o", "sv", "arb", "rb", "aob", "ob"].contains variant then (st, "bad-op") else
    let payloads : Option (List Nat × List Nat) :=
      match rest, hasAux with
      | [h], false => (bytesOfHex h).map fun r => (r, [])
      | [h, x], true => match bytesOfHex h, bytesOfHex x with
        | some r, some a => some (r, a)
        | _, _ => none
      | _, _ => none
    match payloads with
    | none => (st, "bad-op")
    | some (raw, aux) =>
      match encodeOf kind raw aux with
      | none => (st, "bad-op")
      | some enc =>
        let w : W := { id := 0, kind := kind, direct := variant == "d", raw := raw, aux := aux, enc := enc,
                       reg := false, late := false, consumed := false, completed := false, emitted := 0 }
        if moment == "csr" then
          -- `CsrSharedContext`: every id is 0, nothing can be read
          (st, s!"client csr ids=0 st=none fetches={if w.direct then 0 else 1} ## ok")
        else
          match st.clientCtr with
          | none => (st, "skip")
          | some c =>
            let cid := c.nextId.1
            let found := (st.clientMap.reverse.find? (·.1 == cid)).map (·.2)
            -- a `SharedValue` only decodes during hydration; the resources look the id up whenever asked
            let stt := if variant == "sv" then "none" else match found with
              | some read => decStatus w read
              | none => "none"
            let loads := if w.direct then 0 else if stt == "none" then 1 else 0
            let verdict :=
              if (stt != "none" || found.isSome) && st.shifted then "fail nested-sharedvalue-id-shift"
              else if stt != "none" || found.isSome then "fail late-carrier-reads-transferred-data"
              else if !w.direct && loads != 1 then "fail late-carrier-does-not-load"
              else "ok"
            ({ st with clientCtr := some c.nextId.2 },
             s!"client post ids={cid} st={stt} fetches={loads} ## {verdict}")
  | ["poll"] =>
    let (r, srv) := st.srv.poll P G
    let st := { st with srv := srv }
    match r with
    | .notStarted => (st, "skip")
    | .pending => (st, "pending")
    | .finished => (st, s!"end ## {judgeEnd st}")
    | .chunk c => let (o, st') := judgeChunk st c; (st', o)
  | ["ids", k, prog] =>
    match parseProg prog with
    | none => (st, "bad-op")
    | some ops =>
      if k != "new" && k != "islands" then (st, "bad-op") else
      let s0 := if k == "islands" then SrvCtr.newIslands else SrvCtr.new
      let c0 := if k == "islands" then CliCtr.newIslands else CliCtr.new
      let sr := srvRun s0 ops
      let hydIds := srvHydIds s0 ops
      let cl := cliRun c0 (hydratingPart s0.hyd ops)
      let cl2 := cliRun c0 ops
      let v := if hydIds == cl then "ok" else "fail ids-misaligned"
      (st, s!"s={showSrvIds sr} c={showNats cl} c2={showNats cl2} ## {v}")
  | ["lit", site, h] =>
    match strOfHex h with
    | none => (st, "bad-op")
    | some s =>
      if site != "d" && site != "e" then (st, "bad-op") else
      let isData := site == "d"
      let chunk := if isData then dataStmt P G 0 s else errPushStmt P G 0 0 s
      let danger := hasDanger chunk
      let head := s!"{hexOfStr (wrapScript chunk)} tok={tokShow chunk} danger={if danger then 1 else 0}"
      let markup := if isData then "data-markup" else "error-markup"
      match evalChunk chunk JsState.empty with
      | none =>
        let v := if danger || !inertTok chunk then s!"fail {markup}" else "fail js-syntax"
        (st, s!"{head} syntax-error ## {v}")
      | some js =>
        let got : Option Str :=
          if isData then (js.resolved.head?).map (·.2) else (js.errors.head?).map (·.2.2)
        let gs := match got with | some g => hexOfStr g | none => "none"
        let v :=
          if danger || !inertTok chunk then s!"fail {markup}"
          else if got == some s then "ok"
          else if isData then s!"fail {dataClass s}"
          else s!"fail {if nulOct s then "nul-octal" else "error-mismatch"}"
        (st, s!"{head} {gs} ## {v}")
  | ["jsonenc", h] =>
    -- serde_json::to_string(&s), then through a data site, then what the JSON codec decodes
    match strOfHex h with
    | none => (st, "bad-op")
    | some s =>
      let enc := jsonStrEncode s
      let back := (jsDecodeStringLiteral (emitLit P G .asyncData enc)).bind jsonStrDecode
      let v := if back == some s then "ok" else s!"fail {dataClass enc}"
      (st, s!"{hexOfStr enc} {match back with | some b => hexOfStr b | none => "none"} ## {v}")
  | ["js", h] =>
    -- browser twin only: value of a string literal given as source text
    match strOfHex h with
    | none => (st, "bad-op")
    | some src =>
      match jsDecodeStringLiteral src with
      | some v => (st, hexOfStr v)
      | none => (st, "syntax-error")
  | ["tok", h] =>
    -- browser twin only: script-data tokenizer and pattern scanner on arbitrary text
    match strOfHex h with
    | none => (st, "bad-op")
    | some t => (st, s!"tok={tokShow t} danger={if hasDanger t then 1 else 0}")
  | _ => (st, "bad-op")

def main : IO Unit := runDriver step St.init
