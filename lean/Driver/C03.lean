import LeptosModel.Model.Wire
import LeptosModel.Model.Dom
import LeptosModel.Model.View
/-!
Line-protocol driver for C03 (op grammar: harness/hx-c03/src/bin/c03.rs).

Types and values travel in a prefix encoding, one token per word:

  ty  ::= t | ts | tw | ta | u | h <tag> <n> aty^n ty | p <n> ty^n | o ty | e <n> ty^n | v ty | a
        | r <n> ty        (t = String, ts = &'static str, tw = Cow<'static,str>, ta = Arc<str>; r = [T; n])
        | sv ty           (StaticVec<T>, value = <n> val^n: no marker node, `rebuild` = unmount everything, build the
                           new items, mount them at the END of the parent; accepted at top level and as the one
                           child of a top-level element, see `stepSv`)
        | x aty ty        (attribute spreading `view.add_any_attr(attr)`: value = attribute value, view value;
                           the model adds the item to every top-level element: `Ty.spread` / `View.spread`)
  aty ::= base | base~<f><c><k>     base ::= s:<name> | os:<name> | b:<name> | c | oc | tc | y | oy | py | opy
          (the suffix names the Rust string type of the value / the `into_cloneable[_owned]()` conversion
           the harness applies / the string type of a style property name: the model has one string type
           and no conversions, the suffix is read over.  `oy` = `Style<Option<_>>` IS the optional named
           attribute `style`: `.ostr "style"`)
  val(t*) = <hex> | <hexbuf>:<start>:<len>   val(r n ty) = val^n   val(u) = u             val(p ..) = the component values in order
  val(o ty) = n | s val     val(e ..) = <i> val    val(v ty) = <n> val^n      val(a) = ty val
  val(h ..) = the attribute values in order, then the child value (`u` for a void element)
  attribute values: s, c, y: <hex>; os, oc: n | s <hex>; b: 0|1; tc: <hex name> 0|1;
                    py: <hex name> <hex value>; opy: <hex name> (n | s <hex>); oy: n | s <hex>

Ops: `init <pre> <post>` (sibling kinds, letters t/c/e, `-` = none), `build ty val`,
`rebuild val`, `unmount`.  Output: the children of the mount parent, ids renumbered by first
appearance within the case, then the verdict.
-/
open Leptos Leptos.Wire Leptos.Dom Leptos.View

def strOfHex (h : String) : Option String := do
  let bs ← bytesOfHex h
  String.fromUTF8? (ByteArray.mk (bs.map UInt8.ofNat).toArray)

/-- a text value: `<hex>` or `<hexbuf>:<start>:<len>` (the bytes `start .. start+len` of the
buffer; the harness makes such values slices of ONE allocation — the model only sees contents) -/
def textOfTok (h : String) : Option String :=
  match h.splitOn ":" with
  | [b, st, ln] => do
    let bs ← bytesOfHex b
    let st ← st.toNat?
    let ln ← ln.toNat?
    if st + ln > bs.length then none
    String.fromUTF8? (ByteArray.mk (((bs.drop st).take ln).map UInt8.ofNat).toArray)
  | [_] => strOfHex h
  | _ => none

def hexOfStr (s : String) : String := hexOfBytes (s.toUTF8.toList.map (·.toNat))

abbrev P (α : Type) := List String → Option (α × List String)

def parseN {α : Type} (p : P α) : Nat → P (List α)
  | 0, r => some ([], r)
  | n + 1, r => do
    let (a, r) ← p r
    let (as, r) ← parseN p n r
    pure (a :: as, r)

def parseATy (s : String) : Option AttrTy :=
  match ((s.splitOn "~").headD s).splitOn ":" with
  | ["oy"] => some (.ostr "style")
  | ["c"] => some .cls
  | ["oc"] => some .ocls
  | ["tc"] => some .tcls
  | ["y"] => some .sty
  | ["py"] => some .psty
  | ["opy"] => some .opsty
  | ["s", n] => some (.str n)
  | ["os", n] => some (.ostr n)
  | ["b", n] => some (.bool n)
  | _ => none

def pATy : P AttrTy
  | h :: r => (parseATy h).map (·, r)
  | [] => none

/-- types as they travel: `Ty` plus attribute spreading -/
inductive PTy where
  | text | unit | any
  | arr (n : Nat) (t : PTy)
  | elem (tag : String) (as : List AttrTy) (c : PTy)
  | tuple (ts : List PTy)
  | opt (t : PTy)
  | either (ts : List PTy)
  | vec (t : PTy)
  | spread (a : AttrTy) (t : PTy)
  | svec (t : PTy)

mutual
def PTy.toTy : PTy → Ty
  | .text => .text
  | .unit => .unit
  | .any => .any
  | .arr n t => .arr n t.toTy
  | .elem tag as c => .elem tag as c.toTy
  | .tuple ts => .tuple (PTy.toTyList ts)
  | .opt t => .opt t.toTy
  | .either ts => .either (PTy.toTyList ts)
  | .vec t => .vec t.toTy
  | .spread a t => Ty.spread a t.toTy
  | .svec t => .arr 0 t.toTy
def PTy.toTyList : List PTy → List Ty
  | [] => []
  | t :: ts => t.toTy :: PTy.toTyList ts
end

def parseTy : Nat → P PTy
  | 0, _ => none
  | f + 1, toks =>
    match toks with
    | "t" :: r => some (.text, r)
    -- text children of other string types (`&'static str`, `Cow<'static, str>`, `Arc<str>`): the
    -- model has one text type, a rebuild may depend on the contents only
    | "ts" :: r => some (.text, r)
    | "tw" :: r => some (.text, r)
    | "ta" :: r => some (.text, r)
    | "r" :: n :: r => do
      let n ← n.toNat?
      let (t, r) ← parseTy f r
      pure (.arr n t, r)
    | "sv" :: r => do
      let (t, r) ← parseTy f r
      pure (.svec t, r)
    | "x" :: a :: r => do
      let a ← parseATy a
      let (t, r) ← parseTy f r
      pure (.spread a t, r)
    | "u" :: r => some (.unit, r)
    | "a" :: r => some (.any, r)
    | "h" :: tag :: n :: r => do
      let n ← n.toNat?
      let (as, r) ← parseN pATy n r
      let (c, r) ← parseTy f r
      pure (.elem tag as c, r)
    | "p" :: n :: r => do
      let n ← n.toNat?
      let (ts, r) ← parseN (parseTy f) n r
      pure (.tuple ts, r)
    | "e" :: n :: r => do
      let n ← n.toNat?
      let (ts, r) ← parseN (parseTy f) n r
      pure (.either ts, r)
    | "o" :: r => do
      let (t, r) ← parseTy f r
      pure (.opt t, r)
    | "v" :: r => do
      let (t, r) ← parseTy f r
      pure (.vec t, r)
    | _ => none

def pOptHex : P (Option String)
  | "n" :: r => some (none, r)
  | "s" :: h :: r => (strOfHex h).map fun s => (some s, r)
  | _ => none

def pAttrVal : AttrTy → P AttrVal
  | .str n, h :: r => (strOfHex h).map fun s => (.str n s, r)
  | .ostr n, r => (pOptHex r).map fun (v, r) => (.ostr n v, r)
  | .bool n, "0" :: r => some (.bool n false, r)
  | .bool n, "1" :: r => some (.bool n true, r)
  | .cls, h :: r => (strOfHex h).map fun s => (.cls s, r)
  | .ocls, r => (pOptHex r).map fun (v, r) => (.ocls v, r)
  | .tcls, h :: "0" :: r => (strOfHex h).map fun s => (.tcls s false, r)
  | .tcls, h :: "1" :: r => (strOfHex h).map fun s => (.tcls s true, r)
  | .sty, h :: r => (strOfHex h).map fun s => (.sty s, r)
  | .psty, n :: h :: r => do
    let n ← strOfHex n
    let v ← strOfHex h
    pure (.psty n v, r)
  | .opsty, n :: r => do
    let n ← strOfHex n
    let (v, r) ← pOptHex r
    pure (.opsty n v, r)
  | _, _ => none

def pAttrVals : List AttrTy → P (List AttrVal)
  | [], r => some ([], r)
  | t :: ts, r => do
    let (a, r) ← pAttrVal t r
    let (as, r) ← pAttrVals ts r
    pure (a :: as, r)

/-- values as they travel: `View` plus attribute spreading, `AnyView` contents with their travelling type -/
inductive PVal where
  | text (s : String) | unit | onone
  | elem (tag : String) (as : List AttrVal) (c : PVal)
  | tuple (vs : List PVal)
  | osome (v : PVal)
  | either (n i : Nat) (v : PVal)
  | vec (vs : List PVal)
  | any (t : PTy) (v : PVal)
  | spread (a : AttrVal) (v : PVal)
  | svec (vs : List PVal)

mutual
def PVal.toView : PVal → View
  | .text s => .text s
  | .unit => .unit
  | .onone => .onone
  | .elem tag as c => .elem tag as c.toView
  | .tuple vs => .tuple (PVal.toViews vs)
  | .osome v => .osome v.toView
  | .either n i v => .either n i v.toView
  | .vec vs => .vec (PVal.toViews vs)
  | .any t v => .any t.toTy v.toView
  | .spread a v => View.spread a v.toView
  | .svec vs => .tuple (PVal.toViews vs)
def PVal.toViews : List PVal → List View
  | [] => []
  | v :: vs => v.toView :: PVal.toViews vs
end

def parseSeq (p : PTy → P PVal) : List PTy → P (List PVal)
  | [], r => some ([], r)
  | t :: ts, r => do
    let (a, r) ← p t r
    let (as, r) ← parseSeq p ts r
    pure (a :: as, r)

def parseVal : Nat → PTy → P PVal
  | 0, _, _ => none
  | f + 1, ty, toks =>
    match ty, toks with
    | .text, h :: r => (textOfTok h).map fun s => (.text s, r)
    | .arr n t, r => do
      let (vs, r) ← parseN (parseVal f t) n r
      pure (.tuple vs, r)
    | .unit, "u" :: r => some (.unit, r)
    | .elem tag ats ct, r => do
      let (as, r) ← pAttrVals ats r
      let (c, r) ← parseVal f ct r
      pure (.elem tag as c, r)
    | .tuple ts, r => do
      let (vs, r) ← parseSeq (parseVal f) ts r
      pure (.tuple vs, r)
    | .opt _, "n" :: r => some (.onone, r)
    | .opt t, "s" :: r => do
      let (v, r) ← parseVal f t r
      pure (.osome v, r)
    | .either ts, i :: r => do
      let i ← i.toNat?
      let t ← ts[i]?
      let (v, r) ← parseVal f t r
      pure (.either ts.length i v, r)
    | .vec t, n :: r => do
      let n ← n.toNat?
      let (vs, r) ← parseN (parseVal f t) n r
      pure (.vec vs, r)
    | .any, r => do
      let (t, r) ← parseTy f r
      let (v, r) ← parseVal f t r
      pure (.any t v, r)
    | .spread a t, r => do
      let (av, r) ← pAttrVal a r
      let (v, r) ← parseVal f t r
      pure (.spread av v, r)
    | .svec t, n :: r => do
      let n ← n.toNat?
      let (vs, r) ← parseN (parseVal f t) n r
      pure (.svec vs, r)
    | _, _ => none

/-! canonical output -/

abbrev Names := List (Id × Nat)

def nameOf (nm : Names) (x : Id) : Nat × Names :=
  match nm.lookup x with
  | some n => (n, nm)
  | none => (nm.length, nm ++ [(x, nm.length)])

def showNode : Nat → Dom → Names → Id → String × Names
  | 0, _, nm, _ => ("?", nm)
  | f + 1, d, nm, x =>
    match d.get? x with
    | none => ("?", nm)
    | some r =>
      let (n, nm) := nameOf nm x
      match r.kind with
      | .text => (s!"T{n}.{r.muts}:{hexOfStr r.data}", nm)
      | .comment => (s!"C{n}.{r.muts}:{hexOfStr r.data}", nm)
      | .elem tag =>
        let attrs := "&".intercalate (r.attrs.map fun (k, v) => k ++ "=" ++ hexOfStr v)
        let (ks, nm) := r.kids.foldl (fun (acc, nm) k =>
          let (s, nm) := showNode f d nm k
          (acc ++ [s], nm)) (([] : List String), nm)
        (s!"E{n}.{r.muts}({tag};{attrs};{",".intercalate ks})", nm)

def showKids (d : Dom) (nm : Names) (p : Id) : String × Names :=
  let (ks, nm) := (d.kidsOf p).foldl (fun (acc, nm) k =>
    let (s, nm) := showNode (d.next + 1) d nm k
    (acc ++ [s], nm)) (([] : List String), nm)
  ("[" ++ ",".intercalate ks ++ "]", nm)

/-! the oracle: compare with a fresh build, attributes as a map, class as a token set, style as
a declaration map -/

mutual
def normTree : Tree → String
  | .text s => "T:" ++ hexOfStr s
  | .comment s => "C:" ++ hexOfStr s
  | .elem tag attrs kids =>
    let attrs := normAttrs attrs
    "E(" ++ tag ++ ";" ++ "&".intercalate (attrs.map fun (k, v) => k ++ "=" ++ hexOfStr v) ++ ";"
      ++ normTrees kids ++ ")"
def normTrees : List Tree → String
  | [] => ""
  | t :: ts => normTree t ++ "," ++ normTrees ts
end

structure St where
  dom : Dom := {}
  root : Id := 0
  root2 : Id := 0
  pre : List Id := []
  post : List Id := []
  ty : Option PTy := none
  st : Option State := none
  names : Names := []
  /-- failure classes the history of values falls into (known-finding predicates) -/
  classes : List String := []
  prev : Option View := none
  /-- a Rust panic happened (`Rndr::mount_before` on a state that is not in the DOM): the case is over -/
  dead : Bool := false

def mkSibling (d : Dom) (root : Id) (c : Char) : Option (Dom × Id) :=
  if c = 't' then
    let (d, x) := d.createTextNode "x"
    some (d.insertNode root x none, x)
  else if c = 'c' then
    let (d, x) := d.createComment "m"
    some (d.insertNode root x none, x)
  else if c = 'e' then
    let (d, x) := d.createElement "span"
    let (d, y) := d.createTextNode "y"
    let d := d.insertNode x y none
    some (d.insertNode root x none, x)
  else none

def mkSiblings (root : Id) : List Char → Dom → Option (Dom × List Id)
  | [], d => some (d, [])
  | c :: cs, d => do
    let (d, x) ← mkSibling d root c
    let (d, xs) ← mkSiblings root cs d
    pure (d, x :: xs)

def kindsOf (s : String) : List Char := if s == "-" then [] else s.toList

/-- the region between `pre` and `post` as normalised trees -/
def regionNorm (s : St) : Option String := do
  let kids := s.dom.kidsOf s.root
  let n := kids.length
  if n < s.pre.length + s.post.length then none
  if kids.take s.pre.length != s.pre then none
  if kids.drop (n - s.post.length) != s.post then none
  let mid := (kids.drop s.pre.length).take (n - s.pre.length - s.post.length)
  let ts ← serListN (s.dom.next + 1) s.dom mid
  pure (normTrees ts)

/-- the fresh render, and whether building it logged a DOM error -/
def freshNorm (s : St) (v : View) : Option (String × Bool) := do
  let (d, st) := build v s.dom
  let d := mount st d s.root2 none
  let ts ← serializeKids d s.root2
  pure (normTrees ts, d.errs.length != s.dom.errs.length)

/-! known-finding classes: sticky flags over the values of the case (predicates of Model/View) -/

def shapeFlags (v : View) : List String :=
  (if v.nodelessBranch then ["nodeless-old-branch"] else [])
  ++ (if v.anyElem invalidToggle then ["invalid-class-token"] else [])
  ++ (if v.anyElem dupItem then ["dup-item"] else [])
  ++ (if v.anyElem classOverwrite then ["class-overwrite"] else [])
  ++ (if v.anyElem styleOverwrite then ["style-overwrite"] else [])

def pairFlags (a b : View) : List String :=
  if View.anyElemPair dupItemPair a b then ["dup-item"] else []

def addFlags (s : St) (pv : PVal) : St :=
  let v := pv.toView
  let fl := shapeFlags v ++ (match s.prev with | some a => pairFlags a v | none => [])
  { s with classes := s.classes ++ fl.filter (fun f => !s.classes.contains f), prev := some v }

def classOrder : List String :=
  ["nodeless-old-branch", "dup-item", "class-overwrite", "style-overwrite", "invalid-class-token"]

/-- the DOM-error part of the verdict is explained by `invalid-class-token` only -/
def errClass (s : St) : String :=
  if s.classes.contains "invalid-class-token" then "fail invalid-class-token" else "fail dom-error"

def verdict (s : St) (v : View) : String :=
  match regionNorm s, freshNorm s v with
  | some a, some (b, ferr) =>
    if a == b then
      (if s.dom.errs.isEmpty && !ferr then "ok" else errClass s)
    else
      match classOrder.filter s.classes.contains with
      | c :: _ => "fail " ++ c
      | [] => "fail not-fresh"
  | _, _ => "fail unserialisable"

/-- `take_errors()`: the log is emptied after every verdict -/
def clearErrs (s : St) : St := { s with dom := { s.dom with errs := [] } }

def failClass (s : St) (dflt : String) : String :=
  match classOrder.filter s.classes.contains with
  | c :: _ => "fail " ++ c
  | [] => "fail " ++ dflt

def emit (s : St) (v : Option View) : St × String :=
  if s.dom.errs.any (·.startsWith "panic") then
    ({ s with dead := true }, "panic ## " ++ failClass s "panic") else
  let (o, nm) := showKids s.dom s.names s.root
  let s := { s with names := nm }
  match v with
  | some v => (clearErrs s, o ++ " ## " ++ verdict s v)
  | none => (s, o)

/-! `StaticVec` (C03-local: the shared `View` / `State` have no constructor for it).  Its state is
a tuple state (no marker); `build` / `mount` / `unmount` are the tuple's; `rebuild` is
`StaticVec::rebuild`: unmount every old item, build the new ones, mount them with no marker, i.e.
at the END of the parent. -/

/-- where a `StaticVec` sits in the travelling type -/
inductive SvPos | none | top | child

def svPos : PTy → SvPos
  | .svec _ => .top
  | .elem _ _ (.tuple [.svec _]) => .child
  | _ => .none

/-- shape check of a value against its travelling type (`StaticVec` items checked one by one) -/
def accepts : PTy → PVal → Bool
  | .svec t, .svec vs => t.toTy.shapeOk && vs.all fun v => hasShape v.toView t.toTy
  | .elem tag ats (.tuple [.svec t]), .elem tag' as (.tuple [.svec vs]) =>
    tag == tag' && as.map AttrVal.ty == ats && nodupS (namedKeys ats) && !isVoid tag &&
    t.toTy.shapeOk && vs.all fun v => hasShape v.toView t.toTy
  | ty, v => ty.toTy.shapeOk && hasShape v.toView ty.toTy

/-- `rebuild` of a value whose type has a `StaticVec` at `pos` -/
def rebuildSv (pos : SvPos) (root : Id) (prev : Option View) (v : View) (st : State) (d : Dom) :
    Dom × State :=
  match pos, v, st with
  | .top, v, st =>
    let d := unmount st d
    let (d, st') := build v d
    (mount st' d root none, st')
  | .child, .elem tag as (.tuple [items]), st =>
    -- the element's attributes are rebuilt, its child is the `StaticVec`
    let old := match prev with | some (.elem _ _ c) => c | _ => .tuple [items]
    match rebuild false (.elem tag as old) st d with
    | (d, .elem id ast (some (.tuple [svSt]))) =>
      let d := unmount svSt d
      let (d, svSt') := build items d
      (mount svSt' d id none, .elem id ast (some (.tuple [svSt'])))
    | r => r
  | _, v, st => rebuild false v st d

def step (s : St) (line : String) : St × String :=
  if s.dead && (words line).head? != some "case" then (s, "dead ## " ++ failClass s "panic") else
  match words line with
  | ["case", n] => ({}, s!"case {n}")
  | ["init", pre, post] =>
    let (d, root) := ({} : Dom).createElement "main"
    match mkSiblings root (kindsOf pre) d with
    | none => (s, "bad-op")
    | some (d, pre) =>
      match mkSiblings root (kindsOf post) d with
      | none => (s, "bad-op")
      | some (d, post) =>
        let (d, root2) := d.createElement "aside"
        emit { dom := d, root := root, root2 := root2, pre := pre, post := post } none
  | "build" :: rest =>
    match s.st, parseTy (rest.length + 1) rest with
    | none, some (ty, r) =>
      match parseVal (rest.length + 4096) ty r with
      | some (pv, []) =>
        let v := pv.toView
        if !(accepts ty pv) then (s, "bad-op") else
        let (d, st) := build v s.dom
        let d := mount st d s.root s.post.head?
        emit (addFlags { s with dom := d, ty := some ty, st := some st } pv) (some v)
      | _ => (s, "bad-op")
    | _, _ => (s, "bad-op")
  | "rebuild" :: rest =>
    match s.st, s.ty with
    | some st, some ty =>
      match parseVal (rest.length + 4096) ty rest with
      | some (pv, []) =>
        let v := pv.toView
        if !(accepts ty pv) then (s, "bad-op") else
        let (d, st) := rebuildSv (svPos ty) s.root s.prev v st s.dom
        emit (addFlags { s with dom := d, st := some st } pv) (some v)
      | _ => (s, "bad-op")
    | _, _ => (s, "bad-op")
  | ["unmount"] =>
    match s.st with
    | some st =>
      let d := unmount st s.dom
      let s := { s with dom := d, st := none }
      let (o, nm) := showKids s.dom s.names s.root
      let ok := s.dom.kidsOf s.root == s.pre ++ s.post && s.dom.errs.isEmpty
      (clearErrs { s with names := nm }, o ++ " ## " ++ (if ok then "ok" else "fail unmount-residue"))
    | none => (s, "bad-op")
  | _ => (s, "bad-op")

def main : IO Unit := runDriver step {}
