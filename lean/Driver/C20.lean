import LeptosModel.Model.Wire
import LeptosModel.Model.Ambient
/-! Line-protocol driver for C20 (op grammar: harness/hx-c20/src/bin/c20.rs).

The driver maps every view program onto tasks of the abstract discipline model `Leptos.Ambient`:

* `start r`  — request r's handler (NOT wrapped: nobody scopes the future the server polls):
  `Owner::new_root` = `setRoot`, `provide_context` of the request tag and of every `Provider` value
  (`withOwner`), then every leaf that is rendered synchronously, each as a wrapped task whose captured
  owner is the nearest `Provider` owner (`OwnedView` / `Owner::with`).
* `ps r` / `drop r` / `end` — every leaf of r whose gates have been fired runs now: as a WRAPPED task
  (captured owner = its scope) if the real call site is wrapped (`ScopedFuture` in `Suspend::new`,
  `Suspense`, `Resource`; `OwnedView` around a resolved `Suspense`), as an UNWRAPPED, sandboxed task if it
  is a lazy leaf of the view a Suspend OUTSIDE Suspense resolves to (rendered by the response stream's
  poll: `Suspend::to_html_async_with_buf`, known finding F-C20-1): that one sees whatever the last
  `start`/stream end left in OWNER.  When all gates of r are fired its stream ends: cleanups (arena
  read, inside `Sandboxed`), then `Owner::unset`.
* `abort r b` — the response body of r is dropped unpolled while b's arena is current: r's root dies (OWNER dangling =
  none); r's response is then only judged by the harness oracle (`r<k>:aborted`); an already dispatched action future of r
  still runs (unwrapped); `on_cleanup`s of r under a foreign arena = F-C20-4.
* `X`/`Y` bodies (user stream behind the app stream inside the body's `Sandboxed`, `reactive_graph::spawn` tasks) =
  sandboxed-only tasks reading the arena (`C20_sandboxed_arena`); `Z` = the NOT wrapped task of a Resource / AsyncDerived
  running and re-running its fetcher, each part under `Step.enter` (guarded: `GuardedOk`, covered by `C20_wrapped_isolated`).
* leaf kinds: resources of every family, `spawn_local_scoped`, isomorphic effects, arena reads in child owners = WRAPPED tasks;
  `Action::dispatch` future = UNWRAPPED, sandboxed task (`reactive_graph::spawn`), F-C20-3.
* `poll i` — a spawned task of some request; every one of them is wrapped, so by
  `C20_wrapped_isolated` the observation does not depend on when it is polled: no model action.

The table follows the code AFTER the repairs hooks/fix-c20-1/3/4 (every one of these sites is now wrapped); the
descriptions of unwrapped sites above and the fields `exposed`/`site`/`action` are the PRE-repair table, selected by
`old := true` (`lm_c20 old`) and pinned by the `#guard`s at the end of the file.
Which sites are wrapped is this table — modelled; the run against the real code is what checks it.
The observable is, per response, the set of context tags each leaf saw (`<request>.<provider scope>`;
`a<request>` = whose arena a cleanup saw). -/
open Leptos Leptos.Wire Leptos.Ambient

inductive P where
  | L (id : Nat) | E (id : Nat) | C (id : Nat)
  | V (k : Nat) (c : P)
  | S (g a b : Nat) (c : P)
  | U (c : P)
  | W (k : Nat) (c : P)
  | R (g a b : Nat)
  | O (v g a b : Nat)
  | T (g a : Nat)
  | D (g a : Nat)
  | I (a : Nat)
  | A (g a : Nat)
  | X (v g a : Nat)
  | Y (v g a : Nat)
  | K (v g a b : Nat)
  | M (g a : Nat)
  | N (v g a : Nat)
  | Z (kv g1 t g2 ls la lb lr : Nat)
  | F (n id : Nat)
  | Q (cs : List P)
deriving Inhabited

/-! ### parser (same grammar and limits as the harness: numbers of 1–6 digits, nesting depth ≤ 12) -/

def takeNum (cs : List Char) : Option (Nat × List Char) :=
  let ds := cs.takeWhile Char.isDigit
  if ds.isEmpty || ds.length > 6 then none
  else some (ds.foldl (fun n c => n * 10 + (c.toNat - 48)) 0, cs.drop ds.length)

def eat (c : Char) : List Char → Option (List Char)
  | d :: rest => if c == d then some rest else none
  | [] => none

mutual
partial def parseP (depth : Nat) (cs : List Char) : Option (P × List Char) :=
  if depth > 12 then none else
  match cs with
  | 'L' :: r => do let (n, r) ← takeNum r; pure (.L n, r)
  | 'E' :: r => do let (n, r) ← takeNum r; pure (.E n, r)
  | 'C' :: r => do let (n, r) ← takeNum r; pure (.C n, r)
  | 'V' :: r => do
    let (k, r) ← takeNum r; let r ← eat '(' r
    let (c, r) ← parseP (depth + 1) r; let r ← eat ')' r
    pure (.V k c, r)
  | 'S' :: r => do
    let (g, r) ← takeNum r; let r ← eat '.' r
    let (a, r) ← takeNum r; let r ← eat '.' r
    let (b, r) ← takeNum r; let r ← eat '(' r
    let (c, r) ← parseP (depth + 1) r; let r ← eat ')' r
    pure (.S g a b c, r)
  | 'U' :: r => do
    let r ← eat '(' r
    let (c, r) ← parseP (depth + 1) r; let r ← eat ')' r
    pure (.U c, r)
  | 'W' :: r => do
    let (k, r) ← takeNum r
    if k > 1 then none else
    let r ← eat '(' r
    let (c, r) ← parseP (depth + 1) r; let r ← eat ')' r
    pure (.W k c, r)
  | 'R' :: r => do
    let (g, r) ← takeNum r; let r ← eat '.' r
    let (a, r) ← takeNum r; let r ← eat '.' r
    let (b, r) ← takeNum r
    pure (.R g a b, r)
  | 'O' :: r => do
    let (v, r) ← takeNum r
    if v > 7 then none else
    let r ← eat '.' r
    let (g, r) ← takeNum r; let r ← eat '.' r
    let (a, r) ← takeNum r; let r ← eat '.' r
    let (b, r) ← takeNum r
    pure (.O v g a b, r)
  | 'T' :: r => do
    let (g, r) ← takeNum r; let r ← eat '.' r
    let (a, r) ← takeNum r
    pure (.T g a, r)
  | 'D' :: r => do
    let (g, r) ← takeNum r; let r ← eat '.' r
    let (a, r) ← takeNum r
    pure (.D g a, r)
  | 'A' :: r => do
    let (g, r) ← takeNum r; let r ← eat '.' r
    let (a, r) ← takeNum r
    pure (.A g a, r)
  | 'I' :: r => do let (n, r) ← takeNum r; pure (.I n, r)
  | 'X' :: r => do
    let (v, r) ← takeNum r
    if v > 1 then none else
    let r ← eat '.' r
    let (g, r) ← takeNum r; let r ← eat '.' r
    let (a, r) ← takeNum r
    pure (.X v g a, r)
  | 'Y' :: r => do
    let (v, r) ← takeNum r
    if v > 1 then none else
    let r ← eat '.' r
    let (g, r) ← takeNum r; let r ← eat '.' r
    let (a, r) ← takeNum r
    pure (.Y v g a, r)
  | 'M' :: r => do
    let (g, r) ← takeNum r; let r ← eat '.' r
    let (a, r) ← takeNum r
    pure (.M g a, r)
  | 'N' :: r => do
    let (v, r) ← takeNum r
    if v > 1 then none else
    let r ← eat '.' r
    let (g, r) ← takeNum r; let r ← eat '.' r
    let (a, r) ← takeNum r
    pure (.N v g a, r)
  | 'K' :: r => do
    let (v, r) ← takeNum r
    if v > 1 then none else
    let r ← eat '.' r
    let (g, r) ← takeNum r; let r ← eat '.' r
    let (a, r) ← takeNum r; let r ← eat '.' r
    let (b, r) ← takeNum r
    pure (.K v g a b, r)
  | 'Z' :: r => do
    let (kv, r) ← takeNum r
    if kv / 10 > 3 || kv % 10 > 2 then none else
    let r ← eat '.' r
    let (g1, r) ← takeNum r; let r ← eat '.' r
    let (t, r) ← takeNum r; let r ← eat '.' r
    let (g2, r) ← takeNum r; let r ← eat '.' r
    let (a, r) ← takeNum r; let r ← eat '.' r
    let (b, r) ← takeNum r; let r ← eat '.' r
    let (c, r) ← takeNum r; let r ← eat '.' r
    let (d, r) ← takeNum r
    pure (.Z kv g1 t g2 a b c d, r)
  | 'F' :: r => do
    let (n, r) ← takeNum r; let r ← eat '.' r
    let (a, r) ← takeNum r
    pure (.F n a, r)
  | 'Q' :: r => do
    let r ← eat '(' r
    let (c, r) ← parseP (depth + 1) r
    let (cs, r) ← parseMore (depth + 1) r
    let r ← eat ')' r
    pure (.Q (c :: cs), r)
  | _ => none
partial def parseMore (depth : Nat) (cs : List Char) : Option (List P × List Char) :=
  match cs with
  | ',' :: r => do
    let (c, r) ← parseP depth r
    let (more, r) ← parseMore depth r
    pure (c :: more, r)
  | _ => some ([], cs)
end

def parseProg (s : String) : Option P :=
  match parseP 0 s.toList with
  | some (p, []) => some p
  | _ => none

partial def gatesOf : P → List Nat
  | .S g _ _ c => g :: gatesOf c
  | .R g _ _ => [g]
  | .O _ g _ _ => [g]
  | .T g _ => [g]
  | .D g _ => [g]
  | .A g _ => [g]
  | .X _ g _ => [g]
  | .Y _ g _ => [g]
  | .K _ g _ _ => [g]
  | .M g _ => [g]
  | .N _ g _ => [g]
  | .Z _ g1 t g2 .. => [g1, t, g2]
  | .V _ c => gatesOf c
  | .U c => gatesOf c
  | .W _ c => gatesOf c
  | .Q cs => cs.flatMap gatesOf
  | _ => []

/-- gates nothing on the server waits for (`LocalResource`'s fetcher is never run there; the first run of a
re-running fetcher may be thrown away, its trigger gate may be unused) -/
partial def idleGates : P → List Nat
  | .O 7 g _ _ => [g]
  | .Z _ g1 t _ .. => [g1, t]
  | .S _ _ _ c => idleGates c
  | .V _ c => idleGates c
  | .U c => idleGates c
  | .W _ c => idleGates c
  | .Q cs => cs.flatMap idleGates
  | _ => []

partial def hasSusp : P → Bool
  | .U _ => true
  | .V _ c => hasSusp c
  | .W _ c => hasSusp c
  | .S _ _ _ c => hasSusp c
  | .Q cs => cs.any hasSusp
  | _ => false

/-- a Suspense, an `on_cleanup` or background work (whose owner chain passes through here) somewhere below -/
partial def hasU : P → Bool
  | .U _ => true
  | .C _ => true
  | .R .. => true
  | .O .. => true
  | .T .. => true
  | .D .. => true
  | .I _ => true
  | .A .. => true
  | .V _ c => hasU c
  | .W _ c => hasU c
  | .S _ _ _ c => hasU c
  | .Q cs => cs.any hasU
  | _ => false

/-! ### program → leaf records -/

inductive Kind where
  | tag | exposed | cleanup | site | action | aread | ncleanup
deriving BEq, Repr

structure Rec where
  id : Nat
  kind : Kind
  scope : OwnerId
  /-- gates of the enclosing Suspends that are OUTSIDE Suspense (their views are rendered by the stream) -/
  chain : List Nat
  /-- other gates that must be fired before the leaf can run (Suspends inside Suspense, resources) -/
  need : List Nat
  done : Bool := false
  /-- `cleanup`: the late Provider/Suspense it is registered under, if any; `site`: its own number -/
  site : Option Nat := none
  /-- `site`: is there a Suspense below (whose pending boundary dies with the owner)? -/
  hasSusp : Bool := false
  /-- `aread`: does the body enter an owner (`ScopedFuture` / `Owner::with`) or is it only inside `Sandboxed`? -/
  wrapped : Bool := true
  /-- `tag`: run by a task that is not wrapped but enters the owner for this step (`Step.enter`): the spawned task of
  an async derived value running / re-running its fetcher -/
  guarded : Bool := false
  /-- is the poll inside a `Sandboxed` wrapper? (`K`: no) -/
  sandboxed : Bool := true

/-- a Suspend outside Suspense: a chunk of the response stream -/
structure Node where
  gate : Nat
  parent : Option Nat
  /-- gates of everything before it in document order, and its own (in-order streams poll chunks in order) -/
  seen : List Nat

structure Ctx where
  scope : OwnerId
  inSusp : Bool := false
  late : Bool := false
  covered : Bool := false
  chain : List Nat := []
  need : List Nat := []
  /-- the innermost Provider/Suspense that is rendered late (F-C20-2) -/
  site : Option Nat := none
  /-- the site table of the code BEFORE the repairs fix-c20-1/3/4 (kept for the regression `#guard`s below) -/
  old : Bool := false

def mkRec (id : Nat) (kind : Kind) (ctx : Ctx) : Rec :=
  { id, kind, scope := ctx.scope, chain := ctx.chain, need := ctx.need, site := ctx.site }

structure CAcc where
  recs : List Rec := []
  owners : List OwnerInfo := []
  provides : List (OwnerId × Nat) := []
  seen : List Nat := []
  nodes : List Node := []

/-- `base` = number of owners of the world before this request; `r` = request; `io` = in-order stream -/
partial def compile (base r : Nat) (io : Bool) (ctx : Ctx) (acc : CAcc) : P → CAcc
  | .L id =>
    -- repaired (fix-c20-1): the view a Suspend outside Suspense resolves to is rendered under the Suspend's captured
    -- owner (`OwnedView::new_with_borrowed_owner`); before, by the stream's poll under the ambient owner
    let k := if ctx.old && ctx.late && !ctx.covered then Kind.exposed else Kind.tag
    { acc with recs := acc.recs ++ [mkRec id k ctx] }
  -- `For` captures `Owner::current()` in the component body and renders every row under it (wrapped)
  | .F _ id => { acc with recs := acc.recs ++ [mkRec id .tag ctx] }
  | .E id => { acc with recs := acc.recs ++ [mkRec id .tag ctx] }
  | .C id => { acc with recs := acc.recs ++ [mkRec id .cleanup ctx] }
  | .V k c =>
    let o := base + acc.owners.length
    let isSite := ctx.old && ctx.late && hasU c
    let siteId := acc.recs.length
    let acc := { acc with
      owners := acc.owners ++ [{ req := r, parent := some ctx.scope, arena := r }]
      provides := acc.provides ++ [(o, r * 1000 + k)]
      recs := if isSite then acc.recs ++ [{ mkRec siteId .site ctx with site := some siteId, hasSusp := hasSusp c }]
              else acc.recs }
    compile base r io { ctx with scope := o, covered := true, site := if isSite then some siteId else ctx.site } acc c
  | .W _ c =>
    -- Router + FlatRoutes/Routes: the matched route's view is an `OwnedView` under a child of the owner the
    -- router captured in its component body (`choose_ssr` / `Outlet`): like a Provider without a value
    let isSite := ctx.old && ctx.late && hasU c
    let siteId := acc.recs.length
    let acc := { acc with
      recs := if isSite then acc.recs ++ [{ mkRec siteId .site ctx with site := some siteId, hasSusp := hasSusp c }]
              else acc.recs }
    compile base r io { ctx with covered := true, site := if isSite then some siteId else ctx.site } acc c
  | .U c =>
    let isSite := ctx.old && ctx.late && hasU c
    let siteId := acc.recs.length
    let acc := { acc with
      recs := if isSite then acc.recs ++ [{ mkRec siteId .site ctx with site := some siteId, hasSusp := hasSusp c }]
              else acc.recs }
    compile base r io { ctx with inSusp := true, late := false, covered := false,
                                 site := if isSite then some siteId else ctx.site } acc c
  | .S g a b c =>
    let acc := { acc with recs := acc.recs ++ [mkRec a .tag ctx], seen := acc.seen ++ [g] }
    if ctx.inSusp then
      -- inside Suspense: awaited by the boundary's ScopedFuture, rendered under its OwnedView
      let ctx := { ctx with need := ctx.need ++ [g] }
      compile base r io ctx { acc with recs := acc.recs ++ [mkRec b .tag ctx] } c
    else
      -- outside: a chunk of the stream; its view is rendered by the stream's poll
      let acc := { acc with nodes := acc.nodes ++ [({ gate := g, parent := ctx.chain.getLast?, seen := acc.seen } : Node)] }
      let ctx := { ctx with chain := ctx.chain ++ [g], late := true, covered := false }
      compile base r io ctx { acc with recs := acc.recs ++ [mkRec b .tag ctx] } c
  | .R g a b =>
    let ctx := { ctx with need := ctx.need ++ [g] }
    { acc with seen := acc.seen ++ [g], recs := acc.recs ++ [mkRec a .tag ctx, mkRec b .tag ctx] }
  | .O v g a b =>
    -- OnceResource / ArcOnceResource / blocking / ArcResource / AsyncDerived: `ScopedFuture::new` at construction;
    -- LocalResource (7): nothing runs on the server, Suspense falls back
    if v == 7 then acc else
    let ctx := { ctx with need := ctx.need ++ [g] }
    { acc with seen := acc.seen ++ [g], recs := acc.recs ++ [mkRec a .tag ctx, mkRec b .tag ctx] }
  | .T g a =>
    -- `spawn_local_scoped`: ScopedFuture + Sandboxed
    let ctx := { ctx with need := ctx.need ++ [g] }
    { acc with seen := acc.seen ++ [g], recs := acc.recs ++ [mkRec a .tag ctx] }
  | .D g a =>
    -- `ArcAction::dispatch`: `reactive_graph::spawn` = Sandboxed only, NOT ScopedFuture (F-C20-3)
    let ctx := { ctx with need := ctx.need ++ [g] }
    -- repaired (fix-c20-3): the action's future is a `ScopedFuture` (owner of the dispatch, no observer)
    { acc with seen := acc.seen ++ [g], recs := acc.recs ++ [mkRec a (if ctx.old then .action else .tag) ctx] }
  | .I a =>
    -- `Effect::new_isomorphic`: the task runs the body under `owner.with_cleanup`
    { acc with recs := acc.recs ++ [mkRec a .tag ctx] }
  | .A g a =>
    -- arena items of a child owner read inside the Suspend's ScopedFuture
    let ctx := { ctx with need := ctx.need ++ [g] }
    { acc with seen := acc.seen ++ [g], recs := acc.recs ++ [mkRec a .aread ctx] }
  | .X v g a =>
    -- a step of the user stream behind the app stream, inside the body's `Sandboxed` (`poll_next` sets the arena);
    -- variant 1 additionally enters a child owner: either way it sees its own arena
    let ctx := { ctx with need := ctx.need ++ [g] }
    { acc with recs := acc.recs ++ [{ mkRec a .aread ctx with wrapped := v == 1 }] }
  | .Y v g a =>
    -- `reactive_graph::spawn` = `Sandboxed` future (`poll` sets the arena)
    let ctx := { ctx with need := ctx.need ++ [g] }
    { acc with seen := acc.seen ++ [g], recs := acc.recs ++ [{ mkRec a .aread ctx with wrapped := v == 1 }] }
  | .M g a =>
    -- a memo created under its own child scope (which provides Tag scope 50); every evaluation, the first one and the
    -- re-evaluations from wherever it is read, runs inside `owner.with_cleanup(..)` of the memo's owner: `Step.enter`
    let o := base + acc.owners.length
    let acc := { acc with
      owners := acc.owners ++ [({ req := r, parent := some ctx.scope, arena := r } : OwnerInfo)]
      provides := acc.provides ++ [(o, r * 1000 + 50)]
      seen := acc.seen ++ [g] }
    { acc with recs := acc.recs ++ [{ mkRec a .tag { ctx with scope := o } with guarded := true, sandboxed := false }] }
  | .N _ g a =>
    -- cleanup functions run by `Owner::cleanup()` / a memo re-run from the handler's top level (no wrapper):
    -- `Cleanup::cleanup` enters the owner's own arena for them (`Step.cleanupFns`)
    let ctx := { ctx with need := ctx.need ++ [g] }
    { acc with seen := acc.seen ++ [g], recs := acc.recs ++ [mkRec a .ncleanup ctx] }
  | .K v g a b =>
    -- polled by the handler side itself, OUTSIDE `Sandboxed`: v=0 a `ScopedFuture` (wrapped, not sandboxed), v=1 a bare
    -- future whose body re-enters its owner (`Owner::with`: guarded); either way `Owner::with` selects owner AND arena,
    -- also when that owner already is the thread's current one
    let ctx := { ctx with need := ctx.need ++ [g] }
    { acc with seen := acc.seen ++ [g],
               recs := acc.recs ++ [{ mkRec a .tag ctx with guarded := v == 1, sandboxed := false },
                                    { mkRec b .aread ctx with wrapped := true, guarded := v == 1, sandboxed := false }] }
  | .Z _ g1 t g2 ls la lb lr =>
    -- every run of the fetcher, first or re-run, from the constructor or from the spawned task:
    -- `owner.with_cleanup(|| subscriber.with_observer(|| ScopedFuture::new(fun())))` — sync part under `Owner::with`,
    -- async part inside the ScopedFuture
    let ctx2 := { ctx with need := ctx.need ++ [g2] }
    { acc with seen := acc.seen ++ [g1, t, g2],
               recs := acc.recs ++ [{ mkRec ls .tag ctx with guarded := true }, { mkRec la .tag ctx with guarded := true },
                                    { mkRec lb .tag ctx2 with guarded := true }, mkRec lr .tag ctx2] }
  | .Q cs => cs.foldl (compile base r io ctx) acc

/-! ### driver state -/

structure RQ where
  io : Bool
  gates : List Nat
  /-- gates the response waits for -/
  endGates : List Nat
  old : Bool := false
  recs : List Rec
  nodes : List Node
  resolved : List Nat := []
  root : OwnerId
  provides : List (OwnerId × Nat)
  started : Bool := false
  dropped : Bool := false
  ended : Bool := false
  aborted : Bool := false
  fired : List Nat := []
  /-- late Provider/Suspense owners parked in another request's cleanups: (site, that request's root) -/
  parked : List (Nat × OwnerId) := []

structure DS where
  reqs : List RQ := []
  world : World := { owners := [], progs := [] }
  st : State := {}
  ended : Bool := false
  exposedBad : Bool := false
  actionBad : Bool := false
  abortCleanupBad : Bool := false
  siteBad : Bool := false
  /-- pre-repair site table -/
  old : Bool := false

def DS.exec (d : DS) (t : Task) : DS :=
  let i := d.st.tasks.length
  { d with st := pollTask d.world { d.st with tasks := d.st.tasks ++ [t] } i }

def setReq (d : DS) (r : Nat) (q : RQ) : DS := { d with reqs := d.reqs.set r q }

/-- which stream chunks (Suspends outside Suspense) produce their view in this round: the gate is fired and
either the chunk is reached (out-of-order: always; in-order: everything before it is complete) or its
parent's view is being rendered right now (`now_or_never` on an already completed future) -/
def resolveNodes (q : RQ) (atStart : Bool) : RQ :=
  let (res, _) := q.nodes.foldl (init := (q.resolved, ([] : List Nat))) fun (res, newly) n =>
    if res.contains n.gate then (res, newly) else
    let parentOk := match n.parent with
      | some p => res.contains p
      | none => true
    let parentNow := match n.parent with
      | some p => newly.contains p
      | none => atStart
    -- (the exact moment only matters for the pre-repair table, whose leaves see the ambient owner of that moment)
    let reached := !q.old || !q.io || n.seen.all fun g => q.fired.contains g
    if parentOk && q.fired.contains n.gate && (reached || parentNow) then (res ++ [n.gate], newly ++ [n.gate])
    else (res, newly)
  { q with resolved := res }

/-- run every not-yet-run leaf of request r whose gates are fired (`cleanup` leaves excluded) -/
def runEnabled (d : DS) (r : Nat) (q : RQ) (atStart : Bool := false) : DS × RQ :=
  let q := resolveNodes q atStart
  -- late Provider/Suspense sites rendered in this round park their owner in the ambient owner (constant
  -- during the round: nothing here changes OWNER permanently)
  let q := match d.st.amb.owner with
    | some o =>
      if o == q.root then q else
      { q with parked := q.parked ++ (q.recs.filterMap fun (rec : Rec) =>
          if rec.kind == Kind.site && !rec.done && (rec.need.all fun g => q.fired.contains g)
              && (rec.chain.all fun g => q.resolved.contains g) then some (rec.id, o) else none) }
    | none => q
  let (d, recs) := q.recs.foldl (init := (d, ([] : List Rec))) fun (d, out) rec =>
    if rec.done || rec.kind == .cleanup || !(rec.need.all fun g => q.fired.contains g)
        || !(rec.chain.all fun g => q.resolved.contains g) then (d, out ++ [rec])
    else
      let cap : Amb := { owner := some rec.scope, observer := none, arena := some r }
      match rec.kind with
      | .tag =>
        let t : Task :=
          if rec.guarded then
            { req := r, captured := { arena := some r }, wrapped := false, sandboxed := rec.sandboxed,
              steps := [.enter rec.scope none [.readCtx rec.id]] }
          else { req := r, captured := cap, wrapped := true, sandboxed := rec.sandboxed, steps := [.simple (.readCtx rec.id)] }
        (d.exec t, out ++ [{ rec with done := true }])
      | .exposed =>
        let d := d.exec { req := r, captured := cap, wrapped := false, sandboxed := true, steps := [.simple (.readCtx rec.id)] }
        let bad := match d.st.mem.log.getLast? with
          | some ob => ob.owner != some q.root
          | none => false
        ({ d with exposedBad := d.exposedBad || bad }, out ++ [{ rec with done := true }])
      | .site =>
        -- `OwnedView::to_html_async_with_buf`: `Owner::on_cleanup(move || drop(self.owner))` on the AMBIENT owner
        let foreign := d.st.amb.owner != some q.root
        ({ d with siteBad := d.siteBad || (foreign && rec.hasSusp) }, out ++ [{ rec with done := true }])
      | .aread =>
        (d.exec (if rec.guarded then
            { req := r, captured := {}, wrapped := false, sandboxed := rec.sandboxed,
              steps := [.enter rec.scope none [.readAmb rec.id]] }
          else { req := r, captured := cap, wrapped := rec.wrapped, sandboxed := rec.sandboxed,
                 steps := [.simple (.readAmb rec.id)] }),
          out ++ [{ rec with done := true }])
      | .action =>
        -- the action's future: `reactive_graph::spawn` (Sandboxed, no ScopedFuture): reads the ambient owner
        let d := d.exec { req := r, captured := cap, wrapped := false, sandboxed := true, steps := [.simple (.readCtx rec.id)] }
        let bad := match d.st.mem.log.getLast? with
          | some ob => ob.owner != some q.root
          | none => false
        ({ d with actionBad := d.actionBad || bad }, out ++ [{ rec with done := true }])
      | .ncleanup =>
        (d.exec { req := r, captured := {}, wrapped := false, sandboxed := false,
                  steps := [.cleanupFns rec.scope [.readAmb rec.id]] },
          out ++ [{ rec with done := true }])
      | .cleanup => (d, out ++ [rec])
  (d, { q with recs := recs })

/-- the cleanups of request `r'` that sit under a late view parked in the ending request `b` run now, inside
`b`'s stream (so under `b`'s arena) -/
def runParked (d : DS) (bRoot : OwnerId) (b : Nat) : DS :=
  (List.range d.reqs.length).foldl (init := d) fun d r' =>
    match d.reqs[r']? with
    | none => d
    | some q =>
      if q.ended then d else
      let sites := (q.parked.filter fun p => p.2 == bRoot).map (·.1)
      let (d, recs) := q.recs.foldl (init := (d, ([] : List Rec))) fun (d, out) rec =>
        if rec.kind == .cleanup && !rec.done && (match rec.site with | some s => sites.contains s | none => false) then
          let d := d.exec { req := r', captured := { arena := some b }, wrapped := false, sandboxed := true,
                            steps := [.simple (.readAmb rec.id)] }
          ({ d with siteBad := true }, out ++ [{ rec with done := true }])
        else (d, out ++ [rec])
      { d with reqs := d.reqs.set r' { q with recs := recs } }

/-- the response stream ends: cleanups (arena read under `Sandboxed`), `Owner::unset` -/
def endStream (d : DS) (r : Nat) (q : RQ) : DS × RQ :=
  let d := q.recs.foldl (init := d) fun d rec =>
    if rec.kind == .cleanup && !rec.done then
      d.exec { req := r, captured := { arena := some r }, wrapped := false, sandboxed := true, steps := [.simple (.readAmb rec.id)] }
    else d
  -- the hydration chunks come from the shared context `build_response` captured under the request's root
  -- (`chunks` closure), whenever the stream builder asks for them (at once when streaming; after the whole app in
  -- async mode): a step under the root owner, not a lookup of the ambient owner
  let d := d.exec { req := r, captured := {}, wrapped := false, sandboxed := true,
                    steps := [.enter q.root none [.readAmb 1000000]] }
  let d := runParked d q.root r
  let d := d.exec { req := r, captured := {}, wrapped := false, sandboxed := false, steps := [.unset q.root] }
  (d, { q with ended := true })

def progress (d : DS) (r : Nat) (q : RQ) : DS × RQ :=
  if q.ended then (d, q) else
  let (d, q) := runEnabled d r q
  if q.endGates.all fun g => q.fired.contains g then endStream d r q else (d, q)

def finish (d : DS) (r : Nat) (q : RQ) : DS :=
  let q := { q with fired := q.gates }
  let (d, q) := progress d r q
  setReq d r { q with dropped := true }

/-- client abort: the response body is dropped unpolled (no `Owner::unset`, but the root dies, so a dangling
OWNER reads as none); the request's pending background work then completes.  Its truncated response is
judged by the harness oracle only; what the model adds is whether an unscoped action future of the dead
request then runs under ANOTHER live request's owner. -/
def abort (d : DS) (r b : Nat) (q : RQ) : DS :=
  if q.ended then setReq d r { q with dropped := true, aborted := true } else
  -- the root dies outside any `Sandboxed` poll: its `on_cleanup` closures run under the thread's CURRENT arena,
  -- request b's; an arena handle read there resolves in b's arena (F-C20-4; per-request arenas only, which is
  -- why such aborts are not generated: the global-arena configuration has nothing to confuse)
  let d := { d with abortCleanupBad := d.abortCleanupBad ||
    (d.old && b != r && q.recs.any fun (rec : Rec) => rec.kind == Kind.cleanup && !rec.done) }
  -- a late Provider/Suspense/route owner of r parked in ANOTHER request's cleanups (F-C20-2) outlives r
  let d := { d with siteBad := d.siteBad || !q.parked.isEmpty }
  let d := d.exec { req := r, captured := {}, wrapped := false, sandboxed := false, steps := [.unset q.root] }
  let d := q.recs.foldl (init := d) fun d rec =>
    -- only an action that was already dispatched (the view containing it has been built) has a future to run
    if rec.kind == .action && !rec.done && (rec.chain.all fun g => q.resolved.contains g) then
      let d := d.exec { req := r, captured := { arena := some r }, wrapped := false, sandboxed := true,
                        steps := [.simple (.readCtx rec.id)] }
      let bad := match d.st.mem.log.getLast? with
        | some ob => ob.owner.isSome
        | none => false
      { d with actionBad := d.actionBad || bad }
    else d
  setReq d r { q with dropped := true, ended := true, aborted := true, fired := q.gates }

def insertSorted (s : String) : List String → List String
  | [] => [s]
  | x :: xs => if s == x then x :: xs else if s < x then s :: x :: xs else x :: insertSorted s xs

def insertLeaf (leaf : Nat) (seen : String) : List (Nat × List String) → List (Nat × List String)
  | [] => [(leaf, [seen])]
  | (l, ts) :: rest =>
    if leaf == l then (l, insertSorted seen ts) :: rest
    else if leaf < l then (leaf, [seen]) :: (l, ts) :: rest
    else (l, ts) :: insertLeaf leaf seen rest

def showObs (d : DS) (r : Nat) (q : RQ) : String :=
  if q.aborted then s!"r{r}:aborted" else
  let isARead (leaf : Nat) := q.recs.any fun rec => rec.kind == .aread && rec.id == leaf
  let isCleanup (leaf : Nat) := q.recs.any fun rec => (rec.kind == .cleanup || rec.kind == .ncleanup) && rec.id == leaf
  let m := d.st.mem.log.foldl (init := ([] : List (Nat × List String))) fun m ob =>
    if ob.req != r || ob.leaf == 1000000 then m else
    let seen :=
      if isARead ob.leaf then
        match ob.arena with
        | some x => s!"v{x}/{x}"
        | none => "v-/-"
      else if isCleanup ob.leaf then
        match ob.arena with
        | some x => s!"a{x}"
        | none => "a-"
      else match ob.ctx with
        | some e => s!"{e.val / 1000}.{e.val % 1000}"
        | none => "-"
    insertLeaf ob.leaf seen m
  let hyd := match d.st.mem.log.find? (fun ob => ob.req == r && ob.leaf == 1000000) with
    | some ob => match ob.owner.bind d.world.reqOf with
      | some x => s!"h={x}"
      | none => "h=-"
    | none => "h=-"
  s!"r{r}:[" ++ ";".intercalate (m.map fun (l, ts) => s!"{l}=" ++ ",".intercalate ts) ++ "]" ++ hyd

def idx? (d : DS) (s : String) : Option (Nat × RQ) := do
  let r ← s.toNat?
  let q ← d.reqs[r]?
  pure (r, q)

def step (d : DS) (line : String) : DS × String :=
  match words line with
  | ["case", n] => ({ old := d.old }, s!"case {n}")
  | ws =>
  if d.ended then (d, "bad-op") else
  match ws with
  | ["req", rs, mode, ps] =>
    match rs.toNat?, parseProg ps with
    | some r, some p =>
      if r != d.reqs.length || r > 2 || !(mode == "io" || mode == "ooo" || mode == "async") then (d, "bad-op") else
      let root := d.world.owners.length
      let acc := compile (root + 1) r (mode != "ooo") { scope := root, old := d.old } {} p
      let w : World := { d.world with owners := d.world.owners ++ [{ req := r, parent := none, arena := r }] ++ acc.owners }
      let q : RQ := { io := mode != "ooo", gates := gatesOf p, endGates := (gatesOf p).filter (fun g => !(idleGates p).contains g), old := d.old, recs := acc.recs, nodes := acc.nodes, root := root,
                      provides := (root, r * 1000) :: acc.provides }
      ({ d with world := w, reqs := d.reqs ++ [q] }, "ok")
    | _, _ => (d, "bad-op")
  | ["start", rs] =>
    match idx? d rs with
    | some (r, q) =>
      if q.started then (d, "bad-op") else
      -- the handler: Owner::new_root (permanent), additional_context + Provider bodies
      let d := d.exec { req := r, captured := {}, wrapped := false, sandboxed := false,
                        steps := .setRoot q.root :: q.provides.map fun (o, v) => .withOwner o [.provide v] }
      let (d, q) := runEnabled d r { q with started := true } true
      (setReq d r q, "ok")
    | none => (d, "bad-op")
  | ["fire", rs, gs] =>
    match idx? d rs, gs.toNat? with
    | some (r, q), some g =>
      if !q.started || q.dropped || !q.gates.contains g || q.fired.contains g then (d, "bad-op")
      else (setReq d r { q with fired := g :: q.fired }, "ok")
    | _, _ => (d, "bad-op")
  | ["ps", rs] =>
    match idx? d rs with
    | some (r, q) =>
      if !q.started || q.dropped then (d, "bad-op") else
      let (d, q) := progress d r q
      (setReq d r q, "ok")
    | none => (d, "bad-op")
  | ["amb"] =>
    -- the ambient owner after the steps so far: the last started request's root until its stream ended (`Owner::unset`)
    -- or it died; every poll in between restored what it found (`C20_with_restores`), "none" included
    let t := match useContext d.world d.st.mem.ctx d.st.amb with
      | some e => s!"{e.val / 1000}.{e.val % 1000}"
      | none => "-"
    (d, s!"ok o={t}")
  | ["poll", i] =>
    match i.toNat? with
    | some _ => (d, "ok")
    | none => (d, "bad-op")
  | ["drop", rs] =>
    match idx? d rs with
    | some (r, q) => if !q.started || q.dropped then (d, "bad-op") else (finish d r q, "ok")
    | none => (d, "bad-op")
  | ["abort", rs, bs] =>
    match idx? d rs, idx? d bs with
    | some (r, q), some (_, qb) =>
      if !q.started || q.dropped || !qb.started || qb.dropped then (d, "bad-op") else (abort d r (bs.toNat?.getD r) q, "ok")
    | _, _ => (d, "bad-op")
  | ["end"] =>
    let d := (List.range d.reqs.length).foldl (init := d) fun d r =>
      match d.reqs[r]? with
      | some q => if q.started && !q.dropped then finish d r q else d
      | none => d
    let obs := (List.range d.reqs.length).filterMap fun r =>
      match d.reqs[r]? with
      | some q => if q.started then some (showObs d r q) else none
      | none => none
    let v := if d.exposedBad then "fail unwrapped-stream-render"
             else if d.actionBad then "fail action-future-unscoped"
             else if d.abortCleanupBad then "fail abort-cleanup-foreign-arena"
             else if d.siteBad then "fail late-owned-view" else "ok"
    ({ d with ended := true }, " ".intercalate obs ++ " ## " ++ v)
  | _ => (d, "bad-op")

/-! ### regression witnesses: the pre-repair table reproduces the four findings, the current table does not -/

def runLines (old : Bool) (lines : List String) : String :=
  let (_, outs) := lines.foldl (init := (({ old := old } : DS), ([] : List String))) fun (d, outs) l =>
    let (d, o) := step d l
    (d, outs ++ [o])
  outs.getLast?.getD ""

def w1 := ["case f1", "req 0 io Q(L1,S1.2.3(L4))", "req 1 io Q(L1,S1.2.3(L4))", "start 0", "start 1", "fire 0 1", "ps 0", "end"]
def w2 := ["case f2", "req 0 io S1.1.2(U(U(L3)))", "req 1 ooo L1", "start 0", "start 1", "drop 1", "fire 0 1", "ps 0", "end"]
def w3 := ["case f3", "req 0 io D1.2", "req 1 io E1", "start 0", "start 1", "drop 0", "end"]
def w4 := ["case f4", "req 0 io Q(C1,U(S1.2.3(E4)))", "req 1 io Q(C1,U(S1.2.3(E4)))", "start 0", "start 1", "ps 0", "ps 1",
           "abort 0 1", "end"]

#guard runLines true w1 == "r0:[1=0.0;2=0.0;3=0.0;4=1.0]h=0 r1:[1=1.0;2=1.0;3=1.0;4=1.0]h=1 ## fail unwrapped-stream-render"
#guard runLines false w1 == "r0:[1=0.0;2=0.0;3=0.0;4=0.0]h=0 r1:[1=1.0;2=1.0;3=1.0;4=1.0]h=1 ## ok"
#guard runLines true w2 == "r0:[1=0.0;2=0.0;3=0.0]h=0 r1:[1=1.0]h=1 ## fail late-owned-view"
#guard runLines false w2 == "r0:[1=0.0;2=0.0;3=0.0]h=0 r1:[1=1.0]h=1 ## ok"
#guard runLines true w3 == "r0:[2=1.0]h=0 r1:[1=1.0]h=1 ## fail action-future-unscoped"
#guard runLines false w3 == "r0:[2=0.0]h=0 r1:[1=1.0]h=1 ## ok"
#guard runLines true w4 == "r0:aborted r1:[1=a1;2=1.0;3=1.0;4=1.0]h=1 ## fail abort-cleanup-foreign-arena"
#guard runLines false w4 == "r0:aborted r1:[1=a1;2=1.0;3=1.0;4=1.0]h=1 ## ok"

/-- `lm_c20 old` runs the pre-repair table (to replay the old findings against an unrepaired tree) -/
def main (args : List String) : IO Unit := runDriver step { old := args.contains "old" }
