import LeptosModel.Model.Wire
import LeptosModel.Model.Url
/-! Line-protocol driver for C15 (see harness/hx-core/src/bin/c15.rs for the op grammar). -/
open Leptos Leptos.Wire Leptos.Url

def showMap (m : PMap) : String :=
  if m.isEmpty then "{}" else
  ";".intercalate (m.map fun (k, vs) => hexOfBytes k ++ ":" ++ ",".intercalate (vs.map hexOfBytes))

def parseMap (s : String) : Option PMap :=
  if s == "{}" then some [] else
  (s.splitOn ";").mapM fun kv =>
    match kv.splitOn ":" with
    | [k, vs] => do
      let k ← bytesOfHex k
      let vs ← (vs.splitOn ",").mapM bytesOfHex
      pure (k, vs)
    | _ => none

def mapPairs (m : PMap) : List (List Nat × List Nat) :=
  m.flatMap fun (k, vs) => vs.map fun v => (k, v)

def step (_ : Unit) (line : String) : Unit × String :=
  let out :=
    match words line with
    | ["case", n] => s!"case {n}"
    | ["escape", h] =>
      match bytesOfHex h with
      | some bs =>
        let e := escape bs
        let v := if unescape e == some bs then "ok" else "fail escape-unescape"
        s!"{hexOfBytes e} ## {v}"
      | none => "bad-op"
    | ["unescape", h] =>
      match bytesOfHex h with
      | some bs =>
        match unescape bs with
        | some r => s!"ok {hexOfBytes r}"
        | none => "panic"
      | none => "bad-op"
    | ["query", h] =>
      match bytesOfHex h with
      | some target =>
        let q := rawQuery target
        let spec := searchParamsSpec q
        match searchParams q with
        | some m =>
          let v := if m == spec then "ok" else "fail double-decode"
          s!"ok {showMap m} ## {v}"
        | none => "panic ## fail panic-second-decode"
      | none => "bad-op"
    | ["pathparam", h] =>
      match bytesOfHex h with
      | some seg =>
        match pathParam seg with
        | some r => s!"ok {hexOfBytes r} ## ok"
        | none => "panic ## fail panic-path-param"
      | none => "bad-op"
    | ["roundtrip", ms] =>
      match parseMap ms with
      | some m =>
        let qs := toQueryString m
        -- the leading '?' is what `to_query_string` returns; a request target is "/p" ++ qs
        match searchParams (qs.drop 1) with
        | some m' =>
          let v := if m' == m then "ok" else "fail roundtrip-pct-triple"
          s!"{hexOfBytes qs} {showMap m'} ## {v}"
        | none => s!"{hexOfBytes qs} panic ## fail roundtrip-panic"
      | none => "bad-op"
    | _ => "bad-op"
  ((), out)

def main : IO Unit := runDriver step ()
