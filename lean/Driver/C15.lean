import LeptosModel.Model.Wire
import LeptosModel.Model.Url
/-! Line-protocol driver for C15 (see harness/hx-core/src/bin/c15.rs for the op grammar). -/
open Leptos Leptos.Wire Leptos.Url

def showMap (m : PMap) : String :=
  if m.isEmpty then "{}" else
  ";".intercalate (m.map fun (k, vs) => hexOfBytes k ++ ":" ++ ",".intercalate (vs.map hexOfBytes))

def parseMap (s : String) : Option PMap :=
  if s == "{}" then some [] else
  (s.splitOn ";").mapM fun kv =>
    match kv.splitOn ":" with
    | [k, vs] => do
      let k ← bytesOfHex k
      let vs ← (vs.splitOn ",").mapM bytesOfHex
      pure (k, vs)
    | _ => none

/-- the oracle's map: keys in first-appearance order, each with all its once-decoded values -/
def specMap (pairs : List (List Nat × List Nat)) : PMap :=
  (pairs.map (·.1)).eraseDups.map fun k => (k, valuesOf pairs k)

def step (_ : Unit) (line : String) : Unit × String :=
  let out :=
    match words line with
    | ["case", n] => s!"case {n}"
    | ["escape", h] =>
      match bytesOfHex h with
      | some bs =>
        let e := escape bs
        let v := if unescape e == bs then "ok" else "fail escape-unescape"
        s!"{hexOfBytes e} ## {v}"
      | none => "bad-op"
    | ["unescape", h] =>
      match bytesOfHex h with
      | some bs => s!"ok {hexOfBytes (unescape bs)}"
      | none => "bad-op"
    | ["query", h] =>
      match bytesOfHex h with
      | some target =>
        let q := rawQuery target
        let m := searchParams q
        let v := if m == specMap (formParse q) then "ok" else "fail not-once"
        s!"ok {showMap m} ## {v}"
      | none => "bad-op"
    | ["pathparam", h] =>
      match bytesOfHex h with
      | some seg =>
        let r := pathParam seg
        -- a single decode; bytes that are not UTF-8 are replaced, never a panic
        let v := if r == utf8Lossy (pctDecode seg) then "ok" else "fail not-once"
        s!"ok {hexOfBytes r} ## {v}"
      | none => "bad-op"
    | ["routeparam", kind, h1, h2] =>
      if kind != "flat" && kind != "nested" then "bad-op" else
      match bytesOfHex h1, bytesOfHex h2 with
      | some s1, some s2 =>
        -- flat: one ParamsMap::insert per segment; nested: the merged map of parent and child
        let r := if kind == "nested" then nestedParams [s1, s2] else [pathParam s1, pathParam s2]
        let v := if r == [utf8Lossy (pctDecode s1), utf8Lossy (pctDecode s2)] then "ok" else "fail not-once"
        match r with
        | [a, b] =>
          -- nested: the parent route's layout reads the merged map of the matched routes as well
          let lay := if kind == "nested" then s!" layout={hexOfBytes a},{hexOfBytes b}" else ""
          s!"ok {hexOfBytes a} {hexOfBytes b}{lay} ## {v}"
        | _ => "bad-op"
      | _, _ => "bad-op"
    | ["hookquery", h] =>
      match bytesOfHex h with
      | some target =>
        let q := rawQuery target
        let m := searchParams q
        let v := if m == specMap (formParse q) then "ok" else "fail not-once"
        -- `query_signal::<String>("q")`: `ParamsMap::get` = the last value stored under the key, unchanged
        let qv := match (m.find? (·.1 == [113])).bind (·.2.getLast?) with
          | some x => hexOfBytes x
          | none => "none"
        s!"ok {showMap m} q={qv} ## {v}"
      | none => "bad-op"
    | ["collect", ps] =>
      -- pairs `k=v,k=v,…` (hex fields) in iteration order, collected with FromIterator
      let fields := (ps.splitOn ",").mapM fun kv =>
        match kv.splitOn "=" with
        | [k, v] => do
          let k ← bytesOfHex k
          let v ← bytesOfHex v
          pure (k, v)
        | _ => none
      match fields with
      | some pairs =>
        let m := PMap.collect pairs
        -- spec: keys in first-appearance order, each with all its once-decoded values in order
        let spec := specMap (pairs.map fun kv => (kv.1, utf8Lossy (pctDecode kv.2)))
        let v := if m == spec then "ok" else "fail collect"
        s!"ok {showMap m} ## {v}"
      | none => "bad-op"
    | ["roundtrip", ms] =>
      match parseMap ms with
      | some m =>
        let qs := toQueryString m
        -- the leading '?' is what `to_query_string` returns; a request target is "/p" ++ qs
        let m' := searchParams (qs.drop 1)
        let v := if m' == m then "ok" else "fail roundtrip"
        s!"{hexOfBytes qs} {showMap m'} ## {v}"
      | none => "bad-op"
    | _ => "bad-op"
  ((), out)

def main : IO Unit := runDriver step ()
