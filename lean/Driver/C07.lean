import LeptosModel.Model.Wire
import LeptosModel.Model.Stream
/-! Line-protocol driver for C07 (op grammar: harness/hx-c07/src/bin/c07.rs). -/
open Leptos Leptos.Wire Leptos.Stream

def strOfHex (h : String) : Option Str :=
  (bytesOfHex h).map (·.map Char.ofNat)

def hexOfStr (s : Str) : String := hexOfBytes (s.map Char.toNat)

def parseNats (sep : Char) (s : String) : Option (List Nat) :=
  if s == "-" || s == "" then some [] else (s.splitOn (String.singleton sep)).mapM String.toNat?

/-- `3`, `3.4`, `T3.4`, `T` -/
def parseFut (s : String) : Option Fut :=
  let (tick, rest) := if s.startsWith "T" then (true, (s.drop 1).toString) else (false, s)
  (parseNats '.' rest).map fun ds => { deps := ds, tick := tick }

def stripOpen (t : String) : Option String :=
  if t.endsWith "[" then some (t.dropEnd 1).toString else none

/-! builder programs: `s<hex>` `a<fut>[ … ]` `f<hex>` `o<fut>[ … ]` `O<fut>` `n<fut>:<hex>[ … ]` `i` `F` `b[ … ]`
    `?<fut>[ … ][ … ]` -/
def parseOps : Nat → List String → Option (List Op × List String)
  | 0, _ => none
  | _ + 1, [] => some ([], [])
  | fuel + 1, t :: ts =>
    if t == "]" || t == "][" then some ([], t :: ts) else
    let k := t.front
    let arg := (t.drop 1).toString
    let cont (o : Op) (rest : List String) : Option (List Op × List String) :=
      match parseOps fuel rest with
      | some (os, r) => some (o :: os, r)
      | none => none
    let body (rest : List String) : Option (List Op × List String) :=
      match parseOps fuel rest with
      | some (os, "]" :: r) => some (os, r)
      | _ => none
    if k == 's' then (strOfHex arg).bind fun s => cont (Op.sync s) ts
    else if k == 'f' then (strOfHex arg).bind fun s => cont (Op.fallback s) ts
    else if t == "i" then cont Op.nextId ts
    else if t == "F" then cont Op.finish ts
    else if t == "b[" then (body ts).bind fun (os, r) => cont (Op.sub os) r
    else if k == 'a' then
      (stripOpen arg).bind fun f => (parseFut f).bind fun fut =>
      (body ts).bind fun (os, r) => cont (Op.async fut os) r
    else if k == 'o' then
      (stripOpen arg).bind fun f => (parseFut f).bind fun fut =>
      (body ts).bind fun (os, r) => cont (Op.ooo fut true os none) r
    else if k == 'O' then (parseFut arg).bind fun fut => cont (Op.ooo fut false [] none) ts
    else if k == 'n' then
      (stripOpen arg).bind fun fa =>
      match fa.splitOn ":" with
      | [f, nh] =>
        (parseFut f).bind fun fut => (strOfHex nh).bind fun nonce =>
        (body ts).bind fun (os, r) => cont (Op.ooo fut true os (some nonce)) r
      | _ => none
    else if k == '?' then
      (stripOpen arg).bind fun f => (parseFut f).bind fun fut =>
      match parseOps fuel ts with
      | some (th, "][" :: r) =>
        (body r).bind fun (el, r') => cont (Op.ite fut th el) r'
      | _ => none
    else none

def tagOpen (tag : String) : Str := '<' :: tag.toList ++ ['>']
def tagClose (tag : String) : Str := '<' :: '/' :: tag.toList ++ ['>']

/-! views: `r<hex>` `t<hex>` `e<tag>[ … ]` `q[ … ]` `l[ … ]` `s<k>[ … ]` `S<text|->[ … ]` `T<text|->[ … ]`
    `N<text|->:<noncehex>[ … ]` `A<k>[ … ]` `B[ … ]` `u<k>[ … ]` `g<o|r|d><k>[ … ]` `L` `M` `W<k>` -/
def fbHtml (text : String) : Str :=
  if text == "-" then "<!>".toList else "<u>".toList ++ text.toList ++ "</u>".toList

def parseViews : Nat → List String → Option (List View × List String)
  | 0, _ => none
  | _ + 1, [] => some ([], [])
  | fuel + 1, t :: ts =>
    if t == "]" then some ([], t :: ts) else
    let k := t.front
    let arg := (t.drop 1).toString
    let cont (v : View) (rest : List String) : Option (List View × List String) :=
      match parseViews fuel rest with
      | some (vs, r) => some (v :: vs, r)
      | none => none
    let body (rest : List String) : Option (List View × List String) :=
      match parseViews fuel rest with
      | some (vs, "]" :: r) => some (vs, r)
      | _ => none
    if k == 'r' then (strOfHex arg).bind fun s => cont (View.raw s) ts
    else if k == 't' then (strOfHex arg).bind fun s => cont (View.raw s) ts
    else if k == 'e' then
      (stripOpen arg).bind fun tag =>
      (body ts).bind fun (vs, r) => cont (View.seq ([View.raw (tagOpen tag)] ++ vs ++ [View.raw (tagClose tag)])) r
    else if t == "q[" then (body ts).bind fun (vs, r) => cont (View.seq vs) r
    else if t == "l[" then (body ts).bind fun (vs, r) => cont (View.seq (vs ++ [View.raw "<!>".toList])) r
    else if k == 's' then
      (stripOpen arg).bind fun f => f.toNat?.bind fun f =>
      (body ts).bind fun (vs, r) => cont (View.suspend f (View.seq vs)) r
    else if k == 'S' || k == 'T' then
      (stripOpen arg).bind fun fb =>
      (body ts).bind fun (vs, r) => cont (View.suspense (fbHtml fb) none vs) r
    else if k == 'N' then
      (stripOpen arg).bind fun a =>
      match a.splitOn ":" with
      | [fb, nh] =>
        (strOfHex nh).bind fun nonce =>
        (body ts).bind fun (vs, r) => cont (View.suspense (fbHtml fb) (some nonce) vs) r
      | _ => none
    else if k == 'A' then
      (stripOpen arg).bind fun f => f.toNat?.bind fun f =>
      (body ts).bind fun (vs, r) =>
        cont (View.suspense "<!>".toList none [View.suspend f (View.seq vs)]) r
    else if t == "B[" then (body ts).bind fun (vs, r) => cont (View.eb vs) r
    else if k == 'u' then
      (stripOpen arg).bind fun f => f.toNat?.bind fun f =>
      (body ts).bind fun (vs, r) => cont (View.resSuspend f (View.seq vs)) r
    else if k == 'g' then
      -- g<kind><k>[ … ]: kind o = OnceResource (loader spawned), r = Resource, d = AsyncDerived (polled once where created)
      let kind := arg.front
      if kind == 'o' || kind == 'r' || kind == 'd' then
        (stripOpen (arg.drop 1).toString).bind fun f => f.toNat?.bind fun f =>
        (body ts).bind fun (vs, r) => cont (View.resRead (kind == 'o') f (View.seq vs)) r
      else none
    else if t == "L" || t == "M" then cont View.localRead ts
    else if k == 'W' then arg.toNat?.bind fun f => cont (View.localAwait f) ts
    else none

mutual
/-- an out-of-order chunk whose view future resolves to `None` (`replace = false`) -/
def hasNoneOoo : Op → Bool
  | .sync _ => false
  | .async _ b => hasNoneOooL b
  | .fallback _ => false
  | .ooo _ r b _ => !r || hasNoneOooL b
  | .nextId => false
  | .sub b => hasNoneOooL b
  | .ite _ t e => hasNoneOooL t || hasNoneOooL e
  | .finish => false
def hasNoneOooL : List Op → Bool
  | [] => false
  | o :: os => hasNoneOoo o || hasNoneOooL os
end

structure St where
  run : Option Run := none
  ooo : Bool := false
  ref : Str := []
  cls : String := "unclassified"
  pendingSend : List FId := []
  /-- free interleaving (`viewf`): polls print `-`; the final document is computed from a fresh run -/
  free : Option (Bool × List FId × List Op) := none
  sent : List FId := []

def showPoll : Poll → String
  | .pending => "pending"
  | .item s => "item " ++ hexOfStr s
  | .done => "done"
  | .panic => "panic"
  | .stuck => "stuck"

def step (st : St) (line : String) : St × String :=
  match words line with
  | ["case", n] => ({}, s!"case {n}")
  | "prog" :: mode :: d0 :: toks =>
    match parseNats ',' d0, parseOps (toks.length + 2) toks with
    | some done0, some (ops, []) =>
      if mode == "io" || mode == "ooo" then
        let ooo := mode == "ooo"
        ({ run := some (startStream ooo done0 ops), ooo := ooo,
           ref := if ooo then oooDocOps ops else docOps ops,
           cls := "unclassified" }, "ok")
      else (st, "bad-op")
    | _, _ => (st, "bad-op")
  | "view" :: mode :: d0 :: toks =>
    match parseNats ',' d0, parseViews (toks.length + 2) toks with
    | some done0, some (vs, []) =>
      if mode == "io" || mode == "ooo" then
        let ooo := mode == "ooo"
        let v := View.seq vs
        let cls := if noLate .top v then "unclassified" else "sync-read-late"
        ({ run := some (startStream ooo done0 (compile ooo .top v)), ooo := ooo, ref := viewDoc v, cls := cls }, "ok")
      else (st, "bad-op")
    | _, _ => (st, "bad-op")
  | "viewf" :: mode :: d0 :: toks =>
    match parseNats ',' d0, parseViews (toks.length + 2) toks with
    | some done0, some (vs, []) =>
      if mode == "io" || mode == "ooo" then
        let ooo := mode == "ooo"
        let v := View.seq vs
        let prog := compile ooo .top v
        ({ run := some (startStream ooo done0 prog), ooo := ooo, ref := viewDoc v, free := some (ooo, done0, prog) }, "ok")
      else (st, "bad-op")
    | _, _ => (st, "bad-op")
  | ["drain"] => (st, "ok")
  | ["send", ks] =>
    match parseNats ',' ks with
    | some ks => ({ st with pendingSend := st.pendingSend ++ ks, sent := st.sent ++ ks }, "ok")
    | none => (st, "bad-op")
  | ["run", is] =>
    match parseNats ',' is with
    | some _ => (st, "ok")
    | none => (st, "bad-op")
  | ["poll"] =>
    if st.free.isSome then (st, "-") else
    match st.run with
    | none => (st, "bad-op")
    | some r =>
      let r := r.poll st.pendingSend
      let o := match r.out.getLast? with
        | some p => if r.out.length ≥ 2 && (r.out.dropLast.any fun q => q == Poll.panic || q == Poll.stuck) then "dead" else showPoll p
        | none => "bad-op"
      ({ st with run := some r, pendingSend := [] }, o)
  | ["end", chk] =>
    match st.run with
    | none => (st, "bad-op")
    | some r0 =>
      let r := match st.free with
        | some (ooo, done0, prog) => ((startStream ooo done0 prog).polls [st.sent]).drain 10000
        | none => r0
      let raw := itemsOf r.out
      let doc := if st.ooo then applyScripts raw else raw
      let finished := r.out.getLast? == some Poll.done
      if chk == "check" then
        let v :=
          if !finished then "fail not-terminated"
          else if doc == st.ref then "ok"
          else "fail " ++ st.cls
        (st, s!"doc {hexOfStr doc} ## {v}")
      else if chk == "nocheck" then (st, s!"doc {hexOfStr doc}")
      else (st, "bad-op")
  | _ => (st, "bad-op")

def main : IO Unit := runDriver step {}
