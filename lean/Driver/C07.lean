import LeptosModel.Model.Wire
import LeptosModel.Model.Stream
import LeptosModel.Model.Html
/-! Line-protocol driver for C07 (op grammar: harness/hx-c07/src/bin/c07.rs). -/
open Leptos Leptos.Wire Leptos.Stream

def strOfHex (h : String) : Option Str :=
  (bytesOfHex h).map (·.map Char.ofNat)

def hexOfStr (s : Str) : String := hexOfBytes (s.map Char.toNat)

def parseNats (sep : Char) (s : String) : Option (List Nat) :=
  if s == "-" || s == "" then some [] else (s.splitOn (String.singleton sep)).mapM String.toNat?

/-- `3`, `3.4`, `T3.4`, `T` -/
def parseFut (s : String) : Option Fut :=
  let (tick, rest) := if s.startsWith "T" then (true, (s.drop 1).toString) else (false, s)
  (parseNats '.' rest).map fun ds => { deps := ds, tick := tick }

def stripOpen (t : String) : Option String :=
  if t.endsWith "[" then some (t.dropEnd 1).toString else none

/-! builder programs: `s<hex>` `a<fut>[ … ]` `f<hex>` `o<fut>[ … ]` `O<fut>` `n<fut>:<hex>[ … ]` `i` `F` `b[ … ]`
    `?<fut>[ … ][ … ]` -/
def parseOps : Nat → List String → Option (List Op × List String)
  | 0, _ => none
  | _ + 1, [] => some ([], [])
  | fuel + 1, t :: ts =>
    if t == "]" || t == "][" then some ([], t :: ts) else
    let k := t.front
    let arg := (t.drop 1).toString
    let cont (o : Op) (rest : List String) : Option (List Op × List String) :=
      match parseOps fuel rest with
      | some (os, r) => some (o :: os, r)
      | none => none
    let body (rest : List String) : Option (List Op × List String) :=
      match parseOps fuel rest with
      | some (os, "]" :: r) => some (os, r)
      | _ => none
    if k == 's' then (strOfHex arg).bind fun s => cont (Op.sync s) ts
    else if k == 'f' then (strOfHex arg).bind fun s => cont (Op.fallback s) ts
    else if t == "i" then cont Op.nextId ts
    else if t == "F" then cont Op.finish ts
    else if t == "b[" then (body ts).bind fun (os, r) => cont (Op.sub os) r
    else if k == 'a' then
      (stripOpen arg).bind fun f => (parseFut f).bind fun fut =>
      (body ts).bind fun (os, r) => cont (Op.async fut os) r
    else if k == 'o' then
      (stripOpen arg).bind fun f => (parseFut f).bind fun fut =>
      (body ts).bind fun (os, r) => cont (Op.ooo fut true os none) r
    else if k == 'O' then (parseFut arg).bind fun fut => cont (Op.ooo fut false [] none) ts
    else if k == 'n' then
      (stripOpen arg).bind fun fa =>
      match fa.splitOn ":" with
      | [f, nh] =>
        (parseFut f).bind fun fut => (strOfHex nh).bind fun nonce =>
        (body ts).bind fun (os, r) => cont (Op.ooo fut true os (some nonce)) r
      | _ => none
    else if k == '?' then
      (stripOpen arg).bind fun f => (parseFut f).bind fun fut =>
      match parseOps fuel ts with
      | some (th, "][" :: r) =>
        (body r).bind fun (el, r') => cont (Op.ite fut th el) r'
      | _ => none
    else none

def tagOpen (tag : String) : Str := '<' :: tag.toList ++ ['>']
def tagClose (tag : String) : Str := '<' :: '/' :: tag.toList ++ ['>']

/-! views: `r<hex>` `t<hex>` `e<tag>[ … ]` `q[ … ]` `l[ … ]` `s<k>[ … ]` `S<text|->[ … ]` `T<text|->[ … ]`
    `N<text|->:<noncehex>[ … ]` `A<k>[ … ]` `B[ … ]` `u<k>[ … ]` `g<o|r|d><k>[ … ]` `L` `M` `W<k>` -/
def fbHtml (text : String) : Str :=
  if text == "-" then "<!>".toList else "<u>".toList ++ text.toList ++ "</u>".toList

/-! branching streams (`to_html_stream_*_branching`): branch marker comments are synchronous text; the model knows where
    they are, not their ids (`{:?}` of a `TypeId`, `0`/`1` of an `Either`, …): a marker is `<!--b-->` and both sides print a
    run of markers as one.  `mk = 1`: in-order — every `AnyView` (every node the harness builds, every `build_all` tuple)
    is wrapped; `mk = 2`: out-of-order — `AnyView` is not marked on that path, what is left are the fallbacks (rendered by
    the synchronous path) and the `Option` a `Suspend` / a resource read resolves to under a boundary. -/
def mTok : Str := "<!--b-->".toList
def Mv : View := View.raw mTok
def wrapIf (b : Bool) (vs : List View) : List View := if b then [Mv] ++ vs ++ [Mv] else vs

def collapseB : Nat → Bool → Str → Str
  | 0, _, s => s
  | n + 1, inRun, s =>
    if mTok.isPrefixOf s then
      (if inRun then collapseB n true (s.drop 8) else mTok ++ collapseB n true (s.drop 8))
    else match s with
      | [] => []
      | c :: r => c :: collapseB n false r

def countSub (pat : Str) : Nat → Str → Nat
  | 0, _ => 0
  | n + 1, s =>
    match splitFirst pat s with
    | none => 0
    | some (_, rest) => 1 + countSub pat n rest

/-! text separators (`Position`, tachys/src/view/mod.rs): a text node that follows a text node — directly, or through the
    end of a tuple / an island / across their start — is preceded by `<!>` (`Position::NextChildAfterText`); an element
    starts its children at `FirstChild` and leaves `NextChild`; a `Vec` writes its trailing `<!>` and leaves `NextChild`.
    One pass over the tokens marks those text tokens (`t…` becomes `m…`).  Bare text is only generated next to text,
    elements, tuples, `Vec`s and islands (after a `Suspend` the position depends on whether it was ready: C05's
    `suspend-position`), so every other node counts as `NextChild` here. -/
/-- `io`: in-order mode; `done0`: the futures completed before rendering; `asReady`: place the separators as the
    resolved render does.  A `Suspend` outside every asynchronous node (`s<k>[`, frames `p l e r` only) is rendered
    where it stands: the position flows into its content; if its future has completed (`r`) the position flows out
    again, if it is still pending in-order streaming continues with `Position::NextChild` whatever the content ends
    in (`s`) — F-C05-6 / C07 class `suspend-position`: a text node that follows gets no `<!>`. -/
def markTexts (io asReady : Bool) (done0 : List Nat) : Bool → List Char → List String → List String
  | _, _, [] => []
  | afterText, stack, t :: ts =>
    let k := t.front
    let static := stack.all fun c => c == 'p' || c == 'l' || c == 'e' || c == 'r'
    if t == "]" then
      match stack with
      | 'p' :: st => "]" :: markTexts io asReady done0 afterText st ts   -- tuple / island: position passes through
      | 'r' :: st => "]" :: markTexts io asReady done0 afterText st ts   -- a Suspend that was ready: rendered in place
      | _ :: st => "]" :: markTexts io asReady done0 false st ts         -- element, Vec, everything asynchronous: NextChild
      | [] => "]" :: markTexts io asReady done0 false [] ts
    else if k == 't' then
      (if afterText then "m" ++ (t.drop 1).toString else t) :: markTexts io asReady done0 true stack ts
    else if t == "q[" || t == "I[" || t == "C[" then t :: markTexts io asReady done0 afterText ('p' :: stack) ts
    else if t == "l[" then t :: markTexts io asReady done0 afterText ('l' :: stack) ts   -- a Vec passes the position to its items
    else if k == 'e' && t.endsWith "[" then t :: markTexts io asReady done0 false ('e' :: stack) ts
    else if io && static && k == 's' && t.endsWith "[" then
      match ((t.drop 1).dropEnd 1).toString.toNat? with
      | some f =>
        if asReady || done0.contains f then t :: markTexts io asReady done0 afterText ('r' :: stack) ts
        else t :: markTexts io asReady done0 afterText ('s' :: stack) ts
      | none => t :: markTexts io asReady done0 false ('x' :: stack) ts
    else if t.endsWith "[" then t :: markTexts io asReady done0 false ('x' :: stack) ts
    else t :: markTexts io asReady done0 false stack ts

def parseViews (mk : Nat) (nonce : Option Str) : Nat → Bool → List String → Option (List View × List String)
  | 0, _, _ => none
  | _ + 1, _, [] => some ([], [])
  | fuel + 1, under, t :: ts =>
    if t == "]" then some ([], t :: ts) else
    let k := t.front
    let arg := (t.drop 1).toString
    let cont (v : View) (rest : List String) : Option (List View × List String) :=
      match parseViews mk nonce fuel under rest with
      | some (vs, r) => some (v :: vs, r)
      | none => none
    let bodyU (u : Bool) (rest : List String) : Option (List View × List String) :=
      match parseViews mk nonce fuel u rest with
      -- `build_all` of nothing is the unit view `()`: `<!>`
      | some (vs, "]" :: r) => some (if vs.isEmpty then wrapIf (mk == 1) [View.raw "<!>".toList] else vs, r)
      | _ => none
    let body := bodyU under
    -- an `AnyView` node
    let node (v : View) : View := View.seq (wrapIf (mk == 1) [v])
    -- the `Option` a `Suspend` / a read resolves to under a boundary
    let opt (vs : List View) : List View := wrapIf (mk == 2 && under) vs
    let fbv (fb : Str) : Str := if mk ≥ 1 then mTok ++ fb ++ mTok else fb
    if k == 'r' then (strOfHex arg).bind fun s => cont (View.raw s) ts
    -- a text node: `html_escape::encode_text`, the empty string as a space (Model/Html `textHtml`)
    else if k == 't' then (strOfHex arg).bind fun s => cont (node (View.raw (Html.textHtml true .firstChild s))) ts
    else if k == 'm' then (strOfHex arg).bind fun s => cont (node (View.raw (Html.textHtml true .afterText s))) ts
    else if k == 'e' then
      -- e<tag>[@<hex>][ … ]: `title` attribute, value through `escape_attr`
      (stripOpen arg).bind fun tagA =>
      let (tag, title) := match tagA.splitOn "@" with
        | [t, h] => (t, strOfHex h)
        | _ => (tagA, none)
      let open_ : Str := match title with
        | some v => '<' :: tag.toList ++ " title=\"".toList ++ Html.escapeAttr v ++ "\">".toList
        | none => tagOpen tag
      if tag == "textarea" then
        -- RCDATA: the children are text tokens, printed unescaped and then passed through `elemBody` (the repaired
        -- printer: `encode_text`, a leading line feed doubled), on the synchronous and on the streaming path
        match ts with
        | t1 :: "]" :: r =>
          if t1.front == 't' then
            (strOfHex (t1.drop 1).toString).bind fun s =>
              cont (node (View.raw (open_ ++ Html.elemBody Html.tTextarea s ++ tagClose tag))) r
          else none
        | _ => none
      else
      (body ts).bind fun (vs, r) => cont (node (View.seq ([View.raw open_] ++ vs ++ [View.raw (tagClose tag)]))) r
    else if t == "I[" then
      (body ts).bind fun (vs, r) =>
        cont (node (View.seq ([View.raw "<leptos-island data-component=\"isl\">".toList] ++ vs ++ [View.raw "</leptos-island>".toList]))) r
    else if t == "C[" then
      (body ts).bind fun (vs, r) =>
        cont (node (View.seq ([View.raw "<leptos-children>".toList] ++ vs ++ [View.raw "</leptos-children>".toList]))) r
    else if t == "q[" then (body ts).bind fun (vs, r) => cont (node (View.seq vs)) r
    else if t == "l[" then
      match parseViews mk nonce fuel under ts with
      | some (vs, "]" :: r) => cont (node (View.seq (vs ++ [View.raw "<!>".toList]))) r
      | _ => none
    else if k == 's' then
      (stripOpen arg).bind fun f => f.toNat?.bind fun f =>
      (body ts).bind fun (vs, r) => cont (node (View.suspend f (View.seq (opt vs)))) r
    else if k == 'S' || k == 'T' then
      (stripOpen arg).bind fun fb =>
      (bodyU true ts).bind fun (vs, r) => cont (node (View.suspense (fbv (fbHtml fb)) nonce vs)) r
    else if k == 'N' then
      (stripOpen arg).bind fun a =>
      match a.splitOn ":" with
      | [fb, nh] =>
        (strOfHex nh).bind fun n =>
        (bodyU true ts).bind fun (vs, r) => cont (node (View.suspense (fbv (fbHtml fb)) (some n) vs)) r
      | _ => none
    else if k == 'A' then
      (stripOpen arg).bind fun f => f.toNat?.bind fun f =>
      (bodyU true ts).bind fun (vs, r) =>
        cont (node (View.suspense (fbv "<!>".toList) nonce [View.suspend f (View.seq (wrapIf (mk == 2) vs))])) r
    else if t == "B[" then (body ts).bind fun (vs, r) => cont (node (View.eb vs)) r
    else if k == 'u' then
      (stripOpen arg).bind fun f => f.toNat?.bind fun f =>
      (body ts).bind fun (vs, r) => cont (node (View.resSuspend f (View.seq (opt vs)))) r
    else if k == 'g' then
      -- g<kind><k>[ … ]: kind o = OnceResource (loader spawned), r = Resource, d = AsyncDerived (polled once where created)
      let kind := arg.front
      if kind == 'o' || kind == 'r' || kind == 'd' then
        (stripOpen (arg.drop 1).toString).bind fun f => f.toNat?.bind fun f =>
        (body ts).bind fun (vs, r) => cont (node (View.resRead (kind == 'o') f (View.seq (opt vs)))) r
      else none
    else if t == "L" || t == "M" then cont View.localRead ts
    else if k == 'W' then arg.toNat?.bind fun f => cont (View.localAwait f) ts
    else none

/-- `<io|ooo>[b][n]` -/
def parseMode (mode : String) : Option (Bool × Bool × Bool) :=
  let (ooo, rest) := if mode.startsWith "ooo" then (true, (mode.drop 3).toString) else (false, (mode.drop 2).toString)
  if !(mode.startsWith "io" || mode.startsWith "ooo") then none
  else if rest == "" then some (ooo, false, false)
  else if rest == "b" then some (ooo, true, false)
  else if rest == "n" then some (ooo, false, true)
  else if rest == "bn" then some (ooo, true, true)
  else none

mutual
/-- an out-of-order chunk whose view future resolves to `None` (`replace = false`) -/
def hasNoneOoo : Op → Bool
  | .sync _ => false
  | .async _ b => hasNoneOooL b
  | .fallback _ => false
  | .ooo _ r b _ => !r || hasNoneOooL b
  | .nextId => false
  | .sub b => hasNoneOooL b
  | .ite _ t e => hasNoneOooL t || hasNoneOooL e
  | .finish => false
def hasNoneOooL : List Op → Bool
  | [] => false
  | o :: os => hasNoneOoo o || hasNoneOooL os
end

mutual
def noncesOf : Op → List Str
  | .ooo _ _ b n => n.toList ++ noncesOfL b
  | .async _ b => noncesOfL b
  | .sub b => noncesOfL b
  | .ite _ t e => noncesOfL t ++ noncesOfL e
  | _ => []
def noncesOfL : List Op → List Str
  | [] => []
  | o :: os => noncesOf o ++ noncesOfL os
end

/-- every `<script nonce="…">` carries one of the given nonces as its attribute value, read up to the next double
    quote (twin of the harness oracle; F-C07-9: the nonce is written unescaped) -/
def nonceAttrsOk (nonces : List Str) : Nat → Str → Bool
  | 0, _ => true
  | n + 1, s =>
    match splitFirst "<script nonce=\"".toList s with
    | none => true
    | some (_, after) =>
      match splitFirst ['"'] after with
      | none => false
      | some (v, rest) => nonces.contains v && rest.head? == some '>' && nonceAttrsOk nonces n rest

structure St where
  run : Option Run := none
  ooo : Bool := false
  ref : Str := []
  cls : String := "unclassified"
  pendingSend : List FId := []
  /-- free interleaving (`viewf`): polls print `-`; the final document is computed from a fresh run -/
  free : Option (Bool × List FId × List Op) := none
  sent : List FId := []
  branch : Bool := false
  nonceMode : Bool := false
  progNonces : Option (List Str) := none
  oooPlainB : Bool := false

def showPoll : Poll → String
  | .pending => "pending"
  | .item s => "item " ++ hexOfStr s
  | .done => "done"
  | .panic => "panic"
  | .stuck => "stuck"

def step (st : St) (line : String) : St × String :=
  match words line with
  | ["case", n] => ({}, s!"case {n}")
  | "prog" :: mode :: d0 :: toks =>
    match parseNats ',' d0, parseOps (toks.length + 2) toks with
    | some done0, some (ops, []) =>
      if mode == "io" || mode == "ooo" then
        let ooo := mode == "ooo"
        ({ run := some (startStream ooo done0 ops), ooo := ooo,
           ref := if ooo then oooDocOps ops else docOps ops,
           cls := "unclassified", progNonces := some (noncesOfL ops) }, "ok")
      else (st, "bad-op")
    | _, _ => (st, "bad-op")
  | "view" :: mode :: d0 :: toks =>
    match parseMode mode with
    | none => (st, "bad-op")
    | some (ooo, branch, nm) =>
    let mk := if !branch then 0 else if ooo then 2 else 1
    let d0l := (parseNats ',' d0).getD []
    let nonceV := if nm then some "NONCE".toList else none
    -- the reference document: separators as the resolved render places them
    let refDoc : Option Str := match parseViews mk nonceV (toks.length + 2) false (markTexts (!ooo) true d0l false [] toks) with
      | some (vs, []) => some (viewDoc (View.seq vs))
      | _ => none
    match parseNats ',' d0, parseViews mk nonceV (toks.length + 2) false (markTexts (!ooo) false d0l false [] toks) with
    | some done0, some (vs, []) =>
      let v := View.seq (if vs.isEmpty then wrapIf (mk == 1) [View.raw "<!>".toList] else vs)
      let ref := if vs.isEmpty then viewDoc v else refDoc.getD (viewDoc v)
      let cls := if !noLate .top v then "sync-read-late" else if ref != viewDoc v then "suspend-position" else "unclassified"
      -- F-C07-7: text / elements / tuples / Vecs / islands only: the out-of-order branching stream is not
      -- `to_html_branching()` of the same view (`AnyView` marks itself on the synchronous and the in-order path only)
      let syncOnly := toks.all fun t => t == "]" || t.front == 't' || t.front == 'e' || t == "q[" || t == "l[" || t == "I[" || t == "C["
      ({ run := some (startStream ooo done0 (compile ooo .top v)), ooo := ooo, ref := ref, cls := cls,
         branch := branch, nonceMode := nm, oooPlainB := mk == 2 && syncOnly }, "ok")
    | _, _ => (st, "bad-op")
  | "viewf" :: mode :: d0 :: toks =>
    match parseNats ',' d0, parseViews 0 none (toks.length + 2) false (markTexts false false [] false [] toks) with
    | some done0, some (vs, []) =>
      if mode == "io" || mode == "ooo" then
        let ooo := mode == "ooo"
        let v := View.seq vs
        let prog := compile ooo .top v
        ({ run := some (startStream ooo done0 prog), ooo := ooo, ref := viewDoc v, free := some (ooo, done0, prog) }, "ok")
      else (st, "bad-op")
    | _, _ => (st, "bad-op")
  | ["drain"] => (st, "ok")
  | ["send", ks] =>
    match parseNats ',' ks with
    | some ks => ({ st with pendingSend := st.pendingSend ++ ks, sent := st.sent ++ ks }, "ok")
    | none => (st, "bad-op")
  | ["run", is] =>
    match parseNats ',' is with
    | some _ => (st, "ok")
    | none => (st, "bad-op")
  | ["poll"] =>
    if st.free.isSome then (st, "-") else
    match st.run with
    | none => (st, "bad-op")
    | some r =>
      let r := r.poll st.pendingSend
      let norm (p : Poll) : Poll := match p with
        | .item s => if st.branch then .item (collapseB s.length false s) else p
        | p => p
      let o := match r.out.getLast? with
        | some p => if r.out.length ≥ 2 && (r.out.dropLast.any fun q => q == Poll.panic || q == Poll.stuck) then "dead" else showPoll (norm p)
        | none => "bad-op"
      ({ st with run := some r, pendingSend := [] }, o)
  | ["end", chk] =>
    match st.run with
    | none => (st, "bad-op")
    | some r0 =>
      let r := match st.free with
        | some (ooo, done0, prog) => ((startStream ooo done0 prog).polls [st.sent]).drain 10000
        | none => r0
      let raw := itemsOf r.out
      let doc := if st.ooo then applyScripts raw else raw
      let finished := r.out.getLast? == some Poll.done
      let shown := if st.branch then collapseB doc.length false doc else doc
      if chk == "check" then
        let v :=
          if !finished then "fail not-terminated"
          else if (match st.progNonces with | some ns => !nonceAttrsOk ns raw.length raw | none => false) then "fail nonce-unescaped"
          -- F-C07-8: the chunk of a top-level `Suspend` is pushed without the nonce
          else if st.nonceMode && countSub "<script".toList raw.length raw != countSub "<script nonce=\"NONCE\">".toList raw.length raw then
            "fail suspend-no-nonce"
          else if st.oooPlainB then "fail ooo-branch-markers"
          else if shown == (if st.branch then collapseB st.ref.length false st.ref else st.ref) then "ok"
          else "fail " ++ st.cls
        (st, s!"doc {hexOfStr shown} ## {v}")
      else if chk == "nocheck" then (st, s!"doc {hexOfStr shown}")
      else (st, "bad-op")
  | _ => (st, "bad-op")

def main : IO Unit := runDriver step {}
