import LeptosModel.Model.Wire
import LeptosModel.Model.Html
/-!
Line-protocol driver for C06 (op grammar: harness/hx-c06/src/lib.rs, module `enc`).

  case <n>
  view <nodes>                 -- a tuple of views rendered with `to_html()`
  head <title> <meta>*         -- what `inject_meta_context` inserts into `<head>`

`<nodes>` is one word; the grammar (typed text / primitive children, child containers, typed
attribute / class / style values) is documented in harness/hx-c06/src/enc.rs.  Value *types* do not
change what is printed (every string type prints like `&str`, every attribute value type prints
`escape_attr` of its Display text), so the decoder maps them onto `VNode` / `Attr`:
`Some`, `Either::Left/Right` → the item; `None`, `()` → `unit`; `Vec` → `vec`; tuple, array,
`StaticVec`, `Fragment` → `seq`; attribute/style `None` → nothing; `class(None)` → an empty class item.
  doc <item>*                  -- the whole first chunk through `inject_meta_context`; items:
       `T`hex (Title text) `F`hex,hex (Title formatter = prefix,suffix) `m`… (Meta) `l`k=hex,… (Link)
       `y`k=hex,…`|`child (Style) `j`k=hex,…`|`child (Script; child = `-` or `c`hex) `k`hex,(`-`|`i`hex)
       (Stylesheet href,id) `H`attrs`>` / `B`attrs`>` (attributes on <Html/> / <Body/>, node attr grammar)
  view nodes additionally: `I`hex;hex;nodes`<` (Island component, props) and `J`nodes`<` (IslandChildren)
`<title>` is `-` (no title) or `t` hex; `<meta>` is `m` kind ',' hex ',' hex with kind
n (name,content) p (property,content) c (charset) h (http-equiv,content) i (itemprop,content).

Output: `<hex of the model's HTML> ## ok | fail <class>`; the verdict is
`parse (toHtml v) == some (structureOf v)`.
-/
open Leptos Leptos.Wire Leptos.Html

def hexOfStr (s : Str) : String :=
  hexOfBytes ((String.ofList s).toUTF8.toList.map (fun b => b.toNat))

def strOfHexChars (cs : List Char) : Option Str := do
  let bs ← bytesOfHexChars cs
  let ba := ByteArray.mk (bs.map (fun n => UInt8.ofNat n)).toArray
  let s ← String.fromUTF8? ba
  pure s.toList

/-- split at the first `;` -/
def untilSemi : List Char → Option (List Char × List Char)
  | [] => none
  | c :: cs => if c = ';' then some ([], cs) else (untilSemi cs).map fun (a, b) => (c :: a, b)

def hexField (cs : List Char) : Option (Str × List Char) := do
  let (h, rest) ← untilSemi cs
  let s ← strOfHexChars h
  pure (s, rest)

def boolField : List Char → Option (Bool × List Char)
  | '0' :: r => some (false, r)
  | '1' :: r => some (true, r)
  | _ => none

/-- split at the first `:` -/
def untilColon : List Char → Option (List Char × List Char)
  | [] => none
  | c :: cs => if c = ':' then some ([], cs) else (untilColon cs).map fun (a, b) => (c :: a, b)

/-- `opt ty ':'` of a typed value: returns whether the value is `None` -/
def tyField : List Char → Option (Bool × List Char)
  | o :: r =>
    if o = '=' || o = '?' || o = '-' then
      match untilColon r with
      | some (t, r) => if t.isEmpty || !t.all Char.isAlphanum then none else some (o = '-', r)
      | none => none
    else none
  | [] => none

partial def parseAttrs (cs : List Char) (acc : List Attr) : Option (List Attr × List Char) :=
  match cs with
  | '>' :: r => some (acc.reverse, r)
  | 'A' :: r => do
    let (n, r) ← hexField r
    let (v, r) ← hexField r
    parseAttrs r (.plain n v :: acc)
  | 'a' :: r => do
    -- every attribute value type prints `escape_attr` of its Display text; `None` prints nothing
    let (isNone, r) ← tyField r
    let (n, r) ← hexField r
    let (v, r) ← hexField r
    parseAttrs r (if isNone then acc else .plain n v :: acc)
  | 'B' :: r => do
    let (n, r) ← hexField r
    let (b, r) ← boolField r
    parseAttrs r (.bool n b :: acc)
  | 'C' :: r => do
    let (v, r) ← hexField r
    parseAttrs r (.cls v :: acc)
  | 'c' :: r => do
    -- `class(None)`: `Class::to_html` still pushes the separating space
    let (isNone, r) ← tyField r
    let (v, r) ← hexField r
    parseAttrs r (.cls (if isNone then [] else v) :: acc)
  | 'D' :: r => do
    let (n, r) ← hexField r
    let (b, r) ← boolField r
    parseAttrs r (.clsToggle n b :: acc)
  | 'd' :: r => do
    let (n, r) ← hexField r
    let (b, r) ← boolField r
    parseAttrs r (.clsToggle n b :: acc)
  | 'S' :: r => do
    let (v, r) ← hexField r
    parseAttrs r (.style v :: acc)
  | 's' :: r => do
    let (isNone, r) ← tyField r
    let (v, r) ← hexField r
    parseAttrs r (if isNone then acc else .style v :: acc)
  | 'K' :: r => do
    let (n, r) ← hexField r
    let (v, r) ← hexField r
    parseAttrs r (.styleKV n v :: acc)
  | 'k' :: r => do
    let (isNone, r) ← tyField r
    let (n, r) ← hexField r
    let (v, r) ← hexField r
    parseAttrs r (if isNone then acc else .styleKV n v :: acc)
  | 'H' :: r => do
    let (v, r) ← hexField r
    parseAttrs r (.innerHtml v :: acc)
  | 'h' :: r => do
    let (isNone, r) ← tyField r
    let (v, r) ← hexField r
    parseAttrs r (if isNone then acc else .innerHtml v :: acc)
  | _ => none

def tagCharOK (c : Char) : Bool := nameChar c

def contKinds : List Char := "VYWUFONLR".toList
def itemTys : List Char := "Ssawociqv*".toList

/-- nodes up to a closing `<` (depth > 0) or the end of input (depth = 0) -/
partial def parseNodes (top : Bool) (cs : List Char) (acc : List VNode) : Option (List VNode × List Char) :=
  match cs with
  | [] => if top then some (acc.reverse, []) else none
  | '<' :: r => if top then none else some (acc.reverse, r)
  | 'T' :: r => do
    let (s, r) ← hexField r
    parseNodes top r (.text s :: acc)
  | 't' :: r => do
    -- every string type prints like `&str`
    let (t, r) ← untilColon r
    if t.isEmpty || !t.all Char.isAlphanum then none
    let (s, r) ← hexField r
    parseNodes top r (.text s :: acc)
  | 'P' :: r => do
    let (t, r) ← untilColon r
    if t.isEmpty || !t.all Char.isAlphanum then none
    let (s, r) ← hexField r
    parseNodes top r (.prim s :: acc)
  | 'Z' :: r => parseNodes top r (.unit :: acc)
  | 'I' :: r => do
    -- Island::new(component, view).with_props(props)
    let (c, r) ← hexField r
    let (p, r) ← hexField r
    let (kids, r) ← parseNodes false r []
    parseNodes top r (.island c p kids :: acc)
  | 'J' :: r => do
    let (kids, r) ← parseNodes false r []
    parseNodes top r (.islandChildren kids :: acc)
  | 'E' :: r => do
    let (tag, r) ← untilSemi r
    if tag.isEmpty || !tag.all tagCharOK then none
    let (attrs, r) ← parseAttrs r []
    let (kids, r) ← parseNodes false r []
    parseNodes top r (.elem tag attrs kids :: acc)
  | k :: ity :: ':' :: r =>
    if contKinds.contains k && itemTys.contains ity then do
      let (kids, r) ← parseNodes false r []
      -- Vec: items + trailing marker; None: the unit view; Some / Either: the item itself;
      -- tuple, array, StaticVec, Fragment: the items in sequence
      match k with
      | 'V' => parseNodes top r (.vec kids :: acc)
      | 'N' => if kids.isEmpty then parseNodes top r (.unit :: acc) else none
      | 'O' | 'L' | 'R' => if kids.length = 1 then parseNodes top r (.seq kids :: acc) else none
      | 'U' => parseNodes top r ((if kids.isEmpty then .unit else .seq kids) :: acc)  -- the 0-tuple is `()`
      | _ => parseNodes top r (.seq kids :: acc)
    else none
  | _ => none

def decodeView (w : String) : Option (List VNode) :=
  if w == "-" then some [] else
  match parseNodes true w.toList [] with
  | some (ns, []) => some ns
  | _ => none

def S (s : String) : Str := s.toList

def decodeMeta (w : String) : Option Node :=
  match w.toList with
  | 'm' :: k :: ',' :: rest =>
    match (String.ofList rest).splitOn "," with
    | [a, b] => do
      let a ← strOfHexChars a.toList
      let b ← strOfHexChars b.toList
      let tag := S "meta"
      match k with
      | 'n' => some (.elem tag [.plain (S "name") a, .plain (S "content") b] [])
      | 'p' => some (.elem tag [.plain (S "property") a, .plain (S "content") b] [])
      | 'c' => some (.elem tag [.plain (S "charset") a] [])
      | 'h' => some (.elem tag [.plain (S "http-equiv") a, .plain (S "content") b] [])
      | 'i' => some (.elem tag [.plain (S "itemprop") a, .plain (S "content") b] [])
      | _ => none
    | _ => none
  | _ => none

def decodeTitle (w : String) : Option (Option Str) :=
  if w == "-" then some none else
  match w.toList with
  | 't' :: h => (strOfHexChars h).map some
  | _ => none

def anyStr (p : Char → Bool) (ss : List Str) : Bool := ss.any (fun s => s.any p)

/-! ### `doc` items: the leptos_meta components -/

def linkKeys : List String :=
  ["id", "as", "crossorigin", "fetchpriority", "href", "hreflang", "imagesizes", "imagesrcset", "integrity",
   "media", "referrerpolicy", "rel", "sizes", "title", "type", "blocking"]
def scriptKeys : List String :=
  ["id", "async", "crossorigin", "defer", "fetchpriority", "integrity", "nomodule", "nonce", "referrerpolicy",
   "src", "type", "blocking"]
def styleKeys : List String := ["id", "media", "nonce", "title", "blocking"]

/-- `k=hex,k=hex,…` with the keys in the component's own (fixed) attribute order -/
def decodeKvs (keys : List String) (w : String) : Option (List Attr) :=
  if w == "" then some [] else
  let rec go (items : List String) (from_ : Nat) : Option (List Attr) :=
    match items with
    | [] => some []
    | it :: rest =>
      match it.splitOn "=" with
      | [k, h] =>
        match keys.idxOf? k with
        | some i =>
          if i < from_ then none else do
            let v ← strOfHexChars h.toList
            let r ← go rest (i + 1)
            pure (.plain k.toList v :: r)
        | none => none
      | _ => none
  go (w.splitOn ",") 0

def decodeChild (w : String) : Option (List Node) :=
  if w == "-" then some [] else
  match w.toList with
  | 'c' :: h => (strOfHexChars h).map fun s => [.text s]
  | _ => none

inductive DocItem where
  | text (s : Str)
  | fmt (pre post : Str)
  | tag (n : Node)
  | html (attrs : List Attr)
  | body (attrs : List Attr)

def decodeAttrsWord (cs : List Char) : Option (List Attr) :=
  match parseAttrs cs [] with
  | some (as, []) => some as
  | _ => none

def decodeDocItem (w : String) : Option DocItem :=
  match w.toList with
  | 'T' :: h => (strOfHexChars h).map .text
  | 'F' :: rest =>
    match (String.ofList rest).splitOn "," with
    | [a, b] => do
      let a ← strOfHexChars a.toList
      let b ← strOfHexChars b.toList
      pure (.fmt a b)
    | _ => none
  | 'm' :: _ => (decodeMeta w).map .tag
  | 'l' :: rest => (decodeKvs linkKeys (String.ofList rest)).map fun as => .tag (.elem (S "link") as [])
  | 'y' :: rest =>
    match (String.ofList rest).splitOn "|" with
    | [kv, ch] => do
      let as ← decodeKvs styleKeys kv
      let kids ← decodeChild ch
      pure (.tag (.elem tStyle as kids))
    | _ => none
  | 'j' :: rest =>
    match (String.ofList rest).splitOn "|" with
    | [kv, ch] => do
      let as ← decodeKvs scriptKeys kv
      let kids ← decodeChild ch
      pure (.tag (.elem tScript as kids))
    | _ => none
  | 'k' :: rest =>
    -- Stylesheet: link().id(id).rel("stylesheet").href(href)
    match (String.ofList rest).splitOn "," with
    | [h, i] => do
      let href ← strOfHexChars h.toList
      let idAttr ← (if i == "-" then some [] else
        match i.toList with
        | 'i' :: ih => (strOfHexChars ih).map fun v => [Attr.plain (S "id") v]
        | _ => none)
      pure (.tag (.elem (S "link") (idAttr ++ [.plain (S "rel") (S "stylesheet"), .plain (S "href") href]) []))
    | _ => none
  | 'H' :: rest => (decodeAttrsWord rest).map .html
  | 'B' :: rest => (decodeAttrsWord rest).map .body
  | _ => none

def docClass (htmlAttrs bodyAttrs : List Attr) (title : Option Str) (metas : List Node) : String :=
  let ss := kidsStrings metas ++ title.toList ++ (htmlAttrs ++ bodyAttrs).flatMap attrStrings
  if !rawTextFreeKids metas then "raw-text-child"
  else if anyStr (· = cNul) ss then "nul-char"
  else if anyStr (· = cCr) ss then "cr-char"
  else "unexpected"

/-- does some element of the view satisfy `p tag kids`? -/
partial def anyElem (p : Str → List VNode → Bool) : List VNode → Bool
  | [] => false
  | .elem t _ ks :: r => p t ks || anyElem p ks || anyElem p r
  | .seq ks :: r => anyElem p ks || anyElem p r
  | .vec ks :: r => anyElem p ks || anyElem p r
  | .island _ _ ks :: r => anyElem p ks || anyElem p r
  | .islandChildren ks :: r => anyElem p ks || anyElem p r
  | _ :: r => anyElem p r

/-- does some primitive child (anywhere) satisfy `p`? -/
partial def anyPrim (p : Str → Bool) : List VNode → Bool
  | [] => false
  | .prim s :: r => p s || anyPrim p r
  | .elem _ _ ks :: r => anyPrim p ks || anyPrim p r
  | .seq ks :: r => anyPrim p ks || anyPrim p r
  | .vec ks :: r => anyPrim p ks || anyPrim p r
  | .island _ _ ks :: r => anyPrim p ks || anyPrim p r
  | .islandChildren ks :: r => anyPrim p ks || anyPrim p r
  | _ :: r => anyPrim p r

/-- number of string / primitive items directly in a child list (through containers) -/
partial def leafCount : List VNode → Nat
  | [] => 0
  | .text _ :: r => 1 + leafCount r
  | .prim _ :: r => 1 + leafCount r
  | .seq ks :: r => leafCount ks + leafCount r
  | .vec ks :: r => leafCount ks + leafCount r
  | _ :: r => leafCount r

/-- known-finding class of a failing view -/
def viewClass (v : List VNode) : String :=
  let ss := vKidsStrings v
  -- F-C06-1: string children of script / style / noscript (and of textarea before fix-c06-3)
  if anyElem (fun t ks => !escapeChildren t && !(t = tTextarea && textareaEscaped) && vHasTextKids ks) v
    then "raw-text-child"
  else if anyStr (· = cNul) ss then "nul-char"
  else if anyStr (· = cCr) ss then "cr-char"
  -- F-C06-7: a `char` child `<` / `&` is printed raw (before fix-c06-5)
  else if !primEscaped && anyPrim (fun s => s.any (fun c => c = '<' || c = '&')) v then "prim-unescaped"
  -- repaired textarea: several strings are still joined by a literal `<!>` (view shape, F-C18-2)
  else if anyElem (fun t ks => t = tTextarea && textareaEscaped && leafCount ks ≥ 2) v then "rcdata-marker"
  else if anyElem (fun t ks => t = tTextarea && textareaEscaped && !textareaLfGuard &&
      (vRawTextKids ks).head? = some cLf) v then "textarea-leading-newline"
  else if vHasInnerHtmlKids v then "inner-html"
  else "unexpected"

def headClass (title : Option Str) (metas : List Node) : String :=
  let ss := kidsStrings metas ++ title.toList
  if anyStr (· = cNul) ss then "nul-char"
  else if anyStr (· = cCr) ss then "cr-char"
  else "unexpected"


/-! ### `wview`: views with leptos wrapper components, three rendering entry points -/

def leafOf (n : VNode) : WNode := .leaf n

/-- two node lists in a row, each closed by `<` -/
partial def parseW (top : Bool) (cs : List Char) (acc : List WNode) : Option (List WNode × List Char) :=
  match cs with
  | [] => if top then some (acc.reverse, []) else none
  | '<' :: r => if top then none else some (acc.reverse, r)
  | 'T' :: r => do
    let (s, r) ← hexField r
    parseW top r (.leaf (.text s) :: acc)
  | 't' :: r => do
    let (t, r) ← untilColon r
    if t.isEmpty || !t.all Char.isAlphanum then none
    let (s, r) ← hexField r
    parseW top r (.leaf (.text s) :: acc)
  | 'P' :: r => do
    let (t, r) ← untilColon r
    if t.isEmpty || !t.all Char.isAlphanum then none
    let (s, r) ← hexField r
    parseW top r (.leaf (.prim s) :: acc)
  | 'Z' :: r => parseW top r (.leaf .unit :: acc)
  | 'I' :: r => do
    -- islands hold no wrapper components here: their children are ordinary nodes
    let (c, r) ← hexField r
    let (p, r) ← hexField r
    let (kids, r) ← parseNodes false r []
    parseW top r (.leaf (.island c p kids) :: acc)
  | 'J' :: r => do
    let (kids, r) ← parseNodes false r []
    parseW top r (.leaf (.islandChildren kids) :: acc)
  | 'E' :: r => do
    let (tag, r) ← untilSemi r
    if tag.isEmpty || !tag.all tagCharOK then none
    let (attrs, r) ← parseAttrs r []
    let (kids, r) ← parseW false r []
    parseW top r (.elem tag attrs kids :: acc)
  | 'G' :: b :: ':' :: r => do
    let (c, _) ← boolField [b]
    let (kids, r) ← parseW false r []
    let (fb, r) ← parseW false r []
    parseW top r (.show c kids fb :: acc)
  | 'Q' :: ':' :: r => do
    let (kids, r) ← parseW false r []
    let (fb, r) ← parseW false r []
    parseW top r (.boundary kids fb :: acc)
  | 'r' :: r => do
    let (s, r) ← hexField r
    parseW top r (.okStr s :: acc)
  | 'x' :: r => do
    let (s, r) ← hexField r
    parseW top r (.err s :: acc)
  | 'M' :: r => parseW top r (.errMsgs :: acc)
  | 'f' :: d :: ':' :: r => do
    if !(d = '0' || d = '1') then none
    let (rows, r) ← parseW false r []
    let strs ← rows.mapM fun | .leaf (.text s) => some s | _ => none
    parseW top r (.forEach (if d = '0' then 0 else 1) strs :: acc)
  | 'u' :: b :: ':' :: r => do
    let (_, _) ← boolField [b]
    let (kids, r) ← parseW false r []
    let (fb, r) ← parseW false r []
    parseW top r (.suspense kids fb :: acc)
  | 'y' :: d :: ':' :: r => do
    if !d.isDigit then none
    let (kids, r) ← parseW false r []
    parseW top r (.suspend kids :: acc)
  | 'w' :: d :: ':' :: r => do
    if !d.isDigit then none
    let (s, r) ← hexField r
    parseW top r (.await s :: acc)
  | k :: ity :: ':' :: r =>
    if contKinds.contains k && itemTys.contains ity then do
      let (kids, r) ← parseW false r []
      match k with
      | 'V' => parseW top r (.vec kids :: acc)
      | 'N' => if kids.isEmpty then parseW top r (.leaf .unit :: acc) else none
      | 'O' | 'L' | 'R' => if kids.length = 1 then parseW top r (.seq kids :: acc) else none
      | 'U' => parseW top r ((if kids.isEmpty then .leaf .unit else .seq kids) :: acc)
      | _ => parseW top r (.seq kids :: acc)
    else none
  | _ => none

def hexPlain (s : Str) : String :=
  String.ofList ((String.ofList s).toUTF8.toList.flatMap fun b => [hexDigit (b.toNat / 16 % 16), hexDigit (b.toNat % 16)])

/-- canonical text of a (normalised) document -/
partial def canon : List Tree → String
  | [] => ""
  | .text s :: r => s!"T{hexPlain s};" ++ canon r
  | .comment s :: r => s!"C{hexPlain s};" ++ canon r
  | .elem t a ks :: r =>
    s!"E{hexPlain t};" ++ String.join (a.map fun (n, v) => s!"A{hexPlain n}={hexPlain v};") ++ ">" ++ canon ks ++ "<" ++ canon r

/-- the model's side of one paint: its HTML parsed and normalised, against the resolved view -/
def paint (asIs spec : List VNode) : String × Option String :=
  match parse (vToHtml asIs) with
  | some t =>
    let n := normList t
    (canon n, if n = normList (vStructureOf spec) then none else some (viewClass spec))
  | none => ("none", some (viewClass spec))

def step (_ : Unit) (line : String) : Unit × String :=
  let out :=
    match words line with
    | ["case", n] => s!"case {n}"
    | ["view", w] =>
      match decodeView w with
      | some v =>
        let html := vToHtml v
        let verdict := if parse html = some (vStructureOf v) then "ok" else s!"fail {viewClass v}"
        s!"{hexOfStr html} ## {verdict}"
      | none => "bad-op"
    | "head" :: tw :: ms =>
      match decodeTitle tw, ms.mapM decodeMeta with
      | some title, some metas =>
        let html := headHtml title metas
        let verdict :=
          if parse html = some (headStructure title metas) then "ok" else s!"fail {headClass title metas}"
        s!"{hexOfStr html} ## {verdict}"
      | _, _ => "bad-op"
    | ["wview", mode, w] =>
      match parseW true w.toList [] with
      | some (ws, []) =>
        let first := resolveKids false [] ws
        let settled := resolveKids true [] ws
        let show1 := fun (o : String × Option String) =>
          match o.2 with
          | none => s!"{o.1} ## ok"
          | some c => s!"{o.1} ## fail {c}"
        -- the in-order stream gives up the marker after a pending <Suspense> (resolveInOrder)
        if mode == "s" then show1 (paint first first)
        else if mode == "i" then show1 (paint (resolveInOrderKids [] ws) settled)
        else if mode == "o" then
          let a := paint first first
          let b := paint settled settled
          let obs := s!"{a.1}|{b.1}"
          match a.2, b.2 with
          | none, none => s!"{obs} ## ok"
          | some c, _ => s!"{obs} ## fail {c}"
          | _, some c => s!"{obs} ## fail {c}"
        else "bad-op"
      | _ => "bad-op"
    | "doc" :: items =>
      match items.mapM decodeDocItem with
      | some its =>
        let texts := its.filterMap fun | .text s => some s | _ => none
        let fmts := its.filterMap fun | .fmt a b => some (a, b) | _ => none
        let metas := its.filterMap fun | .tag n => some n | _ => none
        let ha := its.flatMap fun | .html a => a | _ => []
        let ba := its.flatMap fun | .body a => a | _ => []
        -- each `<Html/>` / `<Body/>` sends its own attribute string
        let hs := its.flatMap fun | .html a => attrsHtml a | _ => []
        let bs := its.flatMap fun | .body a => attrsHtml a | _ => []
        let nH := (its.filter fun | .html _ => true | _ => false).length
        let nB := (its.filter fun | .body _ => true | _ => false).length
        if nH > 1 || nB > 1 then "bad-op" else
        let title := titleAsString texts fmts
        -- what is meant: every piece at its own place
        let intended := sShellOpen ++ hs ++ sShellHead ++ headHtml title metas ++ sShellBody ++ bs ++ sShellEnd
        -- what the code builds (string searches for `<html` / `<body`)
        let html := docHtmlImpl bodyAttrsAfterHead hs title metas bs
        let ok :=
          parse (attrsProbe ha) = some [.elem tProbe (expectedAttrs ha) []] &&
          parse (headHtml title metas) = some (headStructure title metas) &&
          parse (attrsProbe ba) = some [.elem tProbe (expectedAttrs ba) []]
        let verdict :=
          if html != intended then "fail body-attrs-misplaced"
          else if ok then "ok" else s!"fail {docClass ha ba title metas}"
        s!"{hexOfStr html} ## {verdict}"
      | none => "bad-op"
    | _ => "bad-op"
  ((), out)

def main : IO Unit := runDriver step ()
