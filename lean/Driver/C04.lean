import LeptosModel.Model.Wire
import LeptosModel.Model.RView
import LeptosModel.Model.SView
/-! Line-protocol driver for C04 (op grammar and output format: harness/hx-c04/src/{lib.rs,bin/c04.rs}).

```
case <name>
sig <init> | memo <expr>          -> ok
mount <view>                      -> ready=[..] dom=<node> [## verdict]
set <id> <v> | idle | dispose     -> ready=[..] dom=<node> [## verdict]
poll <i>                          -> polled=<k|none> ready=[..] dom=<node> [## verdict]
```
A view that contains an implementation-only constructor (`susp`, `errb`) makes every further line of
the case print `skip` (the harness prints `skip ## <its oracle's verdict>`).

Verdict = the property's oracle on the MODEL's output, at every idle point:
`not-fresh` (printed with the known-finding class: `dom-order-move-elided` when the view contains a
`<For>` whose current rows are a permutation of the rendered ones, `stale-effect` when a dynamic part
reads a memo and then a source of that memo), `touched`, `not-unmounted`.

Views with component-local state (`sc <sid> m|s ..`, `forr ..`; expressions `K`, `V<j>`; op `setl <sid> <v>`):
the fresh render takes the current value of every live component-local signal from the state tree
(`sigVal`), the untouched-nodes oracle is not applied.  A poll in which a run reads a component-local
node that was already disposed prints `panic ## fail read-disposed` and every further line `dead`
(the real code panics there: F-C04-2). -/
open Leptos Leptos.Wire Leptos.RView
open Leptos.SView (SV SSt)
open Leptos.Reactive (Expr NodeDef)

/-! ## parsing -/

def parseInt (t : String) : Option Int :=
  if t.startsWith "-" then (t.drop 1).toNat?.map fun n => -(Int.ofNat n) else t.toNat?.map Int.ofNat

def parseExpr : Nat → List String → Option (Expr × List String)
  | 0, _ => none
  | _ + 1, [] => none
  | f + 1, t :: rest =>
    if t == "add" then do
      let (a, r) ← parseExpr f rest
      let (b, r) ← parseExpr f r
      pure (.add a b, r)
    else if t == "ite" then do
      let (c, r) ← parseExpr f rest
      let (a, r) ← parseExpr f r
      let (b, r) ← parseExpr f r
      pure (.ite c a b, r)
    else if t == "mulc" then
      match rest with
      | k :: r => do
        let k ← parseInt k
        let (a, r) ← parseExpr f r
        pure (.mulc k a, r)
      | [] => none
    else if t == "K" then some (Expr.key, rest)
    else if t.startsWith "V" then ((t.drop 1).toString.toNat?).map fun n => (Expr.loc n, rest)
    else if t.startsWith "L" then (parseInt (t.drop 1).toString).map fun n => (.lit n, rest)
    else if t.startsWith "R" then ((t.drop 1).toString.toNat?).map fun n => (.rd true n, rest)
    else none

def strOfHex (h : String) : Option String :=
  (bytesOfHex h).bind fun bs => String.fromUTF8? (ByteArray.mk (bs.map UInt8.ofNat).toArray)

def tags : List String := ["div", "span", "p", "ul", "b", "i", "section"]
def statNames : List String := ["id", "lang", "data-s"]
def dynNames : List String := ["title", "data-x", "data-y"]
def clsNames : List String := ["on", "big", "hot"]
def styNames : List String := ["width", "height", "top"]

def parseAttr (f : Nat) : List String → Option (Attr × List String)
  | k :: name :: rest =>
    if k == "as" then
      match rest with
      | h :: r => if statNames.contains name then (strOfHex h).map fun s => (.stat name s, r) else none
      | [] => none
    else if k == "ad" then
      if dynNames.contains name then (parseExpr f rest).map fun (e, r) => (.dyn name e, r) else none
    else if k == "ac" then
      if clsNames.contains name then (parseExpr f rest).map fun (e, r) => (.cls name e, r) else none
    else if k == "ay" then
      if styNames.contains name then (parseExpr f rest).map fun (e, r) => (.sty name e, r) else none
    else none
  | _ => none

def parseAttrs (f : Nat) : Nat → List String → Option (List Attr × List String)
  | 0, toks => some ([], toks)
  | n + 1, toks => do
    let (a, r) ← parseAttr f toks
    let (as, r) ← parseAttrs f n r
    pure (a :: as, r)

def parseKeys (l : String) : Option (List Nat) :=
  if l == "-" then some [] else
  let ks := (l.splitOn ",").map String.toNat?
  if ks.all Option.isSome then
    let ks := ks.filterMap id
    if nodupNat ks then some ks else none
  else none

def parseLists : Nat → List String → Option (List (List Nat) × List String)
  | 0, toks => some ([], toks)
  | n + 1, l :: rest => do
    let ks ← parseKeys l
    let (ls, r) ← parseLists n rest
    pure (ks :: ls, r)
  | _ + 1, [] => none

/-- `none` = unparseable; `some (none, _)` = an implementation-only constructor occurs -/
def parseView : Nat → List String → Option (Option View × List String)
  | 0, _ => none
  | _ + 1, [] => none
  | f + 1, t :: rest =>
    if t == "t" then
      match rest with
      | h :: r => (strOfHex h).map fun s => (some (.text s), r)
      | [] => none
    else if t == "u" then some (some .unit, rest)
    else if t == "el" then
      match rest with
      | tag :: n :: r =>
        if !tags.contains tag then none else do
        let n ← n.toNat?
        if n > 16 then none else
        let (as, r) ← parseAttrs (f + 1) n r
        let (k, r) ← parseView f r
        pure (k.map (View.elem tag as), r)
      | _ => none
    else if t == "seq" then do
      let (a, r) ← parseView f rest
      let (b, r) ← parseView f r
      pure ((a.bind fun a => b.map fun b => View.seq a b), r)
    else if t == "dt" then (parseExpr (f + 1) rest).map fun (e, r) => (some (.dynText e), r)
    else if t == "ei" || t == "sh" then do
      let (c, r) ← parseExpr (f + 1) rest
      let (a, r) ← parseView f r
      let (b, r) ← parseView f r
      pure ((a.bind fun a => b.map fun b => if t == "ei" then View.either c a b else View.show c a b), r)
    else if t == "for" then do
      let (sel, r) ← parseExpr (f + 1) rest
      match r with
      | n :: r =>
        let n ← n.toNat?
        if n == 0 || n > 16 then none else
        let (ls, r) ← parseLists n r
        pure (some (.forKeyed sel ls), r)
      | [] => none
    else if t == "forr" || t == "fore" then do
      let (sel, r) ← parseExpr (f + 1) rest
      match r with
      | n :: r =>
        let n ← n.toNat?
        if n == 0 || n > 16 then none else
        let (ls, r) ← parseLists n r
        let (row, r) ← parseView f r
        pure (row.map (View.forRows (t == "fore") sel ls), r)
      | [] => none
    else if t == "sc" then
      match rest with
      | sid :: "m" :: r => do
        let sid ← sid.toNat?
        let (b, r) ← parseExpr (f + 1) r
        let (k, r) ← parseView f r
        pure (k.map (View.scope sid (.memo b)), r)
      | sid :: "s" :: v :: r => do
        let sid ← sid.toNat?
        let v ← parseInt v
        let (k, r) ← parseView f r
        pure (k.map (View.scope sid (.sig v)), r)
      | _ => none
    else if t == "eb" then do
      let (k, r) ← parseView f rest
      pure (k.map View.eb, r)
    else if t == "res" then do
      let (c, r) ← parseExpr (f + 1) rest
      let (x, r) ← parseExpr (f + 1) r
      pure (some (.res c x), r)
    else if t == "susp" then do
      let (_, r) ← parseExpr (f + 1) rest
      let (_, r) ← parseView f r
      pure (none, r)
    else if t == "errb" then do
      let (_, r) ← parseExpr (f + 1) rest
      let (_, r) ← parseView f r
      pure (none, r)
    else none

/-! ## views with suspense boundaries (`Model/SView.lean`): parsed into `SV`; the `<Transition>`s are numbered in
document order -/

def parseSV : Nat → List String → Nat → Option (SV × List String × Nat)
  | 0, _, _ => none
  | _ + 1, [], _ => none
  | f + 1, t :: rest, nt =>
    if t == "t" then
      match rest with
      | h :: r => (strOfHex h).map fun s => (.text s, r, nt)
      | [] => none
    else if t == "u" then some (.unit, rest, nt)
    else if t == "el" then
      match rest with
      | tag :: n :: r =>
        if !tags.contains tag then none else do
        let n ← n.toNat?
        if n > 16 then none else
        let (as, r) ← parseAttrs (f + 1) n r
        let (k, r, nt) ← parseSV f r nt
        pure (.elem tag as k, r, nt)
      | _ => none
    else if t == "seq" then do
      let (a, r, nt) ← parseSV f rest nt
      let (b, r, nt) ← parseSV f r nt
      pure (.seq a b, r, nt)
    else if t == "dt" then (parseExpr (f + 1) rest).map fun (e, r) => (.dynText e, r, nt)
    else if t == "ei" || t == "sh" then do
      let (c, r) ← parseExpr (f + 1) rest
      let (a, r, nt) ← parseSV f r nt
      let (b, r, nt) ← parseSV f r nt
      pure ((if t == "ei" then SV.either c a b else SV.show c a b), r, nt)
    else if t == "for" || t == "forr" then do
      let (sel, r) ← parseExpr (f + 1) rest
      match r with
      | n :: r =>
        let n ← n.toNat?
        if n == 0 || n > 16 then none else
        let (ls, r) ← parseLists n r
        if t == "for" then pure (.forKeyed sel ls, r, nt) else
        let (row, r, nt) ← parseSV f r nt
        pure (.forRows sel ls row, r, nt)
      | [] => none
    else if t == "sus" then do
      let (k, r, nt) ← parseSV f rest nt
      pure (.sus k, r, nt)
    else if t == "tra" then do
      let (k, r, nt') ← parseSV f rest (nt + 1)
      pure (.tra nt k, r, nt')
    else if t == "aw" then
      match rest with
      | rid :: r => rid.toNat?.map fun rid => (.aw rid, r, nt)
      | [] => none
    else if t == "lw" then (parseExpr (f + 1) rest).map fun (e, r) => (.lw e, r, nt)
    else none

def hasTraS : SV → Bool
  | .elem _ _ k => hasTraS k
  | .seq a b => hasTraS a || hasTraS b
  | .either _ a b => hasTraS a || hasTraS b
  | .show _ a b => hasTraS a || hasTraS b
  | .forRows _ _ row => hasTraS row
  | .sus k => hasTraS k
  | .tra _ _ => true
  | _ => false

/-- neither branches nor rows -/
def fixedS : SV → Bool
  | .either _ _ _ | .show _ _ _ | .forKeyed _ _ | .forRows _ _ _ => false
  | .elem _ _ k => fixedS k
  | .seq a b => fixedS a && fixedS b
  | .sus k => fixedS k
  | .tra _ k => fixedS k
  | _ => true

/-- the class of `Model/SView.lean`: expressions over defined nodes (the key only in rows), `aw` leaves of defined
resources below a boundary, `<Transition>` at a fixed place with nothing but fixed structure below it -/
def svOk (k nres : Nat) : SV → Bool → Bool → Bool
  | .text _, _, _ => true
  | .unit, _, _ => true
  | .elem _ attrs kid, r, b =>
    attrs.all (Attr.okL k 0 r) && nodupKeys (attrs.map Attr.key) && svOk k nres kid r b
  | .seq x y, r, b => svOk k nres x r b && svOk k nres y r b
  | .dynText x, r, _ => x.okL k 0 r
  | .either c x y, r, b => c.okL k 0 r && !hasTraS x && !hasTraS y && svOk k nres x false b && svOk k nres y false b
  | .show c x y, r, b => c.okL k 0 r && !hasTraS x && !hasTraS y && svOk k nres x false b && svOk k nres y false b
  | .forKeyed sel lists, r, _ => sel.okL k 0 r && !lists.isEmpty && lists.all nodupNat
  | .forRows sel lists row, r, b =>
    sel.okL k 0 r && !lists.isEmpty && lists.all nodupNat && !hasTraS row && svOk k nres row true b
  | .sus kid, r, _ => svOk k nres kid r true
  | .tra _ kid, r, _ => fixedS kid && svOk k nres kid r true
  | .aw rid, _, b => b && rid < nres
  | .lw sel, r, _ => sel.okL k 0 r

/-! ## printing -/

def hexStr (s : String) : String := hexOfBytes (s.toUTF8.toList.map UInt8.toNat)

def Leptos.RView.Txt.str : Txt → String
  | .lit s => s
  | .int v => toString v
  | .px v => toString v ++ "px"

def insertSorted (x : String × String) : List (String × String) → List (String × String)
  | [] => [x]
  | y :: ys => if x.1 < y.1 || (x.1 == y.1 && x.2 < y.2) then x :: y :: ys else y :: insertSorted x ys

def sortPairs (l : List (String × String)) : List (String × String) := l.foldl (fun acc x => insertSorted x acc) []

def attrText (outs : List AOut) : String :=
  -- a reactive attribute / style declaration with the value 0 is absent (the closure returned `None`)
  let plain := outs.filterMap fun o => match o with
    | .plain _ (.int 0) => none
    | .plain n v => some (n, v.str)
    | _ => none
  let toks := sortPairs (outs.filterMap fun o => match o with | .cls n true => some (n, "") | _ => none)
  let decls := sortPairs (outs.filterMap fun o => match o with
    | .sty _ (.px 0) => none
    | .sty n v => some (n, v.str)
    | _ => none)
  let cls := if toks.isEmpty then [] else [("class", " ".intercalate (toks.map (·.1)))]
  let sty := if decls.isEmpty then [] else [("style", String.join (decls.map fun (n, v) => n ++ ":" ++ v ++ ";"))]
  "&".intercalate ((sortPairs (plain ++ cls ++ sty)).map fun (n, v) => n ++ "=" ++ hexStr v)

abbrev IdMap := List (Nat × Nat)

def canon (m : IdMap) (id : Nat) : Nat × IdMap :=
  match m.find? (·.1 == id) with
  | some (_, c) => (c, m)
  | none => (m.length, m ++ [(id, m.length)])

def showN (m : IdMap) (n : N) : String × IdMap :=
  let (c, m) := canon m n.id
  (s!"{c}.{n.muts}", m)

def showRows (m : IdMap) (ks : Keyed.KState) (texts : List (Nat × Nat)) : List Nat → List String × IdMap
  | [] => ([], m)
  | li :: rest =>
    if li == ks.marker then
      let (c, m) := canon m li
      let (rs, m) := showRows m ks texts rest
      (s!"C{c}.0:-" :: rs, m)
    else
      let (c, m) := canon m li
      let tid := (texts.find? (·.1 == li)).map (·.2)
      let (ct, m) := canon m (tid.getD 0)
      let key := (keyOfLi ks li).getD 0
      let (rs, m) := showRows m ks texts rest
      (s!"E{c}.1(li;;T{ct}.0:{hexStr (toString key)})" :: rs, m)

/-- the top-level nodes of a state, printed, in document order -/
def showState (m : IdMap) : RState → List String × IdMap
  | .text n s =>
    let (t, m) := showN m n
    ([s!"T{t}:{hexStr s}"], m)
  | .unit n =>
    let (t, m) := showN m n
    ([s!"C{t}:-"], m)
  | .elem n tag as kid =>
    let (t, m) := showN m n
    let (ks, m) := showState m kid
    ([s!"E{t}({tag};{attrText (as.map AState.out)};{",".intercalate ks})"], m)
  | .seq a b =>
    let (sa, m) := showState m a
    let (sb, m) := showState m b
    (sa ++ sb, m)
  | .dynText _ _ n last =>
    let (t, m) := showN m n
    ([s!"T{t}:{hexStr (toString last)}"], m)
  | .either _ _ _ _ _ inner => showState m inner
  | .show _ _ _ _ _ _ inner => showState m inner
  | .forK _ _ _ ks texts => showRows m ks texts ks.w.kids
  | .scope _ _ _ inner => showState m inner
  | .rows _ _ _ _ _ ks items =>
    let (rs, m) := showState m items
    let (c, m) := canon m ks.marker
    (rs ++ [s!"C{c}.0:-"], m)
  | .rowCons _ _ r rest =>
    let (a, m) := showState m r
    let (b, m) := showState m rest
    (a ++ b, m)
  | .rowNil => ([], m)
  | .errb _ _ _ fb kid =>
    match fb with
    | some n =>
      let (t, m) := showN m n
      ([s!"T{t}:{hexStr "error"}"], m)
    | none => showState m kid
  | .res _ _ _ n last _ =>
    let (t, m) := showN m n
    match last with
    | some v => ([s!"T{t}:{hexStr (toString v)}"], m)
    | none => ([s!"C{t}:-"], m)
  | .hooked _ inner => showState m inner
  | .errTok _ => ([], m)

def showDom (m : IdMap) (st : St) : String × IdMap :=
  let (t, m) := showN m st.rootN
  let (ks, m) := match st.root with
    | some r => showState m r
    | none => ([], m)
  (s!"E{t}(main;;{",".intercalate ks})", m)

/-- a token stream as the harness prints a DOM without ids: the siblings up to the next unmatched `close` -/
def showToks : Nat → List Tok → List String × List Tok
  | 0, ts => ([], ts)
  | _ + 1, [] => ([], [])
  | f + 1, t :: rest =>
    match t with
    | .close => ([], rest)
    | .text x =>
      let (ss, r) := showToks f rest
      (s!"T:{hexStr x.str}" :: ss, r)
    | .comment =>
      let (ss, r) := showToks f rest
      ("C:-" :: ss, r)
    | .open tag attrs =>
      let (ks, r) := showToks f rest
      let (ss, r) := showToks f r
      (s!"E({tag};{attrText attrs};{",".intercalate ks})" :: ss, r)

def showSDom (ts : List Tok) : String :=
  s!"sdom=E(main;;{",".intercalate (showToks (2 * ts.length + 2) ts).1})"

/-- a task's index in spawn order -/
def taskIx (st : St) (e : Nat) : Nat := (st.tasks.idxOf? e).getD st.tasks.length

/-! ## the oracle -/

/-- every signal an expression can read, through memos, over both branches of every `ite` -/
def staticReads (defs : Reactive.Prog) : Nat → Expr → List Nat
  | 0, _ => []
  | f + 1, e =>
    match e with
    | .lit _ => []
    | .rd _ i =>
      match defs[i]? with
      | some (.sig _) => [i]
      | some (.memo b) => staticReads defs f b
      | _ => []
    | .add a b => staticReads defs f a ++ staticReads defs f b
    | .mulc _ a => staticReads defs f a
    | .ite c t e => staticReads defs f c ++ staticReads defs f t ++ staticReads defs f e
    | .seq a b => staticReads defs f a ++ staticReads defs f b
    | .wr _ a => staticReads defs f a

inductive Guard where
  | reads (l : List Nat)
  | showCond (c : Expr)
  deriving Inhabited

structure Snap where
  nodes : List (Nat × Nat × List Guard) := []
  deriving Inhabited

structure Orc where
  defs : Reactive.Prog
  env : Nat → Int

def Orc.reads (o : Orc) (e : Expr) : List Nat := staticReads o.defs (4 * o.defs.length + 64) e
def Orc.eval (o : Orc) (e : Expr) : Int := Reactive.evalPure o.env e

def structGuards (o : Orc) : View → List Guard
  | .text _ | .unit | .elem _ _ _ | .dynText _ => []
  | .seq a b => structGuards o a ++ structGuards o b
  | .either c a b => .reads (o.reads c) :: (if o.eval c != 0 then structGuards o a else structGuards o b)
  | .show c a b => .showCond c :: (if o.eval c != 0 then structGuards o a else structGuards o b)
  | .forKeyed sel _ => [.reads (o.reads sel)]
  -- views with component-local state: the untouched-nodes oracle is not applied (`snapState` = none)
  | .scope _ _ _ => []
  | .forRows _ _ _ _ => []
  | .eb _ => []
  | .res _ _ => []

def attrGuards (o : Orc) : List Attr → List Guard
  | [] => []
  | .stat _ _ :: as => attrGuards o as
  | .dyn _ x :: as => .reads (o.reads x) :: attrGuards o as
  | .cls _ x :: as => .reads (o.reads x) :: attrGuards o as
  | .sty _ x :: as => .reads (o.reads x) :: attrGuards o as

/-- zip the state tree with the view: every DOM node with its id, counter and guards; `none` when the
state does not have the shape of a fresh render for the current values -/
def snapState (o : Orc) (path : List Guard) : View → RState → Option (List (Nat × Nat × List Guard))
  | .text _, .text n _ => some [(n.id, n.muts, path)]
  | .unit, .unit n => some [(n.id, n.muts, path)]
  | .elem _ attrs kid, .elem n _ _ k =>
    (snapState o path kid k).map fun ks => (n.id, n.muts, path ++ attrGuards o attrs ++ structGuards o kid) :: ks
  | .seq a b, .seq sa sb => do
    let x ← snapState o path a sa
    let y ← snapState o path b sb
    pure (x ++ y)
  | .dynText x, .dynText _ _ n _ => some [(n.id, n.muts, path ++ [.reads (o.reads x)])]
  | .either c a b, .either _ _ _ _ left inner =>
    if (o.eval c != 0) == left then
      snapState o (path ++ [.reads (o.reads c)]) (if left then a else b) inner
    else none
  | .show c a b, .show _ _ _ _ _ left inner =>
    if (o.eval c != 0) == left then
      snapState o (path ++ [.showCond c]) (if left then a else b) inner
    else none
  | .forKeyed sel _, .forK _ _ _ ks texts =>
    let p := path ++ [.reads (o.reads sel)]
    some (ks.w.kids.flatMap fun li =>
      if li == ks.marker then [(li, 0, p)]
      else [(li, 1, p), (((texts.find? (·.1 == li)).map (·.2)).getD 0, 0, p)])
  | _, _ => none

/-- ids and counters of every node of the current DOM -/
def curNodes : RState → List (Nat × Nat)
  | .text n _ => [(n.id, n.muts)]
  | .unit n => [(n.id, n.muts)]
  | .elem n _ _ k => (n.id, n.muts) :: curNodes k
  | .seq a b => curNodes a ++ curNodes b
  | .dynText _ _ n _ => [(n.id, n.muts)]
  | .either _ _ _ _ _ inner => curNodes inner
  | .show _ _ _ _ _ _ inner => curNodes inner
  | .forK _ _ _ ks texts =>
    ks.w.kids.flatMap fun li =>
      if li == ks.marker then [(li, 0)]
      else [(li, 1), (((texts.find? (·.1 == li)).map (·.2)).getD 0, 0)]
  | .scope _ _ _ inner => curNodes inner
  | .rows _ _ _ _ _ ks items => curNodes items ++ [(ks.marker, 0)]
  | .rowCons _ _ r rest => curNodes r ++ curNodes rest
  | .rowNil => []
  | .errb _ _ _ fb kid =>
    match fb with
    | some n => [(n.id, n.muts)]
    | none => curNodes kid
  | .res _ _ _ n _ _ => [(n.id, n.muts)]
  | .hooked _ inner => curNodes inner
  | .errTok _ => []

/-! known-finding classes (decidable predicates on the program) -/

def readsInOrder : Expr → List Nat
  | .lit _ => []
  | .rd _ i => [i]
  | .add a b => readsInOrder a ++ readsInOrder b
  | .mulc _ a => readsInOrder a
  | .ite c t e => readsInOrder c ++ readsInOrder t ++ readsInOrder e
  | .seq a b => readsInOrder a ++ readsInOrder b
  | .wr _ a => readsInOrder a

def sourcesOf (defs : Reactive.Prog) : Nat → Nat → List Nat
  | 0, _ => []
  | f + 1, i =>
    match defs[i]? with
    | some (.memo b) => (readsInOrder b).flatMap fun x => x :: sourcesOf defs f x
    | _ => []

def shadowedAfter (defs : Reactive.Prog) : List Nat → Bool
  | [] => false
  | m :: rest => rest.any (fun x => (sourcesOf defs (defs.length + 1) m).contains x) || shadowedAfter defs rest

def exprShadowed (defs : Reactive.Prog) (e : Expr) : Bool := shadowedAfter defs (readsInOrder e)

def viewExprs : View → List Expr
  | .text _ | .unit => []
  | .elem _ attrs kid =>
    attrs.filterMap (fun a => match a with | .stat _ _ => none | .dyn _ x => some x | .cls _ x => some x | .sty _ x => some x)
      ++ viewExprs kid
  | .seq a b => viewExprs a ++ viewExprs b
  | .dynText x => [x]
  | .either c a b => c :: (viewExprs a ++ viewExprs b)
  | .show c a b => c :: (viewExprs a ++ viewExprs b)
  | .forKeyed sel _ => [sel]
  | .scope _ _ kid => viewExprs kid
  | .forRows _ sel _ row => sel :: viewExprs row
  | .eb kid => viewExprs kid
  | .res c x => [c, x]

/-- the view uses component-local state or rows with content of their own -/
def isX : View → Bool
  | .text _ | .unit | .dynText _ | .forKeyed _ _ => false
  | .elem _ _ kid => isX kid
  | .seq a b => isX a || isX b
  | .either _ a b => isX a || isX b
  | .show _ a b => isX a || isX b
  | .scope _ _ _ => true
  | .forRows _ _ _ _ => true
  | .eb _ => true
  | .res _ _ => true

def hasFor : View → Bool
  | .text _ | .unit | .dynText _ => false
  | .elem _ _ kid => hasFor kid
  | .seq a b => hasFor a || hasFor b
  | .either _ a b => hasFor a || hasFor b
  | .show _ a b => hasFor a || hasFor b
  | .forKeyed _ _ => true
  | .scope _ _ kid => hasFor kid
  | .forRows _ _ _ _ => false
  | .eb kid => hasFor kid
  | .res _ _ => false

def sortNat (l : List Nat) : List Nat :=
  l.foldl (fun acc x => (acc.filter (· < x)) ++ [x] ++ acc.filter (fun y => !(y < x))) []

/-- `serialize` / `render` with the rows of every `<For>` sorted by key: equal iff the DOM differs from
the fresh render at most in the ORDER of keyed rows -/
def serializeSorted : RState → List Tok
  | .text _ s => [.text (.lit s)]
  | .unit _ => [.comment]
  | .elem _ tag as kid => [.open tag (as.map AState.out)] ++ serializeSorted kid ++ [.close]
  | .seq a b => serializeSorted a ++ serializeSorted b
  | .dynText _ _ _ last => [.text (.int last)]
  | .either _ _ _ _ _ inner => serializeSorted inner
  | .show _ _ _ _ _ _ inner => serializeSorted inner
  | .forK _ _ _ ks _ => (sortNat (forRows ks)).flatMap rowTree ++ [.comment]
  | t => serialize t

def renderSorted (ρ : Nat → Int) : View → List Tok
  | .text s => [.text (.lit s)]
  | .unit => [.comment]
  | .elem tag attrs kid => [.open tag (attrs.map (renderAttr ρ))] ++ renderSorted ρ kid ++ [.close]
  | .seq a b => renderSorted ρ a ++ renderSorted ρ b
  | .dynText x => [.text (.int (Reactive.evalPure ρ x))]
  | .either c a b => if Reactive.evalPure ρ c != 0 then renderSorted ρ a else renderSorted ρ b
  | .show c a b => if Reactive.evalPure ρ c != 0 then renderSorted ρ a else renderSorted ρ b
  | .forKeyed sel lists => (sortNat (listAt lists (Reactive.evalPure ρ sel))).flatMap rowTree ++ [.comment]
  | v => render ρ v

/-! ## driver state -/

structure DState where
  st : St := {}
  defs : Reactive.Prog := []
  view : Option View := none
  skip : Bool := false
  idmap : IdMap := []
  snap : Option Snap := none
  written : List Nat := []
  envs : List (Nat → Int) := []
  /-- the model predicted a panic of the real code (a run read a disposed component-local value) -/
  dead : Bool := false
  /-- the resources and, once an S view is mounted (`smode`), the whole state (`Model/SView.lean`) -/
  sst : SSt := {}
  smode : Bool := false
  deriving Inhabited

/-- the value of the live component-local signal of `scope sid` under the rows keyed `path` -/
def sigVal (st : St) (sid : Nat) (path : List Nat) : Option Int :=
  match st.root with
  | some t =>
    ((t.sigPaths []).find? fun x => x.1 == sid && x.2.1 == path).map fun x => Reactive.envOf st.rs x.2.2
  | none => none

def freshOf (st : St) (v : View) : List Tok :=
  if isX v then renderL st.env (sigVal st) v [] 0 [] else render st.env v

/-- one task poll; `true` when a run of this poll read a component-local node that was already disposed
(the real code panics there: "tried to access a reactive value that has already been disposed") -/
def pollChecked (st : St) (i : Nat) : St × Bool :=
  let st' := pollNth st i
  let new := st'.rs.log.drop st.rs.log.length
  (st', new.any fun ev => match ev with | .rdv _ id _ => st.dead.contains id | _ => false)

def idleChecked : Nat → St → St × Bool
  | 0, st => (st, false)
  | k + 1, st =>
    if (ready st).isEmpty then (st, false) else
    let (st, bad) := pollChecked st 0
    if bad then (st, true) else idleChecked k st

def DState.orc (d : DState) : Orc := { defs := d.defs, env := d.st.env }

def guardFired (d : DState) : Guard → Bool
  | .reads l => l.any d.written.contains
  | .showCond c =>
    let ts := d.envs.map fun ρ => Reactive.evalPure ρ c != 0
    ts.any id && ts.any (!·)

def takeSnap (d : DState) : Option Snap :=
  match d.view, d.st.root with
  | some v, some t =>
    let o := d.orc
    (snapState o [] v t).map fun ns => { nodes := (d.st.rootN.id, d.st.rootN.muts, structGuards o v) :: ns }
  | _, _ => none

/-- verdict at an idle point (empty string otherwise) and the updated oracle state -/
def verdict (d : DState) : String × DState :=
  if !(ready d.st).isEmpty then ("", d) else
  if d.st.disposed then
    ((if d.st.root.isSome then " ## fail not-unmounted" else " ## ok"), { d with snap := none })
  else
    match d.view, d.st.root with
    | some v, some t =>
      let fresh := freshOf d.st v
      if serialize t != fresh then
        let cls :=
          if hasFor v && serializeSorted t == renderSorted d.st.env v then "dom-order-move-elided"
          else if (viewExprs v).any (exprShadowed d.defs) then "stale-effect"
          else "not-fresh"
        (s!" ## fail {cls}", { d with snap := none, written := [], envs := [d.st.env] })
      else
        let touched :=
          match d.snap with
          | some prev =>
            let cur := (d.st.rootN.id, d.st.rootN.muts) :: curNodes t
            prev.nodes.any fun (id, muts, gs) =>
              !(gs.any (guardFired d)) && !(cur.contains (id, muts))
          | none => false
        if touched then (" ## fail touched", { d with snap := none, written := [], envs := [d.st.env] })
        else (" ## ok", { d with snap := takeSnap d, written := [], envs := [d.st.env] })
    | _, _ => (" ## ok", d)

def outLine (d : DState) (pre : String) : DState × String :=
  if d.skip then (d, "skip") else
  if d.dead then (d, "panic ## fail read-disposed") else
  let (dom, m) := showDom d.idmap d.st
  let d := { d with idmap := m }
  let r := (ready d.st).map (taskIx d.st)
  let (v, d) := verdict d
  (d, pre ++ "ready=" ++ natList r ++ " dom=" ++ dom ++ v)

/-- an S view: the line after an operation (the executor has run to idle); while a live `lw` leaf selects a gate that
is still closed the DOM is not observed (`Model/SView.lean`) -/
def sShow (st : SSt) : String :=
  if !st.disposed && ((st.view.map fun v => SView.lwClosed st v 0).getD false) then "sdom=? ## ok"
  else showSDom st.dom ++ " ## ok"

def sLine (d : DState) : DState × String :=
  let st := d.sst.settle
  ({ d with sst := st }, sShow st)

def stepLine (d : DState) (line : String) : DState × String :=
  match words line with
  | ["case", n] => ({}, s!"case {n}")
  | _ =>
  if d.dead then (d, "dead") else
  if d.smode then
    match words line with
    | ["set", id, v] =>
      match id.toNat?, parseInt v with
      | some id, some v =>
        match d.defs[id]? with
        | some (.sig _) => if d.sst.disposed then sLine d else ({ d with sst := d.sst.step (.set id v) }, sShow (d.sst.step (.set id v)))
        | _ => (d, "bad-op")
      | _, _ => (d, "bad-op")
    | ["resolve", rid] =>
      match rid.toNat? with
      | some rid =>
        if rid < d.sst.res.length then
          ({ d with sst := d.sst.step (.resolve rid) }, sShow (d.sst.step (.resolve rid)))
        else (d, "bad-op")
      | none => (d, "bad-op")
    | ["open", g] =>
      match g.toNat? with
      | some g => if g < 4 then ({ d with sst := d.sst.step (.openGate g) }, sShow (d.sst.step (.openGate g))) else (d, "bad-op")
      | none => (d, "bad-op")
    -- the same operations without running the executor (only the resources' own tasks run): nothing is observed
    | ["pset", id, v] =>
      match id.toNat?, parseInt v with
      | some id, some v =>
        match d.defs[id]? with
        | some (.sig _) => (if d.sst.disposed then d else { d with sst := d.sst.set id v }, "~")
        | _ => (d, "bad-op")
      | _, _ => (d, "bad-op")
    | ["presolve", rid] =>
      match rid.toNat? with
      | some rid => if rid < d.sst.res.length then ({ d with sst := d.sst.resolve rid }, "~") else (d, "bad-op")
      | none => (d, "bad-op")
    | ["popen", g] =>
      match g.toNat? with
      | some g => if g < 4 then ({ d with sst := d.sst.openGate g }, "~") else (d, "bad-op")
      | none => (d, "bad-op")
    | ["poll", i] => if i.toNat?.isSome then (d, "~") else (d, "bad-op")
    | ["idle"] => sLine d
    | ["dispose"] => if d.sst.disposed then (d, "bad-op") else sLine { d with sst := { d.sst with disposed := true } }
    | _ => (d, "bad-op")
  else
  match words line with
  | "ares" :: toks =>
    match parseExpr (toks.length + 1) toks with
    | some (b, []) =>
      if d.view.isSome || d.skip || !(b.readsBelow d.defs.length) || !(SView.sigsOnly d.defs b) then (d, "bad-op") else
      ({ d with sst := d.sst.addRes b }, "ok")
    | _ => (d, "bad-op")
  | ["resolve", rid] =>
    match rid.toNat? with
    | some rid =>
      if d.view.isSome || rid ≥ d.sst.res.length then (d, "bad-op") else ({ d with sst := d.sst.resolve rid }, "ok")
    | none => (d, "bad-op")
  | ["sig", v] =>
    match parseInt v with
    | some v =>
      if d.view.isSome || d.skip then (d, "bad-op") else
      ({ d with st := addSig d.st v, defs := d.defs ++ [.sig v],
                sst := { d.sst with defs := d.defs ++ [.sig v], sigs := SView.setAt d.sst.sigs d.defs.length v } }, "ok")
    | none => (d, "bad-op")
  | "memo" :: toks =>
    match parseExpr (toks.length + 1) toks with
    | some (b, []) =>
      if d.view.isSome || d.skip || !(b.readsBelow d.defs.length) then (d, "bad-op") else
      ({ d with st := addMemo d.st b, defs := d.defs ++ [.memo b], sst := { d.sst with defs := d.defs ++ [.memo b] } }, "ok")
    | _ => (d, "bad-op")
  | "mount" :: toks =>
    if d.view.isSome || d.skip then (d, "bad-op") else
    if toks.any fun t => t == "sus" || t == "tra" || t == "aw" || t == "lw" then
      match parseSV (toks.length + 1) toks 0 with
      | some (v, [], _) =>
        if !(svOk d.defs.length d.sst.res.length v false false) then (d, "bad-op") else
        sLine { d with smode := true, sst := d.sst.mount v }
      | _ => (d, "bad-op")
    else
    match parseView (toks.length + 1) toks with
    | some (none, []) => ({ d with skip := true }, "skip")
    | some (some v, []) =>
      if !(if isX v then v.wfX d.defs.length 0 false else v.wf d.defs.length) then (d, "bad-op") else
      let d := { d with st := mount d.st v, view := some v }
      outLine { d with envs := [d.st.env] } ""
    | _ => (d, "bad-op")
  | ["set", id, v] =>
    if d.skip then (d, "skip") else
    match id.toNat?, parseInt v with
    | some id, some v =>
      match d.defs[id]?, d.view with
      | some (.sig _), some _ =>
        let d := { d with st := setSig d.st id v }
        outLine { d with written := id :: d.written, envs := d.st.env :: d.envs } ""
      | _, _ => (d, "bad-op")
    | _, _ => (d, "bad-op")
  | ["setl", sid, v] =>
    if d.skip then (d, "skip") else
    match sid.toNat?, parseInt v, d.view with
    | some sid, some v, some _ =>
      -- the written set is keyed by signal ids: local signals take the ids above the program's
      let d := { d with st := setLocal d.st sid v }
      outLine { d with written := (1000000 + sid) :: d.written, envs := d.st.env :: d.envs } ""
    | _, _, _ => (d, "bad-op")
  | ["poll", i] =>
    if d.skip then (d, "skip") else
    match i.toNat?, d.view with
    | some i, some _ =>
      let r := ready d.st
      let polled := if r.isEmpty then "none" else toString (taskIx d.st (r.getD (i % r.length) 0))
      let (st, bad) := pollChecked d.st i
      outLine { d with st := st, dead := bad } s!"polled={polled} "
    | _, _ => (d, "bad-op")
  | ["idle"] =>
    if d.skip then (d, "skip") else
    if d.view.isNone then (d, "bad-op") else
    let (st, bad) := idleChecked 100000 d.st
    outLine { d with st := st, dead := bad } ""
  | ["dispose"] =>
    if d.skip then (d, "skip") else
    if d.view.isNone || d.st.disposed then (d, "bad-op") else
    outLine { d with st := dispose d.st } ""
  | _ => (d, "bad-op")

def main : IO Unit := Leptos.Wire.runDriver stepLine {}
