import LeptosModel.Model.Wire
import LeptosModel.Model.Park
/-! Line-protocol driver for C19 (op grammar: harness/hx-c19/src/bin/c19.rs). -/
open Leptos Leptos.Wire Leptos.Park

def parseSched (s : String) : Option (List Nat) :=
  if s == "-" then some [] else
  s.toList.mapM fun c => if c.isDigit then some (c.toNat - 48) else none

def parseNat? (s : String) : Option Nat :=
  if s.isEmpty || !s.toList.all Char.isDigit then none else some (s.toList.foldl (fun n c => n * 10 + (c.toNat - 48)) 0)

-- ---------------------------------------------------------------- await

def showAwait (kind : Nat) (nAw : Nat) (s : Await.State) : String :=
  let p := if s.ppc == .done then "done" else "wait"
  let ready := !s.loading
  let aws := (List.range nAw).map fun i =>
    let a := s.aw i
    let tr := String.ofList (List.replicate a.pendings 'P') ++
      (if a.pc == .ready then (if kind == 0 then "R" else s!"R{a.got}") else "")
    let st := match a.pc with
      | .ready => "ready"
      | .gaveUp => "gaveup"
      | .parked => if a.woken then "woken" else "parked"
      | _ => "mid"
    s!" a{i + 1}={if tr.isEmpty then "-" else tr}/{st}"
  let stuck := s.ppc != .done || (List.range nAw).any fun i =>
    let pc := (s.aw i).pc
    pc == .start || pc == .push || pc == .ret
  let lost := (List.range nAw).any fun i => Await.lost s i
  let fin := s!" fin={if ready then "ready" else "loading"}:{match s.value with | some v => toString v | none => "none"}"
  let verdict := if stuck then "fail hang" else if lost then "fail lost-wakeup" else "ok"
  s!"p={p}{String.join aws}{fin} ## {verdict}"

def doAwait (kind nAw polls reloads : String) (sched : String) : String :=
  let k := match kind with | "ready" => some 0 | "value" => some 1 | "ref" => some 2 | _ => none
  match k, parseNat? nAw, parseNat? polls, parseNat? reloads, parseSched sched with
  | some k, some nAw, some polls, some reloads, some sc =>
    if nAw == 0 || nAw > 3 || polls == 0 || polls > 4 || reloads > 2 then "bad-op" else
    let s := Await.run (Await.initR (k != 0) polls reloads) (sc ++ tail (nAw + 1))
    showAwait k nAw s
  | _, _, _, _, _ => "bad-op"

-- ---------------------------------------------------------------- dnotify / dwrite

def doDnotify (k sched : String) : String :=
  match parseNat? k, parseSched sched with
  | some k, some sc =>
    if k == 0 || k > 3 then "bad-op" else
    let s := Notify.run (Notify.init true k) (sc ++ tail (k + 1))
    let allDone := (List.range (k + 1)).all fun t => (s.cs t).pc == .done
    let verdict := if !allDone then "fail hang" else if !s.reloaded then "fail notifying-stuck" else "ok"
    if !allDone then s!"calls=1 fin=- ## {verdict}"
    else s!"calls={if s.reloaded then 2 else 1} fin={if s.reloaded then 5 else 7} ## {verdict}"
  | _, _ => "bad-op"

def doDwrite (kind polls sched : String) : String :=
  let k := match kind with | "ready" => some 0 | "value" => some 1 | "ref" => some 2 | _ => none
  match k, parseNat? polls, parseSched sched with
  | some k, some polls, some sc =>
    if polls == 0 || polls > 4 then "bad-op" else
    let s := AwaitW.run (AwaitW.init k polls) (sc ++ tail 2)
    let w := if s.wpc == .done then "done" else "wait"
    let tr := String.ofList (List.replicate s.pendings 'P') ++
      (if s.apc == .ready then (if k == 0 then "R" else s!"R{s.got}") else "")
    let st := match s.apc with
      | .ready => "ready" | .gaveUp => "gaveup" | .parked => if s.woken then "woken" else "parked" | .start => "mid"
    let stuck := s.wpc != .done || s.apc == .start
    let verdict := if stuck then "fail hang" else if AwaitW.lost s then "fail lost-wakeup-writer" else "ok"
    s!"w={w} a1={if tr.isEmpty then "-" else tr}/{st} ## {verdict}"
  | _, _, _ => "bad-op"

-- ---------------------------------------------------------------- chan

def doChan (polls ms sched : String) : String :=
  let ms? : Option (List Nat) := if ms == "-" then some [] else (ms.splitOn ",").mapM parseNat?
  match parseNat? polls, ms?, parseSched sched with
  | some polls, some ms, some sc =>
    if polls > 6 || ms.length > 3 || ms.any (· > 4) then "bad-op" else
    let s := Chan.run (Chan.init polls (fun i => ms.getD i 0)) (sc ++ tail (ms.length + 1))
    let allSent := (List.range ms.length).all fun i => s.sent i == ms.getD i 0
    let state := match s.rpc with
      | .done => "done" | .parked => "parked" | .idle => "idle" | .registered => "mid"
    let stuck := !allSent || state == "mid"
    let sent := if ms.isEmpty then "-" else ",".intercalate ((List.range ms.length).map fun i => toString (s.sent i))
    let b (x : Bool) := if x then "1" else "0"
    let verdict := if stuck then "fail hang"
      else if s.rpc == .parked && !s.woken && s.set then "fail lost-notify" else "ok"
    s!"runs={s.runs} recv={state} woken={b s.woken} set={b s.set} sent={sent} ## {verdict}"
  | _, _, _ => "bad-op"

-- ---------------------------------------------------------------- memo

def parseMOp (o : String) : Option Memo.Op :=
  match o with
  | "g" => some .get
  | "h" => some .hold
  | "d" => some .drop
  | _ =>
    match o.toList with
    | 's' :: v => (parseNat? (String.ofList v)).bind fun v => if v < 1000 then some (.set v) else none
    | _ => none

def parseMProg (s : String) : Option (List Memo.Op) :=
  if s == "-" then some [] else (s.splitOn ",").mapM parseMOp

def showMRes : Memo.Res → String
  | .val n => toString n
  | .held n => s!"h{n}"
  | .unit => "."
  | .panic => "panic"

def doMemo (ini progs sched : String) : String :=
  let clean? := match ini with | "c" => some true | "d" => some false | _ => none
  match clean?, (progs.splitOn "/").mapM parseMProg, parseSched sched with
  | some clean, some progs, some sc =>
    if progs.isEmpty || progs.length > 3 || progs.any (·.length > 4) then "bad-op" else
    let n := progs.length
    let s := Memo.run (Memo.init clean progs) (sc ++ tail n)
    let vals : List Nat := 1 :: progs.flatMap fun p => p.filterMap fun o => match o with | .set v => some v | _ => none
    let parts := (List.range n).map fun i =>
      let p := s.ps i
      let rs := p.results.map showMRes ++ List.replicate (p.prog.length - p.results.length) "?"
      s!"p{i}={if rs.isEmpty then "-" else ",".intercalate rs} "
    let dead := (List.range n).any fun i => !Memo.finished (s.ps i) || (s.ps i).inflight
    let resPanic := (List.range n).any fun i => (s.ps i).results.any (· == .panic)
    let bad := (List.range n).any fun i => (s.ps i).results.any fun r =>
      match r with
      | .val v => !vals.any (fun x => x * 10 == v)
      | .held v => !vals.any (fun x => x * 10 == v)
      | _ => false
    let fin := Memo.finalGet s
    let finS := if dead then "fin=-" else s!"fin={showMRes fin}:{s.sig}"
    let stale := match fin with | .val m => m != s.sig * 10 | _ => false
    let verdict :=
      if dead then "fail guard-deadlock"
      else if resPanic || fin == .panic then "fail memo-read-panic"
      else if stale then "fail memo-stale"
      else if bad then "fail memo-bad-value"
      else "ok"
    s!"{String.join parts}{finS} ## {verdict}"
  | _, _, _ => "bad-op"

-- ---------------------------------------------------------------- graph

def parseSrc : List Char → Nat → Option (Graph.Src × List Char)
  | 's' :: rest, _ => some (.sig, rest)
  | 'm' :: d :: rest, n =>
    if d.isDigit && d.toNat - 48 < n then some (.memo (d.toNat - 48), rest) else none
  | _, _ => none

def takeDigits : List Char → List Char × List Char
  | c :: rest => if c.isDigit then let (a, b) := takeDigits rest; (c :: a, b) else ([], c :: rest)
  | [] => ([], [])

def parseDef (tok : String) (n : Nat) : Option Graph.Def :=
  match tok.toList with
  | 'p' :: rest =>
    match parseSrc rest n with
    | some (a, rest) =>
      match parseSrc rest n with
      | some (b, []) => some { f := .plus, reads := [a, b] }
      | _ => none
    | none => none
  | k :: rest =>
    if k != 'x' && k != 'a' && k != 'd' then none else
    let (ds, rest) := takeDigits rest
    match parseNat? (String.ofList ds) with
    | none => none
    | some c =>
      if c ≥ 1000 || (k == 'd' && c == 0) then none else
      match parseSrc rest n with
      | some (a, []) => some { f := if k == 'x' then .mul c else if k == 'a' then .add c else .div c, reads := [a] }
      | _ => none
  | [] => none

def parseGraph (spec : String) : Option (List Graph.Def) :=
  let rec go : List String → List Graph.Def → Option (List Graph.Def)
    | [], acc => some acc
    | tok :: rest, acc =>
      match parseDef tok acc.length with
      | some d => go rest (acc ++ [d])
      | none => none
  match go (spec.splitOn ",") [] with
  | some ds => if ds.isEmpty || ds.length > 5 then none else some ds
  | none => none

def parseGOp (n : Nat) (o : String) : Option Graph.Op :=
  match o.toList with
  | 'g' :: v => (parseNat? (String.ofList v)).bind fun v => if v < n then some (.get v) else none
  | 's' :: v => (parseNat? (String.ofList v)).bind fun v => if v < 1000 then some (.set v) else none
  | _ => none

def parseGProg (n : Nat) (s : String) : Option (List Graph.Op) :=
  if s == "-" then some [] else (s.splitOn ",").mapM (parseGOp n)

def showGRes : Graph.Res → String
  | .val n => toString n
  | .unit => "."
  | .panic => "panic"

def doGraph (spec ini gates progs sched : String) : String :=
  let clean? := match ini with | "c" => some true | "d" => some false | _ => none
  match parseGraph spec, clean? with
  | some defs, some clean =>
    if gates.isEmpty || !gates.toList.all (fun c => c == 'm' || c == 'l' || c == '-') then "bad-op" else
    match (progs.splitOn "/").mapM (parseGProg defs.length), parseSched sched with
    | some progs, some sc =>
      if progs.isEmpty || progs.length > 3 || progs.any (·.length > 4) then "bad-op" else
      let n := progs.length
      let gm := gates.toList.contains 'm'
      let gl := gates.toList.contains 'l'
      let s0 := if clean then Graph.initClean defs gm gl progs else Graph.init defs gm gl progs
      let s := Graph.run s0 (sc ++ tail n)
      let hist : List (List Nat) := Graph.scratch defs 1 ::
        progs.flatMap fun p => p.filterMap fun o => match o with | .set v => some (Graph.scratch defs v) | _ => none
      let parts := (List.range n).map fun i =>
        let th := s.ts i
        let rs := th.results.map showGRes ++ List.replicate (th.prog.length - th.results.length) "?"
        s!"p{i}={if rs.isEmpty then "-" else ",".intercalate rs} "
      let dead := !Graph.allFinished s n
      let resPanic := (List.range n).any fun i => (s.ts i).results.any (· == .panic)
      let bad := (List.range n).any fun i =>
        let th := s.ts i
        (th.results.zip th.prog).any fun (r, o) =>
          match r, o with
          | .val v, .get j => !hist.any (fun h => h.getD j 0 == v)
          | _, _ => false
      if dead then s!"{String.join parts}fin=- ## fail memo-deadlock" else
      let sf := Graph.readAll s
      let fin := (sf.ts n).results
      let want := Graph.scratch defs sf.sig
      let finPanic := fin.any (· == .panic)
      let stale := (fin.zip want).any fun (r, w) => match r with | .val v => v != w | _ => false
      let verdict :=
        if resPanic || finPanic then "fail memo-read-panic"
        else if stale then "fail memo-stale"
        else if bad then "fail memo-bad-value"
        else "ok"
      s!"{String.join parts}fin={",".intercalate (fin.map showGRes)}:{sf.sig} ## {verdict}"
    | _, _ => "bad-op"
  | _, _ => "bad-op"

def parseDOp (n party : Nat) (o : String) : Option Graph.Op :=
  if o == "p" then (if party == 0 then some .poll else none) else
  match o.toList with
  | 'g' :: v => (parseNat? (String.ofList v)).bind fun v => if v < n then some (.get v) else none
  | 'a' :: v => (parseNat? (String.ofList v)).bind fun v => if v < 1000 then some (.set v) else none
  | 'b' :: v => (parseNat? (String.ofList v)).bind fun v => if v < 1000 then some (.setB v) else none
  | _ => none

def doDerived (isEffect : Bool) (spec progs sched : String) : String :=
  match parseGraph spec with
  | some defs =>
    let ps := progs.splitOn "/"
    let parsed := (List.range ps.length).mapM fun i =>
      let p := ps.getD i ""
      if p == "-" then some [] else (p.splitOn ",").mapM (parseDOp defs.length i)
    match parsed, parseSched sched with
    | some progs, some sc =>
      if progs.isEmpty || progs.length > 3 || progs.any (·.length > 5) then "bad-op" else
      let n := progs.length
      let s := Graph.run (Graph.initDerived defs progs isEffect) (sc ++ tail n)
      let parts := (List.range n).map fun i =>
        let th := s.ts i
        let rs := th.results.map showGRes ++ List.replicate (th.prog.length - th.results.length) "?"
        s!"p{i}={if rs.isEmpty then "-" else ",".intercalate rs} "
      if !Graph.allFinished s n then s!"{String.join parts}fin=- ## fail hang" else
      let sf := Graph.finalPoll s
      let sm := Graph.readAll sf
      let ms := (sm.ts n).results
      let sc := Graph.scratch defs sf.sig
      let resPanic := ((List.range n).any fun i => (s.ts i).results.any (· == .panic)) ||
        (sf.ts 0).results.any (· == .panic) || ms.any (· == .panic)
      let want := sc.getLastD 0 * 1000 + sf.sigB
      let v := match sf.der.value with | some v => toString v | none => "none"
      let memoStale := (ms.zip sc).any fun (r, w) => match r with | .val x => x != w | _ => false
      let verdict := if resPanic then "fail memo-read-panic"
        else if memoStale then "fail memo-stale"
        else if sf.der.value != some want then (if isEffect then "fail effect-stale" else "fail derived-stale") else "ok"
      s!"{String.join parts}fin={v}:{sf.sig},{sf.sigB} m={",".intercalate (ms.map showGRes)} ## {verdict}"
    | _, _ => "bad-op"
  | none => "bad-op"

def doImm (spec prog : String) : String :=
  match parseGraph spec with
  | some defs =>
    match parseGProg defs.length prog with
    | some prog =>
      if prog.length > 6 then "bad-op" else
      let o := Imm.exec false defs prog
      let rs := o.results.map (fun r => match r with | some v => toString v | none => ".") ++
        List.replicate (prog.length - o.results.length) "?"
      let p0 := if rs.isEmpty then "-" else ",".intercalate rs
      if o.hung then s!"p0={p0} last={o.last} fin=- ## fail hang" else
      let fin := ",".intercalate ((Graph.scratch defs o.sig).map toString)
      s!"p0={p0} last={o.last} fin={fin}:{o.sig} ## ok"
    | none => "bad-op"
  | none => "bad-op"

-- ---------------------------------------------------------------- sig

def parseSOp (o : String) : Option Sig.Op :=
  match o with
  | "r" => some .read
  | "u" => some .unhold
  | _ =>
    match o.toList with
    | c :: v =>
      match parseNat? (String.ofList v) with
      | some v => if v ≥ 1000 then none else if c == 's' then some (.set v) else if c == 'w' then some (.holdWrite v) else none
      | none => none
    | _ => none

def parseSProg (s : String) : Option (List Sig.Op) :=
  if s == "-" then some [] else (s.splitOn ",").mapM parseSOp

def showSRes : Sig.Res → String
  | .val n => toString n
  | .unit => "."
  | .panic => "panic"

def doSig (progs sched : String) : String :=
  match (progs.splitOn "/").mapM parseSProg, parseSched sched with
  | some progs, some sc =>
    if progs.isEmpty || progs.length > 3 || progs.any (·.length > 4) then "bad-op" else
    let n := progs.length
    let s := Sig.run (Sig.init progs) (sc ++ tail n)
    let parts := (List.range n).map fun i =>
      let p := s.ps i
      let rs := p.results.map showSRes ++ List.replicate (p.prog.length - p.results.length) "?"
      s!"p{i}={if rs.isEmpty then "-" else ",".intercalate rs} "
    let dead := (List.range n).any fun i => !Sig.finished (s.ps i)
    let panicked := (List.range n).any fun i => (s.ps i).results.any (· == .panic)
    let finS := if dead then "fin=-" else s!"fin={s.sig}"
    let verdict := if dead then "fail hang" else if panicked then "fail read-during-write" else "ok"
    s!"{String.join parts}{finS} ## {verdict}"
  | _, _ => "bad-op"

def step (_ : Unit) (line : String) : Unit × String :=
  let out :=
    match words line with
    | ["case", n] => s!"case {n}"
    | ["await", kind, nAw, polls, sc] => doAwait kind nAw polls "0" sc
    | ["awaitr", kind, nAw, polls, reloads, sc] => doAwait kind nAw polls reloads sc
    | ["dnotify", k, sc] => doDnotify k sc
    | ["dwrite", kind, polls, sc] => doDwrite kind polls sc
    | ["chan", polls, ms, sc] => doChan polls ms sc
    | ["memo", ini, progs, sc] => doMemo ini progs sc
    | ["graph", spec, ini, gates, progs, sc] => doGraph spec ini gates progs sc
    | ["derived", spec, progs, sc] => doDerived false spec progs sc
    | ["effect", spec, progs, sc] => doDerived true spec progs sc
    | ["imm", spec, prog] => doImm spec prog
    | ["sig", progs, sc] => doSig progs sc
    | ["stress", "subs", rounds] =>
      -- bounded real-thread stress: the model only states the expected outcome (testing, not correspondence)
      match parseNat? rounds with
      | some r => if r == 0 || r > 2000000 then "bad-op" else "kept ## ok"
      | none => "bad-op"
    | ["stress", "writes", fam, th, it] =>
      match parseNat? th, parseNat? it with
      | some th, some it =>
        if !["rw", "rwguard", "arcrw", "arcrwguard", "write", "writeguard", "arcwrite", "arcwriteguard"].contains fam
            || th == 0 || th > 4 || it > 1000000 then "bad-op" else "exact ## ok"
      | _, _ => "bad-op"
    | ["stress", "effect", seed, wr, it] =>
      -- free-running threads: the model only states the expected outcome (testing, not correspondence)
      match parseNat? seed, parseNat? wr, parseNat? it with
      | some _, some wr, some it => if wr == 0 || wr > 4 || it > 100000 then "bad-op" else "converged ## ok"
      | _, _, _ => "bad-op"
    | _ => "bad-op"
  ((), out)

def main : IO Unit := runDriver step ()
