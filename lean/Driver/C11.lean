import LeptosModel.Model.Wire
import LeptosModel.Model.Keyed
/-! Line-protocol driver for C11 (op grammar: harness/hx-c11/src/bin/c11.rs).

```
case <name>
init <pre> <post> <bs> k k k…      build + mount a keyed list between <pre> and <post> sibling nodes
update k k k…                      rebuild with the new key sequence
trans <pre> <post> <bs> k… / k…    fresh `init` followed by `update`; prints the update's line
sib                                KeyedState::insert_before_this(<fresh node>)
remount <j>|e                      KeyedState::unmount, then mount before the j-th following sibling / at the end
```
Output of every list op:
`<children of the parent> ; e=<KeyedState::elements()> ; b=<k@i…> ; u=<k…> ; s=<k>i…> ## <verdict>`
children: `P<i>` leading siblings, `S<i>` siblings inserted by `sib`, `Q<i>` following siblings, `M` the
list's marker, `k:j` node j of the item keyed k. -/
open Leptos Leptos.Wire Leptos.Keyed

structure DState where
  ks : Option KState := none
  /-- expected siblings before / after the list, with their names -/
  pre : List (NodeId × String) := []
  post : List (NodeId × String) := []
  nsib : Nat := 0
  /-- every item built in this case (for naming nodes) -/
  registry : List Item := []
  /-- an earlier step of this case left the DOM in the wrong order -/
  tainted : Bool := false
  /-- the list is a leptos `<ForEnumerate>`: `set_index` writes a signal, the harness reads it -/
  isFor : Bool := false
  /-- index every item was last told (`view_fn(index, _)`, then `set_index`) -/
  told : List (Key × Nat) := []
  deriving Inhabited

def idxIn (l : List Nat) (k : Nat) : Nat := (l.idxOf? k).getD l.length

def nodeName (st : DState) (marker : NodeId) (n : NodeId) : String :=
  if n == marker then "M" else
  match (st.pre ++ st.post).find? (·.1 == n) with
  | some (_, s) => s
  | none =>
    match st.registry.find? (·.nodes.contains n) with
    | some it => s!"{it.key}:{idxIn it.nodes n}"
    | none => "?"

def joinOr (sep : String) (l : List String) : String :=
  if l.isEmpty then "-" else sep.intercalate l

/-- replay the op's `view_fn` and `set_index` calls on the told-index table -/
def tell (told : List (Key × Nat)) (log : Log) : List (Key × Nat) :=
  (log.builds ++ log.setIndex).foldl (fun t (k, i) => (k, i) :: t.filter (·.1 != k)) told

def toldOf (told : List (Key × Nat)) (k : Key) : Option Nat := (told.find? (·.1 == k)).map (·.2)

def render (st : DState) (s : KState) : String :=
  let kids := " ".intercalate (s.w.kids.map (nodeName st s.marker))
  let items := s.w.storage.filterMap id
  let els := if st.isFor then "-" else
    joinOr "," (items.flatMap fun it => (List.range it.nodes.length).map fun j => s!"{it.key}:{j}")
  let b := joinOr "," (s.w.log.builds.map fun (k, i) => s!"{k}@{i}")
  let u := joinOr "," (s.w.log.unmounts.map toString)
  let si :=
    if st.isFor then "i=" ++ joinOr "," (items.map fun it =>
      s!"{it.key}=" ++ (match toldOf st.told it.key with | some i => toString i | none => "?"))
    else "s=" ++ joinOr "," (s.w.log.setIndex.map fun (k, i) => s!"{k}>{i}")
  s!"{kids} ; e={els} ; b={b} ; u={u} ; {si}"

def sortNat (l : List Nat) : List Nat := l.mergeSort (· ≤ ·)

def domOrderOk (st : DState) (s : KState) : Bool :=
  s.w.kids == st.pre.map (·.1) ++ blocksOf s.w.storage ++ s.marker :: st.post.map (·.1)

/-- the property's clauses on one `update` (old state `s0`, new state `s1`); `none` = ok -/
def judgeUpdate (st : DState) (s0 s1 : KState) (to : List Key) : Option String :=
  let frm := s0.hashed
  let old := s0.w.storage.filterMap id
  let new := s1.w.storage.filterMap id
  let log := s1.w.log
  if log.panic then some "panic" else
  if new.map (·.key) != to then some "storage" else
  -- new keys: exactly one build, told their index; nothing else is built
  if sortNat (log.builds.map (·.1)) != sortNat (to.filter (!frm.contains ·))
      || log.builds.any (fun (k, i) => to[i]? != some k) then some "builds" else
  -- retained keys: the very same item
  if new.any (fun it => frm.contains it.key && !old.contains it) then some "identity" else
  -- vanished keys: exactly one unmount, nodes gone
  if sortNat log.unmounts != sortNat (frm.filter (!to.contains ·))
      || old.any (fun it => !to.contains it.key && it.nodes.any s1.w.kids.contains) then some "unmounts" else
  -- retained items: told the new index if it changed; the last value told is the final index
  if log.setIndex.any (fun (k, _) => !(frm.contains k && to.contains k))
      || to.any (fun k => frm.contains k &&
            (let calls := log.setIndex.filter (·.1 == k)
             let fin := idxIn to k
             (idxIn frm k != fin && calls.isEmpty) || (calls.getLast?.any (·.2 != fin)))) then some "set-index" else
  if !domOrderOk st s1 then
    -- `settledMonotone diff` holds for all duplicate-free sequences since the repair of F-C11-1
    -- (`C11_settled_monotone`); the class word is kept so that a regression would be named
    some (if st.tainted || !settledMonotone diff frm to then "dom-order-move-elided" else "dom-order")
  else none

def finish (st : DState) (s : KState) (v : Option String) : DState × String :=
  let st := { st with ks := some s, tainted := !domOrderOk st s, told := tell st.told s.w.log }
  -- `<ForEnumerate>`: every mounted item's index signal holds its position
  let v := if v.isNone && st.isFor &&
      (List.range s.hashed.length).any (fun j => (s.hashed[j]?.bind (toldOf st.told)) != some j)
    then some "set-index" else v
  (st, render st s ++ " ## " ++ (match v with | none => "ok" | some c => "fail " ++ c))

def parseNats (ws : List String) : Option (List Nat) := ws.mapM String.toNat?

def doInit (isFor : Bool) (pre post bs : Nat) (keys : List Key) : DState × String :=
  let preIds := List.range pre
  let s := (build bs keys preIds pre).mount none
  let postIds := List.range' s.w.next post
  let s := { s with w := { s.w with kids := s.w.kids ++ postIds, next := s.w.next + post } }
  let st : DState :=
    { pre := preIds.map fun i => (i, s!"P{i}"),
      post := (List.range post).map fun i => (s.w.next - post + i, s!"Q{i}"),
      registry := s.w.storage.filterMap id, isFor := isFor }
  let v :=
    if s.w.log.builds != (List.range keys.length).zipWith (fun i k => (k, i)) keys then some "builds"
    else if (s.w.storage.filterMap id).map (·.key) != keys then some "storage"
    else if !domOrderOk st s then some "dom-order" else none
  finish st s v

def doUpdate (st : DState) (s0 : KState) (to : List Key) : DState × String :=
  let s1 := rebuild s0 to
  let st := { st with registry := st.registry ++ (s1.w.storage.filterMap id).filter (!st.registry.contains ·) }
  finish st s1 (judgeUpdate st s0 s1 to)

def splitSlash (ws : List String) : Option (List String × List String) :=
  match ws.span (· != "/") with
  | (a, _ :: b) => some (a, b)
  | _ => none

def step (st : DState) (line : String) : DState × String :=
  match words line with
  | ["case", n] => ({}, s!"case {n}")
  | "update" :: ks =>
    match st.ks, parseNats ks with
    | some s0, some ks => if ks.eraseDups.length != ks.length then (st, "bad-op") else doUpdate st s0 ks
    | _, _ => (st, "bad-op")
  | ["sib"] =>
    match (if st.isFor then none else st.ks) with
    | some s0 =>
      let child := s0.w.next
      let s0 := { s0 with w := { s0.w with next := s0.w.next + 1, log := {} } }
      let (s1, ok) := s0.insertBeforeThis child
      let st := { st with pre := st.pre ++ [(child, s!"S{st.nsib}")], nsib := st.nsib + 1 }
      finish st s1 (if !ok then some "insert-before-this" else
        if !domOrderOk st s1 then some (if st.tainted then "dom-order-move-elided" else "dom-order") else none)
    | none => (st, "bad-op")
  | ["remount", j] =>
    match (if st.isFor then none else st.ks) with
    | some s0 =>
      let jn := if j == "e" then some st.post.length else j.toNat?
      match jn with
      | some jn =>
        if jn > st.post.length then (st, "bad-op") else
        let s0 := { s0 with w := { s0.w with log := {} } }
        let ref := (st.post[jn]?).map (·.1)
        let s1 := s0.unmount.mount ref
        let st := { st with pre := st.pre ++ st.post.take jn, post := st.post.drop jn }
        -- unmounting and mounting again puts every block back in storage order
        let st := { st with tainted := false }
        finish st s1 (if !domOrderOk st s1 then some "dom-order" else none)
      | none => (st, "bad-op")
    | none => (st, "bad-op")
  | cmd :: p :: q :: b :: ks =>
    if cmd == "init" || cmd == "initf" then
      match p.toNat?, q.toNat?, b.toNat?, parseNats ks with
      | some p, some q, some b, some ks =>
        if b == 0 || b > 3 || p > 64 || q > 64 || ks.eraseDups.length != ks.length then (st, "bad-op")
        else doInit (cmd == "initf") p q b ks
      | _, _, _, _ => (st, "bad-op")
    else if cmd == "trans" || cmd == "transf" then
      match p.toNat?, q.toNat?, b.toNat?, splitSlash ks with
      | some p, some q, some b, some (f, t) =>
        match parseNats f, parseNats t with
        | some f, some t =>
          if b == 0 || b > 3 || p > 64 || q > 64 || f.eraseDups.length != f.length
              || t.eraseDups.length != t.length then (st, "bad-op") else
          let (st1, _) := doInit (cmd == "transf") p q b f
          match st1.ks with
          | some s0 => doUpdate st1 s0 t
          | none => (st, "bad-op")
        | _, _ => (st, "bad-op")
      | _, _, _, _ => (st, "bad-op")
    else (st, "bad-op")
  | _ => (st, "bad-op")

/-- all output lines of one case (state is per case: `step` resets it at every `case` line) -/
def runCase (lines : Array String) : Array String :=
  (lines.foldl (fun (acc : DState × Array String) l =>
    let (st, o) := step acc.1 l
    (st, acc.2.push o)) ({}, #[])).2

partial def readCases (h : IO.FS.Stream) (cur : Array String) (acc : Array (Array String)) :
    IO (Array (Array String)) := do
  let line ← h.getLine
  if line.isEmpty then return (if cur.isEmpty then acc else acc.push cur)
  if line.startsWith "case " && !cur.isEmpty then readCases h #[line] (acc.push cur)
  else readCases h (cur.push line) acc

/-- same observable behaviour as `Leptos.Wire.runDriver step {}` (one output line per input line, in
order); the cases are independent, so they are evaluated as parallel tasks -/
def main : IO Unit := do
  let cases ← readCases (← IO.getStdin) #[] #[]
  let tasks := cases.map fun c => Task.spawn fun _ => runCase c
  let out ← IO.getStdout
  for t in tasks do
    for o in t.get do
      out.putStrLn o
  out.flush
