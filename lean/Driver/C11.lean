import LeptosModel.Model.Wire
import LeptosModel.Model.Keyed
/-! Line-protocol driver for C11 (op grammar: harness/hx-c11/src/bin/c11.rs).

```
case <name>
init  <pre> <post> <bs> k k k…     build + mount a keyed list between <pre> and <post> sibling nodes
initu <pre> <post> <bs> k k k…     build only (parent = None): the list is not in the DOM yet
initf <pre> <post> <bs> k k k…     the same list as leptos `<ForEnumerate>` driven by a signal (`initp`: `<For>`);
                                   every row body creates row-local state; `bump <k> <v>` writes row k's signal
inith <0|1> <0|1> 1 k k k…         keyed() rendered to HTML, parsed, hydrated (then updated like `init`)
inits <pre> <post> <bs> k k k…     `<ForEnumerate>` over a keyed store field (row k shows its label, k*10 at first)
update k k k…                      rebuild with the new key sequence (`updset` / `updroot`: other store writes)
trans[f] <pre> <post> <bs> k… / k… fresh `init[f]` followed by `update`; prints the update's line
sib                                KeyedState::insert_before_this(<fresh node>)
unmount / mount <j>|e / remount <j>|e   KeyedState::unmount / mount before the j-th following sibling (or at the end) / both
inner <k> i i i…                   shape `n`: rebuild the inner keyed list of the outer item k
label <k> <v>                      keyed store field: write row k's label
```
`<bs>`: item shapes, see `shapeKinds`. Output of every list op:
`<children of the parent> ; e=<KeyedState::elements()> ; b=<k@i…> ; u=<k…> ; s=<k>i…> ## <verdict>`
children: `P<i>` leading siblings, `S<i>` siblings inserted by `sib`, `Q<i>` following siblings, `M` the
list's marker, `k:j` node j of the item keyed k (`k.i:0`, `k.M` for the nodes of a nested list). -/
open Leptos Leptos.Wire Leptos.Keyed

/-- item shapes: kinds of the nodes of one item (`e` element, `t` text, `c` comment / placeholder) -/
def shapeKinds : String → Option (List Char)
  | "1" => some ['e'] | "2" => some ['e', 'e'] | "3" => some ['e', 'e', 'e']
  | "t" => some ['t'] | "te" => some ['t', 'e'] | "et" => some ['e', 't']
  | "u" => some ['c'] | "ue" => some ['c', 'e'] | "eu" => some ['e', 'c'] | "oe" => some ['c', 'e']
  | "v2" => some ['e', 'e', 'c'] | "v0" => some ['c'] | "k2" => some ['e', 'e', 'c'] | "k0" => some ['c']
  | "n" => some ['e', 'e', 'c']
  | _ => none

structure DState where
  ks : Option KState := none
  /-- expected siblings before / after the list, with their names -/
  pre : List (NodeId × String) := []
  post : List (NodeId × String) := []
  nsib : Nat := 0
  /-- name and kind of every item node built in this case -/
  names : List (NodeId × String × Char) := []
  kinds : List Char := []
  /-- an earlier step of this case left the DOM in the wrong order -/
  tainted : Bool := false
  /-- the list is a leptos `<ForEnumerate>`: `set_index` writes a signal, the harness reads it -/
  isFor : Bool := false
  /-- index every item was last told (`view_fn(index, _)`, then `set_index`) -/
  told : List (Key × Nat) := []
  /-- hydrated from server HTML: the harness has no access to the list state (`e=-`) -/
  hyd : Bool := false
  /-- leptos `<For>` (rows get no index) -/
  plain : Bool := false
  /-- `<For>` / `<ForEnumerate>`: the row-local state of every row (owner table) -/
  owners : Option Owners := none
  /-- keyed store field: the rows' labels -/
  labels : Option (List (Key × Nat)) := none
  /-- shape `n`: the inner list of every outer item (its `w.kids` / `w.next` are refreshed on use) -/
  nested : Bool := false
  inners : List (Key × KState) := []
  deriving Inhabited

def idxIn (l : List Nat) (k : Nat) : Nat := (l.idxOf? k).getD l.length

def nodeName (st : DState) (marker : NodeId) (n : NodeId) : String :=
  if n == marker then "M" else
  match (st.pre ++ st.post).find? (·.1 == n) with
  | some (_, s) => s
  | none =>
    match st.names.find? (·.1 == n) with
    | some (_, s, _) => s
    | none => "?"

def isElement (st : DState) (n : NodeId) : Bool :=
  match st.names.find? (·.1 == n) with
  | some (_, _, k) => k == 'e'
  | none => false

def joinOr (sep : String) (l : List String) : String :=
  if l.isEmpty then "-" else sep.intercalate l

/-- replay the op's `view_fn` and `set_index` calls on the told-index table -/
def tell (told : List (Key × Nat)) (log : Log) : List (Key × Nat) :=
  (log.builds ++ log.setIndex).foldl (fun t (k, i) => (k, i) :: t.filter (·.1 != k)) told

def toldOf (told : List (Key × Nat)) (k : Key) : Option Nat := (told.find? (·.1 == k)).map (·.2)

def mounted (s : KState) : Bool := s.w.kids.contains s.marker

def render (st : DState) (s : KState) (log : Log) (failed : Nat := 0) : String :=
  let kids := " ".intercalate (s.w.kids.map (nodeName st s.marker))
  let items := s.w.storage.filterMap id
  let els := if st.isFor || st.hyd then "-" else
    joinOr "," ((items.flatMap (·.nodes)).filter (isElement st) |>.map (nodeName st s.marker))
  let b := joinOr "," (log.builds.map fun (k, i) => if st.plain then s!"{k}@-" else s!"{k}@{i}")
  let u := joinOr "," (log.unmounts.map toString)
  let si :=
    if st.plain then "i=-"
    else if st.isFor then "i=" ++ joinOr "," (items.map fun it =>
      s!"{it.key}=" ++ (match toldOf st.told it.key with | some i => toString i | none => "?"))
    else "s=" ++ joinOr "," (log.setIndex.map fun (k, i) => s!"{k}>{i}")
  let l := match st.labels with
    | some ls => " ; l=" ++ joinOr "," (items.map fun (it : Item) =>
        s!"{it.key}=" ++ (match ls.find? (fun (p : Key × Nat) => p.1 == it.key) with
          | some (_, v) => toString v | none => "?"))
    | none => ""
  let x := if failed == 0 then "" else s!" ; x={failed}"
  -- row-local state: signal . stored value . memo . rendered text
  let r := match st.owners with
    | some o => " ; r=" ++ joinOr "," (items.map fun (it : Item) =>
        match o.get it with
        | some v => s!"{it.key}={v}.{it.key * 100 + 1}.{v + 1}.{v + 1}"
        | none => s!"{it.key}=X.X.X.?")
    | none => ""
  s!"{kids} ; e={els} ; b={b} ; u={u} ; {si}{r}{l}{x}"

def sortNat (l : List Nat) : List Nat := l.mergeSort (· ≤ ·)

/-- the children the property expects: the list between its siblings if it is mounted, the siblings alone if not -/
def domOrderOk (st : DState) (s : KState) (isMounted : Bool) : Bool :=
  if isMounted then
    s.w.kids == st.pre.map (·.1) ++ blocksOf s.w.storage ++ s.marker :: st.post.map (·.1)
  else s.w.kids == st.pre.map (·.1) ++ st.post.map (·.1)

/-- `rebuild` of a list that is not in the DOM but still holds its old parent: every node of a DOM-moved or
added item is inserted before a node that is not a child of the parent — a `NotFoundError` without effect,
swallowed by tachys. The number of those failed calls is part of the observable (`x=<n>`), not of the verdict. -/
def failedInsertions (s0 s1 : KState) (to : List Key) : Nat :=
  if s0.parent && !mounted s0 then
    let moved := domMovedKeys diff s0.hashed to
    (((s1.w.storage.filterMap id).filter fun it => moved.contains it.key || !s0.hashed.contains it.key).map
      (·.nodes.length)).sum
  else 0

/-- the property's clauses on one `update` (old state `s0`, new state `s1`); `none` = ok -/
def judgeUpdate (st : DState) (s0 s1 : KState) (to : List Key) (isMounted : Bool) : Option String :=
  let frm := s0.hashed
  let old := s0.w.storage.filterMap id
  let new := s1.w.storage.filterMap id
  let log := s1.w.log
  if log.panic then some "panic" else
  if new.map (·.key) != to then some "storage" else
  -- new keys: exactly one build, told their index; nothing else is built
  if sortNat (log.builds.map (·.1)) != sortNat (to.filter (!frm.contains ·))
      || log.builds.any (fun (k, i) => to[i]? != some k) then some "builds" else
  -- retained keys: the very same item
  if new.any (fun it => frm.contains it.key && !old.contains it) then some "identity" else
  -- vanished keys: exactly one unmount, nodes gone
  if sortNat log.unmounts != sortNat (frm.filter (!to.contains ·))
      || old.any (fun it => !to.contains it.key && it.nodes.any s1.w.kids.contains) then some "unmounts" else
  -- retained items: told the new index if it changed; the last value told is the final index
  if log.setIndex.any (fun (k, _) => !(frm.contains k && to.contains k))
      || to.any (fun k => frm.contains k &&
            (let calls := log.setIndex.filter (·.1 == k)
             let fin := idxIn to k
             (idxIn frm k != fin && calls.isEmpty) || (calls.getLast?.any (·.2 != fin)))) then some "set-index" else
  if !domOrderOk st s1 isMounted then
    -- `settledMonotone diff` holds for all duplicate-free sequences since the repair of F-C11-1
    -- (`C11_settled_monotone`); the class word is kept so that a regression would be named
    some (if st.tainted || !settledMonotone diff frm to then "dom-order-move-elided" else "dom-order")
  else none

def verdictStr (v : Option String) : String :=
  match v with | none => "ok" | some c => "fail " ++ c

def finish (st : DState) (s : KState) (v : Option String) (failed : Nat := 0) : DState × String :=
  let isM := mounted s
  let st := { st with ks := some s, tainted := !domOrderOk st s isM, told := tell st.told s.w.log }
  -- `<ForEnumerate>`: every mounted item's index signal holds its position
  let v := if v.isNone && st.isFor && !st.plain &&
      (List.range s.hashed.length).any (fun j => (s.hashed[j]?.bind (toldOf st.told)) != some j)
    then some "set-index" else v
  (st, render st s s.w.log failed ++ " ## " ++ verdictStr v)

def parseNats (ws : List String) : Option (List Nat) := ws.mapM String.toNat?

/-- names of the nodes of freshly built items (flat shapes) -/
def namesOf (kinds : List Char) (items : List Item) : List (NodeId × String × Char) :=
  items.flatMap fun it =>
    (List.range it.nodes.length).filterMap fun j =>
      match it.nodes[j]?, kinds[j]? with
      | some n, some k => some (n, s!"{it.key}:{j}", k)
      | _, _ => none

/-- shape `n`: the inner list `[0, 1]` an outer item starts with: its three nodes are inner item 0, inner item 1,
the inner marker -/
def innerOf (outer : Item) (parent : Bool) (kids : List NodeId) (next : Nat) : Option KState :=
  match outer.nodes with
  | [a, b, m] =>
    some { marker := m, hashed := [0, 1], bs := 1, parent := parent,
           w := { kids := kids, storage := [some { key := 0, nodes := [a] }, some { key := 1, nodes := [b] }], next := next } }
  | _ => none

def innerNames (o : Key) (inner : KState) : List (NodeId × String × Char) :=
  (inner.marker, s!"{o}.M", 'c') ::
    ((inner.w.storage.filterMap id).flatMap fun it => it.nodes.map fun n => (n, s!"{o}.{it.key}:0", 'e'))

/-- register the items built by the last op -/
def register (st : DState) (s : KState) : DState :=
  let built := (s.w.storage.filterMap id).filter fun it => s.w.log.builds.any (·.1 == it.key)
  if st.nested then
    built.foldl (fun st it =>
      match innerOf it s.parent s.w.kids s.w.next with
      | some inner =>
        { st with inners := (it.key, inner) :: st.inners.filter (·.1 != it.key),
                  names := st.names ++ innerNames it.key inner }
      | none => st) st
  else { st with names := st.names ++ namesOf st.kinds built }

def doInit (mode : String) (pre post : Nat) (shape : String) (keys : List Key) : Option (DState × String) :=
  match shapeKinds shape with
  | none => none
  | some kinds =>
    let isFor := mode == "initf" || mode == "inits" || mode == "initp"
    if isFor && !(shape == "1" || shape == "2" || shape == "3") then none else
    if mode == "inith" && (shape != "1" || pre > 1 || post > 1) then none else
    let preIds := List.range pre
    let s0 := build kinds.length keys preIds pre
    let s := if mode == "initu" then s0 else s0.mount none
    let postIds := List.range' s.w.next post
    let s := { s with w := { s.w with kids := s.w.kids ++ postIds, next := s.w.next + post } }
    let st : DState :=
      { pre := preIds.map fun i => (i, s!"P{i}"),
        post := (List.range post).map fun i => (s.w.next - post + i, s!"Q{i}"),
        kinds := kinds, isFor := isFor, nested := shape == "n", plain := mode == "initp", hyd := mode == "inith",
        owners := if mode == "initf" || mode == "initp" then some (ownersAfter (· * 100) [] s) else none,
        labels := if mode == "inits" then some (keys.map fun k => (k, k * 10)) else none }
    let st := register st s
    let v :=
      if s.w.log.builds != (List.range keys.length).zipWith (fun i k => (k, i)) keys then some "builds"
      else if (s.w.storage.filterMap id).map (·.key) != keys then some "storage"
      else if !domOrderOk st s (mounted s) then some "dom-order" else none
    some (finish st s v)

def doUpdate (st : DState) (s0 : KState) (to : List Key) : DState × String :=
  let s1 := rebuild s0 to
  let st := register st s1
  let st := { st with
    owners := st.owners.map fun o => ownersAfter (· * 100) o s1,
    labels := st.labels.map fun ls => to.map fun k =>
      (k, match ls.find? (·.1 == k) with | some (_, v) => v | none => k * 10),
    inners := st.inners.filter fun p => to.contains p.1 }
  -- the list is expected in the DOM iff it was there before
  finish st s1 (judgeUpdate st s0 s1 to (mounted s0)) (failedInsertions s0 s1 to)

/-- shape `n`: rebuild the inner list of the outer item `o` -/
def doInner (st : DState) (s0 : KState) (o : Key) (to : List Key) : DState × String :=
  match st.inners.find? (·.1 == o), (s0.w.storage.filterMap id).find? (·.key == o) with
  | some (_, inner0), some outerItem =>
    let inner0 := { inner0 with w := { inner0.w with kids := s0.w.kids, next := s0.w.next } }
    let inner1 := rebuild inner0 to
    let outerItem' : Item := { outerItem with nodes := blocksOf inner1.w.storage ++ [inner1.marker] }
    let s1 : KState :=
      { s0 with w := { s0.w with
          kids := inner1.w.kids, next := inner1.w.next, log := {},
          storage := s0.w.storage.map fun x => if x == some outerItem then some outerItem' else x } }
    let newNames := ((inner1.w.storage.filterMap id).filter fun it => inner1.w.log.builds.any (·.1 == it.key)).flatMap
      fun it => it.nodes.map fun n => (n, s!"{o}.{it.key}:0", 'e')
    let st := { st with names := st.names ++ newNames, inners := (o, inner1) :: st.inners.filter (·.1 != o) }
    -- the inner list's own clauses (storage, builds, identity, unmounts, set_index); the DOM clause is the outer one
    let v :=
      match judgeUpdate { st with pre := [], post := [] } inner0 inner1 to false with
      | some "dom-order" => none
      | some "dom-order-move-elided" => none
      | v => v
    let v := if v.isNone && !domOrderOk st s1 (mounted s1) then some "dom-order" else v
    let st := { st with ks := some s1, tainted := !domOrderOk st s1 (mounted s1) }
    (st, render st s1 inner1.w.log (failedInsertions inner0 inner1 to) ++ " ## " ++ verdictStr v)
  | _, _ => (st, "bad-op")

def splitSlash (ws : List String) : Option (List String × List String) :=
  match ws.span (· != "/") with
  | (a, _ :: b) => some (a, b)
  | _ => none

def nodupKeys (ks : List Nat) : Bool := ks.eraseDups.length == ks.length

def doMount (st : DState) (s0 : KState) (unmount : Bool) (mount : Option Nat) : DState × String :=
  let s0 := { s0 with w := { s0.w with log := {} } }
  let s1 := if unmount then s0.unmount else s0
  let (s2, st) :=
    match mount with
    | some jn =>
      let ref := (st.post[jn]?).map (·.1)
      (s1.mount ref, { st with pre := st.pre ++ st.post.take jn, post := st.post.drop jn,
                               inners := st.inners.map fun p => (p.1, { p.2 with parent := true }) })
    | none => (s1, st)
  finish st s2 (if !domOrderOk st s2 (mounted s2) then some "dom-order" else none)

def step (st : DState) (line : String) : DState × String :=
  match words line with
  | ["case", n] => ({}, s!"case {n}")
  | ["sib"] =>
    match (if st.isFor || st.hyd then none else st.ks) with
    | some s0 =>
      let child := s0.w.next
      let s0 := { s0 with w := { s0.w with next := s0.w.next + 1, log := {} } }
      let (s1, ok) := s0.insertBeforeThis child
      let isM := mounted s0
      -- a list that is not in the DOM answers `false` and inserts nothing
      let st := if isM then { st with pre := st.pre ++ [(child, s!"S{st.nsib}")], nsib := st.nsib + 1 } else st
      finish st s1 (if ok != isM then some "insert-before-this" else
        if !domOrderOk st s1 (mounted s1) then some (if st.tainted then "dom-order-move-elided" else "dom-order") else none)
    | none => (st, "bad-op")
  | ["unmount"] =>
    match (if st.isFor || st.hyd then none else st.ks) with
    | some s0 => doMount st s0 true none
    | none => (st, "bad-op")
  | [cmd, j] =>
    if cmd == "remount" || cmd == "mount" then
      match (if st.isFor || st.hyd then none else st.ks) with
      | some s0 =>
        match (if j == "e" then some st.post.length else j.toNat?) with
        | some jn => if jn > st.post.length then (st, "bad-op") else doMount st s0 (cmd == "remount") (some jn)
        | none => (st, "bad-op")
      | none => (st, "bad-op")
    else if cmd == "update" || cmd == "updset" || cmd == "updroot" || cmd == "inner" then
      -- one key / no key forms are handled below
      match cmd, st.ks, j.toNat? with
      | "inner", some s0, some o => if st.nested then doInner st s0 o [] else (st, "bad-op")
      | "inner", _, _ => (st, "bad-op")
      | _, some s0, some k =>
        if cmd != "update" && st.labels.isNone then (st, "bad-op") else doUpdate st s0 [k]
      | _, _, _ => (st, "bad-op")
    else (st, "bad-op")
  | ["bump", k, v] =>
    match st.ks, st.owners, k.toNat?, v.toNat? with
    | some s0, some o, some k, some v =>
      match (s0.w.storage.filterMap id).find? (·.key == k) with
      | some it =>
        let s1 := { s0 with w := { s0.w with log := {} } }
        let st := { st with owners := some (o.set it v) }
        finish st s1 (if !domOrderOk st s1 (mounted s1) then some "dom-order" else none)
      | none => (st, "bad-op")
    | _, _, _, _ => (st, "bad-op")
  | ["label", k, v] =>
    match st.ks, st.labels, k.toNat?, v.toNat? with
    | some s0, some ls, some k, some v =>
      if !s0.hashed.contains k then (st, "bad-op") else
      let s1 := { s0 with w := { s0.w with log := {} } }
      let st := { st with labels := some (ls.map fun p => if p.1 == k then (k, v) else p) }
      finish st s1 (if !domOrderOk st s1 (mounted s1) then some "dom-order" else none)
    | _, _, _, _ => (st, "bad-op")
  | cmd :: rest =>
    if cmd == "update" || cmd == "updset" || cmd == "updroot" then
      match st.ks, parseNats rest with
      | some s0, some ks =>
        if !nodupKeys ks || (cmd != "update" && st.labels.isNone) then (st, "bad-op") else doUpdate st s0 ks
      | _, _ => (st, "bad-op")
    else if cmd == "inner" then
      match st.ks, parseNats rest with
      | some s0, some (o :: ks) => if !st.nested || !nodupKeys ks then (st, "bad-op") else doInner st s0 o ks
      | _, _ => (st, "bad-op")
    else if cmd == "init" || cmd == "initf" || cmd == "initu" || cmd == "inits" || cmd == "initp" || cmd == "inith" then
      match rest with
      | p :: q :: b :: ks =>
        match p.toNat?, q.toNat?, parseNats ks with
        | some p, some q, some ks =>
          if p > 64 || q > 64 || !nodupKeys ks then (st, "bad-op") else
          match doInit cmd p q b ks with
          | some r => r
          | none => (st, "bad-op")
        | _, _, _ => (st, "bad-op")
      | _ => (st, "bad-op")
    else if cmd == "trans" || cmd == "transf" then
      match rest with
      | p :: q :: b :: ks =>
        match p.toNat?, q.toNat?, splitSlash ks with
        | some p, some q, some (f, t) =>
          match parseNats f, parseNats t with
          | some f, some t =>
            if p > 64 || q > 64 || !nodupKeys f || !nodupKeys t then (st, "bad-op") else
            match doInit (if cmd == "transf" then "initf" else "init") p q b f with
            | some (st1, _) =>
              match st1.ks with
              | some s0 => doUpdate st1 s0 t
              | none => (st, "bad-op")
            | none => (st, "bad-op")
          | _, _ => (st, "bad-op")
        | _, _, _ => (st, "bad-op")
      | _ => (st, "bad-op")
    else (st, "bad-op")
  | _ => (st, "bad-op")

/-- all output lines of one case (state is per case: `step` resets it at every `case` line) -/
def runCase (lines : Array String) : Array String :=
  (lines.foldl (fun (acc : DState × Array String) l =>
    let (st, o) := step acc.1 l
    (st, acc.2.push o)) ({}, #[])).2

partial def readCases (h : IO.FS.Stream) (cur : Array String) (acc : Array (Array String)) :
    IO (Array (Array String)) := do
  let line ← h.getLine
  if line.isEmpty then return (if cur.isEmpty then acc else acc.push cur)
  if line.startsWith "case " && !cur.isEmpty then readCases h #[line] (acc.push cur)
  else readCases h (cur.push line) acc

/-- same observable behaviour as `Leptos.Wire.runDriver step {}` (one output line per input line, in
order); the cases are independent, so they are evaluated as parallel tasks -/
def main : IO Unit := do
  let cases ← readCases (← IO.getStdin) #[] #[]
  let tasks := cases.map fun c => Task.spawn fun _ => runCase c
  let out ← IO.getStdout
  for t in tasks do
    for o in t.get do
      out.putStrLn o
  out.flush
