import LeptosModel.Model.Wire
import LeptosModel.Model.Router
/-! Line-protocol driver for C14 (op grammar: see harness/hx-c14/src/bin/c14.rs). -/
open Leptos Leptos.Wire Leptos.Router

namespace C14

def pathOfHex (h : String) : Option Path := do
  let bs ← bytesOfHex h
  let s ← String.fromUTF8? (ByteArray.mk (bs.map UInt8.ofNat).toArray)
  pure s.toList

def hexOfPath (p : Path) : String :=
  hexOfBytes ((String.ofList p).toUTF8.toList.map (·.toNat))

def nameOk (n : List Char) : Bool :=
  !n.isEmpty && n.all fun c => (97 ≤ c.toNat && c.toNat ≤ 122) || (48 ≤ c.toNat && c.toNat ≤ 57)

def digit? : List Char → Option Nat
  | [c] => if 48 ≤ c.toNat && c.toNat ≤ 57 then some (c.toNat - 48) else none
  | _ => none

mutual
def parseSeg : Nat → List String → Option (Seg × List String)
  | 0, _ => none
  | _, [] => none
  | f + 1, tok :: rest =>
    match tok.toList with
    | 's' :: body => (pathOfHex (String.ofList body)).map fun p => (.st p, rest)
    | 'p' :: body => if nameOk body then some (.param body, rest) else none
    | 'o' :: body => if nameOk body then some (.opt body, rest) else none
    | 'w' :: body => if nameOk body then some (.splat body, rest) else none
    | 't' :: body =>
      match digit? body with
      | some n => if n ≤ 6 then (parseSegs f n rest).map fun (l, r) => (.tup l, r) else none
      | none => none
    | _ => none
def parseSegs : Nat → Nat → List String → Option (List Seg × List String)
  | _, 0, rest => some ([], rest)
  | 0, _ + 1, _ => none
  | f + 1, n + 1, rest =>
    match parseSeg f rest with
    | some (s, r) => (parseSegs f n r).map fun (l, r') => (s :: l, r')
    | none => none
end

/-- `<digit>[<mode letter>]` after `R`/`V`; `seq` = the preorder index of the route (identity of its
`StaticRoute`) -/
def countMode? (seq : Nat) : List Char → Option (Nat × Mode)
  | [c] => (digit? [c]).map fun n => (n, .outOfOrder)
  | [c, m] =>
    match digit? [c], m with
    | some n, 'p' => some (n, .partiallyBlocked)
    | some n, 'i' => some (n, .inOrder)
    | some n, 'a' => some (n, .async)
    | some n, 's' => some (n, .static seq false)
    | some n, 'g' => some (n, .static seq true)
    | _, _ => none
  | _ => none

mutual
def parseRoute : Nat → Nat → List String → Option (RouteM × List String × Nat)
  | 0, _, _ => none
  | _, _, [] => none
  | f + 1, seq, tok :: rest =>
    match tok.toList with
    | k :: body =>
      match countMode? seq body with
      | some (n, mode) =>
        if (k = 'R' ∧ n ≤ 4) ∨ (k = 'V' ∧ n ≤ 8) then
          match parseSeg (2 * rest.length + 8) rest with
          | some (s, r) => (parseRoutes f (seq + 1) n r).map fun (cs, r', q) => (.mk s mode cs, r', q)
          | none => none
        else none
      | none => none
    | [] => none
def parseRoutes : Nat → Nat → Nat → List String → Option (List RouteM × List String × Nat)
  | _, seq, 0, rest => some ([], rest, seq)
  | 0, _, _ + 1, _ => none
  | f + 1, seq, n + 1, rest =>
    match parseRoute f seq rest with
    | some (c, r, q) => (parseRoutes f q n r).map fun (l, r', q') => (c :: l, r', q')
    | none => none
end

def parseDefs (base tree : String) : Option DefsM := do
  let b ← if base == "~" then some none else (pathOfHex base).map some
  match tree.splitOn "," with
  | top :: rest =>
    match top.toList with
    | k :: body =>
      let n ← digit? body
      if n ≥ 1 ∧ ((k = 'T' ∧ n ≤ 4) ∨ (k = 'V' ∧ n ≤ 8)) then
        match parseRoutes (2 * rest.length + 8) 0 n rest with
        | some (tops, [], _) => some ⟨b, tops⟩
        | _ => none
      else none
    | [] => none
  | [] => none

def showFSeg : FSeg → String
  | .st s => "s" ++ hexOfPath s
  | .param n => "p" ++ String.ofList n
  | .opt n => "o" ++ String.ofList n
  | .splat n => "w" ++ String.ofList n

def showFlat (rs : List (List FSeg)) : String :=
  if rs.isEmpty then "!" else
  "|".intercalate (rs.map fun r => if r.isEmpty then "_" else ".".intercalate (r.map showFSeg))

def showMode : Mode → String
  | .outOfOrder => "o" | .partiallyBlocked => "p" | .inOrder => "i" | .async => "a"
  | .static id _ => s!"s{id}"

def showMethods (ms : List Method) : String :=
  if ms.isEmpty then "-" else
  -- sorted initials: A(patch) D(elete) G(et) P(ost) U(put)
  String.join ([(Method.patch, "A"), (.delete, "D"), (.get, "G"), (.post, "P"), (.put, "U")].filterMap
    fun (m, s) => if ms.contains m then some s else none)

def showGen (gs : List GenRoute) : String :=
  if gs.isEmpty then "!" else
  "|".intercalate (gs.map fun g =>
    (if g.segments.isEmpty then "_" else ".".intercalate (g.segments.map showFSeg)) ++ "@" ++ showMode g.mode ++ "~" ++
    (if g.regen.isEmpty then "-" else ".".intercalate (g.regen.map toString)) ++ "~" ++ showMethods g.methods)

def showParams (p : Params) : String :=
  if p.isEmpty then "-" else
  ",".intercalate (p.map fun (k, v) => String.ofList k ++ "=" ++ hexOfPath v)

def showOut : Out NMatch → String
  | .panic => "panic"
  | .none => "none"
  | .some m =>
    "m " ++ "/".intercalate (m.chain.map fun (i, s) => toString i ++ ":" ++ hexOfPath s) ++ " " ++ showParams m.params

def kindName : Kind → String
  | .panic => "panic" | .flatOnly => "flat-only" | .routerOnly => "router-only"
  | .winner => "winner" | .params => "params" | .winnerUnknown => "winner-unknown"

def className : Class → String
  | .slashParent => "slash-parent"
  | .optionalParent => "optional-parent"
  | .optionalBackoffOrder => "optional-backoff-order"
  | .nestedOptionalTuple => "nested-optional-tuple"
  | .unclassified k => "unclassified-" ++ kindName k

def verdict (d : Defs) (path : Path) (got : Out NMatch) : String :=
  -- a request path starts with '/'; anything else is outside the property
  if !startsSlash path then "ok" else
  match judge d path got with
  | none => "ok"
  | some kind => "fail " ++ className (classify d path kind)

structure St where
  defs : Option Defs := none

def expandOk (flat : List (List FSeg)) : Bool :=
  flat.all fun f =>
    let e := expandOptionals f
    e.length == 2 ^ countOptF f && e.all fun x => x.all fun s => !s.isOpt

def step (st : St) (line : String) : St × String :=
  match words line with
  | ["case", n] => ({}, s!"case {n}")
  | ["routes", base, tree] =>
    match parseDefs base tree with
    | none => (st, "bad-op")
    | some dm =>
      -- the table with its modes; everything else works on the mode-free tree
      -- (C14_ssr_mode_path_independent: same segment lists)
      let gens := genMList dm.tops
      let d := dm.erase
      let flat := genList d.tops
      let exp := flat.flatMap expandOptionals
      let v := if expandOk flat then "ok" else "fail expand"
      ({ defs := some d }, s!"flat {showGen gens} exp {showFlat exp} ## {v}")
  | ["match", p] =>
    match pathOfHex p, st.defs with
    | some path, some d =>
      let got := matchRoute .cur d path
      (st, s!"{showOut got} ## {verdict d path got}")
    | _, _ => (st, "bad-op")
  | ["seg", tree, p] =>
    match pathOfHex p, parseSeg 256 (tree.splitOn ",") with
    | some path, some (s, []) =>
      let out :=
        match s.test .cur path with
        | .panic => "panic ## fail unclassified-panic"
        | .none => "none ## ok"
        | .some m =>
          let v :=
            if m.matched ++ m.remaining != path then "fail unclassified-partition"
            else if m.params.any (fun (k, v) => k.head? != some 'w' && v.contains '/') then "fail unclassified-param-has-slash"
            else "ok"
          s!"some {hexOfPath m.matched} {hexOfPath m.remaining} {showParams m.params} ## {v}"
      (st, out)
    | _, _ => (st, "bad-op")
  | ["build", i, vals] =>
    match st.defs, i.toNat? with
    | some d, some i =>
      let exp := (expandedPerDef d).flatMap id
      let vs : Option (List Path) := if vals == "~" then some [] else (vals.splitOn ",").mapM pathOfHex
      match vs, exp[i]? with
      | some vs, some route =>
        let names := route.filterMap fun s => match s with | .param n => some n | .splat n => some n | _ => none
        if names.length != vs.length || names.eraseDups.length != names.length then (st, "bad-op") else
        match buildPath route vs with
        | none => (st, "built0 ## fail unclassified-build-count")
        | some path =>
          let got := matchRoute .cur d path
          let want := names.zip vs
          let v0 := verdict d path got
          let v :=
            if v0 != "ok" || !startsSlash path then v0
            else if flatMatchStrict route path != some want then "fail unclassified-build-not-flat"
            else match got with
              | .some _ => "ok"
              | _ => "fail unclassified-build-no-match"
          (st, s!"{hexOfPath path} {showOut got} ## {v}")
      | _, _ => (st, "bad-op")
    | _, _ => (st, "bad-op")
  | _ => (st, "bad-op")

end C14

def main : IO Unit := runDriver C14.step {}
