import LeptosModel.Model.Wire
import LeptosModel.Model.Async
import LeptosModel.Model.AsyncPause
/-! Line-protocol driver for C10 (see harness/hx-c10/src/bin/c10.rs for the op grammar). -/
open Leptos Leptos.Wire Leptos.Async

def showOpt : Option Nat → String
  | none => "-"
  | some v => toString v

def showB (b : Bool) : String := if b then "1" else "0"

def showTask : TaskId → String
  | .t0 => "t0"
  | .d => "d"
  | .e => "e"
  | .a i => s!"a{i}"

def showList (xs : List String) (sep : String) : String :=
  if xs.isEmpty then "-" else sep.intercalate xs

/-- awaiters and reader tasks are numbered separately, each in spawn order -/
def taskName (s : State) : TaskId → String
  | .t0 => "t0"
  | .d => "d"
  | .e => "e"
  | .a i =>
    match s.aws[i]? with
    | some a =>
      let cls (k : AwKind) : Nat :=
        match k with | .awaiter => 0 | .awaiterR => 0 | .reader => 1 | .tick => 2 | .saw => 3 | .holder => 4
      let k := ((s.aws.take i).filter fun b => cls b.kind == cls a.kind).length
      match a.kind with
      | .reader => "r" ++ toString k
      | .awaiter => "a" ++ toString k
      | .awaiterR => "a" ++ toString k
      | .holder => "h" ++ toString k
      | .saw => "s" ++ toString k
      | .tick => "t" ++ toString (k + 1)
    | none => "?"

def obs (s : State) : String :=
  let rl := showList ((readyList s).map (taskName s)) ","
  let fin := showList (s.curInputs.map toString) "."
  let aw := showList ((s.aws.filter fun a =>
      a.kind == .awaiter || a.kind == .awaiterR || a.kind == .saw || a.kind == .holder).map fun a =>
    if a.done || a.holding then (if a.aborted then "x" else showOpt a.result) else "-") ","
  -- while a guard on the value is held the harness does not read it synchronously (that can block the thread)
  let val := if s.guards = 0 && !s.lockReg then showOpt s.value else "~"
  let eff := showList (s.eLog.map fun (d, m) => s!"{showOpt d}:{showOpt m}") ";"
  let v := match oracle s with | none => "ok" | some c => s!"fail {c}"
  s!"rl={rl} val={val} ld={showB s.loading} nf={s.nf} fin={fin} aw={aw} eff={eff} bp={s.pending} ## {v}"

def kinds : List String := ["arc", "arena", "arc-unsync", "arena-unsync"]
def resKinds : List String := ["res", "res-arc", "res-blocking"]
def onceKinds : List String := ["once", "once-arc"]
def localKinds : List String := ["local", "local-arc"]

def parseEff : String → Option EffKind
  | "none" => some .none
  | "d" => some .d
  | "dm" => some .dm
  | "md" => some .md
  -- a dependent that peeks (`by_ref()` / `.await` polled once with `now_or_never()` and dropped): on a first load it
  -- reads what `get()` reads and must subscribe the same way
  | "dp" => some .d
  | "dq" => some .d
  -- a synchronous observer (ImmediateEffect) is implementation-side only: no task, nothing the model shows
  | "i" => some .none
  | _ => none

def parseCfg4 (kind srcs ini eff : String) (via : Bool) : Option Cfg :=
  let res := resKinds.contains kind
  let once := onceKinds.contains kind
  let loc := localKinds.contains kind
  if !(kinds.contains kind || res || once || loc) then none else
  match (srcs.splitOn ",").mapM String.toNat?, parseEff eff with
  | some vs, some e =>
    if vs.isEmpty || vs.length > 3 then none else
    if ini == "-" then
      some { srcs := vs, init := none, eff := e, viaMemo := via, res := res, once := once, isLocal := loc }
    else if res || once || loc then none
    else ini.toNat?.map fun v => { srcs := vs, init := some v, eff := e, viaMemo := via }
  | _, _ => none

def parseRd (k : Nat) (tok : String) : Option Rd :=
  if tok == "X" then (if k ≥ 2 then some .idx else none)
  else match tok.toList with
    | 'R' :: ds => (String.ofList ds).toNat?.bind fun i => if i < k then some (.src i) else none
    | 'C' :: ds => (String.ofList ds).toNat?.bind fun i => if i < k then some (.ifFlag i) else none
    | _ => none

def parseRds (k : Nat) (s : String) : Option (List Rd) :=
  if s == "-" then some [] else (s.splitOn ".").mapM (parseRd k)

/-- `<body>/<pre-await>/<post-await>`: body and pre-await reads both happen when the future is created -/
def parseFx (k : Nat) (s : String) : Option Fetcher :=
  match s.splitOn "/" with
  | [b, p, a] =>
    match parseRds k b, parseRds k p, parseRds k a with
    | some b, some p, some a => some { sync := b ++ p, post := a }
    | _, _, _ => none
  | _ => none

/-- `kind~chain`: the handle under test is obtained from the constructed one by the conversions in `chain`
(`a` = into the `Arc…` type, `r` = into the arena type, `c` = clone): the same handle as far as the model goes -/
def stripConv (kind : String) : Option String :=
  match kind.splitOn "~" with
  | [k] => some k
  | [k, chain] =>
    if chain.length > 0 && chain.length ≤ 4 && chain.toList.all (fun c => c == 'a' || c == 'r' || c == 'c')
      && !(onceKinds.contains k) then some k else none
  | _ => none

def parseCfg (w0 : List String) : Option Cfg :=
  match w0 with
  | [] => none
  | kind0 :: rest0 =>
  match stripConv kind0 with
  | none => none
  | some kind1 =>
  let w := kind1 :: rest0
  match w with
  | [kind, srcs, ini, eff] => parseCfg4 kind srcs ini eff false
  | [kind, srcs, ini, eff, via] =>
    if !kinds.contains kind then none
    else if via == "sig" then parseCfg4 kind srcs ini eff false
    else if via == "memo" then parseCfg4 kind srcs ini eff true
    else none
  | [kind, srcs, ini, eff, via, fx] =>
    if !kinds.contains kind || via != "sig" then none
    else match parseCfg4 kind srcs ini eff false with
      | some c => (parseFx c.srcs.length fx).map fun f => { c with fx := some f }
      | none => none
  | _ => none

/-- `false`: the code as it is (known finding F-C10-3: registrations and task ids outlive their readers).
hooks/fix-c10-3.check.sh flips this to `true` in a scratch copy to check the proposed repair
hooks/fix-c10-3.patch against the model of the repaired code (`stepF true`). -/
def repaired3 : Bool := false

/-- guards on the value are driven on plain configurations only: no subscriber effect (its run reads the value
synchronously: it would block the thread while the task waits for the lock), a fetcher that reads nothing after its
await, no manual writes in the same case (`blocking_write`), not on once / local resources (no `by_ref()`) -/
def guardsOk (s : State) : Bool :=
  s.eff == .none && !s.once && !s.isLocal && s.fx.post.isEmpty && s.lastManual.isNone

def usedGuards (s : State) : Bool := s.guards != 0 || s.aws.any fun a => a.kind == .holder

def stepOp (s : State) (w : List String) : Option State :=
  if (w == ["attach", "h"] || w == ["hold"]) && !guardsOk s then none else
  if w.head? == some "mset" && usedGuards s then none else
  -- synchronous accesses while a guard is held (or the task waits for the lock) are not made: they can block the
  -- thread for good; the op is skipped
  if (s.guards != 0 || s.lockReg) && (w == ["bread"] || w == ["get"] || w == ["hold"]) then some s else
  -- a `OnceResource` has no sources to write, no `refetch`, no `Write` impl and no `by_ref`
  if s.once && (w.head? == some "set" || w.head? == some "refetch" || w.head? == some "mset" ||
      w == ["attach", "b"] || w == ["attach", "s"]) then none else
  -- a `LocalResource` has no `Write` impl, no `ready()`, no `by_ref()`
  if s.isLocal && (w.head? == some "mset" || w == ["attach", "b"] || w == ["attach", "r"]) then none else
  match w with
  | ["set", i, v] =>
    match i.toNat?, v.toNat? with
    | some i, some v => some (step s (.set i v))
    | _, _ => none
  | ["refetch"] => some (step s .refetch)
  | ["mset", v] => v.toNat?.map fun v => step s (.manualSet v)
  | ["complete", f] =>
    if f == "last" then some (step s (.complete (s.nf - 1)))
    else f.toNat?.map fun f => step s (.complete f)
  | ["attach"] => some (step s .attach)
  | ["attach", k] =>
    if k == "v" || k == "b" then some (step s .attach)
    else if k == "r" then some (step s .attachR)
    else if k == "h" then some (step s .attachH)
    else if k == "s" then some (step s .attachS)
    else none
  | ["bdrop"] => some (stepF repaired3 s .bdrop)
  | ["poll", j] => j.toNat?.map fun j => step s (.poll j)
  | ["idle"] => some (runIdle (4 * s.aws.length + 16) s)
  | ["get"] => some (step s .get)
  | ["bread"] => some (step s .bread)
  | ["hold"] => some (step s .hold)
  | ["release"] => some (step s .release)
  | _ => none

/-! ## a paused owner (`Owner::pause` / `resume`), driver level

`spawn_derived!`: `let update_if_necessary = !owner.paused() && needs_rerun(..)`: while the derived's owner is paused the
task still consumes its notification but does not look at its sources (its `Dirty` state stays) and does not run the
fetcher; it looks again when it is NOTIFIED again after `resume`.  The paused poll is `Model/AsyncPause.pollDPaused`
(an extension next to `Model/Async.step`; state-level theorems in Theorems/C10Pause.lean); the history-level theorems
of Theorems/C10.lean are about histories without `pause` (a paused history leaves `Inv`: `Dirty` with the channel flag
cleared).  Driven after the first run only, without effect, manual writes and guards. -/

structure DS where
  s : State
  paused : Bool := false
  usedPause : Bool := false
  /-- the task consumed a notification while paused and no source write has been made since with the owner running:
  the derived may stay on its old value "until notified again" -/
  missed : Bool := false
  /-- the subscriber peeks (`dp` / `dq`): no reloads are driven -/
  peek : Bool := false
  /-- a synchronous observer is installed (`i`): no manual writes, guards or pauses are driven -/
  imm : Bool := false

/-- `poll j`: the model's step under a paused / running owner (`Model/AsyncPause.pollNthP`, `pollDPaused`:
theorems in Theorems/C10Pause.lean) -/
def pollNthDS (d : DS) (j : Nat) : DS :=
  let r := Leptos.Async.pollNthP d.paused d.s j
  { d with s := r.1, missed := d.missed || r.2 }

def runIdleP : Nat → DS → DS
  | 0, d => d
  | n + 1, d => if (readyList d.s).isEmpty then d else runIdleP n (pollNthDS d 0)

def obsP (d : DS) : String :=
  let o := obs d.s
  -- "until notified again": a stale value is what a paused owner's derived is allowed to keep
  if d.missed && oracle d.s == some "stale" then (o.dropRight "fail stale".length) ++ "ok" else o

def stepOpP (d : DS) (w : List String) : Option DS :=
  let s := d.s
  let plain := s.eff == .none && !s.once && !s.isLocal && s.lastManual.isNone && !usedGuards s
  if d.peek && (w.head? == some "set" || w.head? == some "refetch" || w.head? == some "mset") then none else
  if d.imm && (w.head? == some "mset" || w == ["attach", "h"] || w == ["hold"] || w == ["pause"] || w == ["resume"])
    then none else
  if (w == ["pause"] || w == ["resume"]) && !(plain && !s.firstRun) then none else
  if d.usedPause && (w.head? == some "mset" || w == ["attach", "h"] || w == ["hold"]) then none else
  match w with
  | ["pause"] => some { d with paused := true, usedPause := true }
  | ["resume"] => some { d with paused := false }
  | ["poll", j] => j.toNat?.map fun j => pollNthDS d j
  | ["idle"] => some (runIdleP (4 * s.aws.length + 16) d)
  | ["set", i, _] =>
    (stepOp s w).map fun s' =>
      { d with s := s', missed := if (i.toNat?.map fun k => decide (k < s.src.length)) == some true then d.paused else d.missed }
  | ["refetch"] => (stepOp s w).map fun s' => { d with s := s', missed := d.paused }
  | _ => (stepOp s w).map fun s' => { d with s := s' }

/-- cfg kind `k!n` / `k!!n`: the derived's function writes its own source (to `n`, while it is below `n`) during its
first synchronous run.  From the model's point of view that is the history "create, then `set` before the first
poll" (`!`: the initial future is pending); with an initial future that is ready at once (`!!`: the constructor stores
its value, loading is off, the task has been spawned and never polled) it is "first load done, task woken, then `set`". -/
def parseSelfWrite (kind : String) : Option (String × Option (Nat × Bool)) :=
  match kind.splitOn "!" with
  | [k] => some (k, none)
  | [k, n] => n.toNat?.map fun n => (k, some (n, false))
  | [k, "", n] => n.toNat?.map fun n => (k, some (n, true))
  | _ => none

def selfWriteInit (c : Cfg) (n : Nat) (instant : Bool) : State :=
  let s0 := init c
  let v := s0.src.headD 0
  if instant then
    let s := step (step (step s0 (.poll 0)) (.complete 0)) (.poll 0)
    let s := { s with dWoken := true, reg := false }
    if v < n then step s (.set 0 n) else s
  else if v < n then step s0 (.set 0 n) else s0

def stepLine (d : Option DS) (line : String) : Option DS × String :=
  match words line with
  | ["case", n] => (none, s!"case {n}")
  | "cfg" :: kind0 :: rest0 =>
    let rest := kind0 :: rest0
    match parseSelfWrite kind0 with
    | none => (d, "bad-op")
    | some (k, some (n, instant)) =>
      if d.isSome || !(kinds.contains k) || rest0.length != 3 || rest0[1]? != some "-" || rest0[2]? != some "none"
          || (rest0[0]? |>.map (·.contains ',')) != some false then (d, "bad-op")
      else match parseCfg (k :: rest0) with
        | some c => (some { s := selfWriteInit c n instant }, " ".intercalate ("cfg" :: rest))
        | none => (d, "bad-op")
    | some (_, none) =>
    match d, parseCfg rest with
    | none, some c =>
      let peek := rest[3]? == some "dp" || rest[3]? == some "dq"
      if peek && (rest.length != 4 || rest[2]? != some "-" || c.once || c.isLocal) then (d, "bad-op")
      else (some { s := init c, peek := peek, imm := rest[3]? == some "i" }, " ".intercalate ("cfg" :: rest))
    | _, _ => (d, "bad-op")
  | w =>
    match d with
    | none => (d, "bad-op")
    | some ds =>
      match stepOpP ds w with
      | some d' => (some d', obsP d')
      | none => (d, "bad-op")

def main : IO Unit := runDriver stepLine none
