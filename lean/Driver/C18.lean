import LeptosModel.Model.Wire
import LeptosModel.Model.Html
import LeptosModel.Model.Macro
/-!
Line-protocol driver for C18 (op grammar and AST encoding: harness/hx-c18/src/shape.rs, src/bin/c18.rs).

  case <n>
  tmpl <k> <variant> <ast>     -- the model prints `macroHtml ast` (k and variant only name the compiled shape)
  agree <site|-> <hex>         -- the renders of variants 0, 1, 2 of this case agree after normalisation

Output of `tmpl`: `<hex of macroHtml> <in-order stream> <out-of-order stream> ## ok | fail <class>` (a stream is
`=` when byte-identical to `macroHtml`, else its hex); the verdict is, for each of the three,
`normalize (parse (macroHtml t)) == some (denote t)` (SVG tags parsed as custom elements `x-<tag>`);
the class of a failing input is `findingClass` (Model/Macro Part 5).
-/
open Leptos Leptos.Wire Leptos.Html Leptos.Macro

def hexOfStr (s : Str) : String :=
  hexOfBytes ((String.ofList s).toUTF8.toList.map (fun b => b.toNat))

def strOfHexChars (cs : List Char) : Option Str := do
  let bs ← bytesOfHexChars cs
  let ba := ByteArray.mk (bs.map (fun n => UInt8.ofNat n)).toArray
  let s ← String.fromUTF8? ba
  pure s.toList

def untilSemi : List Char → Option (List Char × List Char)
  | [] => none
  | c :: cs => if c = ';' then some ([], cs) else (untilSemi cs).map fun (a, b) => (c :: a, b)

def hexField (cs : List Char) : Option (Str × List Char) := do
  let (h, rest) ← untilSemi cs
  let s ← strOfHexChars h
  pure (s, rest)

def bitField : List Char → Option (Bool × List Char)
  | '0' :: r => some (false, r)
  | '1' :: r => some (true, r)
  | _ => none

/-- what an int / float / char literal renders as: its source text, a char without the quotes -/
def litRendered (src : Str) : Str :=
  match src with
  | '\'' :: r => (match r.reverse with | '\'' :: m => m.reverse | _ => src)
  | _ => src

partial def parseAttrs (cs : List Char) (acc : List TAttr) : Option (List TAttr × List Char) :=
  match cs with
  | '>' :: r => some (acc.reverse, r)
  | 'A' :: r => do
    let (d, r) ← bitField r
    let (n, r) ← hexField r
    let (v, r) ← hexField r
    parseAttrs r (.plain d n v :: acc)
  | 'G' :: r => do
    let (n, r) ← hexField r
    parseAttrs r (.flag n :: acc)
  | 'b' :: r => do
    let (n, r) ← hexField r
    let (b, r) ← bitField r
    parseAttrs r (.boolDyn n b :: acc)
  | 'C' :: r => do
    let (d, r) ← bitField r
    let (v, r) ← hexField r
    parseAttrs r (.cls d v :: acc)
  | 'S' :: r => do
    let (d, r) ← bitField r
    let (v, r) ← hexField r
    parseAttrs r (.style d v :: acc)
  | 'D' :: r => do
    let (n, r) ← hexField r
    let (b, r) ← bitField r
    parseAttrs r (.clsToggle n b :: acc)
  | 'U' :: r => do
    let (n, r) ← hexField r
    let (b, r) ← bitField r
    parseAttrs r (.clsTuple n b :: acc)
  | 'K' :: r => do
    let (d, r) ← bitField r
    let (n, r) ← hexField r
    let (v, r) ← hexField r
    parseAttrs r (.styleKV d n v :: acc)
  -- non-string literals: `is_inert_element` only accepts `Lit::Str`, `attribute_value` passes any literal on
  -- as the expression it is, so for the macro `name=false` is `name={false}` and `name=2` is `name={2}`
  -- (tachys renders numbers / chars with `to_string()`)
  | 'L' :: r => do
    let (n, r) ← hexField r
    let (b, r) ← bitField r
    parseAttrs r (.boolDyn n b :: acc)
  | 'N' :: r => do
    let (n, r) ← hexField r
    let (v, r) ← hexField r
    parseAttrs r (.plain true n (litRendered v) :: acc)
  | _ => none

partial def parseNodes (top : Bool) (cs : List Char) (acc : List Tmpl) : Option (List Tmpl × List Char) :=
  match cs with
  | [] => if top then some (acc.reverse, []) else none
  | '<' :: r => if top then none else some (acc.reverse, r)
  | 'T' :: r => do
    let (s, r) ← hexField r
    parseNodes top r (.text s :: acc)
  | 'B' :: r => do
    let (s, r) ← hexField r
    parseNodes top r (.block s :: acc)
  | 'F' :: r => do
    let (kids, r) ← parseNodes false r []
    parseNodes top r (.frag kids :: acc)
  | 'W' :: r => do
    let (kids, r) ← parseNodes false r []
    parseNodes top r (.comp kids :: acc)
  | 'M' :: r => do
    let (c, r) ← hexField r
    parseNodes top r (.comment c :: acc)
  | 'Y' :: r => parseNodes top r (.doctype :: acc)
  -- `{()}` / `{}` / statement-only block / `{None::<String>}` / empty Vec (the digit names the source form)
  | 'V' :: _ :: r => parseNodes top r (.unit :: acc)
  -- a component with spread attributes: 'Q' ('0' Wrap | '1' Card) attr* '>' node* '<'
  | 'Q' :: r => do
    let (card, r) ← bitField r
    let (attrs, r) ← parseAttrs r []
    let (kids, r) ← parseNodes false r []
    parseNodes top r (.compA card attrs kids :: acc)
  | 'E' :: r => do
    let (tag, r) ← untilSemi r
    if tag.isEmpty || !tag.all nameChar then none
    let (attrs, r) ← parseAttrs r []
    let (kids, r) ← parseNodes false r []
    parseNodes top r (.elem tag attrs kids :: acc)
  | _ => none

def decodeTmpl (w : String) : Option (List Tmpl) :=
  if w == "-" then some [] else
  match parseNodes true w.toList [] with
  | some (ns, []) => some ns
  | _ => none

/-! SVG and MathML elements are foreign content (outside `parse`'s subset); leptos emits neither `/>` nor CDATA, so
they tokenise like unknown HTML elements: the oracle parses them as custom elements `x-<tag>`. -/

def svgFamily : List Str :=
  [['s','v','g'], ['g'], ['c','i','r','c','l','e'], ['r','e','c','t'], ['p','a','t','h'],
   ['m','a','t','h'], ['m','r','o','w'], ['m','i'], ['m','o'], ['m','n'], ['p','r','e']]

def renTag (t : Str) : Str := if svgFamily.contains t then 'x' :: '-' :: t else t

def takeName : List Char → Str × List Char
  | [] => ([], [])
  | c :: cs =>
    if isAlnum c || c = '-' then
      let (n, r) := takeName cs
      (c :: n, r)
    else ([], c :: cs)

partial def renameSvg : List Char → List Char
  | [] => []
  | '<' :: '/' :: rest =>
    let (n, r) := takeName rest
    '<' :: '/' :: renTag n ++ renameSvg r
  | '<' :: rest =>
    let (n, r) := takeName rest
    '<' :: renTag n ++ renameSvg r
  | c :: rest => c :: renameSvg rest

partial def renTmpl : Tmpl → Tmpl
  | .elem tag attrs kids => .elem (renTag tag) attrs (kids.map renTmpl)
  | .frag kids => .frag (kids.map renTmpl)
  | .comp kids => .comp (kids.map renTmpl)
  | .compA c a kids => .compA c a (kids.map renTmpl)
  | t => t

/-- a leading `<!DOCTYPE html>` is outside the parser subset and not part of the tree -/
def stripDoctype (h : Str) : Str := if sDoctype.isPrefixOf h then h.drop sDoctype.length else h

/-- one flag per `<noscript>` of the template, in document order: does it have element children?  Such a
noscript is read as a user agent WITHOUT scripting reads it (its content is markup), a noscript with only
strings as `parse` (scripting enabled) reads it: raw text. -/
partial def hasElem : List Tmpl → Bool
  | [] => false
  | .elem _ _ _ :: _ => true
  | .comp _ :: _ => true
  | .compA _ _ _ :: _ => true
  | .frag k :: r => hasElem k || hasElem r
  | _ :: r => hasElem r

partial def noscriptFlags : List Tmpl → List Bool
  | [] => []
  | .elem tag _ kids :: r => (if tag = tNoscript then [hasElem kids] else []) ++ noscriptFlags kids ++ noscriptFlags r
  | .frag k :: r => noscriptFlags k ++ noscriptFlags r
  | .comp k :: r => noscriptFlags k ++ noscriptFlags r
  | .compA _ _ k :: r => noscriptFlags k ++ noscriptFlags r
  | _ :: r => noscriptFlags r

/-- re-parse the raw text of the flagged `<noscript>` elements as markup (document order) -/
partial def reparse : List Tree → List Bool → Option (List Tree × List Bool)
  | [], fl => some ([], fl)
  | .elem tag as ks :: r, fl => do
    let (ks1, fl1) ←
      if tag = tNoscript then
        match fl with
        | true :: fl' =>
          (match ks with
           | [] => some ([], fl')
           | [.text t] => (parse t).map (fun x => (x, fl'))
           | _ => none)
        | _ :: fl' => some (ks, fl')
        | [] => some (ks, [])
      else some (ks, fl)
    let (ks2, fl2) ← reparse ks1 fl1
    let (r', fl3) ← reparse r fl2
    some (.elem tag as ks2 :: r', fl3)
  | t :: r, fl => do
    let (r', fl') ← reparse r fl
    some (t :: r', fl')

def parseNorm (flags : List Bool) (html : Str) : Option (List Tree) :=
  match parse (renameSvg (stripDoctype html)) with
  | some t => (reparse t flags).map (fun x => Leptos.Macro.normList x.1)
  | none => none

def className : Option Nat → String
  | some 0 => "noscript-inert"
  | some 1 => "rawtext-marker"
  | some 2 => "class-unicode-ws"
  | some 3 => "empty-text"
  | _ => "unexpected"

def appendText (ks : List Tree) (v : Str) : List Tree :=
  if v = [] then ks else
  match ks.reverse with
  | .text s :: r => (Tree.text (s ++ v) :: r).reverse
  | _ => ks ++ [.text v]

/-- append `v` as text to the children of the `site`-th element (pre-order) -/
partial def appendAt (site : Nat) (v : Str) (next : Nat) : List Tree → Option (List Tree) × Nat
  | [] => (none, next)
  | .elem tag as ks :: r =>
    if next = site then (some (.elem tag as (appendText ks v) :: r), next + 1)
    else
      match appendAt site v (next + 1) ks with
      | (some ks', n) => (some (.elem tag as ks' :: r), n)
      | (none, n) =>
        match appendAt site v n r with
        | (some r', n') => (some (.elem tag as ks :: r'), n')
        | (none, n') => (none, n')
  | t :: r =>
    match appendAt site v next r with
    | (some r', n) => (some (t :: r'), n)
    | (none, n) => (none, n)

structure St where
  seen : List (Nat × Option (List Tree)) := []
  failed : Option String := none

def lookup (v : Nat) (l : List (Nat × Option (List Tree))) : Option (Option (List Tree)) :=
  (l.find? (fun p => p.1 == v)).map (·.2)

def step (st : St) (line : String) : St × String :=
  match words line with
  | ["case", n] => ({}, s!"case {n}")
  | ["tmpl", k, v, ast] =>
    match k.toNat?, v.toNat?, decodeTmpl ast with
    | some _, some v, some ts =>
      if v > 2 then (st, "bad-op") else
      let html := macroHtml ts
      let inOrder := macroHtmlStream false ts
      let outOfOrder := macroHtmlStream true ts
      let flags := noscriptFlags ts
      let got := parseNorm flags html
      let want := denote (ts.map renTmpl)
      let ok := got == some want && parseNorm flags inOrder == some want && parseNorm flags outOfOrder == some want
      let showS := fun (o : Str) => if o == html then "=" else hexOfStr o
      let cls := className (findingClass ts)
      let st' : St := { seen := (v, got) :: st.seen.filter (fun p => p.1 != v),
                        failed := (if ok then st.failed else match st.failed with | some c => some c | none => some cls) }
      (st', s!"{hexOfStr html} {showS inOrder} {showS outOfOrder} ## {if ok then "ok" else "fail " ++ cls}")
    | _, _, _ => (st, "bad-op")
  | ["agree", site, extra] =>
    let site? : Option (Option Nat) := if site == "-" then some none else site.toNat?.map some
    match site?, bytesOfHex extra with
    | some site, some _ =>
      match strOfHexChars (if extra == "-" then [] else extra.toList), lookup 0 st.seen, lookup 1 st.seen, lookup 2 st.seen with
      | some ex, some n0, some n1, some n2 =>
        let ok :=
          match n0, n1, n2 with
          | some a, some b, some c =>
            a == b &&
              (match site with
               | none => appendText a ex == c
               | some s => (appendAt s ex 0 a).1 == some c)
          | _, _, _ => false
        (st, s!"agree ## {if ok then "ok" else "fail " ++ (st.failed.getD "unexpected")}")
      | _, _, _, _ => (st, "bad-op")
    | _, _ => (st, "bad-op")
  | _ => (st, "bad-op")

def main : IO Unit := runDriver step {}
