import LeptosModel.Model.Wire
import LeptosModel.Model.Hydrate
/-!
Line-protocol driver for C05 (op grammar: harness/hx-c05/src/bin/c05.rs).

  case <n>
  hyd <views A> <views B>     SSR of A, parsed, hydrated with A, rebuilt with B; CSR twin
  mis <views A> <views C>     A hydrated against the DOM of C's SSR string
  frag <tag> <pre> <itemsA> <itemsB> <post>   `<tag>` with children `pre…, Fragment(itemsA), post…` (each `-` or views),
                              hydrated, the fragment rebuilt with itemsB; CSR twin

  shyd <mode> <done0> <steps> <A> <B>     views with `Suspend`s: the server form <mode> (io | ooo | res | sync) of A under the
                              completion schedule (<done0> before rendering, one entry of <steps> per poll, the rest, polls to the
                              end), run by `Hydrate.stream` (C07's `Model/Stream` machine + `applyScripts`); then as `hyd` with
                              `clientOf A` / `clientOf B`
  sfrag <mode> <done0> <steps> <tag> <pre> <itemsA> <itemsB> <post>   `frag` with items that may suspend

`<views>` is one word, view+ with
  view := 'T' hex ';' | 'U' | 'E' tag ';' attr* '>' view* '<' | 'P' view* ')' | 'N' | 'S' view
        | 'L' view | 'R' view | 'V' view* ']'
        | 'I' view (InertElement) | 'K' key* ']' | 'k' key* ']' (keyed lists) | 'Z' view | 'z' (Result)
        | '#' digits ';' (u32) | 'a' hex ';' (Arc<str>) | 'c' hex ';' (Cow<str>) | '3' i view (EitherOf3)
        | 'Y' view* ')' ([AnyView; N]) | 'W' view (OwnedView) | 'F' view (closure)
        | 'B' view (<ErrorBoundary>) | 'D' view (<Suspense>) | 'G' view (<Transition>) | 'H' ('0'|'1') view (<Show when>)
        | 'M' key* ']' (<For>): the leptos wrapper components; fallbacks `"ERR"` / `()`
        | 'J' kind ('e'|'t') key* ']' (keyed list fed by an iterator of kind 0..8: Vec, array, range-map, filter, from_fn,
          flat_map, chain, once-chain, Option; item `<b>{key}</b>` / `{key}`)
        | 'X' fid ';' view (Suspend on future fid) | 'Q' (fid '.' key ';')* ']' (keyed, items `<b>{Suspend(key)}</b>`)
These share `to_html` / `hydrate` / `rebuild` with modelled constructors and are decoded as such:
`InertElement(html of v)` = the static element `v` (its children are not walked by the real code, which
no observable shows), `keyed` = `Vec` of the item views (same marker; rebuild = the keyed diff, whose
result C11 proves equal to the unkeyed one up to node identity), `Result` = `Option`, numbers and the other
string types = `String`, `EitherOf3` = `.either 3`, arrays = tuples, `OwnedView` = transparent, a
closure = an `AnyView` whose rebuild always replaces (different type tags on the two sides).
  attr := 'A' hex ';' hex ';' | 'B' hex ';' ('0'|'1') | 'O' hex ';' ('-' | 's' hex ';')
Every nested view is an `AnyView` in the harness, hence `.any (tyOf v) v` here; the type tag is the
erased Rust type (`HtmlElement<E, (Vec<AnyAttribute>,), (AnyView, ..)>`, tuples of `AnyView`,
`Option<AnyView>`, `Either<AnyView, AnyView>`, `Vec<AnyView>`).

Output of `hyd`:
  html=<hex> io=1 ooo=1 tree=<enc> hyd=<outcome> created=<n> after=<enc> csr=<enc> ## ok | fail <class>
-/
open Leptos Leptos.Wire Leptos.Dom Leptos.View Leptos.Hydrate

def hexBytes (bs : List Nat) : String :=
  String.ofList (bs.flatMap fun b => [hexDigit (b / 16 % 16), hexDigit (b % 16)])

def hexOfString (s : String) : String := hexBytes (s.toUTF8.toList.map (·.toNat))

def stringOfHexChars (cs : List Char) : Option String := do
  let bs ← bytesOfHexChars cs
  String.fromUTF8? (ByteArray.mk (bs.map (fun n => UInt8.ofNat n)).toArray)

def untilSemi : List Char → Option (List Char × List Char)
  | [] => none
  | c :: cs => if c = ';' then some ([], cs) else (untilSemi cs).map fun (a, b) => (c :: a, b)

def hexField (cs : List Char) : Option (String × List Char) := do
  let (h, rest) ← untilSemi cs
  let s ← stringOfHexChars h
  pure (s, rest)

/-- the erased Rust type of a decoded view (the `TypeId` an `AnyView` compares) -/
partial def tyOf : View → Ty
  | .text _ => .text
  | .unit => .unit
  | .elem tag _ c => .elem tag [] (tyOf c)
  | .tuple vs => .tuple (vs.map tyOf)
  | .onone => .opt .any
  | .osome _ => .opt .any
  | .either n _ _ => .either (List.replicate n .any)
  | .vec _ => .vec .any
  | .any _ _ => .any

def wrap (v : View) : View := .any (tyOf v) v

/-- the static subtree of an `InertElement`: on the client it is built by parsing the HTML string, so a
child-less element gets no placeholder comment (`.tuple []`: no child nodes) and nothing is type-erased -/
partial def inertify : View → View
  | .elem tag as c =>
    if Hydrate.isVoidT tag then .elem tag as .unit else
    match c with
    | .unit => .elem tag as (.tuple [])
    | .tuple vs => .elem tag as (.tuple (vs.map inertify))
    | c => .elem tag as (inertify c)
  | .any _ v => inertify v
  | v => v

def tagCharOK (c : Char) : Bool := Html.nameChar c

partial def parseAttrs (cs : List Char) (acc : List AttrVal) : Option (List AttrVal × List Char) :=
  match cs with
  | '>' :: r => some (acc.reverse, r)
  | 'A' :: r => do
    let (n, r) ← hexField r
    let (v, r) ← hexField r
    parseAttrs r (.str n v :: acc)
  | 'B' :: r => do
    let (n, r) ← hexField r
    match r with
    | '0' :: r => parseAttrs r (.bool n false :: acc)
    | '1' :: r => parseAttrs r (.bool n true :: acc)
    | _ => none
  | 'O' :: r => do
    let (n, r) ← hexField r
    match r with
    | '-' :: r => parseAttrs r (.ostr n none :: acc)
    | 's' :: r => do
      let (v, r) ← hexField r
      parseAttrs r (.ostr n (some v) :: acc)
    | _ => none
  | _ => none

/-- decimal digits up to `;` -/
def natField (cs : List Char) : Option (Nat × List Char) := do
  let (ds, rest) ← untilSemi cs
  if ds.isEmpty || !ds.all Char.isDigit then none
  pure (ds.foldl (fun n c => n * 10 + (c.toNat - 48)) 0, rest)

/-- hex fields up to `]` -/
partial def parseKeys (cs : List Char) (acc : List String) : Option (List String × List Char) :=
  match cs with
  | ']' :: r => some (acc.reverse, r)
  | _ => do
    let (k, r) ← hexField cs
    parseKeys r (k :: acc)

/-- `<fid> '.' <hex> ';'` up to `]` -/
partial def parseSuspKeys (cs : List Char) (acc : List (Nat × String)) : Option (List (Nat × String) × List Char) :=
  match cs with
  | ']' :: r => some (acc.reverse, r)
  | _ => do
    let (fld, r) ← untilSemi cs
    let ds := fld.takeWhile (· != '.')
    let hx := (fld.dropWhile (· != '.')).drop 1
    if ds.isEmpty || !ds.all Char.isDigit || !fld.contains '.' then none
    let f : Nat := ds.foldl (fun n c => n * 10 + (c.toNat - 48)) 0
    if f > 15 then none
    let k ← stringOfHexChars hx
    parseSuspKeys r ((f, k) :: acc)

/-- a `Result::Err` (decoded as `.any (.opt .unit) .onone`) somewhere in the view -/
partial def hasErr : View → Bool
  | .any (.opt .unit) .onone => true
  | .elem _ _ c => hasErr c
  | .tuple vs => vs.any hasErr
  | .osome v => hasErr v
  | .either _ _ v => hasErr v
  | .vec vs => vs.any hasErr
  | .any _ v => hasErr v
  | _ => false

mutual
partial def parseView (sd : Nat) (cs : List Char) : Option (View × List Char) :=
  match cs with
  | 'T' :: r => do
    let (s, r) ← hexField r
    pure (.text s, r)
  | 'U' :: r => some (.unit, r)
  | 'E' :: r => do
    let (tag, r) ← untilSemi r
    if tag.isEmpty || !tag.all tagCharOK then none
    let (attrs, r) ← parseAttrs r []
    let (kids, r) ← parseSeq sd (some '<') r []
    if kids.length > 6 then none
    let child := if kids.isEmpty then View.unit else .tuple (kids.map wrap)
    pure (.elem (String.ofList tag) attrs child, r)
  | 'P' :: r => do
    let (kids, r) ← parseSeq sd (some ')') r []
    if kids.isEmpty || kids.length > 6 then none
    pure (.tuple (kids.map wrap), r)
  | 'N' :: r => some (.onone, r)
  | 'S' :: r => do
    let (v, r) ← parseView sd r
    pure (.osome (wrap v), r)
  | 'L' :: r => do
    let (v, r) ← parseView sd r
    pure (.either 2 0 (wrap v), r)
  | 'R' :: r => do
    let (v, r) ← parseView sd r
    pure (.either 2 1 (wrap v), r)
  | 'V' :: r => do
    let (kids, r) ← parseSeq sd (some ']') r []
    pure (.vec (kids.map wrap), r)
  -- the other `RenderHtml` implementors, expressed through the constructors whose `to_html` / `hydrate` /
  -- `rebuild` they share (see the table in the header)
  | 'I' :: r => do
    let (v, r) ← parseView sd r
    -- `InertElement::rebuild` replaces the element when the HTML string differs: the string is the type tag
    let v' := inertify v
    pure (.any (.elem ("#inert:" ++ String.ofList (toHtml v')) [] .unit) v', r)
  | 'K' :: r => do
    let (ks, r) ← parseKeys r []
    pure (.any (.vec (.elem "b" [] .text)) (.vec (ks.map fun k => View.elem "b" [] (.tuple [.text k]))), r)
  | 'k' :: r => do
    let (ks, r) ← parseKeys r []
    pure (.any (.vec .text) (.vec (ks.map View.text)), r)
  | 'Z' :: r => do
    let (v, r) ← parseView sd r
    pure (.any (.opt .unit) (.osome (wrap v)), r)
  | 'z' :: r => some (.any (.opt .unit) .onone, r)
  | '#' :: r => do
    let (n, r) ← natField r
    pure (.any (.elem "#u32" [] .unit) (.text (toString n)), r)
  | 'a' :: r => do
    let (s, r) ← hexField r
    pure (.any (.elem "#arc" [] .unit) (.text s), r)
  | 'c' :: r => do
    let (s, r) ← hexField r
    -- `Cow<'static, str>`: `RenderHtml::Owned = String` and an `AnyView` is made of `into_owned()`: it *is* a `String` view
    -- (same `TypeId`, rebuilt in place against a `String` and vice versa)
    pure (.text s, r)
  | '3' :: i :: r => do
    if i != '0' && i != '1' && i != '2' then none
    let (v, r) ← parseView sd r
    pure (.either 3 (i.toNat - 48) (wrap v), r)
  | 'Y' :: r => do
    let (kids, r) ← parseSeq sd (some ')') r []
    if kids.isEmpty || kids.length > 3 then none
    pure (.any (.elem "#array" [] (.tuple (kids.map fun _ => .any))) (.tuple (kids.map wrap)), r)
  | 'W' :: r => do
    let (v, r) ← parseView sd r
    pure (.any (.either [.text]) (wrap v), r)
  | 'F' :: r => do
    let (v, r) ← parseView sd r
    -- `rebuild` of a closure always builds the new effect and replaces the old one: two different tags
    pure (.any (.either (if sd = 0 then [] else [.unit])) (wrap v), r)
  -- the leptos wrapper components: a rebuild always replaces them (different tags on the two sides)
  | 'B' :: r => do
    let (v, r) ← parseView sd r
    -- Ok children only
    if hasErr v then none
    pure (.any (.elem "#eb" [] (.arr sd .unit)) (wrap v), r)
  | 'D' :: r => do
    let (v, r) ← parseView sd r
    if !(fidsOf v).isEmpty || boundaries v != 0 then none
    pure (.any (boundaryTy sd) (wrap v), r)
  | 'G' :: r => do
    let (v, r) ← parseView sd r
    if !(fidsOf v).isEmpty || boundaries v != 0 then none
    pure (.any (boundaryTy (sd + 2)) (wrap v), r)
  | 'H' :: w :: r => do
    if w != '0' && w != '1' then none
    let (v, r) ← parseView sd r
    pure (.any (.elem "#show" [] (.arr sd .unit))
      (if w == '1' then .either 2 0 (wrap v) else .either 2 1 (wrap .unit)), r)
  | 'M' :: r => do
    let (ks, r) ← parseKeys r []
    pure (.any (.elem "#for" [] (.arr sd .unit))
      (.any (.vec (.elem "b" [] .text)) (.vec (ks.map fun k => View.elem "b" [] (.tuple [.text k])))), r)
  | 'J' :: kd :: it :: r => do
    -- a keyed list fed by an iterator of kind `kd` (Vec, array, range-map, filter, from_fn, flat_map, chain, once, Option):
    -- the same view whatever the size hint; each kind is its own Rust type
    if !kd.isDigit || kd == '9' || (it != 'e' && it != 't') then none
    let (ks, r) ← parseKeys r []
    let n := ks.length
    let ok := match kd with
      | '1' => n ≤ 3
      | '7' => n ≥ 1
      | '8' => n ≤ 1
      | _ => true
    if !ok then none
    -- `[String; n]`: the length is part of the type
    let kd := if kd == '1' then s!"1/{n}" else kd.toString
    if it == 'e' then
      pure (.any (.vec (.elem ("#each" ++ kd) [] .text)) (.vec (ks.map fun k => View.elem "b" [] (.tuple [.text k]))), r)
    else
      pure (.any (.vec (.elem ("#eacht" ++ kd) [] .unit)) (.vec (ks.map View.text)), r)
  | 'X' :: r => do
    let (f, r) ← natField r
    let (v, r) ← parseView sd r
    -- at most one `Suspend` level inside the value of a `Suspend`, no `<Suspense>` boundary
    if f > 15 || suspDepth v > 1 || boundaries v != 0 then none
    -- `Suspend<AnyView>`: see Model/Hydrate, section "Suspend and the streamed forms"
    pure (.any (suspTy f) (.osome (wrap v)), r)
  | 'Q' :: r => do
    let (items, r) ← parseSuspKeys r []
    pure (.any (.vec (.elem "b" [] (.opt .text)))
      (.vec (items.map fun (f, k) => View.elem "b" [] (.tuple [.any (suspTy f) (.osome (.text k))]))), r)
  | _ => none
partial def parseSeq (sd : Nat) (close : Option Char) (cs : List Char) (acc : List View) : Option (List View × List Char) :=
  match cs with
  | [] => if close.isNone then some (acc.reverse, []) else none
  | c :: r =>
    if some c = close then some (acc.reverse, r) else do
      let (v, r) ← parseView sd (c :: r)
      parseSeq sd close r (v :: acc)
end

/-- the top-level view: the tuple of the decoded views, itself an `AnyView` -/
def decodeTop (sd : Nat) (w : String) : Option View :=
  match parseSeq sd none w.toList [] with
  | some (vs, []) => if vs.isEmpty || vs.length > 6 then none else some (wrap (.tuple (vs.map wrap)))
  | _ => none

/-! encodings of trees -/

partial def encH : List Html.Tree → String
  | [] => ""
  | .text s :: r => s!"t{hexOfString (String.ofList s)};" ++ encH r
  | .comment s :: r => s!"c{hexOfString (String.ofList s)};" ++ encH r
  | .elem tag attrs kids :: r =>
    s!"e{String.ofList tag};" ++
      String.join (attrs.map fun (n, v) => s!"a{hexOfString (String.ofList n)};{hexOfString (String.ofList v)};") ++
      ">" ++ encH kids ++ "<" ++ encH r

partial def encD : List Dom.Tree → String
  | [] => ""
  | .text s :: r => s!"t{hexOfString s};" ++ encD r
  | .comment s :: r => s!"c{hexOfString s};" ++ encD r
  | .elem tag attrs kids :: r =>
    s!"e{tag};" ++ String.join (attrs.map fun (n, v) => s!"a{hexOfString n};{hexOfString v};") ++
      ">" ++ encD kids ++ "<" ++ encD r

def orDash (s : String) : String := if s.isEmpty then "-" else s

def kindLetter (d : Dom) (x : Id) : String :=
  match d.kindOf x with
  | some .text => "t"
  | some .comment => "c"
  | some (.elem _) => "e"
  | none => "x"

def outcomeStr (d : Dom) : Except HydrationError Out → String
  | .ok _ => "ok"
  | .error (.text f) => s!"err:text:{kindLetter d f}"
  | .error (.marker f) => s!"err:marker:{kindLetter d f}"
  | .error (.element _ f) => s!"err:element:{kindLetter d f}"

/-- the browser's reading of `htmlS`, hydration with `a`, rebuild with `b`, client-built twin; `cls` = the
    known-finding class the input falls in, if any -/
def hydTail (head : String) (htmlS : Hydrate.Str) (a b : View) (cls? : Option String) (twoPhase := false) : String :=
  match Html.parse htmlS with
  | none => s!"{head} tree=none ## fail parse-none"
  | some ts =>
    let (d, root, f) := loadRoot ts
    let r := hydrateFrom d root a
    match r with
    | .error _ =>
      s!"{head} tree={orDash (encH ts)} hyd={outcomeStr d r} created=0 ## fail {cls?.getD "hydration-error"}"
    | .ok o =>
      -- hydrated world: the writes of the walk (the empty string's `" "` becomes `""`), then the rebuild
      let dh := settle o.state d
      -- a `Suspend` rebuilds in a task: first everything else (`syncPart`), then the values of the `Suspend`s
      let (dp, st1) := if twoPhase then rebuild false (syncPart 0 a b) o.state dh else (dh, o.state)
      let (dp, st1) := if twoPhase then rebuild false (syncPart 1 a b) st1 dp else (dp, st1)
      let (d1, _) := rebuild false b st1 dp
      -- the twin lives in the same arena, as in the harness
      let (d2, root2) := d1.createElement "div"
      let (d2, st2) := build a d2
      let d2 := mount st2 d2 root2 none
      let (d2, st2) := if twoPhase then rebuild false (syncPart 0 a b) st2 d2 else (d2, st2)
      let (d2, st2) := if twoPhase then rebuild false (syncPart 1 a b) st2 d2 else (d2, st2)
      let (d2, _) := rebuild false b st2 d2
      let after := (serializeKids d1 root).getD []
      let csr := (serializeKids d2 root2).getD []
      -- self-checks of the model's own theorems on this input: the loaded DOM holds the parsed forest
      -- (`C05_load_realises_stmt`), the parser read `domOf a` (`C05_parse_print`), the walk returned
      -- the specified state, bound (`C05_hydrate_succeeds`); they speak about the HTML of `a` itself
      let own := decide (htmlS = toHtml a)
      let specOK := realisesB d root f ts &&
        treesBeq ((serializeKids d root).getD []) (toDomTrees ts) &&
        (!own || (stateBeq o.state (adopt a .firstChild f).1 && bound d o.state &&
          (hasRawKids a || decide (ts = domOf a)) &&
          (hasRawKids a || treesBeq ((serializeKids dh root).getD []) (domA a .firstChild))))
      -- a `<Suspense>` boundary keeps its (unshown) fallback `()` alive: one detached node each
      let created := o.created + boundaries a
      let good := o.created == 0 && d2.errs.isEmpty && treesBeq (stripL after) (stripL csr) && specOK
      let cls :=
        if good then "ok"
        else if !specOK then "fail model-self-check"
        else if hasRawKids a then "fail raw-text-child"
        else match cls? with
          | some c => s!"fail {c}"
          | none => "fail unexplained"
      s!"{head} tree={orDash (encH ts)} hyd=ok created={created} after={orDash (encD after)} csr={orDash (encD csr)} ## {cls}"

def opHyd (a b : View) : String :=
  let htmlS := toHtml a
  hydTail s!"html={orDash (hexOfString (String.ofList htmlS))} io=1 ooo=1" htmlS a b none

def fidsField (w : String) : Option (List Nat) :=
  if w == "-" then some [] else
  (w.splitOn ",").mapM fun x =>
    if x.isEmpty || !x.toList.all Char.isDigit then none
    else
      let n := x.toList.foldl (fun n c => n * 10 + (c.toNat - 48)) 0
      if n > 15 then none else some n

/-- `shyd <mode> <done0> <steps> <A> <B>` -/
def opShyd (mode : String) (d0 : List Nat) (steps : List (List Nat)) (a b : View) : String :=
  let ac := clientOf a
  let bc := clientOf b
  let fin (raw htmlS : Hydrate.Str) : String :=
    -- the server guessed a position the resolved view does not leave: F-C05-6
    let cls? := if htmlS = toHtml ac then none else some "suspend-position"
    hydTail s!"raw={orDash (hexOfString (String.ofList raw))} html={orDash (hexOfString (String.ofList htmlS))}" htmlS ac bc cls? true
  if mode == "sync" || mode == "res" then
    if mode == "sync" && !(fidsOf a).all d0.contains then "bad-op"
    else fin (toHtml ac) (toHtml ac)
  else
    let s := stream (mode == "ooo") d0 steps a
    match s.last with
    | some .done =>
      -- `C05_stream_html` re-evaluated on this input: every guess right ⇒ the stream is the client's HTML
      if Agree (mode == "ooo") d0 true a .firstChild && s.html != toHtml ac then
        s!"raw={orDash (hexOfString (String.ofList s.raw))} ## fail model-self-check"
      else fin s.raw s.html
    | some .panic => "ssr-panic ## fail ssr-panic"
    | _ => "ssr-stuck ## fail ssr-stuck"

def opMis (a c : View) : String :=
  match Html.parse (toHtml c) with
  | none => "tree=none"
  | some ts =>
    let (d, root, _) := loadRoot ts
    let r := hydrateFrom d root a
    let created := match r with | .ok o => o.created | .error _ => 0
    s!"tree={orDash (encH ts)} hyd={outcomeStr d r} created={created}"

def decodeSeq (sd : Nat) (w : String) : Option (List View) :=
  if w == "-" then some [] else
  match parseSeq sd none w.toList [] with
  | some (vs, []) => some (vs.map wrap)
  | _ => none

def outcomeU (d : Dom) : Except HydrationError Unit → String
  | .ok _ => "ok"
  | .error (.text f) => s!"err:text:{kindLetter d f}"
  | .error (.marker f) => s!"err:marker:{kindLetter d f}"
  | .error (.element _ f) => s!"err:element:{kindLetter d f}"

/-- `frag <tag> <pre> <itemsA> <itemsB> <post>`: `<tag>` with children `pre…, Fragment(items), post…`;
    `src` = what the server sent when it is not the synchronous string (`sfrag`): raw chunks and final HTML -/
def opFrag (tag : String) (pre itemsA itemsB post preB postB : List View) (src : Option (Hydrate.Str × Hydrate.Str) := none) : String :=
  let kids := pre ++ itemsA ++ post
  let own := toHtml (.elem tag [] (.tuple kids))
  let htmlS := match src with | some (_, h) => h | none => own
  let hx (x : Hydrate.Str) := orDash (hexOfString (String.ofList x))
  let head := match src with
    | some (raw, h) => s!"raw={hx raw} html={hx h}"
    | none => s!"html={hx htmlS}"
  let cls := if htmlS = own then "unexplained" else "suspend-position"
  match Html.parse htmlS with
  | none => s!"{head} tree=none ## fail parse-none"
  | some ts =>
    let h := runFragHydrated false ts tag pre itemsA itemsB post preB postB
    let c := runFragCsr tag pre itemsA itemsB post preB postB
    let d0 := (loadRoot ts).1
    match h.outcome with
    | .error _ =>
      s!"{head} tree={orDash (encH ts)} hyd={outcomeU d0 h.outcome} created=0 ## fail {if cls == "unexplained" then "hydration-error" else cls}"
    | .ok _ =>
      let good := fragLikeCsr false ts tag pre itemsA itemsB post preB postB
      let panicked := !h.errs.isEmpty
      s!"{head} tree={orDash (encH ts)} hyd=ok created={h.created} panic={if panicked then 1 else 0} after={orDash (encD h.kids)} csr={orDash (encD c.1)} ## {if good then "ok" else s!"fail {cls}"}"

/-- `sfrag <mode> <done0> <steps> <tag> <pre> <itemsA> <itemsB> <post>` -/
def opSfrag (mode : String) (d0 : List Nat) (steps : List (List Nat)) (tag : String)
    (pre itemsA itemsB post preB postB : List View) : String :=
  let server : View := .elem tag [] (.tuple (pre ++ itemsA ++ post))
  let cA := clientOfL itemsA
  let cB := clientOfL itemsB
  let own := toHtml (clientOf server)
  if mode == "sync" || mode == "res" then
    if mode == "sync" && !(fidsOfL itemsA).all d0.contains then "bad-op"
    else opFrag tag pre cA cB post preB postB (some (own, own))
  else
    let s := stream (mode == "ooo") d0 steps server
    match s.last with
    | some .done =>
      if Agree (mode == "ooo") d0 true server .firstChild && s.html != own then
        s!"raw={orDash (hexOfString (String.ofList s.raw))} ## fail model-self-check"
      else opFrag tag pre cA cB post preB postB (some (s.raw, s.html))
    | some .panic => "ssr-panic ## fail ssr-panic"
    | _ => "ssr-stuck ## fail ssr-stuck"

def step (_ : Unit) (line : String) : Unit × String :=
  let out :=
    match words line with
    | ["case", n] => s!"case {n}"
    | ["hyd", a, b] =>
      match decodeTop 0 a, decodeTop 1 b with
      | some a, some b => if (fidsOf a ++ fidsOf b).isEmpty && boundaries a + boundaries b == 0 then opHyd a b else "bad-op"
      | _, _ => "bad-op"
    | ["shyd", mode, d0, steps, a, b] =>
      let stepsL : Option (List (List Nat)) := if steps == "-" then some [] else (steps.splitOn "/").mapM fidsField
      match fidsField d0, stepsL, decodeTop 0 a, decodeTop 1 b with
      | some d0, some st, some a, some b =>
        if st.length > 8 || !["io", "ooo", "res", "sync"].contains mode
            || ((mode == "res" || mode == "sync") && boundaries a != 0) then "bad-op" else opShyd mode d0 st a b
      | _, _, _, _ => "bad-op"
    | ["frag", tag, p, ia, ib, q] =>
      match decodeSeq 0 p, decodeSeq 0 ia, decodeSeq 1 ib, decodeSeq 0 q, decodeSeq 1 p, decodeSeq 1 q with
      | some p, some ia, some ib, some q, some pB, some qB =>
        if (p ++ ia ++ q).length > 5 || tag.isEmpty || !tag.toList.all tagCharOK
            || !(fidsOfL (p ++ ia ++ ib ++ q)).isEmpty || boundariesL (p ++ ia ++ ib ++ q) != 0 then "bad-op"
        else opFrag tag p ia ib q pB qB
      | _, _, _, _, _, _ => "bad-op"
    | ["sfrag", mode, d0, steps, tag, p, ia, ib, q] =>
      let stepsL : Option (List (List Nat)) := if steps == "-" then some [] else (steps.splitOn "/").mapM fidsField
      match fidsField d0, stepsL, decodeSeq 0 p, decodeSeq 0 ia, decodeSeq 1 ib, decodeSeq 0 q, decodeSeq 1 p, decodeSeq 1 q with
      | some d0, some st, some p, some ia, some ib, some q, some pB, some qB =>
        if st.length > 8 || !["io", "ooo", "res", "sync"].contains mode || (p ++ ia ++ q).length > 5 || tag.isEmpty
            || !tag.toList.all tagCharOK || !(fidsOfL (p ++ q)).isEmpty || boundariesL (p ++ ia ++ ib ++ q) != 0 then "bad-op"
        else opSfrag mode d0 st tag p ia ib q pB qB
      | _, _, _, _, _, _, _, _ => "bad-op"
    | ["mis", a, c] =>
      match decodeTop 0 a, decodeTop 0 c with
      | some a, some c => if (fidsOf a ++ fidsOf c).isEmpty && boundaries a + boundaries c == 0 then opMis a c else "bad-op"
      | _, _ => "bad-op"
    | _ => "bad-op"
  ((), out)

def main : IO Unit := runDriver step ()
