import LeptosModel.Model.ReactiveDriver
open Leptos.Reactive in
def main : IO Unit := Leptos.Wire.runDriver (stepLine .c02) {}
