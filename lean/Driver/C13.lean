import LeptosModel.Model.Wire
import LeptosModel.Model.Url
import LeptosModel.Model.ServerFn
/-! Line-protocol driver for C13 (op grammar: harness/hx-c13/src/bin/c13.rs).

Test fixtures that are not part of the model proper live here: the custom error type `Cust`
(`c`), the bodies of the loop-back server functions and the table of typed functions. -/
open Leptos Leptos.Wire Leptos.ServerFn Leptos.Gen.ErrorKinds

def strOfHex (h : String) : Option Str :=
  match bytesOfHex h with
  | some bs => match fromUtf8 bs with | .ok s => some s | .error _ => none
  | none => none

def hexOfStr (s : Str) : String := hexOfBytes (utf8Encode s)

def showErr (e : SErr) : String := String.ofList e.kind ++ ":" ++ hexOfStr e.msg

/-- harness type `Cust(String)`: `Display` prints the string, `FromStr` rejects a leading `!` -/
def custBang : Custom := ⟨fun s => match s with | '!' :: _ => none | _ => some s⟩

def customOf (ty : String) : Option Custom :=
  if ty == "n" then some noCustomError else if ty == "c" then some custBang else none

/-- the value the harness builds for `<ty> <Variant> <msg>`; `none` = not a variant -/
def mkErr (ty : String) (variant : String) (msg : Str) : Option SErr :=
  match assoc variant.toList variants with
  | some true => some ⟨variant.toList, if ty == "n" then "Unit Type Displayed".toList else msg⟩
  | some false => some ⟨variant.toList, msg⟩
  | none => none

/-- does the custom payload survive `Display` then `FromStr` (hypothesis of the round trip) -/
def customLaw (cu : Custom) (e : SErr) : Bool :=
  match assoc e.kind variants with
  | some true => cu.canon e.msg == some e.msg
  | _ => true

/-! ### loop-back fixtures -/

/-- body of the hex server functions: `E <k> <utf8 msg>` fails with the `k`-th variant, anything else echoes -/
def hexBody (a : Bytes) : Except SErr Bytes :=
  match a with
  | 69 :: k :: m =>
    match variants[k]?, fromUtf8 m with
    | some (v, false), .ok s => .error ⟨v, s⟩
    | _, _ => .ok a
  | _ => .ok a

def showRes (r : Except SErr Bytes) : String :=
  match r with
  | .ok b => "ok " ++ hexOfBytes b
  | .error e => "err " ++ showErr e

def hexFns : List (String × String) :=
  [("hx_post", "Post"), ("hx_patch", "Patch"), ("hx_put", "Put"), ("hx_mw_id", "Post"), ("hx_mw_block", "Post")]

/-- the harness' `BlockLayer`: answers itself when the (hex text) body starts with `ff` -/
def blockPred (r : Req) : Bool := match r.body with | 102 :: 102 :: _ => true | _ => false

def hexLayers (fn : String) : List Middleware :=
  if fn == "hx_mw_id" then [fun h => h]
  else if fn == "hx_mw_block" then [mwBlock (sfeCodec noCustomError) blockPred "blocked|by middleware".toList]
  else []

/-- what the caller must see: the direct call, unless the middleware is documented to answer itself -/
def hexExpected (fn : String) (a : Bytes) (direct : Except SErr Bytes) : Except SErr Bytes :=
  if fn == "hx_mw_block" && a.head? == some 255 then .error ⟨middlewareKind, "blocked|by middleware".toList⟩ else direct

/-- typed functions outside the cross product: name, input encoding row -/
def typedFns : List (String × String × String) := [
  ("t_json", "Post", ""), ("t_geturl", "GetUrl", ""), ("t_posturl", "PostUrl", ""),
  ("t_deleteurl", "DeleteUrl", ""),
  ("t_patchurl", "PatchUrl", ""), ("t_puturl", "PutUrl", ""),
  ("t_cbor", "Post", ""), ("t_msgpack", "Post", ""), ("t_postcard", "Post", ""), ("t_rkyv", "Post", ""),
  ("t_serdelite", "Post", ""), ("t_patchjson", "Patch", ""), ("t_putcbor", "Put", ""),
  ("t_json_cbor", "Post", ""), ("t_geturl_rkyv", "GetUrl", ""), ("t_postcard_msgpack", "Post", ""),
  ("t_cbor_app", "Post", ""), ("t_json_bin", "Post", ""),
  ("t_default_path", "PostUrl", ""), ("t_prefix", "Post", ""), ("t_auto_name", "GetUrl", ""), ("t_mw_id", "Post", ""),
  ("t_many", "PostUrl", ""), ("t_defaults", "GetUrl", ""), ("hand_echo", "Post", "") ]

/-- input encoding row of a cross-product function `x_<in>_<out>` from its `<in>` token -/
def crossIn (t : String) : Option String :=
  if t == "geturl" then some "GetUrl" else if t == "posturl" then some "PostUrl"
  else if t == "deleteurl" then some "DeleteUrl" else if t == "patchurl" then some "PatchUrl"
  else if t == "puturl" then some "PutUrl"
  else if ["json", "cbor", "msgpack", "postcard", "rkyv", "serdelite"].contains t then some "Post"
  else if ["patchjson", "patchcbor", "patchmsgpack", "patchpostcard", "patchrkyv", "patchserdelite"].contains t then some "Patch"
  else if ["putjson", "putcbor", "putmsgpack", "putpostcard", "putrkyv", "putserdelite"].contains t then some "Put"
  else none

def appFns : List String := ["t_cbor_app", "t_json_bin"]

def isPrefixB : Bytes → Bytes → Bool
  | [], _ => true
  | _ :: _, [] => false
  | a :: as, b :: bs => a == b && isPrefixB as bs

def containsSub (pat : Bytes) : Bytes → Bool
  | [] => pat.isEmpty
  | b :: bs => isPrefixB pat (b :: bs) || containsSub pat bs

/-- replace every occurrence of `pat` (non-empty) by `rep`; `skip` = bytes of a match still to drop -/
def replaceGo (pat rep : Bytes) : Nat → Bytes → Bytes
  | _, [] => []
  | k + 1, _ :: bs => replaceGo pat rep k bs
  | 0, b :: bs =>
    if isPrefixB pat (b :: bs) then rep ++ replaceGo pat rep (pat.length - 1) bs
    else b :: replaceGo pat rep 0 bs

def asciiB (s : String) : Bytes := s.toList.map Char.toNat

/-- serde_qs (`GetUrl`, `PostUrl`, …) on the fixture type `Payload`, observed on the JSON rendering of the
arguments: an empty sequence leaves no key behind (`missing field`), `Some("")` reads back as `None` -/
def urlFixtureCodec (emptyErr : Str) : Codec Bytes where
  enc := fun bs => .ok bs
  dec := fun bs =>
    if bs.isEmpty then .error emptyErr
    else if containsSub (asciiB "\"list\":[]") bs then .error "missing field `list`".toList
    else if containsSub (asciiB "\"nums\":[]") bs then .error "missing field `nums`".toList
    else .ok (replaceGo (asciiB "\"opt\":\"\"") (asciiB "\"opt\":null") 0 bs)

def urlClass (a : Bytes) : String :=
  if containsSub (asciiB "\"list\":[]") a || containsSub (asciiB "\"nums\":[]") a then "urlenc-empty-vec"
  else if containsSub (asciiB "\"opt\":\"\"") a then "urlenc-some-empty"
  else "pipeline"

/-- like `urlFixtureCodec` for `t_defaults`: `#[server(default)]` on the sequences and the option — an absent
key is the default, so only `Some("")` ↦ `None` remains -/
def urlDefaultsCodec : Codec Bytes where
  enc := fun bs => .ok bs
  dec := fun bs => .ok (replaceGo (asciiB "\"opt\":\"\"") (asciiB "\"opt\":null") 0 bs)

def lookup3 (n : String) : List (String × String × String) → Option (String × String)
  | [] => none
  | (k, a, b) :: rest => if k == n then some (a, b) else lookup3 n rest

def lookup2 (n : String) : List (String × String) → Option String
  | [] => none
  | (k, a) :: rest => if k == n then some a else lookup2 n rest

def hexEnc (fn : String) : Option InEnc := (lookup2 fn hexFns).bind fun e => findEnc e inputEncodings

def parseMethod (s : String) : Option Method :=
  if s == "GET" then some .get else if s == "POST" then some .post else if s == "PUT" then some .put
  else if s == "PATCH" then some .patch else if s == "DELETE" then some .delete else none

def flipBit (b k : Nat) : Nat := Nat.xor b (2 ^ k)

/-- byte-level corruption: `t<n>` truncate, `f<i>` flip one bit, `a<x>` append a byte -/
def mutate (spec : String) (bs : Bytes) : Option Bytes :=
  match spec.toList with
  | 't' :: ds => (String.ofList ds).toNat?.map fun n => bs.take (n % (bs.length + 1))
  | 'f' :: ds => (String.ofList ds).toNat?.map fun i =>
      if bs.isEmpty then bs else
      let j := i % (8 * bs.length)
      (List.range bs.length).zip bs |>.map fun (ix, b) => if ix = j / 8 then flipBit b (j % 8) else b
  | 'a' :: ds => (String.ofList ds).toNat?.map fun x => bs ++ [x % 256]
  | _ => none

def mutReq (spec : String) (r : Req) : Option Req :=
  match r.query with
  | some q => (mutate spec q).map fun q' => { r with query := some q' }
  | none => (mutate spec r.body).map fun b' => { r with body := b' }

def verdictEq (remote direct : String) (cls : String) : String :=
  if remote == direct then "ok" else "fail " ++ cls

/-- the error side of `t_cbor_app`: an opaque lawful error codec -/
inductive AppE where
  | app (json : Bytes)
  | sfe (kind msg : Str)

def appCodec : ErrCodec AppE where
  ser := fun e => match e with | .app j => 0 :: j | .sfe k m => 1 :: utf8Encode (k ++ '|' :: m)
  de := fun b => match b with
    | 0 :: j => .app j
    | _ => .sfe deserializationKind []
  fromSfe := fun k m => .sfe k m

def showAppRes (r : Except AppE Bytes) : String :=
  match r with
  | .ok b => "ok " ++ hexOfBytes b
  | .error (.app j) => "err app:" ++ hexOfBytes j
  | .error (.sfe k m) => "err appsfe:" ++ String.ofList k ++ ":" ++ hexOfStr m

def showItems (items : List (Except SErr Bytes)) : String :=
  if items.isEmpty then "-" else
  ",".intercalate (items.map fun it => match it with
    | .ok b => "o" ++ hexOfBytes b
    | .error e => "e" ++ showErr e)

/-- `o<hex>` | `e<Variant>:<msghex>` -/
def parseTextItem (w : String) : Option (Except SErr Bytes) :=
  match w.toList with
  | 'o' :: h => (bytesOfHex (String.ofList h)).bind fun b =>
      match fromUtf8 b with | .ok _ => some (.ok b) | .error _ => none
  | 'e' :: r =>
    match (String.ofList r).splitOn ":" with
    | [v, mh] => (strOfHex mh).bind fun m => (mkErr "n" v m).map .error
    | _ => none
  | _ => none

/-- `o<hex>` | `x<hex of raw error bytes>` -/
def parseBytesItem (w : String) : Option WireChunk :=
  match w.toList with
  | 'o' :: h => (bytesOfHex (String.ofList h)).map .ok
  | 'x' :: h => (bytesOfHex (String.ofList h)).map .error
  | _ => none

def showWire (items : List WireChunk) : String :=
  if items.isEmpty then "-" else
  ",".intercalate (items.map fun it => match it with
    | .ok b => "o" ++ hexOfBytes b
    | .error b => "x" ++ hexOfBytes b)

/-- what the wire promises whatever the chunking: the text before the first error, and that error -/
def prefixKey {ε : Type} : List (Except ε Bytes) → Bytes × Option ε
  | [] => ([], none)
  | .ok b :: rest => let (t, e) := prefixKey rest; (b ++ t, e)
  | .error e :: _ => ([], some e)

def typedEncName (fn : String) : Option String :=
  match lookup3 fn typedFns with
  | some (e, _) => some e
  | none =>
    match fn.splitOn "_" with
    | ["x", i, _] => crossIn i
    | _ => none

def findSub (pat : Bytes) : Nat → Bytes → Option Nat
  | _, [] => if pat.isEmpty then some 0 else none
  | i, b :: bs => if isPrefixB pat (b :: bs) then some i else findSub pat (i + 1) bs

/-- everything up to and including the last occurrence of `pat` (the whole string if there is none) -/
def truncAfterLast (pat s : Bytes) : Bytes :=
  match findSub pat.reverse 0 s.reverse with
  | some i => s.take (s.length - i)
  | none => s

/-- the path the harness' functions are registered under (`endpoint = "<fn>"`, prefix `/api`) -/
def fnPathOf (fn : String) : Option Bytes :=
  if fn == "t_prefix" || fn == "t_default_path" || fn.startsWith "x_" then none
  else some (asciiB ("/api/" ++ fn))

/-- one typed or hex call: `form = none` is the client call, `some (path, referer)` the `<form>` fallback -/
def runFixture {E : Type} (ie : InEnc) (ec : ErrCodec E) (ci co : Codec Bytes) (layers : List Middleware)
    (showE : E → String) (decodeUrl : Bytes → E) (body : Bytes → Except E Bytes) (expected : Except E Bytes)
    (a : Bytes) (cls : String) (truncLoc : Bool) (form : Option (Bytes × Option Bytes)) : String :=
  let showR := fun (r : Except E Bytes) => match r with
    | .ok b => "ok " ++ hexOfBytes b
    | .error e => "err " ++ showE e
  match form with
  | none =>
    let remote := showR (remoteCallMw ie ec ci co layers body a)
    s!"{remote} ## {verdictEq remote (showR expected) cls}"
  | some (path, referer) =>
    match ci.enc a with
    | .error _ => "bad-op"
    | .ok data =>
      let fr := runOnServerForm ie ec ci co body path referer (intoReq ie data)
      let pairs := if hasScheme fr.location then Url.formParse ((splitUrl fr.location).query.getD []) else []
      let errv := queryGetLast errKey pairs
      let pathv := queryGetLast pathKey pairs
      let decoded := errv.map fun v => showE (decodeUrl v)
      let shownLoc := if truncLoc then truncAfterLast (asciiB "__err=") fr.location else fr.location
      let good := fr.status == 302 &&
        (match expected with
          | .error e => decoded == some (showE e) && pathv == some path
          | .ok _ =>
            errv.isNone && pathv.isNone &&
            (match referer with
              | none => fr.location == [47]
              | some r =>
                if hasScheme r then
                  pairs == ((Url.formParse ((splitUrl r).query.getD [])).filter fun kv => kv.1 ≠ pathKey ∧ kv.1 ≠ errKey) &&
                  (splitUrl fr.location).pre == (splitUrl r).pre && (splitUrl fr.location).frag == (splitUrl r).frag
                else fr.location == r))
      let noRef := match referer with | none => true | some r => !hasScheme r
      let isErr := match expected with | .error _ => true | .ok _ => false
      let cls' := if cls != "pipeline" then cls else if noRef && isErr then "form-no-referer" else "form-fallback"
      let ds := match decoded with | some d => d | none => "none"
      let ps := match pathv with | some p => hexOfBytes p | none => "none"
      s!"{fr.status} {hexOfBytes shownLoc} {ds} {ps} ## {if good then "ok" else "fail " ++ cls'}"

def showAppE (e : AppE) : String :=
  match e with
  | .app j => "app:" ++ hexOfBytes j
  | .sfe k m => "appsfe:" ++ String.ofList k ++ ":" ++ hexOfStr m

def appDecodeUrl (v : Bytes) : AppE :=
  match b64Decode v with
  | .ok bs => appCodec.de bs
  | .error e => .sfe deserializationKind (b64ErrMsg e)

/-- `tcall` / `form` on a typed function -/
def typedOp (fn mode : String) (ah : String) (rest : List String) (form : Option (Option Bytes)) : String :=
  match typedEncName fn, bytesOfHex ah with
  | some encName, some a =>
    match findEnc encName inputEncodings with
    | none => "bad-op"
    | some ie =>
      let isUrl := ie.decErrKind == argsKind
      let cls := if !ie.slotsAgree then "slot-mismatch"
        else if fn == "t_defaults" then (if containsSub (asciiB "\"opt\":\"\"") a then "urlenc-some-empty" else "pipeline")
        else if isUrl then urlClass a else "pipeline"
      let ci := if fn == "t_defaults" then urlDefaultsCodec else if isUrl then urlFixtureCodec [] else opaqueCodec []
      let co := opaqueCodec []
      let form? : Option (Option (Bytes × Option Bytes)) :=
        match form with
        | none => some none
        | some r => (fnPathOf fn).map fun p => some (p, r)
      match form? with
      | none => "bad-op"
      | some fm =>
        if appFns.contains fn then
          let body? : Option (Bytes → Except AppE Bytes) :=
            match mode, rest with
            | "echo", [] => some fun x => .ok x
            | "failapp", [jh] => (bytesOfHex jh).map fun j => fun _ => .error (.app j)
            | _, _ => none
          match body? with
          | some body => runFixture ie appCodec ci co [] showAppE appDecodeUrl body (body a) a cls true fm
          | none => "bad-op"
        else
          let body? : Option (Bytes → Except SErr Bytes) :=
            match mode, rest with
            | "echo", [] => some fun x => .ok x
            | "fail", [variant, mh] =>
              match strOfHex mh with
              | some m => (mkErr "n" variant m).map fun e => fun _ => .error e
              | none => none
            | _, _ => none
          match body? with
          | some body =>
            runFixture ie (sfeCodec noCustomError) ci co (if fn == "t_mw_id" then [fun h => h] else []) showErr
              (decodeErrUrl noCustomError) body (body a) a cls false fm
          | none => "bad-op"
  | _, _ => "bad-op"

def step (_ : Unit) (line : String) : Unit × String :=
  let out :=
    match words line with
    | ["case", n] => s!"case {n}"
    | ["ser", ty, variant, mh] =>
      match customOf ty, strOfHex mh with
      | some cu, some m =>
        match mkErr ty variant m with
        | some e =>
          let bytes := ser e
          let back := de cu bytes
          let v := if customLaw cu e && back != e then "fail error-roundtrip" else "ok"
          s!"{hexOfBytes bytes} {showErr back} ## {v}"
        | none => "bad-op"
      | _, _ => "bad-op"
    | ["de", ty, bh] =>
      match customOf ty, bytesOfHex bh with
      | some cu, some bs => s!"{showErr (de cu bs)} ## ok"
      | _, _ => "bad-op"
    | ["tourl", ty, baseh, pathh, variant, mh] =>
      match customOf ty, bytesOfHex baseh, strOfHex pathh, strOfHex mh with
      | some cu, some base, some path, some m =>
        match mkErr ty variant m with
        | some e =>
          match toUrl base (utf8Encode path) (ser e) with
          | none => "parse-error ## ok"
          | some u =>
            let pairs := Url.formParse ((splitUrl u).query.getD [])
            let back := (queryGetLast errKey pairs).map (decodeErrUrl cu)
            let pback := queryGetLast pathKey pairs
            let good := (!customLaw cu e || back == some e) && pback == some (utf8Encode path)
            let v := if good then "ok" else "fail url-roundtrip"
            let bs := match back with | some b => showErr b | none => "none"
            let ps := match pback with | some p => hexOfBytes p | none => "none"
            s!"{hexOfBytes u} {bs} {ps} ## {v}"
        | none => "bad-op"
      | _, _, _, _ => "bad-op"
    | ["decerr", ty, sh] =>
      match customOf ty, bytesOfHex sh with
      | some cu, some s => s!"{showErr (decodeErrUrl cu s)} ## ok"
      | _, _ => "bad-op"
    | ["strip", uh] =>
      match bytesOfHex uh with
      | some u =>
        let r := stripErrorInfo u
        let before := (Url.formParse ((splitUrl u).query.getD [])).filter fun kv => kv.1 ≠ pathKey ∧ kv.1 ≠ errKey
        let after := Url.formParse ((splitUrl r).query.getD [])
        let good := !hasScheme u || (after == before && (splitUrl r).pre == (splitUrl u).pre && (splitUrl r).frag == (splitUrl u).frag)
        s!"{hexOfBytes r} ## {if good then "ok" else "fail strip"}"
      | none => "bad-op"
    | ["call", fn, ah] =>
      match hexEnc fn, bytesOfHex ah with
      | some ie, some a =>
        runFixture ie (sfeCodec noCustomError) hexCodec hexCodec (hexLayers fn) showErr (decodeErrUrl noCustomError)
          hexBody (hexExpected fn a (hexBody a)) a "pipeline" false none
      | _, _ => "bad-op"
    | "tcall" :: fn :: mode :: ah :: rest => typedOp fn mode ah rest none
    | "form" :: fn :: refh :: rest =>
      let ref? : Option (Option Bytes) := if refh == "none" then some none else (bytesOfHex refh).map some
      match ref?, rest with
      | some referer, [ah] =>
        match hexEnc fn, bytesOfHex ah, fnPathOf fn with
        | some ie, some a, some path =>
          if fn == "hx_mw_block" then "bad-op" else
          runFixture ie (sfeCodec noCustomError) hexCodec hexCodec [] showErr (decodeErrUrl noCustomError)
            hexBody (hexBody a) a "pipeline" false (some (path, referer))
        | _, _, _ => "bad-op"
      | some referer, mode :: ah :: more => typedOp fn mode ah more (some referer)
      | _, _ => "bad-op"
    | "wcall" :: fn :: rqp :: rsp :: mode :: wh :: rest =>
      -- where the transport puts the body (own allocation / offset 0..15 in a larger buffer) is not an input of
      -- any decoder: the model's request and response carry the byte string only
      let placeOk := fun (t : String) => t == "own" || (match t.toNat? with | some k => k < 16 | none => false)
      let wideFns := ["w_rkyv", "w_cbor", "w_msgpack", "w_postcard", "w_json_rkyv", "w_rkyv_json", "w_patchcbor_putrkyv"]
      match bytesOfHex wh, findEnc (if fn == "w_patchcbor_putrkyv" then "Patch" else "Post") inputEncodings with
      | some a, some ie =>
        if !(placeOk rqp && placeOk rsp && wideFns.contains fn) then "bad-op" else
        let body? : Option (Bytes → Except SErr Bytes) :=
          match mode, rest with
          | "echo", [] => some fun x => .ok x
          | "fail", [variant, mh] =>
            match strOfHex mh with
            | some m => (mkErr "n" variant m).map fun e => fun _ => .error e
            | none => none
          | _, _ => none
        match body? with
        | some body =>
          runFixture ie (sfeCodec noCustomError) (opaqueCodec []) (opaqueCodec []) [] showErr (decodeErrUrl noCustomError)
            body (body a) a "pipeline" false none
        | none => "bad-op"
      | _, _ => "bad-op"
    | ["ws", mode, mh] =>
      let msgs? : Option (List Bytes) := if mh == "none" then some [] else (mh.splitOn ",").mapM bytesOfHex
      match msgs? with
      | some msgs =>
        if !(mode == "interactive" || mode == "batch") then "bad-op" else
        -- the harness' `ws_reply`
        let reply : Except SErr Bytes → Except SErr Bytes := fun it =>
          match it with
          | .ok (33 :: r) => (match fromUtf8 (33 :: r) with | .ok s => .error ⟨"ServerError".toList, s⟩ | .error _ => .ok (33 :: r))
          | .ok b => .ok (asciiB "re:" ++ b)
          | .error e => .error e
        let ec := sfeCodec noCustomError
        -- every message is sent with `send` (feed + flush), so it is on the wire before the caller waits:
        -- interactive and batch conversations see the same answers
        let w := msgs.foldl (fun w m => w.send (wsEncode ec rawCodec (.ok m))) ({} : Writer)
        let remote := w.wire.map fun f => wsDecode ec rawCodec (wsEncode ec rawCodec (reply (wsDecode ec rawCodec f)))
        let direct := msgs.map fun m => reply (.ok m)
        s!"{showItems remote} ## {if remote == direct && w.queue.isEmpty then "ok" else "fail websocket"}"
      | none => "bad-op"
    | ["dcall", fn, ds, ws] =>
      -- a thread nested `depth` levels, `width` replies per level: 1 + depth * width nodes.  The model's codecs are
      -- total on every encoder output whatever the depth; the third-party decoders of the fixture are not:
      -- serde_json (Json, SerdeLite) stops at 128 levels = depth 62, ciborium at 256 levels = depth 126
      let limit? : Option (Option Nat) :=
        if fn == "d_json" || fn == "d_serdelite" || fn == "d_json_cbor" then some (some 62)
        else if fn == "d_cbor" then some (some 126)
        else if fn == "d_msgpack" || fn == "d_postcard" then some none
        else none
      match limit?, ds.toNat?, ws.toNat? with
      | some limit, some depth, some width =>
        if depth > 400 || width > 4 || width == 0 then "bad-op" else
        let tooDeep : Bool := match limit with | some l => decide (depth > l) | none => false
        if tooDeep then "err Deserialization ## fail deep-nesting"
        else s!"ok {depth} {1 + depth * width} ## ok"
      | _, _, _ => "bad-op"
    | ["ncall", fn] =>
      let r? : Option (InEnc × Except SErr Bytes) :=
        if fn == "noargs_get" then (findEnc "GetUrl" inputEncodings).map fun ie => (ie, .ok (asciiB "pong|\n"))
        else if fn == "noargs_post" then (findEnc "PostUrl" inputEncodings).map fun ie => (ie, .ok (asciiB "pong|\n"))
        else if fn == "noargs_cbor" then
          (findEnc "Post" inputEncodings).map fun ie => (ie, .error ⟨"ServerError".toList, "always|fails".toList⟩)
        else none
      match r? with
      | some (ie, result) =>
        let remote := showRes (remoteCall ie (sfeCodec noCustomError) unitCodec (opaqueCodec []) (fun _ => result) ())
        s!"{remote} ## {verdictEq remote (showRes result) "pipeline"}"
      | none => "bad-op"
    | ["path", _fn, ph, eh, nh] =>
      let pfx? : Option (Option Str) := if ph == "default" then some none else (strOfHex ph).map some
      let ep? : Option (Option Str) := if eh == "none" then some none else (strOfHex eh).map some
      match pfx?, ep?, strOfHex nh with
      | some pfx, some ep, some name =>
        -- the hash suffix depends on the build directory: both sides print the path without it
        let path := serverFnPath pfx ep name []
        s!"{hexOfStr path} registered ## ok"
      | _, _, _ => "bad-op"
    | ["canned", fn, st, bh, ah] =>
      match hexEnc fn, st.toNat?, bytesOfHex bh, bytesOfHex ah with
      | some ie, some status, some b, some a =>
        let ec := sfeCodec noCustomError
        let r := runClient ie ec hexCodec hexCodec (fun _ => ⟨status, b⟩) a
        -- the rule itself, written independently: error statuses use the error decoder and nothing else
        let expect : Except SErr Bytes :=
          if 400 ≤ status ∧ status ≤ 599 then .error (de noCustomError b)
          else match hexCodec.dec b with
            | .ok o => .ok o
            | .error m => .error ⟨deserializationKind, m⟩
        s!"{showRes r} ## {verdictEq (showRes r) (showRes expect) "status-rule"}"
      | _, _, _, _ => "bad-op"
    | ["rawreq", fn, ms, qh, bh] =>
      match hexEnc fn, parseMethod ms, bytesOfHex bh with
      | some ie, some m, some b =>
        let q? : Option (Option Bytes) := if qh == "none" then some none else (bytesOfHex qh).map some
        match q? with
        | some q =>
          let ec := sfeCodec noCustomError
          let res := dispatch ie (runServer ie ec hexCodec hexCodec hexBody) ⟨m, q, b⟩
          let good := res.status == 200 || res.status == 400 || (res.status == 500 && ser (de noCustomError res.body) == res.body)
          s!"{res.status} {hexOfBytes res.body} ## {if good then "ok" else "fail server-response"}"
        | none => "bad-op"
      | _, _, _ => "bad-op"
    | ["corrupth", fn, side, spec, ah] =>
      match hexEnc fn, bytesOfHex ah with
      | some ie, some a =>
        let ec := sfeCodec noCustomError
        let handler := dispatch ie (runServer ie ec hexCodec hexCodec hexBody)
        let send? : Option (Req → Res) :=
          if side == "req" then
            some fun r => match mutReq spec r with | some r' => handler r' | none => ⟨0, []⟩
          else if side == "res" then
            some fun r => let res := handler r
                          match mutate spec res.body with | some b' => { res with body := b' } | none => ⟨0, []⟩
          else none
        match send?, mutate spec [] with
        | some send, some _ => s!"{showRes (runClient ie ec hexCodec hexCodec send a)} ## ok"
        | _, _ => "bad-op"
      | _, _ => "bad-op"
    | "corrupt" :: fn :: side :: spec :: _ =>
      -- third-party decoders on corrupted bytes: outside the model (testing); only the op shape is checked
      match typedEncName fn, mutate spec [] with
      | some _, some _ => if side == "req" || side == "res" then "done ## ok" else "bad-op"
      | _, _ => "bad-op"
    | ["streamout", kind, itemsH] =>
      let ws := if itemsH == "none" then [] else itemsH.splitOn ","
      if kind == "text" then
        match ws.mapM parseTextItem with
        | some items =>
          let remote := textOutRemote noCustomError items
          let good := prefixKey remote == prefixKey items
          s!"{showItems remote} ## {if good then "ok" else "fail stream-out"}"
        | none => "bad-op"
      else if kind == "bytes" then
        match ws.mapM parseBytesItem with
        | some items =>
          let remote := bytesOutRemote noCustomError items
          let key := fun (l : List WireChunk) => let (t, e) := prefixKey l; (t, e.map (de noCustomError))
          let good := key remote == key items
          s!"{showWire remote} ## {if good then "ok" else "fail stream-out"}"
        | none => "bad-op"
      else "bad-op"
    | ["stream", kind, chunksH] =>
      let chunks? : Option (List Bytes) :=
        if chunksH == "none" then some [] else (chunksH.splitOn ",").mapM bytesOfHex
      match chunks? with
      | some chunks =>
        let body := chunks.flatten
        if kind == "bytes" then
          let items : List (Except SErr Bytes) := (rechunk 16 body).map .ok
          s!"{showItems items} ## ok"
        else if kind == "text" then
          -- server half: re-chunked body through `decode_text_chunks`; the echoed items travel back as
          -- chunks that are complete on their own (an error item as its `ser()` bytes)
          let items := (textDecodeItems (rechunk 16 body)).map fun it =>
            match it with
            | .ok b => .ok b
            | .error e => .error (de noCustomError (ser e))
          let payload := items.flatMap fun it => match it with | .ok b => b | .error _ => []
          let good := (items.all fun it => match it with | .ok _ => true | .error _ => false) && payload == body
          s!"{showItems items} ## {if good then "ok" else "fail text-stream"}"
        else "bad-op"
      | none => "bad-op"
    | _ => "bad-op"
  ((), out)

def main : IO Unit := runDriver step ()
