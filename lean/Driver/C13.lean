import LeptosModel.Model.Wire
import LeptosModel.Model.Url
import LeptosModel.Model.ServerFn
/-! Line-protocol driver for C13 (op grammar: harness/hx-c13/src/bin/c13.rs).

Test fixtures that are not part of the model proper live here: the custom error type `Cust`
(`c`), the bodies of the loop-back server functions and the table of typed functions. -/
open Leptos Leptos.Wire Leptos.ServerFn Leptos.Gen.ErrorKinds

def strOfHex (h : String) : Option Str :=
  match bytesOfHex h with
  | some bs => match fromUtf8 bs with | .ok s => some s | .error _ => none
  | none => none

def hexOfStr (s : Str) : String := hexOfBytes (utf8Encode s)

def showErr (e : SErr) : String := String.ofList e.kind ++ ":" ++ hexOfStr e.msg

/-- harness type `Cust(String)`: `Display` prints the string, `FromStr` rejects a leading `!` -/
def custBang : Custom := ⟨fun s => match s with | '!' :: _ => none | _ => some s⟩

def customOf (ty : String) : Option Custom :=
  if ty == "n" then some noCustomError else if ty == "c" then some custBang else none

/-- the value the harness builds for `<ty> <Variant> <msg>`; `none` = not a variant -/
def mkErr (ty : String) (variant : String) (msg : Str) : Option SErr :=
  match assoc variant.toList variants with
  | some true => some ⟨variant.toList, if ty == "n" then "Unit Type Displayed".toList else msg⟩
  | some false => some ⟨variant.toList, msg⟩
  | none => none

/-- does the custom payload survive `Display` then `FromStr` (hypothesis of the round trip) -/
def customLaw (cu : Custom) (e : SErr) : Bool :=
  match assoc e.kind variants with
  | some true => cu.canon e.msg == some e.msg
  | _ => true

/-! ### loop-back fixtures -/

/-- body of the hex server functions: `E <k> <utf8 msg>` fails with the `k`-th variant, anything else echoes -/
def hexBody (a : Bytes) : Except SErr Bytes :=
  match a with
  | 69 :: k :: m =>
    match variants[k]?, fromUtf8 m with
    | some (v, false), .ok s => .error ⟨v, s⟩
    | _, _ => .ok a
  | _ => .ok a

def showRes (r : Except SErr Bytes) : String :=
  match r with
  | .ok b => "ok " ++ hexOfBytes b
  | .error e => "err " ++ showErr e

def hexFns : List (String × String) := [("hx_post", "Post"), ("hx_patch", "Patch"), ("hx_put", "Put")]

/-- typed functions: name, input encoding row, `Display` of the decoder's error on empty input -/
def typedFns : List (String × String × String) := [
  ("t_json", "Post", ""), ("t_geturl", "GetUrl", ""), ("t_posturl", "PostUrl", ""),
  ("t_deleteurl", "DeleteUrl", ""),
  ("t_patchurl", "PatchUrl", ""), ("t_puturl", "PutUrl", ""),
  ("t_cbor", "Post", ""), ("t_msgpack", "Post", ""), ("t_postcard", "Post", ""), ("t_rkyv", "Post", ""),
  ("t_serdelite", "Post", ""), ("t_patchjson", "Patch", ""), ("t_putcbor", "Put", ""),
  ("t_json_cbor", "Post", ""), ("t_geturl_rkyv", "GetUrl", ""), ("t_postcard_msgpack", "Post", ""),
  ("t_cbor_app", "Post", "") ]

def isPrefixB : Bytes → Bytes → Bool
  | [], _ => true
  | _ :: _, [] => false
  | a :: as, b :: bs => a == b && isPrefixB as bs

def containsSub (pat : Bytes) : Bytes → Bool
  | [] => pat.isEmpty
  | b :: bs => isPrefixB pat (b :: bs) || containsSub pat bs

/-- replace every occurrence of `pat` (non-empty) by `rep`; `skip` = bytes of a match still to drop -/
def replaceGo (pat rep : Bytes) : Nat → Bytes → Bytes
  | _, [] => []
  | k + 1, _ :: bs => replaceGo pat rep k bs
  | 0, b :: bs =>
    if isPrefixB pat (b :: bs) then rep ++ replaceGo pat rep (pat.length - 1) bs
    else b :: replaceGo pat rep 0 bs

def asciiB (s : String) : Bytes := s.toList.map Char.toNat

/-- serde_qs (`GetUrl`, `PostUrl`, …) on the fixture type `Payload`, observed on the JSON rendering of the
arguments: an empty sequence leaves no key behind (`missing field`), `Some("")` reads back as `None` -/
def urlFixtureCodec (emptyErr : Str) : Codec Bytes where
  enc := fun bs => .ok bs
  dec := fun bs =>
    if bs.isEmpty then .error emptyErr
    else if containsSub (asciiB "\"list\":[]") bs then .error "missing field `list`".toList
    else if containsSub (asciiB "\"nums\":[]") bs then .error "missing field `nums`".toList
    else .ok (replaceGo (asciiB "\"opt\":\"\"") (asciiB "\"opt\":null") 0 bs)

def urlClass (a : Bytes) : String :=
  if containsSub (asciiB "\"list\":[]") a || containsSub (asciiB "\"nums\":[]") a then "urlenc-empty-vec"
  else if containsSub (asciiB "\"opt\":\"\"") a then "urlenc-some-empty"
  else "pipeline"

def lookup3 (n : String) : List (String × String × String) → Option (String × String)
  | [] => none
  | (k, a, b) :: rest => if k == n then some (a, b) else lookup3 n rest

def lookup2 (n : String) : List (String × String) → Option String
  | [] => none
  | (k, a) :: rest => if k == n then some a else lookup2 n rest

def hexEnc (fn : String) : Option InEnc := (lookup2 fn hexFns).bind fun e => findEnc e inputEncodings

def parseMethod (s : String) : Option Method :=
  if s == "GET" then some .get else if s == "POST" then some .post else if s == "PUT" then some .put
  else if s == "PATCH" then some .patch else if s == "DELETE" then some .delete else none

def flipBit (b k : Nat) : Nat := Nat.xor b (2 ^ k)

/-- byte-level corruption: `t<n>` truncate, `f<i>` flip one bit, `a<x>` append a byte -/
def mutate (spec : String) (bs : Bytes) : Option Bytes :=
  match spec.toList with
  | 't' :: ds => (String.ofList ds).toNat?.map fun n => bs.take (n % (bs.length + 1))
  | 'f' :: ds => (String.ofList ds).toNat?.map fun i =>
      if bs.isEmpty then bs else
      let j := i % (8 * bs.length)
      (List.range bs.length).zip bs |>.map fun (ix, b) => if ix = j / 8 then flipBit b (j % 8) else b
  | 'a' :: ds => (String.ofList ds).toNat?.map fun x => bs ++ [x % 256]
  | _ => none

def mutReq (spec : String) (r : Req) : Option Req :=
  match r.query with
  | some q => (mutate spec q).map fun q' => { r with query := some q' }
  | none => (mutate spec r.body).map fun b' => { r with body := b' }

def verdictEq (remote direct : String) (cls : String) : String :=
  if remote == direct then "ok" else "fail " ++ cls

/-- the error side of `t_cbor_app`: an opaque lawful error codec -/
inductive AppE where
  | app (json : Bytes)
  | sfe (kind msg : Str)

def appCodec : ErrCodec AppE where
  ser := fun e => match e with | .app j => 0 :: j | .sfe k m => 1 :: utf8Encode (k ++ '|' :: m)
  de := fun b => match b with
    | 0 :: j => .app j
    | _ => .sfe deserializationKind []
  fromSfe := fun k m => .sfe k m

def showAppRes (r : Except AppE Bytes) : String :=
  match r with
  | .ok b => "ok " ++ hexOfBytes b
  | .error (.app j) => "err app:" ++ hexOfBytes j
  | .error (.sfe k m) => "err appsfe:" ++ String.ofList k ++ ":" ++ hexOfStr m

def showItems (items : List (Except SErr Bytes)) : String :=
  if items.isEmpty then "-" else
  ",".intercalate (items.map fun it => match it with
    | .ok b => "o" ++ hexOfBytes b
    | .error e => "e" ++ showErr e)

/-- `o<hex>` | `e<Variant>:<msghex>` -/
def parseTextItem (w : String) : Option (Except SErr Bytes) :=
  match w.toList with
  | 'o' :: h => (bytesOfHex (String.ofList h)).bind fun b =>
      match fromUtf8 b with | .ok _ => some (.ok b) | .error _ => none
  | 'e' :: r =>
    match (String.ofList r).splitOn ":" with
    | [v, mh] => (strOfHex mh).bind fun m => (mkErr "n" v m).map .error
    | _ => none
  | _ => none

/-- `o<hex>` | `x<hex of raw error bytes>` -/
def parseBytesItem (w : String) : Option WireChunk :=
  match w.toList with
  | 'o' :: h => (bytesOfHex (String.ofList h)).map .ok
  | 'x' :: h => (bytesOfHex (String.ofList h)).map .error
  | _ => none

def showWire (items : List WireChunk) : String :=
  if items.isEmpty then "-" else
  ",".intercalate (items.map fun it => match it with
    | .ok b => "o" ++ hexOfBytes b
    | .error b => "x" ++ hexOfBytes b)

/-- what the wire promises whatever the chunking: the text before the first error, and that error -/
def prefixKey {ε : Type} : List (Except ε Bytes) → Bytes × Option ε
  | [] => ([], none)
  | .ok b :: rest => let (t, e) := prefixKey rest; (b ++ t, e)
  | .error e :: _ => ([], some e)

def step (_ : Unit) (line : String) : Unit × String :=
  let out :=
    match words line with
    | ["case", n] => s!"case {n}"
    | ["ser", ty, variant, mh] =>
      match customOf ty, strOfHex mh with
      | some cu, some m =>
        match mkErr ty variant m with
        | some e =>
          let bytes := ser e
          let back := de cu bytes
          let v := if customLaw cu e && back != e then "fail error-roundtrip" else "ok"
          s!"{hexOfBytes bytes} {showErr back} ## {v}"
        | none => "bad-op"
      | _, _ => "bad-op"
    | ["de", ty, bh] =>
      match customOf ty, bytesOfHex bh with
      | some cu, some bs => s!"{showErr (de cu bs)} ## ok"
      | _, _ => "bad-op"
    | ["tourl", ty, baseh, pathh, variant, mh] =>
      match customOf ty, bytesOfHex baseh, strOfHex pathh, strOfHex mh with
      | some cu, some base, some path, some m =>
        match mkErr ty variant m with
        | some e =>
          match toUrl base (utf8Encode path) (ser e) with
          | none => "parse-error ## ok"
          | some u =>
            let pairs := Url.formParse ((splitUrl u).query.getD [])
            let back := (queryGetLast errKey pairs).map (decodeErrUrl cu)
            let pback := queryGetLast pathKey pairs
            let good := (!customLaw cu e || back == some e) && pback == some (utf8Encode path)
            let v := if good then "ok" else "fail url-roundtrip"
            let bs := match back with | some b => showErr b | none => "none"
            let ps := match pback with | some p => hexOfBytes p | none => "none"
            s!"{hexOfBytes u} {bs} {ps} ## {v}"
        | none => "bad-op"
      | _, _, _, _ => "bad-op"
    | ["decerr", ty, sh] =>
      match customOf ty, bytesOfHex sh with
      | some cu, some s => s!"{showErr (decodeErrUrl cu s)} ## ok"
      | _, _ => "bad-op"
    | ["strip", uh] =>
      match bytesOfHex uh with
      | some u =>
        let r := stripErrorInfo u
        let before := (Url.formParse ((splitUrl u).query.getD [])).filter fun kv => kv.1 ≠ pathKey ∧ kv.1 ≠ errKey
        let after := Url.formParse ((splitUrl r).query.getD [])
        let good := !hasScheme u || (after == before && (splitUrl r).pre == (splitUrl u).pre && (splitUrl r).frag == (splitUrl u).frag)
        s!"{hexOfBytes r} ## {if good then "ok" else "fail strip"}"
      | none => "bad-op"
    | ["call", fn, ah] =>
      match hexEnc fn, bytesOfHex ah with
      | some ie, some a =>
        let cu := noCustomError
        let remote := showRes (remoteCall ie (sfeCodec cu) hexCodec hexCodec hexBody a)
        let direct := showRes (hexBody a)
        s!"{remote} ## {verdictEq remote direct "pipeline"}"
      | _, _ => "bad-op"
    | "tcall" :: fn :: mode :: ah :: rest =>
      match lookup3 fn typedFns, bytesOfHex ah with
      | some (encName, emptyErr), some a =>
        match findEnc encName inputEncodings with
        | none => "bad-op"
        | some ie =>
          let isUrl := ie.decErrKind == argsKind
          let cls := if !ie.slotsAgree then "slot-mismatch" else if isUrl then urlClass a else "pipeline"
          let ci := if isUrl then urlFixtureCodec emptyErr.toList else opaqueCodec emptyErr.toList
          let co := opaqueCodec []
          if fn == "t_cbor_app" then
            let body? : Option (Bytes → Except AppE Bytes) :=
              match mode, rest with
              | "echo", [] => some fun x => .ok x
              | "failapp", [jh] => (bytesOfHex jh).map fun j => fun _ => .error (.app j)
              | _, _ => none
            match body? with
            | some body =>
              let remote := showAppRes (remoteCall ie appCodec ci co body a)
              let direct := showAppRes (body a)
              s!"{remote} ## {verdictEq remote direct cls}"
            | none => "bad-op"
          else
            let body? : Option (Bytes → Except SErr Bytes) :=
              match mode, rest with
              | "echo", [] => some fun x => .ok x
              | "fail", [variant, mh] =>
                match strOfHex mh with
                | some m => (mkErr "n" variant m).map fun e => fun _ => .error e
                | none => none
              | _, _ => none
            match body? with
            | some body =>
              let remote := showRes (remoteCall ie (sfeCodec noCustomError) ci co body a)
              let direct := showRes (body a)
              s!"{remote} ## {verdictEq remote direct cls}"
            | none => "bad-op"
      | _, _ => "bad-op"
    | ["canned", fn, st, bh, ah] =>
      match hexEnc fn, st.toNat?, bytesOfHex bh, bytesOfHex ah with
      | some ie, some status, some b, some a =>
        let ec := sfeCodec noCustomError
        let r := runClient ie ec hexCodec hexCodec (fun _ => ⟨status, b⟩) a
        -- the rule itself, written independently: error statuses use the error decoder and nothing else
        let expect : Except SErr Bytes :=
          if 400 ≤ status ∧ status ≤ 599 then .error (de noCustomError b)
          else match hexCodec.dec b with
            | .ok o => .ok o
            | .error m => .error ⟨deserializationKind, m⟩
        s!"{showRes r} ## {verdictEq (showRes r) (showRes expect) "status-rule"}"
      | _, _, _, _ => "bad-op"
    | ["rawreq", fn, ms, qh, bh] =>
      match hexEnc fn, parseMethod ms, bytesOfHex bh with
      | some ie, some m, some b =>
        let q? : Option (Option Bytes) := if qh == "none" then some none else (bytesOfHex qh).map some
        match q? with
        | some q =>
          let ec := sfeCodec noCustomError
          let res := dispatch ie (runServer ie ec hexCodec hexCodec hexBody) ⟨m, q, b⟩
          let good := res.status == 200 || res.status == 400 || (res.status == 500 && ser (de noCustomError res.body) == res.body)
          s!"{res.status} {hexOfBytes res.body} ## {if good then "ok" else "fail server-response"}"
        | none => "bad-op"
      | _, _, _ => "bad-op"
    | ["corrupth", fn, side, spec, ah] =>
      match hexEnc fn, bytesOfHex ah with
      | some ie, some a =>
        let ec := sfeCodec noCustomError
        let handler := dispatch ie (runServer ie ec hexCodec hexCodec hexBody)
        let send? : Option (Req → Res) :=
          if side == "req" then
            some fun r => match mutReq spec r with | some r' => handler r' | none => ⟨0, []⟩
          else if side == "res" then
            some fun r => let res := handler r
                          match mutate spec res.body with | some b' => { res with body := b' } | none => ⟨0, []⟩
          else none
        match send?, mutate spec [] with
        | some send, some _ => s!"{showRes (runClient ie ec hexCodec hexCodec send a)} ## ok"
        | _, _ => "bad-op"
      | _, _ => "bad-op"
    | "corrupt" :: fn :: side :: spec :: _ =>
      -- third-party decoders on corrupted bytes: outside the model (testing); only the op shape is checked
      match lookup3 fn typedFns, mutate spec [] with
      | some _, some _ => if side == "req" || side == "res" then "done ## ok" else "bad-op"
      | _, _ => "bad-op"
    | ["streamout", kind, itemsH] =>
      let ws := if itemsH == "none" then [] else itemsH.splitOn ","
      if kind == "text" then
        match ws.mapM parseTextItem with
        | some items =>
          let remote := textOutRemote noCustomError items
          let good := prefixKey remote == prefixKey items
          s!"{showItems remote} ## {if good then "ok" else "fail stream-out"}"
        | none => "bad-op"
      else if kind == "bytes" then
        match ws.mapM parseBytesItem with
        | some items =>
          let remote := bytesOutRemote noCustomError items
          let key := fun (l : List WireChunk) => let (t, e) := prefixKey l; (t, e.map (de noCustomError))
          let good := key remote == key items
          s!"{showWire remote} ## {if good then "ok" else "fail stream-out"}"
        | none => "bad-op"
      else "bad-op"
    | ["stream", kind, chunksH] =>
      let chunks? : Option (List Bytes) :=
        if chunksH == "none" then some [] else (chunksH.splitOn ",").mapM bytesOfHex
      match chunks? with
      | some chunks =>
        let body := chunks.flatten
        if kind == "bytes" then
          let items : List (Except SErr Bytes) := (rechunk 16 body).map .ok
          s!"{showItems items} ## ok"
        else if kind == "text" then
          -- server half: re-chunked body through `decode_text_chunks`; the echoed items travel back as
          -- chunks that are complete on their own (an error item as its `ser()` bytes)
          let items := (textDecodeItems (rechunk 16 body)).map fun it =>
            match it with
            | .ok b => .ok b
            | .error e => .error (de noCustomError (ser e))
          let payload := items.flatMap fun it => match it with | .ok b => b | .error _ => []
          let good := (items.all fun it => match it with | .ok _ => true | .error _ => false) && payload == body
          s!"{showItems items} ## {if good then "ok" else "fail text-stream"}"
        else "bad-op"
      | none => "bad-op"
    | _ => "bad-op"
  ((), out)

def main : IO Unit := runDriver step ()
