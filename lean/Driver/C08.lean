import LeptosModel.Model.Wire
import LeptosModel.Model.Owner
/-! Line-protocol driver for C08 (op grammar: harness/hx-c08/src/bin/c08.rs). -/
open Leptos Leptos.Wire Leptos.Owner

def parseNat (s : String) : Option Nat :=
  let cs := s.toList
  if cs.isEmpty || cs.length > 9 || !cs.all Char.isDigit then none
  else some (cs.foldl (fun n c => n * 10 + (c.toNat - 48)) 0)

def parseTy (s : String) : Option Nat := (parseNat s).filter (· < 3)

def parseTok (t : String) (maxBody : Nat) : Option BOp :=
  match t.toList with
  | [] => none
  | k :: rest =>
    let r := String.ofList rest
    match k with
    | 'r' => (parseNat r).map BOp.read
    | 'g' => (parseNat r).map BOp.get
    | 'c' => (parseNat r).map BOp.cleanup
    | 'n' => (parseNat r).map BOp.nested
    | 'i' => (parseNat r).map BOp.item
    | 's' => (parseNat r).map BOp.sig
    | 'p' =>
      match r.splitOn "." with
      | [a, b] => do
        let ty ← parseTy a
        let v ← parseNat b
        pure (BOp.provide ty v)
      | _ => none
    | 'u' => (parseTy r).map BOp.use
    | 't' => (parseTy r).map BOp.take
    | 'l' => (parseTy r).map BOp.use
    | 'b' => (parseTy r).map BOp.use
    | 'd' =>
      match r.splitOn "." with
      | [a, b] => do
        let ty ← parseTy a
        let v ← (parseNat b).filter (· < 10)
        pure (BOp.update ty v)
      | _ => none
    | 'e' => ((parseNat r).filter (· < maxBody)).map BOp.effect
    | 'E' => ((parseNat r).filter (· < maxBody)).map BOp.effect
    | 'I' => ((parseNat r).filter (· < maxBody)).map BOp.effect
    | 'v' => ((parseNat r).filter (· < maxBody)).map BOp.render
    | 'V' => ((parseNat r).filter (· < maxBody)).map BOp.render
    | 'j' => ((parseNat r).filter (· < maxBody)).map fun b => BOp.imm b false false
    | 'J' => ((parseNat r).filter (· < maxBody)).map fun b => BOp.imm b true false
    | 'q' => ((parseNat r).filter (· < maxBody)).map fun b => BOp.imm b false true
    | 'Q' => ((parseNat r).filter (· < maxBody)).map fun b => BOp.imm b false false
    | 'k' => ((parseNat r).filter (· < maxBody)).map fun b => BOp.spawn b false
    | 'K' => ((parseNat r).filter (· < maxBody)).map fun b => BOp.spawn b true
    | 'f' => ((parseNat r).filter (· < maxBody)).map fun b => BOp.spawn b false
    | 'z' =>
      match r.splitOn "." with
      | [a, b] => do
        let s ← parseNat a
        let v ← (parseNat b).filter (· < 10)
        pure (BOp.write s v)
      | _ => none
    | 'a' => ((parseNat r).filter (· < maxBody)).map BOp.async
    | 'w' =>
      match r.splitOn "." with
      | [a, b] => do
        let b1 ← (parseNat a).filter (· < maxBody)
        let b2 ← (parseNat b).filter (· < maxBody)
        pure (BOp.watch b1 b2 false)
      | _ => none
    | 'W' =>
      match r.splitOn "." with
      | [a, b] => do
        let b1 ← (parseNat a).filter (· < maxBody)
        let b2 ← (parseNat b).filter (· < maxBody)
        pure (BOp.watch b1 b2 true)
      | _ => none
    | 'm' => ((parseNat r).filter (· < maxBody)).map BOp.memo
    | 'y' =>
      match r.splitOn "." with
      | [a, b] => do
        let b1 ← (parseNat a).filter (· < maxBody)
        let b2 ← (parseNat b).filter (· < maxBody)
        pure (BOp.watch b1 b2 false)
      | _ => none
    | 'Y' =>
      match r.splitOn "." with
      | [a, b] => do
        let b1 ← (parseNat a).filter (· < maxBody)
        let b2 ← (parseNat b).filter (· < maxBody)
        pure (BOp.watch b1 b2 true)
      | _ => none
    | 'o' => if rest.isEmpty then some BOp.newOwner else none
    | _ => none

def parseIns : List String → Option (List Nat × List String)
  | "in" :: o :: rest => do
    let n ← parseNat o
    let (ins, tail) ← parseIns rest
    pure (n :: ins, tail)
  | ws => some ([], ws)

def parseKind : String → Option HKind
  | "i" => some .i
  | "s" => some .s
  | "m" => some .m
  | "e" => some .e
  | _ => none

def parseOp (st : St) (ws : List String) : Option Op := do
  let (ins, rest) ← parseIns ws
  let nb := st.bodies.length
  match rest with
  | ["x", tok] => (parseTok tok nb).map fun b => Op.act ins (Act.x b)
  | ["cleanup", o] => (parseNat o).map fun o => Op.act ins (Act.cleanup o)
  | ["wc", o, b] => do
    let o ← parseNat o
    let b ← (parseNat b).filter (· < nb)
    pure (Op.act ins (Act.wc o b))
  | _ =>
    if !ins.isEmpty then none else
    match rest with
    | ["body", toks] =>
      if toks == "-" then some (Op.body [])
      else ((toks.splitOn ",").mapM (parseTok · nb)).map Op.body
    | ["child", o] => (parseNat o).map Op.child
    | ["drop", o] => (parseNat o).map Op.drop
    -- `set(); unset()` with the last handle = a drop of the root with no owner current (op lines run
    -- with an empty owner stack)
    | ["unset", o] => (parseNat o).map Op.drop
    | ["dispose", k, i] => do
      let i ← parseNat i
      let k ← parseKind k
      pure (Op.dispose k i)
    | ["set", s, v] => do
      let s ← parseNat s
      let v ← parseNat v
      pure (Op.set s v)
    | ["pause", o] => (parseNat o).map Op.pause
    | ["resume", o] => (parseNat o).map Op.resume
    | ["poll", i] => (parseNat i).map Op.poll
    | ["idle"] => some Op.idle
    | ["end"] => some Op.«end»
    | _ => none

def showOpt : Option Int → String
  | some v => toString v
  | none => "-"

def showEv : Ev → String
  | .c tag _ _ _ => s!"C{tag}"
  | .r e => s!"R{e}"
  | .s e sum => s!"S{e}={sum}"
  | .m m => s!"M{m}"
  | .g m v => s!"G{m}={showOpt v}"
  | .u ty v => s!"U{ty}={showOpt v}"
  | .t ty v => s!"T{ty}={showOpt v}"
  | .h e => s!"H{e}"

/-- an effect's entry exists; for a scoped task: its future has not been dropped -/
def effShown (st : St) (k : Nat) : Bool :=
  match st.effs[k]? with
  | some er => if er.kind.isTask then !er.done else effLive st k
  | none => false

/-- status of every retained handle, in the harness's order: items, signals, memos, effects, owners -/
def statuses (st : St) : List (String × String) :=
  let items := (List.range st.items.length).map fun k =>
    (s!"i{k}", match (st.items[k]?).bind st.arena.get with
      | some (Val.num n) => toString n
      | _ => "x")
  let sigs := (List.range st.sigs.length).map fun k =>
    (s!"s{k}", match st.sigs[k]? with
      | some r => if sigLive st k then toString r.val else "x"
      | none => "x")
  let memos := (List.range st.memos.length).map fun k => (s!"m{k}", if memoLive st k then "l" else "x")
  let effs := (List.range st.effs.length).map fun k => (s!"e{k}", if effShown st k then "l" else "x")
  let owners := (List.range st.hOwners.length).map fun k =>
    (s!"o{k}", match heldOwner st k with
      | some o => match st.owners[o]? with
        | some r => if r.paused then "p" else "h"
        | none => "h"
      | none => "d")
  items ++ sigs ++ memos ++ effs ++ owners

def isRender (st : St) (k : Nat) : Bool :=
  match st.effs[k]? with
  | some er => er.kind == EffKind.render || er.kind.isImm || er.kind.isTask
  | none => false

/-- live retained *arena* handles (a `RenderEffect`, an `ImmediateEffect`, a task is not an arena entry) -/
def liveCount (st : St) : Nat :=
  ((statuses st).filter fun (n, s) => !n.startsWith "o" && s != "x").length
    - ((List.range st.effs.length).filter fun k => isRender st k && effShown st k).length

structure DSt where
  st : St := {}
  prev : List (String × String) := []

def step (d : DSt) (line : String) : DSt × String :=
  match words line with
  | ["case", n] => ({ st := { legacyImm := d.st.legacyImm } }, s!"case {n}")
  | ws =>
    match parseOp d.st ws with
    | none => (d, "bad-op")
    | some op =>
      let st0 := { d.st with staleHit := false, watchHit := false, immHit := false }
      match stepOp st0 op with
      | none => (d, "noop")
      | some st =>
        match op with
        | .body _ => ({ d with st := st }, s!"b{st.bodies.length - 1}")
        | _ =>
          -- the closures the library registers for itself (abort handle, scoped effect) print nothing
          let evs := ((st.log.drop st0.log.length).filter fun ev =>
            match ev with
            | .c tag _ _ _ => tag < 1000000000
            | _ => true).map showEv
          let cur := statuses st
          let changes := cur.filter fun (n, s) => (d.prev.lookup n) != some s
          let verdict := if st.staleHit then "fail ctx-survives-cleanup"
            else if st.immHit then "fail imm-reruns-after-dispose"
            else if st.watchHit then "fail watch-handler-unowned" else "ok"
          let e := if evs.isEmpty then "-" else ",".intercalate evs
          let c := if changes.isEmpty then "-" else ",".intercalate (changes.map fun (n, s) => s!"{n}={s}")
          ({ st := st, prev := cur }, s!"{e} | {c} | live={liveCount st} ## {verdict}")

/-- the model follows the repaired code (c0cdb98: `ImmediateEffect::dispose` stops a running effect);
the pre-repair behaviour stays available as `legacyImm := true` for the regression witness only -/
def main : IO Unit := runDriver step { st := {} }
