import LeptosModel.Model.Wire
import LeptosModel.Model.Store
/-! Line-protocol driver for C16 (op grammar: harness/hx-c16/src/bin/c16.rs). -/
open Leptos Leptos.Wire Leptos.Store

/-! ## text -/

mutual
def showVal : Val → String
  | .leaf n => toString n
  | .node t xs =>
    match t with
    | .struct => "{" ++ showVals xs ++ "}"
    | .vec => "[" ++ showVals xs ++ "]"
    | .kvec => "<" ++ showVals xs ++ ">"
    | .atom => "(" ++ showVals xs ++ ")"
    | .enumv => "^" ++ showVals xs ++ "$"
    | .opt => match xs with
      | [] => "~"
      | x :: _ => "?" ++ showVal x
def showVals : List Val → String
  | [] => ""
  | [x] => showVal x
  | x :: y :: r => showVal x ++ "," ++ showVals (y :: r)
end

def showSeen : Seen → String
  | .val v => showVal v
  | .none => "none"
  | .absent => "absent"
  | .panic => "panic"

def isDigit (c : Char) : Bool := '0' ≤ c && c ≤ '9'

def takeNat : List Char → Nat → Nat × List Char
  | c :: r, acc => if isDigit c then takeNat r (acc * 10 + (c.toNat - 48)) else (acc, c :: r)
  | [], acc => (acc, [])

mutual
def parseVal : Nat → List Char → Option (Val × List Char)
  | 0, _ => none
  | f + 1, cs =>
    match cs with
    | '{' :: r => (parseItems f r '}').map fun (xs, r') => (.node .struct xs, r')
    | '[' :: r => (parseItems f r ']').map fun (xs, r') => (.node .vec xs, r')
    | '<' :: r => (parseItems f r '>').map fun (xs, r') => (.node .kvec xs, r')
    | '(' :: r => (parseItems f r ')').map fun (xs, r') => (.node .atom xs, r')
    | '^' :: r => (parseItems f r '$').map fun (xs, r') => (.node .enumv xs, r')
    | '~' :: r => some (.node .opt [], r)
    | '?' :: r => (parseVal f r).map fun (v, r') => (.node .opt [v], r')
    | c :: r => if isDigit c then let (n, r') := takeNat (c :: r) 0; some (.leaf n, r') else none
    | [] => none
def parseItems : Nat → List Char → Char → Option (List Val × List Char)
  | 0, _, _ => none
  | f + 1, cs, close =>
    match cs with
    | c :: r =>
      if c = close then some ([], r)
      else
        match parseVal f (if c = ',' then r else c :: r) with
        | some (v, r') => (parseItems f r' close).map fun (xs, r'') => (v :: xs, r'')
        | none => none
    | [] => none
end

def parseValStr (s : String) : Option Val :=
  let cs := s.toList
  match parseVal (cs.length + 2) cs with
  | some (v, []) => some v
  | _ => none

def parseAcc (s : String) : Option Acc :=
  match s.toList with
  | 'v' :: r =>
    -- `v<variant>_<field>`
    match (String.ofList r).splitOn "_" with
    | [a, b] => match a.toNat?, b.toNat? with
      | some v, some i => some (.var v i)
      | _, _ => none
    | _ => none
  | c :: r =>
    if r.isEmpty || !r.all isDigit then none
    else
      let n := (takeNat r 0).1
      if c = 'h' then some (.h n) else if c = 'f' then some (.fld n) else if c = 'i' then some (.idx n)
      else if c = 'k' then some (.kfld n) else if c = '@' then some (.key n) else none
  | [] => none

def parseChain (s : String) : Option Chain :=
  if s == "-" then some [] else (s.splitOn ".").mapM parseAcc

def showIds (l : List Nat) : String :=
  if l.isEmpty then "-" else ",".intercalate (l.map toString)

def showLog (l : List (Nat × Seen)) : String :=
  if l.isEmpty then "-" else ";".intercalate (l.map fun (e, s) => s!"{e}:{showSeen s}")

/-! ## the oracle, evaluated on the model's output -/

def dedup (l : List Nat) : List Nat := l.foldl (fun acc x => if acc.contains x then acc else acc ++ [x]) []

def strictPrefix (a b : Chain) : Bool :=
  (a.map Acc.norm).isPrefixOf (b.map Acc.norm) && a.length < b.length

def lastSeen (log : List (Nat × Seen)) (e : Nat) : Option Seen :=
  (log.reverse.find? (·.1 = e)).map (·.2)

/-- the logical chain of reader `e` (a handle stands for the chain it was made from) -/
def chainOf (st : St) (e : Nat) : Chain :=
  match st.effs[e]? with | some x => expandH st.handles x.chain | none => []

/-- length of the first prefix of `c` that addresses an `Option` field which `c` then unwraps -/
def optPrefix (v : Val) (c : Chain) : Option Nat :=
  (List.range c.length).find? fun n =>
    match logicalGet v (c.take n) with
    | .val (.node .opt _) => true
    | .val (.node .enumv _) => true
    | _ => false

/-- a reader (or write) that holds the `Subfield` of an enum variant's field can only be built while the value
is of that variant (`variant_field()` returns `None` otherwise) -/
def varsMatch (v : Val) (c : Chain) : Bool :=
  (List.range c.length).all fun n =>
    match c[n]? with
    | some (.var _ _) => (match logicalGet v (c.take (n + 1)) with | .val _ => true | _ => false)
    | _ => true

/-- the field a reader reads for the purpose of "is this write related to it": a reader that goes through
`OptionStoreExt::map` / `invert` reads the `Option` field itself (is it `Some`?) -/
def relChainOf (st : St) (e : Nat) : Chain :=
  match st.effs[e]? with
  | some x =>
    match x.kind with
    | .omap =>
      let lc := expandH st.handles x.chain
      match optPrefix st.val lc with | some n => lc.take n | none => lc
    | _ => expandH st.handles x.chain
  | none => []
def isImm (st : St) (e : Nat) : Bool := match st.effs[e]? with | some x => x.imm | none => false

/-- the statement's order clause: a reader of a proper ancestor of the written field `w` must not run
after (its first run) a reader of a proper descendant of `w` -/
def orderBad (st : St) (w : Chain) : List Nat → Bool
  | [] => false
  | e :: rest =>
    (strictPrefix w (relChainOf st e) && rest.any (fun e2 => strictPrefix (relChainOf st e2) w)) || orderBad st w rest

def valuesBad (st : St) (ids : List Nat) : Bool :=
  ids.any fun e =>
    match lastSeen st.log e with
    | some s => showSeen s != showSeen (logicalGet st.val (chainOf st e))
    | none => false

def hasKey (c : Chain) : Bool := c.any fun a => match a with | .key _ => true | .kfld _ => true | _ => false
def hasIdx (c : Chain) : Bool := c.any fun a => match a with | .idx _ => true | _ => false
def endsKeyed (c : Chain) : Bool := match c.getLast? with | some (.kfld _) => true | _ => false
/-- accessors whose `track_field` does not track the `this` triggers of all ancestors -/
def endsDefaultTrack (c : Chain) : Bool :=
  match c.getLast? with | some (.key _) => true | some (.kfld _) => true | some (.idx _) => true | _ => false

/-- verdict of a write-like op: `ws` = the logical chains written, `wc` = the accessor chain used -/
def judgeWrite (before st : St) (ever : List Bool) (ws : List Chain) (wc : Chain) (isPatch : Bool)
    (era : Option Nat) : String :=
  let all := List.range st.effs.length
  let exp := all.filter fun e => ws.any fun w => related w (relChainOf st e)
  let rb := before.ready
  let ra := st.ready
  let ran := dedup (st.log.map (·.1))
  -- a reader of a key that has never been in the collection has no field: waking it is not held against the code
  let excused (e : Nat) : Bool :=
    !(ever.getD e true) && (match logicalGet st.val (chainOf st e) with | .none => true | _ => false)
  let missing := exp.filter fun e => (if isImm st e then !ran.contains e else !ra.contains e) && !excused e
  -- a held `Subfield` of a field of an enum variant that the value is not in (before and after the write)
  -- addresses no field either
  let deadVariant (e : Nat) : Bool :=
    (chainOf st e).any (fun a => match a with | .var _ _ => true | _ => false) &&
    (match logicalGet before.val (chainOf st e), logicalGet st.val (chainOf st e) with
     | .absent, .absent => true | _, _ => false)
  let spurious := ((ra.filter fun e => !rb.contains e && !exp.contains e) ++ (ran.filter fun e => !exp.contains e)).filter
    (fun e => !excused e && !deadVariant e)
  let keyed := hasKey wc || ws.any hasKey
  if valuesBad st ran then "fail stale-keys"
  else if !spurious.isEmpty then
    if wc.any (fun a => match a with | .var _ _ => true | _ => false) then "fail enum-variant-fields-share-segment"
    else if hasIdx wc then "fail index-write-wakes-cousins"
    else if isPatch && keyed then "fail patch-keyed-by-index"
    else if spurious.any (fun e => match logicalGet st.val (chainOf st e) with | .none => true | _ => false)
      then "fail removed-key-reader-not-dropped"
    else "fail segment-collision"
  else if !missing.isEmpty then
    if isPatch && keyed then "fail patch-keyed-by-index"
    else if wc.isEmpty && era.isSome && !isPatch then "fail root-handle-write-misses-descendants"
    else if missing.all (fun e => match st.effs[e]? with | some x => x.kind == .iterU | none => false)
      then "fail iter-unkeyed-misses-ancestor-write"
    else if missing.all (fun e => endsDefaultTrack (chainOf st e)) then "fail accessor-misses-ancestor-write"
    else "fail missing-wake"
  else if orderBad st wc ran then "fail wake-order"
  else "ok"

def judgeRuns (st : St) : String :=
  if valuesBad st (dedup (st.log.map (·.1))) then "fail stale-keys" else "ok"

/-! ## protocol -/

structure DS where
  st : Option St
  dead : Bool
  /-- per reader: has its field ever existed (keyed items: has its key ever been in the collection)? -/
  ever : List Bool

def presentNow (st : St) (e : Nat) : Bool :=
  match logicalGet st.val (chainOf st e) with | .none => false | _ => true

def updEver (ever : List Bool) (st : St) : List Bool :=
  (List.range st.effs.length).map fun e => ever.getD e false || presentNow st e

def render (st : St) (pre : String) (verdict : String) : String :=
  s!"{pre}r={showIds st.ready} l={showLog st.log} ## {verdict}"

def hasImm (st : St) : Bool := st.effs.any (·.imm)

def showWrote : Wrote → String
  | .done => "done" | .absent => "absent" | .none => "none" | .panic => "panic"

def doWrite (d : DS) (st : St) (op : Op) (c0 : Chain) (isPatch : Bool) (newv : Option Val)
    (era : Option Nat := none) : DS × String :=
  let c := expandH st.handles c0
  let old := logicalGet st.val c
  let r := stepOp st op
  if r.1.panicked then ({ d with st := some r.1, dead := true }, "panic ## fail stale-keys")
  else
    let ever := updEver d.ever r.1
    let ws : List Chain :=
      match r.2 with
      | .done =>
        if isPatch then
          match old, newv with
          | .val o, some n => diffVal o.untop n.untop c
          | _, _ => [c]
        else [c]
      | _ => []
    ({ d with st := some r.1, ever := ever }, render r.1 s!"w={showWrote r.2} " (judgeWrite st r.1 ever ws c isPatch era))

/-- a chain as written in an op (`h<id>` only at the head, and only an existing handle) and its logical chain -/
def parseChainH (st : St) (s : String) : Option (Chain × Chain) :=
  match parseChain s with
  | some c =>
    let okHead := match c with
      | .h id :: _ => decide (id < st.handles.length)
      | _ => true
    if okHead && (c.drop 1).all (fun a => match a with | .h _ => false | _ => true)
    then some (c, expandH st.handles c) else none
  | none => none

def viaHandle (c : Chain) : Bool := match c with | .h _ :: _ => true | _ => false

def vecLen (st : St) (c : Chain) : Option Nat :=
  match logicalGet st.val c with
  | .val (.node _ xs) => some xs.length
  | _ => none

def hasKeyAcc (c : Chain) : Bool := c.any fun a => match a with | .key _ => true | _ => false

/-- `field<k>` / `arc<k>`: which accessor of the chain may be converted to a handle -/
def eraOf (c : Chain) (how : String) : Option Nat :=
  let ds := if how.startsWith "field" then some (how.drop 5).toString
            else if how.startsWith "arc" then some (how.drop 3).toString else none
  match ds with
  | some ds =>
    match ds.toNat? with
    | some k =>
      let pre := c.take k
      if k ≤ c.length && !endsKeyed pre && (!hasKeyAcc pre || k == c.length) then some k else none
    | none => none
  | none => none

/-- `set|upd|wr|patch <chain> <value> [field<k>|arc<k>]` -/
def writeOp (d : DS) (st : St) (kind : String) (c lc : Chain) (a : String) (eraS : Option String) : DS × String :=
  let era : Option (Option Nat) := match eraS with
    | none => some none
    | some h => if viaHandle c then none else (eraOf c h).map some
  match parseValStr a, era with
  | some v, some era =>
    if !varsMatch st.val lc then (d, "bad-op")
    else if kind == "patch" then
      match logicalGet st.val lc with
      | .val (.node .enumv _) => (d, "bad-op")
      | _ => doWrite d st (.patch c v era) c true (some v) era
    else doWrite d st (.set c v era) c false none era
  | _, _ => (d, "bad-op")

def step (d : DS) (line : String) : DS × String :=
  match words line with
  | ["case", n] => ({ st := none, dead := false, ever := [] }, s!"case {n}")
  | ws =>
    if d.dead then (d, "dead") else
    match ws, d.st with
    | ["init", v], _ =>
      match parseValStr v with
      | some v => ({ d with st := some (St.init v), ever := [] }, "ok")
      | none => (d, "bad-op")
    | ["init", v, mode], _ =>
      -- the store handle family (`Store::new`, `ArcStore::new`, `Store::from(ArcStore)`) is transparent:
      -- every handle of one store shares its value, its trigger table and its key tables
      if mode == "arena" || mode == "arc" || mode == "conv" then
        match parseValStr v with
        | some v => ({ d with st := some (St.init v), ever := [] }, "ok")
        | none => (d, "bad-op")
      else (d, "bad-op")
    | _, none => (d, "bad-op")
    | [kind, c], some st =>
      match parseChainH st c with
      | none => (d, "bad-op")
      | some (c, lc) =>
        if kind == "krev" then
          if (vecLen st lc).isSome && endsKeyed lc then doWrite d st (.krev c) c false none else (d, "bad-op")
        else if kind == "poll" then
          -- `poll <i>`: here `c` failed to parse as a chain unless it is `-`; handled below
          (d, "bad-op")
        else (d, "bad-op")
    | ["idle"], some st =>
      let r := stepOp st .idle
      if r.1.panicked then ({ d with st := some r.1, dead := true }, "panic ## fail stale-keys")
      else ({ d with st := some r.1 }, render r.1 "" (judgeRuns r.1))
    | [kind, c, a], some st =>
      match parseChainH st c with
      | none => (d, "bad-op")
      | some (c, lc) =>
        if kind == "set" || kind == "upd" || kind == "wr" || kind == "patch" then writeOp d st kind c lc a none
        else if kind == "hnew" then
          -- `hnew <chain> field|arc`: a long-lived handle of the accessor at the end of the chain
          if (a == "field" || a == "arc") && !viaHandle c && !endsKeyed lc && varsMatch st.val lc then
            let r := stepOp st (.hnew c)
            ({ d with st := some r.1 }, s!"h={st.handles.length}")
          else (d, "bad-op")
        else if kind == "kpush" then
          match parseValStr a, vecLen st lc with
          | some v, some _ => if endsKeyed lc then doWrite d st (.kpush c v) c false none else (d, "bad-op")
          | _, _ => (d, "bad-op")
        else if kind == "kremove" then
          match a.toNat?, vecLen st lc with
          | some i, some n => if i < n && endsKeyed lc then doWrite d st (.kremove c i) c false none else (d, "bad-op")
          | _, _ => (d, "bad-op")
        else (d, "bad-op")
    | [kind, c, a, era], some st =>
      if kind == "kswap" then
        match parseChainH st c, a.toNat?, era.toNat? with
        | some (c, lc), some i, some j =>
          match vecLen st lc with
          | some n => if i < n && j < n && endsKeyed lc then doWrite d st (.kswap c i j) c false none else (d, "bad-op")
          | none => (d, "bad-op")
        | _, _, _ => (d, "bad-op")
      else if kind == "set" || kind == "upd" || kind == "wr" || kind == "patch" then
        match parseChainH st c with
        | some (c, lc) => writeOp d st kind c lc a (some era)
        | none => (d, "bad-op")
      else (d, "bad-op")
    | _, _ => (d, "bad-op")

/-- `eff|imm <chain> [how]`: how = get|read|with|track (the same reader for the model), map|invert
(`OptionStoreExt`), iter (keyed: `for` over the field; else `iter_unkeyed`), field<k>|arc<k> (the accessor
after k steps converted to `Field` / `ArcField` when the reader is created) -/
def readerOp (d : DS) (st : St) (imm : Bool) (c0 : Chain) (how : String) : DS × String :=
  let c := expandH st.handles c0
  let go (kind : RKind) (pre : Option Nat) : DS × String :=
    let r := stepOp st (.reader c0 kind imm pre)
    if r.1.panicked then ({ d with st := some r.1, dead := true }, "panic ## fail stale-keys")
    else ({ d with st := some r.1, ever := updEver d.ever r.1 }, render r.1 "" (judgeRuns r.1))
  let optAt := optPrefix st.val c
  let isEnumAt := match optAt with
    | some n => (match logicalGet st.val (c.take n) with | .val (.node .enumv _) => true | _ => false)
    | none => false
  if how == "variant" then
    -- the enum's `variant_field()` accessor is called inside the reader
    if isEnumAt then go .omap none else (d, "bad-op")
  else if !varsMatch st.val c then (d, "bad-op")
  else if how == "get" || how == "read" || how == "with" || how == "track" then go .plain none
  else if how == "map" || how == "invert" then
    if optAt.isSome && !isEnumAt then go .omap none else (d, "bad-op")
  else if how == "iter" then
    if endsKeyed c then go .iterK none
    else match logicalGet st.val c with
      | .val (.node .vec _) => go .iterU none
      | _ => (d, "bad-op")
  else
    match (if viaHandle c0 then none else eraOf c how) with
    | some k => go .plain (some k)
    | none => (d, "bad-op")

/-- `poll <i>` is recognised before the generic two-word ops -/
def step' (d : DS) (line : String) : DS × String :=
  match words line, d.dead, d.st with
  | ["poll", i], false, some st =>
    match i.toNat? with
    | some i =>
      let r := stepOp st (.poll i)
      if r.1.panicked then ({ d with st := some r.1, dead := true }, "panic ## fail stale-keys")
      else ({ d with st := some r.1 }, render r.1 "" (judgeRuns r.1))
    | none => (d, "bad-op")
  | ["race", k, r], false, _ =>
    -- k threads doing the first tracked access to fresh paths together: in the model `get_trigger` is the
    -- identity on paths (one trigger per path by construction), every reader is notified
    match k.toNat?, r.toNat? with
    | some k, some r => if 2 ≤ k && k ≤ 8 && 1 ≤ r && r ≤ 200 then (d, "raced ## ok") else (d, "bad-op")
    | _, _ => (d, "bad-op")
  | [kind, c], false, some st =>
    if kind == "eff" || kind == "imm" || kind == "effi" || kind == "immi" then
      match parseChainH st c with
      | some (c, _) => readerOp d st (kind.startsWith "imm") c (if kind.endsWith "i" then "iter" else "get")
      | none => (d, "bad-op")
    else step d line
  | [kind, c, how], false, some st =>
    if kind == "eff" || kind == "imm" then
      match parseChainH st c with
      | some (c, _) => readerOp d st (kind == "imm") c how
      | none => (d, "bad-op")
    else step d line
  | _, _, _ => step d line

def main : IO Unit := runDriver step' { st := none, dead := false, ever := [] }
