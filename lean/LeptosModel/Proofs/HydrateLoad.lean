import LeptosModel.Proofs.HydratePrint
import LeptosModel.Proofs.DomLemmas
/-! Helper lemmas for C05, part 4: the loader of the correspondence harness (`loadRoot`: one node per
parsed node, created in document order, attributes set one by one, appended to its parent) yields a
DOM that `Realises` the parsed forest, provided attribute names are pairwise distinct per element
(which the HTML parser guarantees, and which `wfV` guarantees for `domOf v`).  Uses the DOM lemmas of
C03 (`Proofs/DomLemmas.lean`: `get?_create`, `get?_setAttribute`, `get?_insertNode`). -/
namespace Leptos.Hydrate
open Leptos.Dom Leptos.View

def Fresh (d : Dom) : Prop := ∀ x, d.next ≤ x → d.get? x = none

mutual
def idsOf : IdTree → List Id
  | .node i ks => i :: idsOfL ks
def idsOfL : List IdTree → List Id
  | [] => []
  | t :: ts => idsOf t ++ idsOfL ts
end

mutual
def nodupAttrs : HTree → Bool
  | .elem _ attrs kids => decide ((attrs.map (·.1)).Nodup) && nodupAttrsL kids
  | _ => true
def nodupAttrsL : List HTree → Bool
  | [] => true
  | t :: ts => nodupAttrs t && nodupAttrsL ts
end

theorem id_mem_idsOf (t : IdTree) : t.id ∈ idsOf t := by
  cases t; simp [IdTree.id, idsOf]

theorem map_id_sub : ∀ (ts : List IdTree) (x : Id), x ∈ ts.map IdTree.id → x ∈ idsOfL ts
  | [], _, h => by simp at h
  | t :: ts, x, h => by
    simp only [List.map_cons, List.mem_cons] at h
    simp only [idsOfL, List.mem_append]
    rcases h with h | h
    · left; rw [h]; exact id_mem_idsOf t
    · right; exact map_id_sub ts x h

mutual
theorem real_congr {d1 d2 : Dom} : (t : HTree) → (it : IdTree) → (p : Id) →
    (∀ x ∈ idsOf it, d2.get? x = d1.get? x) → real d1 t it p → real d2 t it p
  | .text s, .node i ks, p, hf, h => by
    simp only [real] at h ⊢
    rw [hf i (by simp [idsOf])]; exact h
  | .comment s, .node i ks, p, hf, h => by
    simp only [real] at h ⊢
    rw [hf i (by simp [idsOf])]; exact h
  | .elem tag attrs kids, .node i ks, p, hf, h => by
    simp only [real] at h ⊢
    rw [hf i (by simp [idsOf])]
    obtain ⟨r, h1, h2, h3, h4, h5, h6, h7⟩ := h
    exact ⟨r, h1, h2, h3, h4, h5, h6,
      realL_congr kids ks i (fun x hx => hf x (by simp [idsOf, hx])) h7⟩
theorem realL_congr {d1 d2 : Dom} : (ts : List HTree) → (is : List IdTree) → (p : Id) →
    (∀ x ∈ idsOfL is, d2.get? x = d1.get? x) → realL d1 ts is p → realL d2 ts is p
  | [], [], _, _, _ => trivial
  | [], _ :: _, _, _, h => by simp [realL] at h
  | _ :: _, [], _, _, h => by simp [realL] at h
  | t :: ts, i :: is, p, hf, h => by
    simp only [realL] at h ⊢
    exact ⟨real_congr t i p (fun x hx => hf x (by simp [idsOfL, hx])) h.1,
      realL_congr ts is p (fun x hx => hf x (by simp [idsOfL, hx])) h.2⟩
end

/-! attributes -/

theorem ofList_inj {a b : Str} (h : String.ofList a = String.ofList b) : a = b := by
  have := congrArg String.toList h
  simpa using this

theorem getA_none_of_notin : ∀ (l : List (Str × Str)) (n : Str), n ∉ l.map (·.1) →
    getA (l.map (fun a => (String.ofList a.1, String.ofList a.2))) (String.ofList n) = none
  | [], _, _ => rfl
  | (k, w) :: l, n, h => by
    simp only [List.map_cons, List.mem_cons, not_or] at h
    have hk : ¬ String.ofList k = String.ofList n := fun e => h.1 (ofList_inj e).symm
    simp [getA, hk, getA_none_of_notin l n h.2]

theorem setA_new' : ∀ (l : List (String × String)) (n v : String), getA l n = none →
    setA l n v = l ++ [(n, v)]
  | [], n, v, _ => by simp [setA]
  | (k, w) :: rest, n, v, h => by
    by_cases hk : k = n
    · simp [getA, hk] at h
    · simp [getA, hk] at h; simp [setA, hk, setA_new' rest n v h]

/-- `setAttrs` on an element whose attribute list is the image of `done` appends the image of `attrs` -/
theorem setAttrs_spec : ∀ (attrs done : List (Str × Str)) (d : Dom) (x : Id) (r : NodeRec),
    d.get? x = some r → r.kind.isElem = true →
    r.attrs = done.map (fun a => (String.ofList a.1, String.ofList a.2)) →
    ((done ++ attrs).map (·.1)).Nodup →
    (setAttrs d x attrs).next = d.next ∧
    (∀ y, y ≠ x → (setAttrs d x attrs).get? y = d.get? y) ∧
    ∃ r', (setAttrs d x attrs).get? x = some r' ∧ r'.kind = r.kind ∧ r'.parent = r.parent ∧
      r'.data = r.data ∧ r'.kids = r.kids ∧
      r'.attrs = (done ++ attrs).map (fun a => (String.ofList a.1, String.ofList a.2))
  | [], done, d, x, r, hx, _, ha, _ => by
    exact ⟨rfl, fun _ _ => rfl, r, hx, rfl, rfl, rfl, rfl, by simpa using ha⟩
  | (n, v) :: rest, done, d, x, r, hx, hk, ha, hnd => by
    simp only [setAttrs]
    have hn : n ∉ done.map (·.1) := by
      intro hm
      have := List.nodup_append.mp (by simpa using hnd : (done.map (·.1) ++ (n :: rest.map (·.1))).Nodup)
      exact this.2.2 n hm n (by simp) rfl
    have hget := Dom.get?_setAttribute d x (String.ofList n) (String.ofList v) r hx hk
    have hx' := hget x
    simp only [if_true] at hx'
    have hattrs : setA r.attrs (String.ofList n) (String.ofList v) =
        (done ++ [(n, v)]).map (fun a => (String.ofList a.1, String.ofList a.2)) := by
      rw [ha, setA_new' _ _ _ (getA_none_of_notin done n hn)]; simp
    obtain ⟨h1, h2, r', h3, h4, h5, h6, h7, h8⟩ :=
      setAttrs_spec rest (done ++ [(n, v)]) (d.setAttribute x (String.ofList n) (String.ofList v)) x
        { r with attrs := setA r.attrs (String.ofList n) (String.ofList v), muts := r.muts + 1 } hx' hk hattrs
        (by simpa using hnd)
    refine ⟨by rw [h1]; simp [Dom.setAttribute]; split <;> rfl, ?_, r', h3, h4, h5, h6, h7, by simpa using h8⟩
    intro y hy
    rw [h2 y hy]
    have := hget y
    simpa [hy] using this

/-! the loader -/

theorem insert_fresh (d1 : Dom) (p id : Id) (rp rc : NodeRec) (hp : d1.get? p = some rp)
    (hpe : rp.kind.isElem = true) (hc : d1.get? id = some rc) (hcp : rc.parent = none) (hne : id ≠ p) (x : Id) :
    (d1.insertNode p id none).get? x =
      if x = id then some { rc with parent := some p }
      else if x = p then some { rp with kids := rp.kids ++ [id], muts := rp.muts + 1 }
      else d1.get? x := by
  have := Dom.get?_insertNode d1 p id none rp rc rp.kids [] hp hpe hc hcp hne (by simp) rfl x
  simpa using this

structure LoadRes (d d' : Dom) (p : Id) (rp : NodeRec) (newKids ids : List Id) : Prop where
  fresh : Fresh d'
  le : d.next ≤ d'.next
  frame : ∀ x, x < d.next → x ≠ p → d'.get? x = d.get? x
  par : ∃ rp', d'.get? p = some rp' ∧ rp'.kind = rp.kind ∧ rp'.parent = rp.parent ∧
    rp'.attrs = rp.attrs ∧ rp'.data = rp.data ∧ rp'.kids = rp.kids ++ newKids
  range : ∀ x ∈ ids, d.next ≤ x ∧ x < d'.next
  sorted : ids.Pairwise (· < ·)

theorem lt_of_get {d : Dom} (hf : Fresh d) {p : Id} {rp : NodeRec} (hp : d.get? p = some rp) : p < d.next := by
  apply Classical.byContradiction
  intro h
  have := hf p (Nat.le_of_not_lt h)
  rw [hp] at this
  cases this

/-- a leaf: created, then appended to `p` -/
theorem leaf_spec (d : Dom) (p : Id) (rp : NodeRec) (k : Kind) (s : String) (hf : Fresh d)
    (hp : d.get? p = some rp) (hpe : rp.kind.isElem = true) :
    let d2 := ((d.create k s).1.insertNode p d.next none)
    LoadRes d d2 p rp [d.next] [d.next] ∧
      ∃ r, d2.get? d.next = some r ∧ r.kind = k ∧ r.data = s ∧ r.parent = some p ∧ r.kids = [] ∧ r.attrs = [] := by
  intro d2
  have hplt := lt_of_get hf hp
  have hne : d.next ≠ p := by omega_nat
  have hp1 : (d.create k s).1.get? p = some rp := by
    rw [Dom.get?_create]; simp [Ne.symm hne, hp]
  have hc1 : (d.create k s).1.get? d.next = some { kind := k, data := s } := by
    rw [Dom.get?_create]; simp
  have hget := insert_fresh (d.create k s).1 p d.next rp { kind := k, data := s } hp1 hpe hc1 rfl hne
  refine ⟨⟨?_, ?_, ?_, ?_, ?_, by simp⟩, ?_⟩
  · intro x hx
    have hx' : d.next + 1 ≤ x := by simpa [d2] using hx
    have h1 : x ≠ d.next := by omega_nat
    have h2 : x ≠ p := by omega_nat
    show d2.get? x = none
    rw [hget x]; simp only [h1, h2, if_false]
    rw [Dom.get?_create]; simp only [h1, if_false]
    exact hf x (by omega_nat)
  · simp [d2]
  · intro x hx hxp
    have h1 : x ≠ d.next := by omega_nat
    show d2.get? x = _
    rw [hget x]; simp only [h1, hxp, if_false]
    rw [Dom.get?_create]; simp [h1]
  · refine ⟨{ rp with kids := rp.kids ++ [d.next], muts := rp.muts + 1 }, ?_, rfl, rfl, rfl, rfl, rfl⟩
    show d2.get? p = _
    rw [hget p]; simp [Ne.symm hne]
  · intro x hx
    simp only [List.mem_singleton] at hx
    subst hx
    simp [d2]
  · refine ⟨{ kind := k, parent := some p, data := s }, ?_, rfl, rfl, rfl, rfl, rfl⟩
    show d2.get? d.next = _
    rw [hget d.next]; simp

mutual
theorem load_spec : (t : HTree) → ∀ (p : Id) (d : Dom) (rp : NodeRec), Fresh d → d.get? p = some rp →
    rp.kind.isElem = true → nodupAttrs t = true →
    LoadRes d (loadTree t p d).1 p rp [d.next] (idsOf (loadTree t p d).2) ∧
      (loadTree t p d).2.id = d.next ∧ real (loadTree t p d).1 t (loadTree t p d).2 p
  | .text s, p, d, rp, hf, hp, hpe, _ => by
    obtain ⟨h1, r, hr, hk, hd, hpar, _, _⟩ := leaf_spec d p rp .text (String.ofList s) hf hp hpe
    refine ⟨by simpa [loadTree, Dom.createTextNode, idsOf, idsOfL] using h1, by simp [loadTree, Dom.createTextNode, IdTree.id], ?_⟩
    simp only [loadTree, Dom.createTextNode, real]
    exact ⟨trivial, r, hr, hk, hd, hpar⟩
  | .comment s, p, d, rp, hf, hp, hpe, _ => by
    obtain ⟨h1, r, hr, hk, hd, hpar, _, _⟩ := leaf_spec d p rp .comment (String.ofList s) hf hp hpe
    refine ⟨by simpa [loadTree, Dom.createComment, idsOf, idsOfL] using h1, by simp [loadTree, Dom.createComment, IdTree.id], ?_⟩
    simp only [loadTree, Dom.createComment, real]
    exact ⟨trivial, r, hr, hk, hd, hpar⟩
  | .elem tag attrs kids, p, d, rp, hf, hp, hpe, hnd => by
    simp only [nodupAttrs, Bool.and_eq_true, decide_eq_true_eq] at hnd
    have hplt := lt_of_get hf hp
    have hne : d.next ≠ p := by omega_nat
    -- create
    let d1 := (d.create (.elem (String.ofList tag)) "").1
    have hc1 : d1.get? d.next = some { kind := .elem (String.ofList tag), data := "" } := by
      show (d.create _ _).1.get? d.next = _
      rw [Dom.get?_create]; simp
    have hf1 : ∀ y, y ≠ d.next → d1.get? y = d.get? y := by
      intro y hy
      show (d.create _ _).1.get? y = _
      rw [Dom.get?_create]; simp [hy]
    -- attributes
    obtain ⟨hn2, hf2, r2, hr2, hk2, hpar2, hd2, hkids2, hat2⟩ :=
      setAttrs_spec attrs [] d1 d.next { kind := .elem (String.ofList tag), data := "" } hc1 rfl rfl
        (by simpa using hnd.1)
    let d2 := setAttrs d1 d.next attrs
    have hp2 : d2.get? p = some rp := by
      show (setAttrs d1 d.next attrs).get? p = _
      rw [hf2 p (Ne.symm hne), hf1 p (Ne.symm hne), hp]
    -- insert
    have hget3 := insert_fresh d2 p d.next rp r2 hp2 hpe hr2 (by rw [hpar2]) hne
    let d3 := d2.insertNode p d.next none
    have hn3 : d3.next = d.next + 1 := by
      show (d2.insertNode p d.next none).next = _
      rw [Dom.next_insertNode]; show (setAttrs d1 d.next attrs).next = _; rw [hn2]; rfl
    have hf3 : Fresh d3 := by
      intro x hx
      rw [hn3] at hx
      have h1 : x ≠ d.next := by omega_nat
      have h2 : x ≠ p := by omega_nat
      show (d2.insertNode p d.next none).get? x = none
      rw [hget3 x]; simp only [h1, h2, if_false]
      show (setAttrs d1 d.next attrs).get? x = none
      rw [hf2 x h1, hf1 x h1]
      exact hf x (by omega_nat)
    have hid3 : d3.get? d.next = some { r2 with parent := some p } := by
      show (d2.insertNode p d.next none).get? d.next = _
      rw [hget3 d.next]; simp
    -- children
    obtain ⟨hres, hreal, hnodup⟩ := loadL_spec kids d.next d3 { r2 with parent := some p } hf3 hid3
      (by simp [hk2, Kind.isElem]) hnd.2
    have e : loadTree (.elem tag attrs kids) p d =
        ((loadTrees kids d.next d3).1, .node d.next (loadTrees kids d.next d3).2) := by
      simp [loadTree, Dom.createElement, d3, d2, d1]
    rw [e]
    obtain ⟨rid, hrid, hkid, hparid, hatid, hdid, hkidsid⟩ := hres.par
    refine ⟨⟨hres.fresh, ?_, ?_, ?_, ?_, ?_⟩, rfl, ?_⟩
    · have := hres.le; rw [hn3] at this
      show d.next ≤ (loadTrees kids d.next d3).1.next
      omega_nat
    · intro x hx hxp
      have h1 : x ≠ d.next := by omega_nat
      rw [hres.frame x (by rw [hn3]; omega_nat) h1]
      show (d2.insertNode p d.next none).get? x = _
      rw [hget3 x]; simp only [h1, hxp, if_false]
      show (setAttrs d1 d.next attrs).get? x = _
      rw [hf2 x h1, hf1 x h1]
    · refine ⟨{ rp with kids := rp.kids ++ [d.next], muts := rp.muts + 1 }, ?_, rfl, rfl, rfl, rfl, rfl⟩
      rw [hres.frame p (by rw [hn3]; omega_nat) (Ne.symm hne)]
      show (d2.insertNode p d.next none).get? p = _
      rw [hget3 p]; simp [Ne.symm hne]
    · intro x hx
      simp only [idsOf, List.mem_cons] at hx
      rcases hx with hx | hx
      · subst hx
        have := hres.le; rw [hn3] at this
        refine ⟨Nat.le_refl _, ?_⟩
        show d.next < (loadTrees kids d.next d3).1.next
        omega_nat
      · have := hres.range x hx
        rw [hn3] at this
        exact ⟨by omega_nat, this.2⟩
    · simp only [idsOf, List.pairwise_cons]
      refine ⟨fun x hx => ?_, hres.sorted⟩
      have := hres.range x hx
      rw [hn3] at this
      omega_nat
    · simp only [real]
      refine ⟨rid, hrid, by rw [hkid, hk2], by rw [hparid], ?_, by rw [hkidsid]; simp [hkids2], hnodup, hreal⟩
      rw [hatid]; simpa using hat2
theorem loadL_spec : (ts : List HTree) → ∀ (p : Id) (d : Dom) (rp : NodeRec), Fresh d → d.get? p = some rp →
    rp.kind.isElem = true → nodupAttrsL ts = true →
    LoadRes d (loadTrees ts p d).1 p rp ((loadTrees ts p d).2.map IdTree.id) (idsOfL (loadTrees ts p d).2) ∧
      realL (loadTrees ts p d).1 ts (loadTrees ts p d).2 p ∧ ((loadTrees ts p d).2.map IdTree.id).Nodup
  | [], p, d, rp, hf, hp, _, _ => by
    simp only [loadTrees, List.map_nil, idsOfL, realL]
    exact ⟨⟨hf, Nat.le_refl _, fun _ _ _ => rfl, ⟨rp, hp, rfl, rfl, rfl, rfl, by simp⟩, by simp, by simp⟩, trivial,
      List.nodup_nil⟩
  | t :: ts, p, d, rp, hf, hp, hpe, hnd => by
    simp only [nodupAttrsL, Bool.and_eq_true] at hnd
    obtain ⟨h1, hid1, hreal1⟩ := load_spec t p d rp hf hp hpe hnd.1
    obtain ⟨rp1, hrp1, hk1, hpar1, hat1, hd1, hkids1⟩ := h1.par
    obtain ⟨h2, hreal2, hnd2⟩ := loadL_spec ts p (loadTree t p d).1 rp1 h1.fresh hrp1 (by rw [hk1]; exact hpe) hnd.2
    have hplt := lt_of_get hf hp
    have e : loadTrees (t :: ts) p d =
        ((loadTrees ts p (loadTree t p d).1).1, (loadTree t p d).2 :: (loadTrees ts p (loadTree t p d).1).2) := by
      simp [loadTrees]
    rw [e]
    obtain ⟨rp2, hrp2, hk2, hpar2, hat2, hd2, hkids2⟩ := h2.par
    refine ⟨⟨h2.fresh, Nat.le_trans h1.le h2.le, ?_, ?_, ?_, ?_⟩, ?_, ?_⟩
    · intro x hx hxp
      rw [h2.frame x (Nat.lt_of_lt_of_le hx h1.le) hxp, h1.frame x hx hxp]
    · refine ⟨rp2, hrp2, by rw [hk2, hk1], by rw [hpar2, hpar1], by rw [hat2, hat1], by rw [hd2, hd1], ?_⟩
      show rp2.kids = rp.kids ++ ((loadTree t p d).2.id :: (loadTrees ts p (loadTree t p d).1).2.map IdTree.id)
      rw [hkids2, hkids1, hid1]; simp
    · intro x hx
      simp only [idsOfL, List.mem_append] at hx
      rcases hx with hx | hx
      · have := h1.range x hx
        exact ⟨this.1, Nat.lt_of_lt_of_le this.2 h2.le⟩
      · have := h2.range x hx
        exact ⟨Nat.le_trans h1.le this.1, this.2⟩
    · simp only [idsOfL, List.pairwise_append]
      refine ⟨h1.sorted, h2.sorted, fun x hx y hy => ?_⟩
      have := h1.range x hx; have := h2.range y hy
      omega_nat
    · simp only [realL]
      refine ⟨real_congr t _ p ?_ hreal1, hreal2⟩
      intro x hx
      have := h1.range x hx
      exact h2.frame x this.2 (by omega_nat)
    · simp only [List.map_cons, List.nodup_cons]
      refine ⟨?_, hnd2⟩
      intro hm
      have := h2.range _ (map_id_sub _ _ hm)
      have hlt : d.next < (loadTree t p d).1.next := (h1.range _ (id_mem_idsOf _)).2 |> fun h => by rw [hid1] at h; exact h
      rw [hid1] at this
      omega_nat
end

theorem fresh_root : Fresh (({} : Dom).createElement "div").1 := by
  intro x hx
  have : (({} : Dom).createElement "div").1.next = 1 := rfl
  rw [this] at hx
  show (({} : Dom).create _ _).1.get? x = none
  rw [Dom.get?_create]
  have : x ≠ ({} : Dom).next := by
    have : ({} : Dom).next = 0 := rfl
    rw [this]; omega_nat
  simp [this, Dom.get?, getL]

/-- loading a parsed forest whose elements have pairwise distinct attribute names below a fresh
root yields a DOM that holds it -/
theorem loadRoot_realises (ts : List HTree) (h : nodupAttrsL ts = true) :
    Realises (loadRoot ts).1 (loadRoot ts).2.1 (loadRoot ts).2.2 ts := by
  have hroot : (({} : Dom).createElement "div").1.get? 0 = some { kind := .elem "div", data := "" } := by
    show (({} : Dom).create _ _).1.get? 0 = _
    rw [Dom.get?_create]; rfl
  obtain ⟨hres, hreal, hnd⟩ := loadL_spec ts 0 (({} : Dom).createElement "div").1 _ fresh_root hroot rfl h
  obtain ⟨rp', h1, h2, _, _, _, h6⟩ := hres.par
  have e : loadRoot ts = ((loadTrees ts 0 (({} : Dom).createElement "div").1).1, 0,
      (loadTrees ts 0 (({} : Dom).createElement "div").1).2) := rfl
  rw [e]
  exact ⟨⟨rp', h1, by rw [h2]; rfl, by simpa using h6⟩, hnd, hreal⟩

/-! the forests the theorems load have distinct attribute names -/

theorem nodupAttrsL_append : ∀ (a b : List HTree), nodupAttrsL (a ++ b) = (nodupAttrsL a && nodupAttrsL b)
  | [], b => by simp [nodupAttrsL]
  | t :: a, b => by simp [nodupAttrsL, nodupAttrsL_append a b, Bool.and_assoc]

mutual
theorem nodupAttrs_dom : (v : View) → ∀ (anc : List Str) (pos : Position), wfV anc v = true →
    nodupAttrsL (dom v pos) = true
  | .text s, _, pos, _ => by
    by_cases h : pos = .nextChildAfterText <;> simp [dom, h, textNode, nodupAttrsL, nodupAttrs]
  | .unit, _, _, _ => by simp [dom, nodupAttrsL, nodupAttrs]
  | .onone, _, _, _ => by simp [dom, nodupAttrsL, nodupAttrs]
  | .osome v, anc, pos, h => by simpa [dom] using nodupAttrs_dom v anc pos (by simpa [wfV] using h)
  | .either _ _ v, anc, pos, h => by simpa [dom] using nodupAttrs_dom v anc pos (by simpa [wfV] using h)
  | .any _ v, anc, pos, h => by simpa [dom] using nodupAttrs_dom v anc pos (by simpa [wfV] using h)
  | .tuple vs, anc, pos, h => by simpa [dom] using nodupAttrs_domL vs anc pos (by simpa [wfV] using h)
  | .vec vs, anc, pos, h => by
    have := nodupAttrs_domL vs anc pos (by simpa [wfV] using h)
    simp [dom, nodupAttrsL_append, this, nodupAttrsL, nodupAttrs]
  | .elem tag as c, anc, pos, h => by
    simp only [wfV, Bool.and_eq_true, Bool.or_eq_true] at h
    obtain ⟨⟨hattrs, _⟩, hcase⟩ := h
    have hnd : ((Html.expectedAttrs (attrsOf as)).map (·.1)).Nodup := by
      simp only [Html.attrsOK, Bool.and_eq_true, decide_eq_true_eq] at hattrs
      exact hattrs.2
    have hkids : nodupAttrsL (if isVoidT tag = true then [] else if viewExists c = true then dom c .firstChild else []) = true := by
      by_cases hv : isVoidT tag = true
      · simp [hv, nodupAttrsL]
      · by_cases hex : viewExists c = true
        · rcases hcase with ⟨_, hc⟩ | ⟨hvo, _⟩
          · simpa [hv, hex] using nodupAttrs_dom c _ .firstChild hc
          · simp only [Html.voidOK, Bool.and_eq_true] at hvo
            exact absurd hvo.1.2 hv
        · simp [hv, hex, nodupAttrsL]
    simp [dom, nodupAttrsL, nodupAttrs, hnd, hkids]
theorem nodupAttrs_domL : (vs : List View) → ∀ (anc : List Str) (pos : Position), wfL anc vs = true →
    nodupAttrsL (domL vs pos) = true
  | [], _, _, _ => by simp [domL, nodupAttrsL]
  | v :: vs, anc, pos, h => by
    simp only [wfL, Bool.and_eq_true] at h
    simp [domL, nodupAttrsL_append, nodupAttrs_dom v anc pos h.1, nodupAttrs_domL vs anc _ h.2]
end

end Leptos.Hydrate
