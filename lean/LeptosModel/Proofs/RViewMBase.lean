import LeptosModel.Model.RView
import LeptosModel.Proofs.ReactiveMark
/-!
# Proofs/RViewMBase — what the reactive operations never touch in an effect node

`Node.stab`: kind, stored value, `alive`, `done`, `first`, `paused` of a node.  For an EFFECT node these
change only by the effect's own run (`val`, `first`), the disposal of its owner (`alive`) and the end of
its task (`done`).  `SK X s s'`: between `s` and `s'` every node keeps its kind and every effect node
outside `X` keeps its stable part — for marking, signal writes, memo updates, reads, and the run of the
effects in `X`, unconditionally (no invariant needed).
-/
namespace Leptos.RView
open Leptos.Reactive

def stab (n : Node) : Kind × Option Int × Bool × Bool × Bool × Bool :=
  (n.kind, n.val, n.alive, n.done, n.first, n.paused)

/-- … without the stored value -/
def life (n : Node) : Bool × Bool × Bool × Bool := (n.alive, n.done, n.first, n.paused)

theorem life_of_stab {a b : Node} (h : stab a = stab b) : life a = life b := by
  simp only [stab, Prod.mk.injEq] at h
  simp only [life, h.2.2.1, h.2.2.2.1, h.2.2.2.2.1, h.2.2.2.2.2]

structure SK (X : Nat → Prop) (s s' : State) : Prop where
  len : s'.nodes.length = s.nodes.length
  kind : ∀ i, (s'.get i).kind = (s.get i).kind
  eff : ∀ i, (s.get i).kind = .eff → ¬ X i → stab (s'.get i) = stab (s.get i)
  lf : ∀ i, (s.get i).kind = .eff → life (s'.get i) = life (s.get i)

abbrev SK0 := SK (fun _ => False)

theorem SK.refl (X : Nat → Prop) (s : State) : SK X s s :=
  ⟨rfl, fun _ => rfl, fun _ _ _ => rfl, fun _ _ => rfl⟩

theorem SK.trans {X : Nat → Prop} {a b c : State} (h1 : SK X a b) (h2 : SK X b c) : SK X a c :=
  ⟨h2.len.trans h1.len, fun i => (h2.kind i).trans (h1.kind i),
   fun i hk hx => (h2.eff i (by rw [h1.kind i]; exact hk) hx).trans (h1.eff i hk hx),
   fun i hk => (h2.lf i (by rw [h1.kind i]; exact hk)).trans (h1.lf i hk)⟩

theorem SK.mono {X Y : Nat → Prop} {a b : State} (h : SK X a b) (hxy : ∀ i, X i → Y i) : SK Y a b :=
  ⟨h.len, h.kind, fun i hk hy => h.eff i hk (fun hx => hy (hxy i hx)), h.lf⟩

theorem SK.of_get {X : Nat → Prop} {s s' : State} (hl : s'.nodes.length = s.nodes.length)
    (h : ∀ i, (s'.get i).kind = (s.get i).kind ∧
      ((s.get i).kind = .eff → (¬ X i → stab (s'.get i) = stab (s.get i)) ∧ life (s'.get i) = life (s.get i))) :
    SK X s s' := ⟨hl, fun i => (h i).1, fun i hk => ((h i).2 hk).1, fun i hk => ((h i).2 hk).2⟩

/-- an update of node `id` that keeps its kind, and its stable part unless `id` is no effect or in `X` -/
theorem SK.upd {X : Nat → Prop} (s : State) (id : Nat) (g : Node → Node) (hk : ∀ n, (g n).kind = n.kind)
    (hg : (s.get id).kind = .eff → (¬ X id → stab (g (s.get id)) = stab (s.get id)) ∧
      life (g (s.get id)) = life (s.get id)) : SK X s (s.upd id g) := by
  refine SK.of_get (by simp [State.upd]) (fun i => ?_)
  rw [State.get_upd]
  split
  · next h => obtain ⟨rfl, _⟩ := h; exact ⟨hk _, hg⟩
  · exact ⟨rfl, fun _ => ⟨fun _ => rfl, rfl⟩⟩

theorem SK.upd_stab {X : Nat → Prop} (s : State) (id : Nat) (g : Node → Node) (hg : ∀ n, stab (g n) = stab n) :
    SK X s (s.upd id g) :=
  SK.upd s id g (fun n => congrArg (·.1) (hg n)) (fun _ => ⟨fun _ => hg _, life_of_stab (hg _)⟩)

theorem SK.emit {X : Nat → Prop} (s : State) (ev : Ev) : SK X s (s.emit ev) :=
  ⟨rfl, fun _ => rfl, fun _ _ _ => rfl, fun _ _ => rfl⟩

theorem SK.setObs {X : Nat → Prop} (s : State) (o : Option Nat) : SK X s { s with obs := o } :=
  ⟨rfl, fun _ => rfl, fun _ _ _ => rfl, fun _ _ => rfl⟩

theorem stab_of_core {a b : Node} (h : a.core = b.core) : stab a = stab b := by
  have h1 := Node.core_fields h
  have h2 := Node.core_life h
  simp only [stab, h1.1, h1.2.1, h2.1, h2.2.2, h1.2.2.2.2.1, h2.2.1]

theorem SK.of_markRel {X : Nat → Prop} {s s' : State} (h : MarkRel s s') : SK X s s' :=
  ⟨h.len, fun i => (Node.core_fields (h.core i)).1, fun i _ _ => stab_of_core (h.core i),
   fun i _ => life_of_stab (stab_of_core (h.core i))⟩

theorem SK.foldl {X : Nat → Prop} {α : Type} (g : State → α → State) (hg : ∀ s a, SK X s (g s a)) :
    ∀ (l : List α) (s : State), SK X s (l.foldl g s)
  | [], s => SK.refl X s
  | a :: l, s => (hg s a).trans (SK.foldl g hg l _)

theorem sigNotify_sk {X : Nat → Prop} (f : Nat) (s : State) (id : Nat) : SK X s (sigNotify f s id) :=
  SK.foldl _ (fun s x => SK.of_markRel (markDirty_rel f s x)) _ _

/-- a write to a node that is not an effect -/
theorem setSignal_sk {X : Nat → Prop} (f : Nat) (s : State) (id : Nat) (v : Int) (hk : (s.get id).kind ≠ .eff) :
    SK X s (setSignal f s id v) := by
  unfold setSignal
  dsimp only
  refine SK.trans ?_ (sigNotify_sk f _ id)
  refine SK.trans ?_ (SK.emit _ _)
  exact SK.upd s id _ (fun _ => rfl) (fun h => absurd h hk)

theorem track_sk {X : Nat → Prop} (s : State) (src : Nat) : SK X s (track s src) := by
  unfold track
  split
  · dsimp only
    refine SK.trans ?_ (SK.upd_stab _ _ _ (fun _ => rfl))
    exact SK.upd_stab _ _ _ (fun _ => rfl)
  · exact SK.refl X s

theorem clearSources_sk {X : Nat → Prop} (s : State) (id : Nat) : SK X s (clearSources s id) := by
  unfold clearSources
  dsimp only
  refine SK.trans ?_ (SK.upd_stab _ _ _ (fun _ => rfl))
  apply SK.foldl
  intro s x
  exact SK.upd_stab s x _ (fun _ => rfl)

theorem noteRun_sk {X : Nat → Prop} (s : State) (id : Nat) : SK X s (noteRun s id) := by
  unfold noteRun
  dsimp only
  refine SK.trans ?_ (SK.emit _ _)
  refine SK.trans ?_ (SK.upd_stab _ _ _ (fun _ => rfl))
  split
  · exact SK.refl X s
  · exact SK.emit _ _

theorem readNode_sk {X : Nat → Prop} (u : State → Nat → State × Bool) (hu : ∀ s x, SK X s (u s x).1)
    (s : State) (x : Nat) : SK X s (readNode u s x).1 := by
  unfold readNode
  have ht := track_sk (X := X) s x
  generalize track s x = s1 at ht
  dsimp only
  split
  · exact ht
  · exact ht.trans (hu s1 x)
  · exact ht

theorem anySrc_sk {X : Nat → Prop} (u : State → Nat → State × Bool) (hu : ∀ s x, SK X s (u s x).1)
    (recheck : Bool) (self : Nat) : ∀ (l : List Nat) (s : State), SK X s (anySrc u recheck self l s).1
  | [], s => SK.refl X s
  | x :: rest, s => by
    simp only [anySrc]
    have h1 := hu s x
    generalize u s x = r at h1
    obtain ⟨s1, ch⟩ := r
    simp only at h1 ⊢
    split
    · exact h1
    · exact h1.trans (anySrc_sk u hu recheck self rest s1)

theorem evalE_sk {X : Nat → Prop} (rdN : State → Nat → State × Int) (wrN : State → Nat → Int → State)
    (hr : ∀ s x, SK X s (rdN s x).1) (self : Nat) :
    ∀ (ex : Expr) (s : State), (ex.noWrite = true ∨ ∀ s x v, SK X s (wrN s x v)) →
      SK X s (evalE rdN wrN self ex s).1
  | .lit _, s, _ => SK.refl X s
  | .rd tracked id, s, _ => by
    simp only [evalE]
    split
    · have h1 := hr s id
      generalize rdN s id = r at h1
      obtain ⟨s1, v⟩ := r
      dsimp only at h1 ⊢
      refine h1.trans ?_
      refine SK.trans ?_ (SK.emit _ _)
      exact SK.upd_stab _ _ _ (fun _ => rfl)
    · have h1 := hr { s with obs := none } id
      generalize rdN { s with obs := none } id = r at h1
      obtain ⟨s1, v⟩ := r
      dsimp only at h1 ⊢
      exact ((SK.setObs s none).trans h1).trans (SK.setObs s1 _)
  | .add a b, s, hw => by
    simp only [evalE]
    have ha : a.noWrite = true ∨ ∀ s x v, SK X s (wrN s x v) :=
      hw.imp (fun h => by simp only [Expr.noWrite, Bool.and_eq_true] at h; exact h.1) id
    have hb : b.noWrite = true ∨ ∀ s x v, SK X s (wrN s x v) :=
      hw.imp (fun h => by simp only [Expr.noWrite, Bool.and_eq_true] at h; exact h.2) id
    exact (evalE_sk rdN wrN hr self a s ha).trans (evalE_sk rdN wrN hr self b _ hb)
  | .mulc _ a, s, hw => by
    simp only [evalE]
    exact evalE_sk rdN wrN hr self a s (hw.imp (fun h => by simpa only [Expr.noWrite] using h) id)
  | .ite c t e, s, hw => by
    simp only [evalE]
    have hc : c.noWrite = true ∨ ∀ s x v, SK X s (wrN s x v) :=
      hw.imp (fun h => by simp only [Expr.noWrite, Bool.and_eq_true] at h; exact h.1.1) id
    have ht : t.noWrite = true ∨ ∀ s x v, SK X s (wrN s x v) :=
      hw.imp (fun h => by simp only [Expr.noWrite, Bool.and_eq_true] at h; exact h.1.2) id
    have he : e.noWrite = true ∨ ∀ s x v, SK X s (wrN s x v) :=
      hw.imp (fun h => by simp only [Expr.noWrite, Bool.and_eq_true] at h; exact h.2) id
    have h1 := evalE_sk rdN wrN hr self c s hc
    split
    · exact h1.trans (evalE_sk rdN wrN hr self t _ ht)
    · exact h1.trans (evalE_sk rdN wrN hr self e _ he)
  | .seq a b, s, hw => by
    simp only [evalE]
    have ha : a.noWrite = true ∨ ∀ s x v, SK X s (wrN s x v) :=
      hw.imp (fun h => by simp only [Expr.noWrite, Bool.and_eq_true] at h; exact h.1) id
    have hb : b.noWrite = true ∨ ∀ s x v, SK X s (wrN s x v) :=
      hw.imp (fun h => by simp only [Expr.noWrite, Bool.and_eq_true] at h; exact h.2) id
    exact (evalE_sk rdN wrN hr self a s ha).trans (evalE_sk rdN wrN hr self b _ hb)
  | .wr id a, s, hw => by
    simp only [evalE]
    rcases hw with h | h
    · simp [Expr.noWrite] at h
    · exact (evalE_sk rdN wrN hr self a s (.inr h)).trans (h _ id _)

/-- the run part of `update_if_necessary` of memo `id` -/
def updRun (p : Prog) (f : Nat) (s0 : State) (id : Nat) : State × Bool :=
  let old := (s0.get id).val
  let s := s0.upd id fun n => { n with val := none }
  let s := clearSources s id
  let s := noteRun s id
  let saved := s.obs
  let s := { s with obs := some id }
  let (s, v) := evalE (readNode (upd p f)) (fun s _ _ => s) id (bodyOf p id) s
  let s := { s with obs := saved }
  let changed := old != some v
  let s := s.upd id fun n =>
    { n with val := some v, st := .clean, running := false, ver := (if changed then n.ver + 1 else n.ver) }
  if changed then
    let s := s.emit (.changed id)
    let s := (s.get id).subs.foldl
      (fun s x => if s.obs == some x then s else markDirty (fuelFor p) s x) s
    (s, true)
  else (s, false)

theorem upd_succ (p : Prog) (f : Nat) (s : State) (id : Nat) :
    upd p (f + 1) s id =
      if (s.get id).kind != .memo then (s, false) else
      let r := (match (s.get id).st with
        | .clean => (s, false)
        | .dirty => (s, true)
        | .check => anySrc (upd p f) true id (s.get id).sources s)
      if r.2 then updRun p f r.1 id else (r.1.upd id fun n => { n with st := .clean }, false) := by
  rw [upd]
  rfl

/-- the check phase of `update_if_necessary` of a memo -/
def updPre (p : Prog) (f : Nat) (s : State) (id : Nat) : State × Bool :=
  match (s.get id).st with
  | .clean => (s, false)
  | .dirty => (s, true)
  | .check => anySrc (upd p f) true id (s.get id).sources s

theorem upd_succ' (p : Prog) (f : Nat) (s : State) (id : Nat) :
    upd p (f + 1) s id =
      if (s.get id).kind != .memo then (s, false) else
      if (updPre p f s id).2 then updRun p f (updPre p f s id).1 id
      else ((updPre p f s id).1.upd id fun n => { n with st := .clean }, false) := by
  rw [upd_succ]; rfl

theorem updRun_sk (p : Prog) (f : Nat) (hf : ∀ s x, SK0 s (upd p f s x).1) (s0 : State) (id : Nat)
    (hk : (s0.get id).kind ≠ .eff) : SK0 s0 (updRun p f s0 id).1 := by
  unfold updRun
  dsimp only
  have h1 : SK0 s0 (s0.upd id fun n => { n with val := none }) :=
    SK.upd s0 id _ (fun _ => rfl) (fun h => absurd h hk)
  generalize (s0.upd id fun n => { n with val := none }) = s1 at h1
  have h2 := clearSources_sk (X := fun _ => False) s1 id
  generalize clearSources s1 id = s2 at h2
  have h3 := noteRun_sk (X := fun _ => False) s2 id
  generalize noteRun s2 id = s3 at h3
  have h4 := evalE_sk (X := fun _ => False) (readNode (upd p f)) (fun s _ _ => s)
    (fun s x => readNode_sk _ hf s x) id (bodyOf p id)
    { s3 with obs := some id } (.inr (fun s _ _ => SK.refl _ s))
  generalize evalE (readNode (upd p f)) (fun s _ _ => s) id (bodyOf p id) { s3 with obs := some id } = r4 at h4
  obtain ⟨s4, v⟩ := r4
  dsimp only at h4 ⊢
  have h04 : SK0 s0 s4 := (((h1.trans h2).trans h3).trans (SK.setObs s3 _)).trans h4
  have hk4 : (({ s4 with obs := s3.obs } : State).get id).kind ≠ .eff := by
    show (s4.get id).kind ≠ .eff
    rw [h04.kind id]; exact hk
  have h05 : SK0 s0 { s4 with obs := s3.obs } := h04.trans (SK.setObs s4 _)
  split
  · dsimp only
    refine SK.trans ?_ (SK.foldl _ (fun s' x => ?_) _ _)
    · refine SK.trans ?_ (SK.emit _ _)
      exact h05.trans (SK.upd _ id _ (fun _ => rfl) (fun h => absurd h hk4))
    · split
      · exact SK.refl _ s'
      · exact SK.of_markRel (markDirty_rel _ s' x)
  · exact h05.trans (SK.upd _ id _ (fun _ => rfl) (fun h => absurd h hk4))

/-- `update_if_necessary` of a memo never touches an effect's stable part -/
theorem upd_sk (p : Prog) : ∀ (f : Nat) (s : State) (id : Nat), SK0 s (upd p f s id).1
  | 0, s, _ => SK.refl _ s
  | f + 1, s, id => by
    rw [upd_succ]
    split
    · exact SK.refl _ s
    · next hkm =>
      have hkm' : (s.get id).kind = .memo := by simpa using hkm
      dsimp only
      have h0 : SK0 s (match (s.get id).st with
          | .clean => (s, false)
          | .dirty => (s, true)
          | .check => anySrc (upd p f) true id (s.get id).sources s).1 := by
        split
        · exact SK.refl _ s
        · exact SK.refl _ s
        · exact anySrc_sk _ (upd_sk p f) true id _ s
      generalize (match (s.get id).st with
          | .clean => (s, false)
          | .dirty => (s, true)
          | .check => anySrc (upd p f) true id (s.get id).sources s) = r at h0
      obtain ⟨s0, need⟩ := r
      dsimp only at h0 ⊢
      have hk0 : (s0.get id).kind ≠ .eff := by rw [h0.kind id, hkm']; simp
      split
      · exact h0.trans (updRun_sk p f (upd_sk p f) s0 id hk0)
      · exact h0.trans (SK.upd s0 id _ (fun _ => rfl) (fun h => absurd h hk0))

/-- the check phase of an effect's task -/
theorem effUpdate_sk (p : Prog) (f : Nat) (s : State) (id : Nat) : SK0 s (effUpdate p f s id).1 := by
  unfold effUpdate
  split
  · exact SK.upd_stab s id _ (fun _ => rfl)
  · have h1 := anySrc_sk (X := fun _ => False) (upd p f) (upd_sk p f) false id (s.get id).sources
      { s with obs := none }
    generalize anySrc (upd p f) false id (s.get id).sources { s with obs := none } = r at h1
    obtain ⟨s1, any⟩ := r
    dsimp only at h1 ⊢
    refine SK.trans ?_ (SK.upd_stab _ id _ (fun _ => rfl))
    exact ((SK.setObs s none).trans h1).trans (SK.setObs s1 _)

/-- the run of effect `e` (a body without writes): every other effect keeps its stable part; `e` keeps
`alive`, `done`, `first`, `paused` -/
theorem runEffBody_sk (p : Prog) (f : Nat) (s : State) (e : Nat) (hnw : (bodyOf p e).noWrite = true) :
    SK (· = e) s (runEffBody p f s e) := by
  unfold runEffBody
  dsimp only
  have h1 := clearSources_sk (X := (· = e)) s e
  generalize clearSources s e = s1 at h1
  have h2 := noteRun_sk (X := (· = e)) s1 e
  generalize noteRun s1 e = s2 at h2
  have h3 := evalE_sk (X := (· = e)) (readNode (upd p f)) (setSignal f)
    (fun s x => readNode_sk _ (fun s x => (upd_sk p f s x).mono (fun _ h => h.elim)) s x) e (bodyOf p e)
    { s2 with obs := some e } (.inl hnw)
  generalize evalE (readNode (upd p f)) (setSignal f) e (bodyOf p e) { s2 with obs := some e } = r at h3
  obtain ⟨s3, v⟩ := r
  dsimp only at h3 ⊢
  refine SK.trans ?_ (SK.upd _ e _ (fun _ => rfl) (fun _ => ⟨fun hx => absurd rfl hx, rfl⟩))
  exact (((h1.trans h2).trans (SK.setObs s2 _)).trans h3).trans (SK.setObs s3 _)

end Leptos.RView
