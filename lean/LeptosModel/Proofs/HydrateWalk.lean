import LeptosModel.Model.Hydrate
/-! Helper lemmas for C05, part 2: on a DOM that holds the nodes of `dom v pos`, the cursor walk of
`hydrate` finds every node where it looks for it and returns the state `adopt` specifies. -/
namespace Leptos.Hydrate
open Leptos.Dom Leptos.View

/-! ### reading the DOM -/

theorem nextIn_mid (l : List Id) (n x : Id) (more : List Id) (h : n ∉ l) :
    nextIn (l ++ n :: x :: more) n = some x := by
  induction l with
  | nil => simp [nextIn]
  | cons k ks ih =>
    have hk : ¬ k = n := fun e => h (by simp [e])
    have hks : n ∉ ks := fun m => h (by simp [m])
    simp [nextIn, hk, ih hks]

/-- `p` is a node of `d` whose child list is `kids`, duplicate-free, every child pointing back -/
structure Ctx (d : Dom) (p : Id) (kids : List Id) : Prop where
  kidsOf : d.kidsOf p = kids
  nodup : kids.Nodup
  par : ∀ i ∈ kids, d.getParent i = some p

/-- the cursor has consumed `done` (a prefix of the children of `p`) -/
def At (p : Id) (done : List Id) (c : Cur) : Prop :=
  (done = [] ∧ c.node = p ∧ c.pos = .firstChild) ∨
    ((∃ l, done = l ++ [c.node]) ∧ c.pos ≠ .firstChild ∧ c.pos ≠ .current)

theorem sibling_next {d : Dom} {p : Id} {kids : List Id} (hc : Ctx d p kids) (l : List Id) (n x : Id)
    (more : List Id) (hk : kids = l ++ n :: x :: more) : d.nextSibling n = some x := by
  have hn : n ∈ kids := by simp [hk]
  have hnd := hc.nodup
  rw [hk] at hnd
  have hnl : n ∉ l := by
    intro hm
    have := (List.nodup_append.mp hnd).2.2 n hm n (by simp)
    exact this rfl
  simp [Dom.nextSibling, hc.par n hn, hc.kidsOf, hk, nextIn_mid l n x more hnl]

theorem first_child {d : Dom} {p : Id} {kids : List Id} (hc : Ctx d p kids) (x : Id) (more : List Id)
    (hk : kids = x :: more) : d.firstChild p = some x := by
  simp [Dom.firstChild, hc.kidsOf, hk]

/-- the node the walk moves to next -/
theorem next_node {d : Dom} {p : Id} {kids : List Id} (hc : Ctx d p kids) (done : List Id) (x : Id)
    (more : List Id) (hk : kids = done ++ x :: more) (c : Cur) (hat : At p done c) :
    (if c.pos = .firstChild then (c.child d).node
      else if c.pos = .current then c.node else (c.sibling d).node) = x ∧ stepIn d c = x := by
  rcases hat with ⟨hd, hn, hp⟩ | ⟨⟨l, hl⟩, hp1, hp2⟩
  · subst hd
    have := first_child hc x more (by simpa using hk)
    simp [stepIn, hp, Cur.child, hn, this]
  · subst hl
    have := sibling_next hc l c.node x more (by simpa using hk)
    simp [stepIn, hp1, hp2, Cur.sibling, this]

theorem at_after (p : Id) (done : List Id) (x : Id) (pos : Position) (h1 : pos ≠ .firstChild)
    (h2 : pos ≠ .current) : At p (done ++ [x]) ⟨x, pos⟩ :=
  Or.inr ⟨⟨done, rfl⟩, h1, h2⟩

/-! ### what `real` says about single nodes -/

theorem realL_cons_inv {d : Dom} {t : HTree} {ts : List HTree} {todo : List IdTree} {p : Id}
    (h : realL d (t :: ts) todo p) : ∃ i rest, todo = i :: rest ∧ real d t i p ∧ realL d ts rest p := by
  cases todo with
  | nil => simp [realL] at h
  | cons i rest => exact ⟨i, rest, rfl, by simpa [realL] using h⟩

theorem real_parent {d : Dom} {t : HTree} {i : IdTree} {p : Id} (h : real d t i p) :
    d.getParent i.id = some p := by
  cases i with
  | node id ks =>
    cases t with
    | text s => obtain ⟨_, r, hr, _, _, hp⟩ := (by simpa [real] using h); simp [Dom.getParent, IdTree.id, hr, hp]
    | comment s => obtain ⟨_, r, hr, _, _, hp⟩ := (by simpa [real] using h); simp [Dom.getParent, IdTree.id, hr, hp]
    | elem tag attrs kids =>
      obtain ⟨r, hr, _, hp, _⟩ := (by simpa [real] using h)
      simp [Dom.getParent, IdTree.id, hr, hp]

theorem realL_parent {d : Dom} : ∀ {ts : List HTree} {is : List IdTree} {p : Id}, realL d ts is p →
    ∀ i ∈ is.map IdTree.id, d.getParent i = some p
  | [], [], _, _ => by simp
  | [], _ :: _, _, h => by simp [realL] at h
  | _ :: _, [], _, h => by simp [realL] at h
  | t :: ts, i :: is, p, h => by
    have h' : real d t i p ∧ realL d ts is p := by simpa [realL] using h
    intro j hj
    simp only [List.map_cons, List.mem_cons] at hj
    rcases hj with hj | hj
    · subst hj; exact real_parent h'.1
    · exact realL_parent h'.2 j hj

theorem real_comment {d : Dom} {s : Str} {i : IdTree} {p : Id} (h : real d (.comment s) i p) :
    d.kindOf i.id = some .comment := by
  cases i with
  | node id ks =>
    obtain ⟨_, r, hr, hk, _, _⟩ := (by simpa [real] using h)
    simp [Dom.kindOf, IdTree.id, hr, hk]

theorem real_text {d : Dom} {s : Str} {i : IdTree} {p : Id} (h : real d (.text s) i p) :
    d.kindOf i.id = some .text ∧ (d.get? i.id).map (·.data) = some (String.ofList s) := by
  cases i with
  | node id ks =>
    obtain ⟨_, r, hr, hk, hd, _⟩ := (by simpa [real] using h)
    simp [Dom.kindOf, IdTree.id, hr, hk, hd]

theorem textData (s : String) :
    String.ofList (if s.toList = [] then [' '] else s.toList) = if s = "" then " " else s := by
  by_cases h : s = ""
  · subst h; rfl
  · have : ¬ s.toList = [] := by simpa using h
    simp [this, h]

theorem real_elem {d : Dom} {tag : Str} {attrs : List (Str × Str)} {kids : List HTree} {id : Id}
    {ks : List IdTree} {p : Id} (h : real d (.elem tag attrs kids) (.node id ks) p) :
    d.isElement id = true ∧ Ctx d id (ks.map IdTree.id) ∧ realL d kids ks id := by
  obtain ⟨r, hr, hk, _, _, hkids, hnd, hreal⟩ := (by simpa [real] using h)
  refine ⟨by simp [Dom.isElement, hr, hk, Kind.isElem], ⟨by simp [Dom.kidsOf, hr, hkids], hnd, realL_parent hreal⟩, hreal⟩

/-! ### the views of the theorem -/

mutual
/-- what the walk relies on: an element with children escapes them, a void element has none
(both are facts of the Rust *types*: `ESCAPE_CHILDREN`, `ElementWithChildren`) -/
def wfH : View → Bool
  | .text _ => true
  | .unit => true
  | .elem tag _ c => (if isVoidT tag then !viewExists c else escKids tag) && wfH c
  | .tuple vs => wfHL vs
  | .onone => true
  | .osome v => wfH v
  | .either _ _ v => wfH v
  | .vec vs => wfHL vs
  | .any _ v => wfH v
def wfHL : List View → Bool
  | [] => true
  | v :: vs => wfH v && wfHL vs
end

/-! ### the walk -/

theorem unit_step {d : Dom} {p : Id} {kids done : List Id} {todo : List IdTree} {c : Cur} {ts' : List HTree}
    (hc : Ctx d p kids) (hk : kids = done ++ todo.map IdTree.id)
    (hr : realL d (Html.Tree.comment [] :: ts') todo p) (hat : At p done c) :
    ∃ i ks rest, todo = .node i ks :: rest ∧ realL d ts' rest p ∧ nextPlaceholder d c = .ok i ∧
      At p (done ++ [i]) ⟨i, .nextChild⟩ ∧ d.kindOf i = some .comment := by
  obtain ⟨it, rest, htodo, hreal, hrest⟩ := realL_cons_inv hr
  cases it with
  | node i ks =>
    subst htodo
    have hstep := (next_node hc done i (rest.map IdTree.id) (by simpa [IdTree.id] using hk) c hat).2
    have hkind : d.kindOf i = some .comment := by simpa [IdTree.id] using real_comment hreal
    refine ⟨i, ks, rest, rfl, hrest, ?_, at_after p done i .nextChild (by decide) (by decide), hkind⟩
    simp [nextPlaceholder, hstep, hkind]

theorem text_bound {d : Dom} {s : String} {i : Id} {ks : List IdTree} {p : Id}
    (h : real d (textNode s.toList) (.node i ks) p) :
    d.kindOf i = some .text ∧ bound d (.text i s) = true := by
  have := real_text (i := .node i ks) (by simpa [textNode] using h)
  simp only [IdTree.id] at this
  refine ⟨this.1, ?_⟩
  by_cases hs : s = ""
  · subst hs
    have h2 := this.2
    simp at h2
    simp [bound, this.1, h2]
  · have h2 := this.2
    simp [hs] at h2
    simp [bound, this.1, h2, hs]

mutual
theorem hyd_view (d : Dom) : (v : View) → ∀ (p : Id) (kids done : List Id) (todo : List IdTree) (c : Cur)
    (ts' : List HTree), Ctx d p kids → kids = done ++ todo.map IdTree.id → wfH v = true →
    realL d (dom v c.pos ++ ts') todo p → At p done c →
    ∃ consumed rest c', todo = consumed ++ rest ∧ realL d ts' rest p ∧
      hydrate d v c = .ok ⟨(adopt v c.pos todo).1, c', 0⟩ ∧ (adopt v c.pos todo).2 = rest ∧
      At p (done ++ consumed.map IdTree.id) c' ∧ c'.pos = after true v c.pos ∧
      bound d (adopt v c.pos todo).1 = true
  | .text s, p, kids, done, todo, c, ts', hc, hk, _, hr, hat => by
    by_cases hpos : c.pos = .nextChildAfterText
    · -- a separator comment comes first
      simp only [dom, hpos, if_true, List.cons_append, List.nil_append] at hr
      obtain ⟨sep, rest1, htodo, hsep, hr1⟩ := realL_cons_inv hr
      obtain ⟨it, rest, hrest1, htext, hrest⟩ := realL_cons_inv hr1
      cases sep with
      | node si sks =>
        cases it with
        | node i ks =>
          subst htodo; subst hrest1
          have hk' : kids = done ++ si :: i :: rest.map IdTree.id := by simpa [IdTree.id] using hk
          have hstep := (next_node hc done si (i :: rest.map IdTree.id) hk' c hat).2
          have hsib := sibling_next hc done si i (rest.map IdTree.id) hk'
          obtain ⟨hkind, hb⟩ := text_bound htext
          refine ⟨[.node si sks, .node i ks], rest, ⟨i, .nextChildAfterText⟩, by simp, hrest, ?_, ?_, ?_, ?_, ?_⟩
          · simp only [hydrate, textTarget, hstep, hpos, if_true, hsib, Option.getD_some]
            simp [hkind, adopt]
          · simp [adopt, hpos]
          · have := at_after p (done ++ [si]) i .nextChildAfterText (by decide) (by decide)
            simpa [IdTree.id] using this
          · simp [after]
          · simpa [adopt, hpos] using hb
    · simp only [dom, hpos, if_false, List.nil_append, List.cons_append] at hr
      obtain ⟨it, rest, htodo, htext, hrest⟩ := realL_cons_inv hr
      cases it with
      | node i ks =>
        subst htodo
        have hk' : kids = done ++ i :: rest.map IdTree.id := by simpa [IdTree.id] using hk
        have hstep := (next_node hc done i (rest.map IdTree.id) hk' c hat).2
        obtain ⟨hkind, hb⟩ := text_bound htext
        refine ⟨[.node i ks], rest, ⟨i, .nextChildAfterText⟩, by simp, hrest, ?_, ?_, ?_, ?_, ?_⟩
        · simp only [hydrate, textTarget, hstep, hpos, if_false]
          simp [hkind, adopt, hpos]
        · simp [adopt, hpos]
        · simpa [IdTree.id] using at_after p done i .nextChildAfterText (by decide) (by decide)
        · simp [after]
        · simpa [adopt, hpos] using hb
  | .unit, p, kids, done, todo, c, ts', hc, hk, _, hr, hat => by
    simp only [dom, List.cons_append, List.nil_append] at hr
    obtain ⟨i, ks, rest, htodo, hrest, hnp, hat', hkind⟩ := unit_step hc hk hr hat
    subst htodo
    exact ⟨[.node i ks], rest, ⟨i, .nextChild⟩, by simp, hrest, by simp [hydrate, hnp, adopt],
      by simp [adopt], by simpa [IdTree.id] using hat', by simp [after], by simp [adopt, bound, hkind]⟩
  | .onone, p, kids, done, todo, c, ts', hc, hk, _, hr, hat => by
    simp only [dom, List.cons_append, List.nil_append] at hr
    obtain ⟨i, ks, rest, htodo, hrest, hnp, hat', hkind⟩ := unit_step hc hk hr hat
    subst htodo
    exact ⟨[.node i ks], rest, ⟨i, .nextChild⟩, by simp, hrest, by simp [hydrate, hnp, adopt],
      by simp [adopt], by simpa [IdTree.id] using hat', by simp [after], by simp [adopt, bound, hkind]⟩
  | .osome v, p, kids, done, todo, c, ts', hc, hk, hw, hr, hat => by
    obtain ⟨consumed, rest, c', h1, h2, h3, h4, h5, h6, h7⟩ :=
      hyd_view d v p kids done todo c ts' hc hk (by simpa [wfH] using hw) (by simpa [dom] using hr) hat
    exact ⟨consumed, rest, c', h1, h2, by simp [hydrate, h3, adopt], by simpa [adopt] using h4, h5,
      by simpa [after] using h6, by simpa [adopt, bound] using h7⟩
  | .either _ _ v, p, kids, done, todo, c, ts', hc, hk, hw, hr, hat => by
    obtain ⟨consumed, rest, c', h1, h2, h3, h4, h5, h6, h7⟩ :=
      hyd_view d v p kids done todo c ts' hc hk (by simpa [wfH] using hw) (by simpa [dom] using hr) hat
    exact ⟨consumed, rest, c', h1, h2, by simp [hydrate, h3, adopt], by simpa [adopt] using h4, h5,
      by simpa [after] using h6, by simpa [adopt, bound] using h7⟩
  | .any _ v, p, kids, done, todo, c, ts', hc, hk, hw, hr, hat => by
    obtain ⟨consumed, rest, c', h1, h2, h3, h4, h5, h6, h7⟩ :=
      hyd_view d v p kids done todo c ts' hc hk (by simpa [wfH] using hw) (by simpa [dom] using hr) hat
    exact ⟨consumed, rest, c', h1, h2, by simp [hydrate, h3, adopt], by simpa [adopt] using h4, h5,
      by simpa [after] using h6, by simpa [adopt, bound] using h7⟩
  | .tuple vs, p, kids, done, todo, c, ts', hc, hk, hw, hr, hat => by
    obtain ⟨consumed, rest, c', h1, h2, h3, h4, h5, h6, h7⟩ :=
      hyd_list d vs p kids done todo c ts' hc hk (by simpa [wfH] using hw) (by simpa [dom] using hr) hat
    exact ⟨consumed, rest, c', h1, h2, by simp [hydrate, h3, adopt], by simpa [adopt] using h4, h5,
      by simpa [after] using h6, by simpa [adopt, bound] using h7⟩
  | .vec vs, p, kids, done, todo, c, ts', hc, hk, hw, hr, hat => by
    obtain ⟨consumed, rest, c', h1, h2, h3, h4, h5, _, h7⟩ :=
      hyd_list d vs p kids done todo c (Html.Tree.comment [] :: ts') hc hk (by simpa [wfH] using hw)
        (by simpa [dom, List.append_assoc] using hr) hat
    subst h1
    have hk2 : kids = (done ++ consumed.map IdTree.id) ++ rest.map IdTree.id := by simpa using hk
    obtain ⟨i, ks, rest', hrest, hr', hnp, hat', hkind⟩ := unit_step hc hk2 h2 h5
    subst hrest
    refine ⟨consumed ++ [.node i ks], rest', ⟨i, .nextChild⟩, by simp, hr', ?_, ?_, ?_, by simp [after], ?_⟩
    · simp [hydrate, h3, hnp, adopt, h4]
    · simp [adopt, h4]
    · simpa [IdTree.id, List.append_assoc] using hat'
    · simp [adopt, h4, bound, h7, hkind]
  | .elem tag as child, p, kids, done, todo, c, ts', hc, hk, hw, hr, hat => by
    simp only [dom, List.cons_append, List.nil_append] at hr
    obtain ⟨it, rest, htodo, hel, hrest⟩ := realL_cons_inv hr
    cases it with
    | node i ks =>
      subst htodo
      have hk' : kids = done ++ i :: rest.map IdTree.id := by simpa [IdTree.id] using hk
      have hstep := (next_node hc done i (rest.map IdTree.id) hk' c hat).1
      obtain ⟨hisel, hci, hkidsReal⟩ := real_elem hel
      simp only [wfH, Bool.and_eq_true] at hw
      obtain ⟨hshape, hwc⟩ := hw
      by_cases hskip : (!viewExists child || !escKids tag) = true
      · refine ⟨[.node i ks], rest, ⟨i, .nextChild⟩, by simp, hrest, ?_, by simp only [adopt]; split <;> rfl,
          by simpa [IdTree.id] using at_after p done i .nextChild (by decide) (by decide), by simp [after], ?_⟩
        · simp [hydrate, elemTarget, hstep, hisel, hskip, adopt]
        · simp [adopt, hskip, bound, hisel]
      · have hex : viewExists child = true ∧ escKids tag = true := by
          simpa [Bool.or_eq_true, not_or] using hskip
        have hnv : isVoidT tag = false := by
          cases hv : isVoidT tag with
          | false => rfl
          | true => simp [hv, hex.1] at hshape
        have hr2 : realL d (dom child (Cur.mk i Position.firstChild).pos ++ []) ks i := by
          simpa [hnv, hex.1] using hkidsReal
        obtain ⟨consumed, rest2, c2, _, _, h3, _, _, _, h7⟩ :=
          hyd_view d child i (ks.map IdTree.id) [] ks ⟨i, .firstChild⟩ [] hci (by simp) hwc hr2
            (Or.inl ⟨rfl, rfl, rfl⟩)
        refine ⟨[.node i ks], rest, ⟨i, .nextChild⟩, by simp, hrest, ?_, by simp only [adopt]; split <;> rfl,
          by simpa [IdTree.id] using at_after p done i .nextChild (by decide) (by decide), by simp [after], ?_⟩
        · simp [hydrate, elemTarget, hstep, hisel, hex.1, hex.2, h3, adopt]
        · simpa [adopt, hex.1, hex.2, bound, hisel] using h7
theorem hyd_list (d : Dom) : (vs : List View) → ∀ (p : Id) (kids done : List Id) (todo : List IdTree)
    (c : Cur) (ts' : List HTree), Ctx d p kids → kids = done ++ todo.map IdTree.id → wfHL vs = true →
    realL d (domL vs c.pos ++ ts') todo p → At p done c →
    ∃ consumed rest c', todo = consumed ++ rest ∧ realL d ts' rest p ∧
      hydrateList d vs c = .ok ⟨(adoptL vs c.pos todo).1, c', 0⟩ ∧ (adoptL vs c.pos todo).2 = rest ∧
      At p (done ++ consumed.map IdTree.id) c' ∧ c'.pos = afterL true vs c.pos ∧
      boundL d (adoptL vs c.pos todo).1 = true
  | [], p, kids, done, todo, c, ts', _, _, _, hr, hat => by
    exact ⟨[], todo, c, by simp, by simpa [domL] using hr, by simp [hydrateList, adoptL], by simp [adoptL],
      by simpa using hat, by simp [afterL], by simp [adoptL, boundL]⟩
  | v :: vs, p, kids, done, todo, c, ts', hc, hk, hw, hr, hat => by
    simp only [wfHL, Bool.and_eq_true] at hw
    obtain ⟨c1, r1, c', h1, h2, h3, h4, h5, h6, h7⟩ :=
      hyd_view d v p kids done todo c (domL vs (after true v c.pos) ++ ts') hc hk hw.1
        (by simpa [domL, List.append_assoc] using hr) hat
    subst h1
    have hk2 : kids = (done ++ c1.map IdTree.id) ++ r1.map IdTree.id := by simpa using hk
    obtain ⟨c2, r2, c'', g1, g2, g3, g4, g5, g6, g7⟩ :=
      hyd_list d vs p kids (done ++ c1.map IdTree.id) r1 c' ts' hc hk2 hw.2 (by simpa [h6] using h2) h5
    subst g1
    rw [h6] at g3 g4 g7
    refine ⟨c1 ++ c2, r2, c'', by simp, g2, ?_, ?_, by simpa [List.append_assoc] using g5, ?_, ?_⟩
    · simp [hydrateList, h3, g3, adoptL, h4]
    · simp [adoptL, h4, g4]
    · simpa [afterL, h6] using g6
    · simp [adoptL, h4, boundL, h7, g7]
end

end Leptos.Hydrate
