import LeptosModel.Model.ServerFn
import LeptosModel.Proofs.ServerFnUtf8
/-!
# Proofs/ServerFnStream — `decode_text_chunks` reassembles any text from any chunking

`prefix_analysis`: a prefix `a` of the UTF-8 bytes of a text is the bytes of a shorter text followed by a
(possibly empty) proper prefix of one scalar's encoding, and the validator reports exactly that.
-/
namespace Leptos.ServerFn
open Leptos

def shiftErr (j : Nat) (r : Option (Nat × Option Nat)) : Option (Nat × Option Nat) :=
  r.map fun p => (p.1 + j, p.2)

theorem shiftErr_shiftErr (a b : Nat) (r : Option (Nat × Option Nat)) :
    shiftErr a (shiftErr b r) = shiftErr (b + a) r := by
  cases r with
  | none => rfl
  | some p => simp [shiftErr, Nat.add_assoc]

/-- the reported position is relative to the start index -/
theorem utf8ErrGo_shift (s : Bytes) : ∀ k j, utf8ErrGo k j s = shiftErr j (utf8ErrGo k 0 s) := by
  induction s with
  | nil => intro k j; simp [utf8ErrGo, shiftErr]
  | cons b rest ih =>
    intro k j
    cases k with
    | succ k =>
      simp only [utf8ErrGo]
      rw [ih k (j + 1), ih k (0 + 1), shiftErr_shiftErr]
      congr 1; omega
    | zero =>
      simp only [utf8ErrGo]
      split
      · next n _ =>
        rw [ih (n - 1) (j + 1), ih (n - 1) (0 + 1), shiftErr_shiftErr]
        congr 1; omega
      · simp [shiftErr]

/-- the validator steps over the encoding of one scalar, advancing by its length -/
theorem utf8ErrGo_enc_len (n : Nat) (hv : ValidScalar n) (rest : Bytes) (i : Nat) :
    utf8ErrGo 0 i (Wire.utf8EncodeChar n ++ rest) = utf8ErrGo 0 (i + (Wire.utf8EncodeChar n).length) rest := by
  unfold ValidScalar at hv
  by_cases h1 : n < 0x80
  · simp [Wire.utf8EncodeChar, h1, utf8ErrGo, next1 n h1]
  · by_cases h2 : n < 0x800
    · simp [Wire.utf8EncodeChar, h1, h2, utf8ErrGo, next2 n (by omega) h2]
    · by_cases h3 : n < 0x10000
      · simp [Wire.utf8EncodeChar, h1, h2, h3, utf8ErrGo, next3 n (by omega) h3 (by omega)]
      · simp [Wire.utf8EncodeChar, h1, h2, h3, utf8ErrGo, next4 n (by omega) (by omega)]

theorem utf8EncodeChar_length (n : Nat) : 1 ≤ (Wire.utf8EncodeChar n).length ∧ (Wire.utf8EncodeChar n).length ≤ 4 := by
  unfold Wire.utf8EncodeChar
  split
  · simp
  · split
    · simp
    · split <;> simp

theorem trunc2_1 (n : Nat) (h1 : ¬ n < 0x80) (h2 : n < 0x800) : Url.utf8Next [0xC0 + n / 64] = .invalid 1 := by
  have a : ¬ (0xC0 + n / 64 < 0x80) := by omega
  have b : 0xC2 ≤ 0xC0 + n / 64 ∧ 0xC0 + n / 64 ≤ 0xDF := by omega
  simp [Url.utf8Next, a, b]

theorem trunc3_1 (n : Nat) (h2 : ¬ n < 0x800) (h3 : n < 0x10000) : Url.utf8Next [0xE0 + n / 4096] = .invalid 1 := by
  have a : ¬ (0xE0 + n / 4096 < 0x80) := by omega
  have b : ¬ (0xC2 ≤ 0xE0 + n / 4096 ∧ 0xE0 + n / 4096 ≤ 0xDF) := by omega
  have b' : 0xE0 ≤ 0xE0 + n / 4096 ∧ 0xE0 + n / 4096 ≤ 0xEF := by omega
  simp [Url.utf8Next, a, b, b']

theorem trunc3_2 (n : Nat) (hv : n < 0xd800 ∨ (0xdfff < n ∧ n < 0x110000)) (h2 : ¬ n < 0x800) (h3 : n < 0x10000) :
    Url.utf8Next [0xE0 + n / 4096, 0x80 + n / 64 % 64] = .invalid 2 := by
  have a : ¬ (0xE0 + n / 4096 < 0x80) := by omega
  have b : ¬ (0xC2 ≤ 0xE0 + n / 4096 ∧ 0xE0 + n / 4096 ≤ 0xDF) := by omega
  have b' : 0xE0 ≤ 0xE0 + n / 4096 ∧ 0xE0 + n / 4096 ≤ 0xEF := by omega
  simp [Url.utf8Next, a, b, b']
  omega

theorem trunc4_1 (n : Nat) (hv : n < 0xd800 ∨ (0xdfff < n ∧ n < 0x110000)) (h3 : ¬ n < 0x10000) :
    Url.utf8Next [0xF0 + n / 262144] = .invalid 1 := by
  have a : ¬ (0xF0 + n / 262144 < 0x80) := by omega
  have b : ¬ (0xC2 ≤ 0xF0 + n / 262144 ∧ 0xF0 + n / 262144 ≤ 0xDF) := by omega
  have b' : ¬ (0xE0 ≤ 0xF0 + n / 262144 ∧ 0xF0 + n / 262144 ≤ 0xEF) := by omega
  have b'' : 0xF0 ≤ 0xF0 + n / 262144 ∧ 0xF0 + n / 262144 ≤ 0xF4 := by omega
  simp [Url.utf8Next, a, b, b', b'']

theorem trunc4_2 (n : Nat) (hv : n < 0xd800 ∨ (0xdfff < n ∧ n < 0x110000)) (h3 : ¬ n < 0x10000) :
    Url.utf8Next [0xF0 + n / 262144, 0x80 + n / 4096 % 64] = .invalid 2 := by
  have a : ¬ (0xF0 + n / 262144 < 0x80) := by omega
  have b : ¬ (0xC2 ≤ 0xF0 + n / 262144 ∧ 0xF0 + n / 262144 ≤ 0xDF) := by omega
  have b' : ¬ (0xE0 ≤ 0xF0 + n / 262144 ∧ 0xF0 + n / 262144 ≤ 0xEF) := by omega
  have b'' : 0xF0 ≤ 0xF0 + n / 262144 ∧ 0xF0 + n / 262144 ≤ 0xF4 := by omega
  simp [Url.utf8Next, a, b, b', b'']
  omega

theorem trunc4_3 (n : Nat) (hv : n < 0xd800 ∨ (0xdfff < n ∧ n < 0x110000)) (h3 : ¬ n < 0x10000) :
    Url.utf8Next [0xF0 + n / 262144, 0x80 + n / 4096 % 64, 0x80 + n / 64 % 64] = .invalid 3 := by
  have a : ¬ (0xF0 + n / 262144 < 0x80) := by omega
  have b : ¬ (0xC2 ≤ 0xF0 + n / 262144 ∧ 0xF0 + n / 262144 ≤ 0xDF) := by omega
  have b' : ¬ (0xE0 ≤ 0xF0 + n / 262144 ∧ 0xF0 + n / 262144 ≤ 0xEF) := by omega
  have b'' : 0xF0 ≤ 0xF0 + n / 262144 ∧ 0xF0 + n / 262144 ≤ 0xF4 := by omega
  have c2 : Url.isCont (0x80 + n / 64 % 64) = true := by simp [Url.isCont]; omega
  simp [Url.utf8Next, a, b, b', b'', c2]
  omega

/-- a proper, non-empty prefix of one scalar's encoding is reported as an *incomplete* sequence at 0 -/
theorem utf8ErrGo_truncated (n : Nat) (hv : ValidScalar n) (m : Nat) (h0 : 0 < m)
    (hm : m < (Wire.utf8EncodeChar n).length) :
    utf8ErrGo 0 0 ((Wire.utf8EncodeChar n).take m) = some (0, none) := by
  unfold ValidScalar at hv
  by_cases h1 : n < 0x80
  · simp [Wire.utf8EncodeChar, h1] at hm; omega
  · by_cases h2 : n < 0x800
    · simp [Wire.utf8EncodeChar, h1, h2] at hm ⊢
      have : m = 1 := by omega
      subst this
      simp [utf8ErrGo, trunc2_1 n h1 h2, isLead]
      omega
    · by_cases h3 : n < 0x10000
      · simp [Wire.utf8EncodeChar, h1, h2, h3] at hm ⊢
        have hm' : m = 1 ∨ m = 2 := by omega
        rcases hm' with rfl | rfl
        · simp [utf8ErrGo, trunc3_1 n h2 h3, isLead]
          omega
        · simp [utf8ErrGo, trunc3_2 n hv h2 h3, isLead]
          omega
      · simp [Wire.utf8EncodeChar, h1, h2, h3] at hm ⊢
        have hm' : m = 1 ∨ m = 2 ∨ m = 3 := by omega
        rcases hm' with rfl | rfl | rfl
        · simp [utf8ErrGo, trunc4_1 n hv h3, isLead]
          omega
        · simp [utf8ErrGo, trunc4_2 n hv h3, isLead]
          omega
        · simp [utf8ErrGo, trunc4_3 n hv h3, isLead]
          omega

theorem take_len_add {α : Type} (l1 l2 : List α) (i : Nat) : (l1 ++ l2).take (l1.length + i) = l1 ++ l2.take i := by
  induction l1 with
  | nil => simp
  | cons x xs ih => simp [Nat.succ_add, ih]

theorem drop_len_add {α : Type} (l1 l2 : List α) (i : Nat) : (l1 ++ l2).drop (l1.length + i) = l2.drop i := by
  induction l1 with
  | nil => simp
  | cons x xs ih => simp [Nat.succ_add, ih]

/-- **prefix analysis**: cut the bytes of a text anywhere; the validator run on the first part stops at
the last complete scalar and reports at most an incomplete sequence; both parts around that point are
themselves the bytes of texts -/
theorem prefix_analysis (s : Str) : ∀ (a b : Bytes), a ++ b = utf8Encode s →
    ∃ i s1 s2, i ≤ a.length ∧
      ((i = a.length ∧ utf8ErrGo 0 0 a = none) ∨ (i < a.length ∧ utf8ErrGo 0 0 a = some (i, none))) ∧
      s = s1 ++ s2 ∧ a.take i = utf8Encode s1 ∧ a.drop i ++ b = utf8Encode s2 := by
  induction s with
  | nil =>
    intro a b h
    have ha : a = [] := by
      simp [utf8Encode] at h; exact h.1
    subst ha
    exact ⟨0, [], [], Nat.le_refl _, Or.inl ⟨rfl, by simp [utf8ErrGo]⟩, rfl, by simp [utf8Encode], by simpa using h⟩
  | cons c cs ih =>
    intro a b h
    rw [utf8Encode_cons] at h
    have hv := char_validScalar c
    have hlen := utf8EncodeChar_length c.toNat
    by_cases hL : (Wire.utf8EncodeChar c.toNat).length ≤ a.length
    · -- the whole scalar lies in `a`
      have ha : a = Wire.utf8EncodeChar c.toNat ++ a.drop (Wire.utf8EncodeChar c.toNat).length := by
        have h1 : (a ++ b).take (Wire.utf8EncodeChar c.toNat).length = a.take (Wire.utf8EncodeChar c.toNat).length :=
          List.take_append_of_le_length hL
        rw [h, List.take_left'] at h1
        · conv => lhs; rw [← List.take_append_drop (Wire.utf8EncodeChar c.toNat).length a]
          rw [← h1]
        · rfl
      have hb : a.drop (Wire.utf8EncodeChar c.toNat).length ++ b = utf8Encode cs := by
        have h1 : (a ++ b).drop (Wire.utf8EncodeChar c.toNat).length = a.drop (Wire.utf8EncodeChar c.toNat).length ++ b :=
          List.drop_append_of_le_length hL
        rw [h, List.drop_left'] at h1
        · exact h1.symm
        · rfl
      obtain ⟨i', s1, s2, hi', hcase, hs, ht, hd⟩ := ih _ _ hb
      generalize a.drop (Wire.utf8EncodeChar c.toNat).length = a' at ha hb hi' hcase ht hd
      subst ha
      have hgo : utf8ErrGo 0 0 (Wire.utf8EncodeChar c.toNat ++ a') =
          shiftErr (Wire.utf8EncodeChar c.toNat).length (utf8ErrGo 0 0 a') := by
        rw [utf8ErrGo_enc_len c.toNat hv a' 0, utf8ErrGo_shift a' 0 (0 + (Wire.utf8EncodeChar c.toNat).length)]
        simp
      refine ⟨(Wire.utf8EncodeChar c.toNat).length + i', c :: s1, s2, by simp; omega, ?_, by simp [hs], ?_, ?_⟩
      · rcases hcase with ⟨h1, h2⟩ | ⟨h1, h2⟩
        · left; exact ⟨by simp [h1], by rw [hgo, h2]; rfl⟩
        · right; exact ⟨by simp; omega, by rw [hgo, h2]; simp [shiftErr, Nat.add_comm]⟩
      · rw [take_len_add, ht, utf8Encode_cons]
      · rw [drop_len_add]; exact hd
    · -- `a` ends inside the scalar
      have hlt : a.length < (Wire.utf8EncodeChar c.toNat).length := by omega
      have ha : a = (Wire.utf8EncodeChar c.toNat).take a.length := by
        have h1 : (a ++ b).take a.length = a := List.take_left' rfl
        rw [h, List.take_append_of_le_length (by omega)] at h1
        exact h1.symm
      by_cases h0 : a.length = 0
      · have : a = [] := List.length_eq_zero_iff.mp h0
        subst this
        exact ⟨0, [], c :: cs, Nat.le_refl _, Or.inl ⟨rfl, by simp [utf8ErrGo]⟩, rfl, by simp [utf8Encode],
          by rw [utf8Encode_cons]; simpa using h⟩
      · have hT := utf8ErrGo_truncated c.toNat hv a.length (by omega) hlt
        rw [← ha] at hT
        exact ⟨0, [], c :: cs, by omega, Or.inr ⟨by omega, hT⟩, rfl, by simp [utf8Encode],
          by rw [utf8Encode_cons]; simpa using h⟩

/-- invariant of `decode_text_chunks`: what is pending plus what is still to come is the bytes of a text;
then every item is `Ok` and the items concatenate to exactly those bytes -/
theorem textDecodeGo_ok (chunks : List Bytes) : ∀ (pending : Bytes) (s : Str),
    pending ++ chunks.flatten = utf8Encode s →
    ∃ payloads : List Bytes, textDecodeGo pending chunks = payloads.map .ok ∧
      payloads.flatten = pending ++ chunks.flatten := by
  induction chunks with
  | nil =>
    intro pending s h
    simp only [List.flatten_nil, List.append_nil] at h ⊢
    by_cases hp : pending.isEmpty = true
    · have : pending = [] := by simpa using hp
      subst this
      exact ⟨[], by simp [textDecodeGo], rfl⟩
    · have hv : utf8ErrGo 0 0 pending = none := by rw [h]; exact utf8ErrGo_utf8Encode s 0
      exact ⟨[pending], by simp [textDecodeGo, hp, hv], by simp⟩
  | cons c cs ih =>
    intro pending s h
    have h' : (pending ++ c) ++ cs.flatten = utf8Encode s := by simpa [List.append_assoc] using h
    obtain ⟨i, s1, s2, hi, hcase, hs, ht, hd⟩ := prefix_analysis s _ _ h'
    rcases hcase with ⟨h1, h2⟩ | ⟨h1, h2⟩
    · -- the buffer is complete text
      have hd' : ([] : Bytes) ++ cs.flatten = utf8Encode s2 := by
        rw [h1, List.drop_length] at hd; exact hd
      obtain ⟨ps, hps, hfl⟩ := ih [] s2 hd'
      refine ⟨(pending ++ c) :: ps, ?_, ?_⟩
      · simp [textDecodeGo, textStep, h2, hps]
      · simp [hfl, List.append_assoc]
    · -- an incomplete scalar stays pending
      obtain ⟨ps, hps, hfl⟩ := ih ((pending ++ c).drop i) s2 hd
      by_cases hi0 : i = 0
      · subst hi0
        simp only [List.drop_zero] at hps hfl
        refine ⟨ps, ?_, ?_⟩
        · simp [textDecodeGo, textStep, h2, hps]
        · simpa [List.append_assoc] using hfl
      · refine ⟨(pending ++ c).take i :: ps, ?_, ?_⟩
        · simp [textDecodeGo, textStep, h2, hi0, hps]
        · rw [List.flatten_cons, hfl, ← List.append_assoc, List.take_append_drop]
          simp [List.append_assoc]

end Leptos.ServerFn
