import LeptosModel.Proofs.RViewSigVal
import LeptosModel.Proofs.RViewErrb
import LeptosModel.Proofs.RViewTop
/-!
# Proofs/RViewMCount — the register of a boundary counts the `Result` leaves below it that are in error

For a mounted boundary over static structure with dynamic and `Result` leaves: `envOf rs sg` (the register) is
the number of leaves whose state is `Err` (`errCount`), through every build, signal write and task poll.  The
reactive operations never write a signal (`Proofs/RViewSigVal.lean`); the view layer writes the register only
through `bump`, together with the change of a leaf's state.
-/
namespace Leptos.RView
open Leptos.Reactive

/-- static structure, dynamic leaves, `Result` leaves -/
def RState.leafy : RState → Bool
  | .text _ _ => true
  | .unit _ => true
  | .elem _ _ _ kid => kid.leafy
  | .seq a b => a.leafy && b.leafy
  | .dynText _ _ _ _ => true
  | .res _ _ _ _ _ _ => true
  | _ => false

/-- the `Result` leaves registered with boundary `sg` that are in error -/
def errCount (sg : Nat) : RState → Int
  | .elem _ _ _ kid => errCount sg kid
  | .seq a b => errCount sg a + errCount sg b
  | .res _ _ _ _ last hook => if last.isNone && hook == some sg then 1 else 0
  | _ => 0

/-- every `Result` leaf throws to `h` -/
def hooksAre (h : Option Nat) : RState → Prop
  | .elem _ _ _ kid => hooksAre h kid
  | .seq a b => hooksAre h a ∧ hooksAre h b
  | .res _ _ _ _ _ hook => hook = h
  | _ => True

/-- what the count needs to know about the register node -/
structure SigAt (sg : Nat) (st : St) : Prop where
  psig : ∃ v0, st.prog[sg]? = some (.sig v0)
  lt : sg < st.rs.nodes.length
  ksig : (st.rs.get sg).kind = .sig

/-- `st'` is `st` after node allocations and writes to signals: same program, same shape of the graph -/
structure Tame (st st' : St) : Prop where
  prog : st'.prog = st.prog
  zombies : st'.zombies = st.zombies
  tasks : st'.tasks = st.tasks
  root : st'.root = st.root
  rootN : st'.rootN = st.rootN
  disposed : st'.disposed = st.disposed
  len : st'.rs.nodes.length = st.rs.nodes.length
  kind : ∀ i, (st'.rs.get i).kind = (st.rs.get i).kind

theorem Tame.refl (st : St) : Tame st st := ⟨rfl, rfl, rfl, rfl, rfl, rfl, rfl, fun _ => rfl⟩
theorem Tame.trans {a b c : St} (h1 : Tame a b) (h2 : Tame b c) : Tame a c :=
  ⟨h2.prog.trans h1.prog, h2.zombies.trans h1.zombies, h2.tasks.trans h1.tasks, h2.root.trans h1.root,
    h2.rootN.trans h1.rootN, h2.disposed.trans h1.disposed, h2.len.trans h1.len,
    fun i => (h2.kind i).trans (h1.kind i)⟩

theorem SigAt.tame {sg : Nat} {st st' : St} (h : SigAt sg st) (ht : Tame st st') : SigAt sg st' :=
  ⟨by rw [ht.prog]; exact h.psig, by rw [ht.len]; exact h.lt, by rw [ht.kind]; exact h.ksig⟩

theorem bump_rs {sg : Nat} {st : St} (h : SigAt sg st) (d : Int) :
    (bump st sg d).rs = setSignal (fuelFor st.prog) st.rs sg (((st.rs.get sg).val.getD 0) + d) := by
  obtain ⟨v0, hv⟩ := h.psig
  simp only [bump, setSig, Reactive.step, hv]

theorem bump_tame {sg : Nat} {st : St} (h : SigAt sg st) (d : Int) : Tame st (bump st sg d) := by
  have hk : (st.rs.get sg).kind ≠ .eff := by rw [h.ksig]; simp
  have hsk := setSignal_sk (X := fun _ => False) (fuelFor st.prog) st.rs sg (((st.rs.get sg).val.getD 0) + d) hk
  refine ⟨rfl, rfl, rfl, rfl, rfl, rfl, ?_, ?_⟩
  · rw [bump_rs h]; exact hsk.len
  · intro i; rw [bump_rs h]; exact hsk.kind i

theorem bump_env {sg : Nat} {st : St} (h : SigAt sg st) (d : Int) :
    envOf (bump st sg d).rs sg = envOf st.rs sg + d := by
  obtain ⟨v0, hv⟩ := h.psig
  exact bump_val st sg d v0 hv h.lt

theorem alloc_tame (st : St) : Tame st st.alloc.2 := ⟨rfl, rfl, rfl, rfl, rfl, rfl, rfl, fun _ => rfl⟩

/-- **the re-run of an effect inside a leafy tree keeps the register balanced** -/
theorem rerunIn_count (sg e : Nat) (w : Int) : ∀ (t : RState) (st : St), t.leafy = true →
    hooksAre (some sg) t → SigAt sg st →
    Tame st (rerunIn e w t st).2.1 ∧ (rerunIn e w t st).1.leafy = true ∧
      hooksAre (some sg) (rerunIn e w t st).1 ∧
      envOf (rerunIn e w t st).2.1.rs sg - errCount sg (rerunIn e w t st).1 = envOf st.rs sg - errCount sg t := by
  intro t
  induction t with
  | text n s => intro st _ _ _; exact ⟨Tame.refl st, rfl, trivial, rfl⟩
  | unit n => intro st _ _ _; exact ⟨Tame.refl st, rfl, trivial, rfl⟩
  | elem n tag as kid ih =>
    intro st hl hh hs
    have := ih st hl hh hs
    simp only [rerunIn, RState.leafy, hooksAre, errCount]
    exact this
  | seq a b iha ihb =>
    intro st hl hh hs
    simp only [RState.leafy, Bool.and_eq_true] at hl
    have ha := iha st hl.1 hh.1 hs
    simp only [rerunIn]
    generalize rerunIn e w a st = ra at ha
    obtain ⟨a', s1, da⟩ := ra
    simp only at ha ⊢
    have hb := ihb s1 hl.2 hh.2 (hs.tame ha.1)
    generalize rerunIn e w b s1 = rb at hb
    obtain ⟨b', s2, db⟩ := rb
    simp only at hb ⊢
    simp only [RState.leafy, hooksAre, errCount, ha.2.1, hb.2.1, Bool.and_self]
    refine ⟨ha.1.trans hb.1, trivial, ⟨ha.2.2.1, hb.2.2.1⟩, ?_⟩
    have h1 := ha.2.2.2; have h2 := hb.2.2.2
    omega
  | dynText e' x n last =>
    intro st _ _ _
    simp only [rerunIn]
    split <;> exact ⟨Tame.refl st, rfl, trivial, rfl⟩
  | res e' c x n last hook =>
    intro st _ hh hs
    have hhk : hook = some sg := hh
    subst hhk
    simp only [rerunIn]
    by_cases he : e' = e
    · rw [if_pos he]
      cases last with
      | none =>
        cases hd : decodeRes w with
        | none =>
          refine ⟨bump_tame hs 0, rfl, rfl, ?_⟩
          simp only [bumpTo, errCount, bump_env hs]
          omega
        | some u =>
          have hs' : SigAt sg st.alloc.2 := hs.tame (alloc_tame st)
          refine ⟨(alloc_tame st).trans (bump_tame hs' (-1)), rfl, rfl, ?_⟩
          simp only [bumpTo, errCount, bump_env hs', Option.isNone_none, Option.isNone_some, beq_self_eq_true,
            Bool.and_self, Bool.false_and, if_true, Bool.false_eq_true, if_false]
          show envOf st.rs sg + -1 - 0 = envOf st.rs sg - 1
          omega
      | some l =>
        cases hd : decodeRes w with
        | none =>
          have hs' : SigAt sg st.alloc.2 := hs.tame (alloc_tame st)
          refine ⟨(alloc_tame st).trans (bump_tame hs' 1), rfl, rfl, ?_⟩
          simp only [bumpTo, errCount, bump_env hs', Option.isNone_none, Option.isNone_some, beq_self_eq_true,
            Bool.and_self, Bool.false_and, if_true, Bool.false_eq_true, if_false]
          show envOf st.rs sg + 1 - 1 = envOf st.rs sg - 0
          omega
        | some u =>
          exact ⟨Tame.refl st, rfl, rfl, by simp only [errCount, Option.isNone_some, Bool.false_and]⟩
    · rw [if_neg he]
      exact ⟨Tame.refl st, rfl, rfl, rfl⟩
  | either e' c a b left inner _ => intro st hl; simp [RState.leafy] at hl
  | «show» e' m c a b left inner _ => intro st hl; simp [RState.leafy] at hl
  | forK e' sel lists ks texts => intro st hl; simp [RState.leafy] at hl
  | scope m sid isSig inner _ => intro st hl; simp [RState.leafy] at hl
  | rows e' en sel lists row ks items _ => intro st hl; simp [RState.leafy] at hl
  | rowCons k ix r rest _ _ => intro st hl; simp [RState.leafy] at hl
  | rowNil => intro st hl; simp [RState.leafy] at hl
  | errb e' m s fb kid _ => intro st hl; simp [RState.leafy] at hl
  | hooked hk inner _ => intro st hl; simp [RState.leafy] at hl
  | errTok s => intro st hl; simp [RState.leafy] at hl

/-! ## the invariant of a mounted boundary -/

structure CountE (sg : Nat) (st : St) : Prop where
  sig : SigAt sg st
  zomb : st.zombies = []
  tree : ∃ e m fb k, st.root = some (.errb e m sg fb k) ∧ k.leafy = true ∧ hooksAre (some sg) k ∧
    envOf st.rs sg = errCount sg k
  kinds : ∀ (i : Nat) (d : NodeDef), st.prog[i]? = some d → (st.rs.get i).kind = kindOf d
  nw : ∀ (i : Nat) (x : Expr), st.prog[i]? = some (NodeDef.eff x) → x.noWrite = true
  teff : ∀ e ∈ st.tasks, ∃ x : Expr, st.prog[e]? = some (NodeDef.eff x)
  /-- the boundary's memo `errors_empty` over the register -/
  pmemo : st.prog[sg + 1]? = some (NodeDef.memo (.ite (.rd true sg) (.lit 0) (.lit 1)))

/-- a reactive step that writes no signal -/
theorem CountE.of_sg {sg : Nat} {st : St} (h : CountE sg st) {rs' : State} (hs : SG st.rs rs') :
    CountE sg { st with rs := rs' } := by
  obtain ⟨e, m, fb, k, hr, hl, hh, hc⟩ := h.tree
  refine ⟨⟨h.sig.psig, by show sg < rs'.nodes.length; rw [hs.len]; exact h.sig.lt,
    by show (rs'.get sg).kind = .sig; rw [hs.kind]; exact h.sig.ksig⟩, h.zomb,
    ⟨e, m, fb, k, hr, hl, hh, ?_⟩, fun i d hd => by show (rs'.get i).kind = _; rw [hs.kind]; exact h.kinds i d hd,
    h.nw, h.teff, h.pmemo⟩
  show envOf rs' sg = _
  simp only [envOf, hs.sig sg h.sig.ksig]
  exact hc

theorem wrapFrom_nil (n : Nat) (h : Option Nat) : wrapFrom n h [] = [] := by simp [wrapFrom]

/-- the state after the root pass and the (empty) zombie pass of a re-run -/
def finE (s1 : St) (t : RState) (d : Nat) : St :=
  { s1 with root := some t, rootN := ⟨s1.rootN.id, s1.rootN.muts + d⟩, zombies := [] }

/-- **the DOM phase of a re-run keeps the register balanced** -/
theorem rerun_count {sg : Nat} {st : St} (h : CountE sg st) (e : Nat) (w : Int) :
    CountE sg (rerun st e w) ∧ (rerun st e w).prog = st.prog := by
  obtain ⟨e', m, fb, k, hr, hl, hh, hc⟩ := h.tree
  rw [rerun_some st e w _ hr]
  have key : ∃ (fb' : Option N) (k' : RState) (s1 : St) (d : Nat),
      rerunIn e w (.errb e' m sg fb k) { st with root := none } = (.errb e' m sg fb' k', s1, d) ∧
      Tame { st with root := none } s1 ∧ k'.leafy = true ∧ hooksAre (some sg) k' ∧
      envOf s1.rs sg = errCount sg k' := by
    simp only [rerunIn]
    by_cases he : e' = e
    · rw [if_pos he]
      cases fb with
      | some n =>
        by_cases hv : (w != 0) = true
        · simp only [hv, if_true]
          exact ⟨none, k, _, _, rfl, Tame.refl _, hl, hh, hc⟩
        · simp only [hv, if_false]
          exact ⟨some n, k, _, _, rfl, Tame.refl _, hl, hh, hc⟩
      | none =>
        by_cases hv : (w != 0) = true
        · simp only [hv, if_true]
          exact ⟨none, k, _, _, rfl, Tame.refl _, hl, hh, hc⟩
        · simp only [hv, if_false]
          exact ⟨_, k, _, _, rfl, alloc_tame _, hl, hh, hc⟩
    · rw [if_neg he]
      have hs0 : SigAt sg ({ ({ st with root := none } : St) with hook := some sg }) :=
        ⟨h.sig.psig, h.sig.lt, h.sig.ksig⟩
      have hk := rerunIn_count sg e w k ({ ({ st with root := none } : St) with hook := some sg }) hl hh hs0
      simp only [underHook]
      generalize rerunIn e w k ({ ({ st with root := none } : St) with hook := some sg }) = r at hk
      obtain ⟨k', s1, d⟩ := r
      simp only at hk ⊢
      have hz1 : s1.zombies = [] := by rw [hk.1.zombies]; exact h.zomb
      refine ⟨fb, k', _, _, rfl, ?_, hk.2.1, hk.2.2.1, ?_⟩
      · exact ⟨hk.1.prog, by show wrapFrom _ _ s1.zombies = _; rw [hz1, wrapFrom_nil]; exact h.zomb.symm,
          hk.1.tasks, hk.1.root, hk.1.rootN, hk.1.disposed, hk.1.len, hk.1.kind⟩
      · have := hk.2.2.2
        show envOf s1.rs sg = errCount sg k'
        have hc' : envOf st.rs sg = errCount sg k := hc
        have e1 : envOf ({ ({ st with root := none } : St) with hook := some sg }).rs sg = envOf st.rs sg := rfl
        omega
  obtain ⟨fb', k', s1, d, hrr, ht, hl', hh', hc'⟩ := key
  have hz1 : s1.zombies = [] := by rw [ht.zombies]; exact h.zomb
  have hfin : zpass (afterRoot st e w (.errb e' m sg fb k)) e w = finE s1 (.errb e' m sg fb' k') d := by
    unfold zpass afterRoot finE
    rw [hrr]
    simp only [hz1, rerunZombies, List.append_nil]
  rw [hfin]
  refine ⟨⟨⟨by show ∃ v0, s1.prog[sg]? = _; rw [ht.prog]; exact h.sig.psig,
      by show sg < s1.rs.nodes.length; rw [ht.len]; exact h.sig.lt,
      by show (s1.rs.get sg).kind = .sig; rw [ht.kind]; exact h.sig.ksig⟩, rfl,
    ⟨e', m, fb', k', rfl, hl', hh', hc'⟩, ?_, ?_, ?_, by show s1.prog[sg + 1]? = _; rw [ht.prog]; exact h.pmemo⟩,
    ht.prog⟩
  · intro i d' hd
    show (s1.rs.get i).kind = _
    rw [ht.kind]
    exact h.kinds i d' (by rw [← ht.prog]; exact hd)
  · intro i x hx
    exact h.nw i x (by rw [← ht.prog]; exact hx)
  · intro y hy
    have hy' : y ∈ s1.tasks := hy
    rw [ht.tasks] at hy'
    obtain ⟨x, hx⟩ := h.teff y hy'
    exact ⟨x, by show s1.prog[y]? = _; rw [ht.prog]; exact hx⟩

/-! ## polls and writes -/

theorem bodyOf_effC {p : Prog} {e : Nat} {x : Expr} (h : p[e]? = some (NodeDef.eff x)) : bodyOf p e = x := by
  simp only [bodyOf, h]

theorem effLoop_count {sg : Nat} : ∀ (k : Nat) (st : St) (e : Nat), CountE sg st →
    (∃ x : Expr, st.prog[e]? = some (NodeDef.eff x)) → CountE sg (effLoop k st e)
  | 0, st, _, h, _ => h
  | k + 1, st, e, h, he => by
    obtain ⟨x, hx⟩ := he
    simp only [effLoop]
    split
    · exact h
    · have g1 : SG st.rs (st.rs.upd e fun n => { n with chan := false }) :=
        SG.upd_val _ _ _ (fun _ => rfl) (fun _ => rfl)
      generalize (st.rs.upd e fun n => { n with chan := false }) = rs1 at g1
      have g2 := effUpdate_sg st.prog st.fuel { rs1 with obs := some e } e
      generalize effUpdate st.prog st.fuel { rs1 with obs := some e } e = r at g2
      obtain ⟨rs2, need⟩ := r
      simp only at g2 ⊢
      have g3 : SG st.rs { rs2 with obs := rs1.obs } :=
        ((g1.trans (SG.setObs rs1 _)).trans g2).trans (SG.setObs rs2 _)
      split
      · -- the effect runs
        have hk : (({ rs2 with obs := rs1.obs } : State).get e).kind ≠ .sig := by
          rw [g3.kind e, h.kinds e _ hx]; simp [kindOf]
        have g4 := runEffBody_sg st.prog st.fuel { rs2 with obs := rs1.obs } e
          (by rw [bodyOf_effC hx]; exact h.nw e x hx) hk
        have h4 := h.of_sg (g3.trans g4)
        have hr := rerun_count h4 e
          (((runEffBody st.prog st.fuel { rs2 with obs := rs1.obs } e).get e).val.getD 0)
        exact effLoop_count k _ e hr.1 ⟨x, by rw [hr.2]; exact hx⟩
      · exact effLoop_count k _ e (h.of_sg g3) ⟨x, hx⟩

theorem pollTask_count {sg : Nat} {st : St} (h : CountE sg st) {e : Nat}
    (he : ∃ x : Expr, st.prog[e]? = some (NodeDef.eff x)) : CountE sg (pollTask st e) := by
  unfold pollTask
  have g1 : SG st.rs (st.rs.upd e fun n => { n with woken := false }) :=
    SG.upd_val _ _ _ (fun _ => rfl) (fun _ => rfl)
  generalize (st.rs.upd e fun n => { n with woken := false }) = rs1 at g1
  simp only
  split
  · -- the task ends; nothing is held for it
    have g2 : SG st.rs (rs1.upd e fun n => { n with done := true }) :=
      g1.trans (SG.upd_val _ _ _ (fun _ => rfl) (fun _ => rfl))
    have h2 := h.of_sg g2
    unfold releaseZombie
    have hz : st.zombies = [] := h.zomb
    simp only [hz, List.filter_nil, List.foldl_nil]
    exact ⟨⟨h2.sig.psig, h2.sig.lt, h2.sig.ksig⟩, rfl, h2.tree, h2.kinds, h2.nw, h2.teff, h2.pmemo⟩
  · exact effLoop_count 64 _ e (h.of_sg g1) he

theorem pollNth_count {sg : Nat} {st : St} (h : CountE sg st) (i : Nat) : CountE sg (pollNth st i) := by
  unfold pollNth
  simp only
  split
  · exact h
  · next hne =>
    have hm : (ready st).getD (i % (ready st).length) 0 ∈ ready st :=
      getD_mem_of_ne_nil (by simpa using hne) i
    have ht : (ready st).getD (i % (ready st).length) 0 ∈ st.tasks := (List.mem_filter.1 hm).1
    exact pollTask_count h (h.teff _ ht)

theorem runIdle_count {sg : Nat} : ∀ (k : Nat) (st : St), CountE sg st → CountE sg (runIdle k st)
  | 0, _, h => h
  | k + 1, st, h => by
    simp only [runIdle]
    split
    · exact h
    · exact runIdle_count k _ (pollNth_count h 0)

/-- a write to any other signal -/
theorem setSig_count {sg : Nat} {st : St} (h : CountE sg st) (id : Nat) (v : Int) (hne : id ≠ sg) :
    CountE sg (setSig st id v) := by
  unfold setSig
  simp only [Reactive.step]
  cases hp : st.prog[id]? with
  | none => exact h
  | some d =>
    cases d with
    | memo b => exact h
    | eff b => exact h
    | sig v0 =>
      simp only
      have hk : (st.rs.get id).kind ≠ .eff := by rw [h.kinds id _ hp]; simp [kindOf]
      have hsk := setSignal_sk (X := fun _ => False) (fuelFor st.prog) st.rs id v hk
      obtain ⟨e, m, fb, k, hr, hl, hh, hc⟩ := h.tree
      refine ⟨⟨h.sig.psig, by show sg < (setSignal _ _ _ _).nodes.length; rw [hsk.len]; exact h.sig.lt,
        by show ((setSignal _ _ _ _).get sg).kind = .sig; rw [hsk.kind]; exact h.sig.ksig⟩, h.zomb,
        ⟨e, m, fb, k, hr, hl, hh, ?_⟩,
        fun i d hd => by show ((setSignal _ _ _ _).get i).kind = _; rw [hsk.kind]; exact h.kinds i d hd,
        h.nw, h.teff, h.pmemo⟩
      show envOf (setSignal _ _ _ _) sg = _
      simp only [envOf, setSignal_val_ne _ _ _ _ _ (Ne.symm hne)]
      exact hc

end Leptos.RView
