import LeptosModel.Proofs.ViewCells
/-! # Proofs/ViewStyle — the style-declaration string round trip (`CssStyleDeclaration::update` then
`declarations`) and what `setProperty` / `removeProperty` do to the declaration map -/
namespace Leptos.View
open Leptos.Dom

/-! ## characters -/

theorem toLower_of_not_upper (c : Char) (h : ¬ (c.val ≥ 65 ∧ c.val ≤ 90)) : c.toLower = c := by
  simp [Char.toLower, h]

theorem upper_toNat (c : Char) (h : c.val ≥ 65 ∧ c.val ≤ 90) : 65 ≤ c.toNat ∧ c.toNat ≤ 90 := by
  obtain ⟨h1, h2⟩ := h
  have a : (65 : UInt32).toNat ≤ c.val.toNat := UInt32.le_iff_toNat_le.mp h1
  have b : c.val.toNat ≤ (90 : UInt32).toNat := UInt32.le_iff_toNat_le.mp h2
  rw [Char.toNat_val] at a b
  exact ⟨a, b⟩

theorem toLower_upper_toNat (c : Char) (h : c.val ≥ 65 ∧ c.val ≤ 90) :
    c.toLower.toNat = c.toNat + 32 := by
  have hb := upper_toNat c h
  have h' : c.val ≥ 'A'.val ∧ c.val ≤ 'Z'.val := h
  unfold Char.toLower
  rw [dif_pos h']
  show (c.val + ('a'.val - 'A'.val)).toNat = c.toNat + 32
  have : ('a'.val - 'A'.val : UInt32) = 32 := by decide
  rw [this, UInt32.toNat_add, Char.toNat_val]
  have : (32 : UInt32).toNat = 32 := by decide
  rw [this]
  omega

theorem isWs_toLower (c : Char) : isWs c.toLower = isWs c := by
  by_cases h : c.val ≥ 65 ∧ c.val ≤ 90
  · have h1 := upper_toNat c h
    have h2 := toLower_upper_toNat c h
    have e1 : isWs c = false := by simp only [isWs]; simp; omega
    have e2 : isWs c.toLower = false := by simp only [isWs]; rw [h2]; simp; omega
    rw [e1, e2]
  · rw [toLower_of_not_upper c h]

/-- `to_ascii_lowercase` only produces a character below `a` when it leaves it alone -/
theorem toLower_eq_small (c x : Char) (hx : x.toNat < 97) (h : c.toLower = x) : c = x := by
  by_cases hu : c.val ≥ 65 ∧ c.val ≤ 90
  · have := toLower_upper_toNat c hu
    rw [h] at this; have := upper_toNat c hu; omega
  · rw [toLower_of_not_upper c hu] at h; exact h

theorem toLower_idem (c : Char) : c.toLower.toLower = c.toLower := by
  by_cases hu : c.val ≥ 65 ∧ c.val ≤ 90
  · have h1 := toLower_upper_toNat c hu
    have h2 := upper_toNat c hu
    apply toLower_of_not_upper
    rintro ⟨a, b⟩
    have b' : c.toLower.val.toNat ≤ (90 : UInt32).toNat := UInt32.le_iff_toNat_le.mp b
    rw [Char.toNat_val] at b'
    have : (90 : UInt32).toNat = 90 := by decide
    omega
  · rw [toLower_of_not_upper c hu, toLower_of_not_upper c hu]


/-! ## trimming -/

theorem dropWhile_idem {α : Type} (p : α → Bool) : ∀ (l : List α),
    (l.dropWhile p).dropWhile p = l.dropWhile p
  | [] => rfl
  | a :: l => by
    by_cases h : p a = true
    · rw [List.dropWhile_cons_of_pos h]; exact dropWhile_idem p l
    · rw [List.dropWhile_cons_of_neg h, List.dropWhile_cons_of_neg h]

/-- `l` has no leading element satisfying `p` -/
def NoLead {α : Type} (p : α → Bool) : List α → Prop
  | [] => True
  | a :: _ => p a = false

theorem noLead_dropWhile {α : Type} (p : α → Bool) : ∀ (l : List α), NoLead p (l.dropWhile p)
  | [] => trivial
  | a :: l => by
    by_cases h : p a = true
    · rw [List.dropWhile_cons_of_pos h]; exact noLead_dropWhile p l
    · rw [List.dropWhile_cons_of_neg h]; simpa [NoLead] using h

theorem dropWhile_of_noLead {α : Type} (p : α → Bool) : ∀ (l : List α), NoLead p l → l.dropWhile p = l
  | [], _ => rfl
  | a :: l, h => by
    simp only [NoLead] at h
    exact List.dropWhile_cons_of_neg (by simp [h])

theorem noLead_prefix {α : Type} (p : α → Bool) : ∀ (q m : List α), NoLead p (q ++ m) → q ≠ [] → NoLead p q
  | [], _, _, h => absurd rfl h
  | a :: q, m, h, _ => by simpa [NoLead] using h

theorem trimL_idem (l : List Char) : trimL (trimL l) = trimL l := by
  simp only [trimL]
  generalize hm : l.dropWhile isWs = m
  have hmn : NoLead isWs m := hm ▸ noLead_dropWhile isWs l
  -- q := trimL l is a prefix of m
  have hsplit : (List.takeWhile isWs m.reverse ++ List.dropWhile isWs m.reverse).reverse = m := by
    rw [List.takeWhile_append_dropWhile]; simp
  have hq : (List.dropWhile isWs m.reverse).reverse ++ (List.takeWhile isWs m.reverse).reverse = m := by
    rw [← List.reverse_append]; exact hsplit
  have hqn : NoLead isWs (List.dropWhile isWs m.reverse).reverse := by
    by_cases he : (List.dropWhile isWs m.reverse).reverse = []
    · rw [he]; trivial
    · exact noLead_prefix isWs _ _ (by rw [hq]; exact hmn) he
  rw [dropWhile_of_noLead isWs _ hqn]
  simp [dropWhile_idem]

theorem trimL_sub (l : List Char) (c : Char) (h : c ∈ trimL l) : c ∈ l := by
  simp only [trimL, List.mem_reverse] at h
  have h1 := (List.dropWhile_sublist isWs (l := (List.dropWhile isWs l).reverse)).subset h
  simp only [List.mem_reverse] at h1
  exact (List.dropWhile_sublist isWs (l := l)).subset h1

theorem trimL_cons_ws (c : Char) (l : List Char) (h : isWs c = true) : trimL (c :: l) = trimL l := by
  simp only [trimL, List.dropWhile_cons_of_pos h]

theorem trimL_map_toLower (l : List Char) : trimL (l.map Char.toLower) = (trimL l).map Char.toLower := by
  have hcomp : (isWs ∘ Char.toLower) = isWs := by funext c; simp [isWs_toLower]
  simp only [trimL, List.dropWhile_map, hcomp, ← List.map_reverse]

/-! ## property names -/

def startsDD : List Char → Bool
  | '-' :: '-' :: _ => true
  | _ => false

theorem normName_eq (l : List Char) : normName l = if startsDD l then l else l.map Char.toLower := by
  unfold normName startsDD
  split <;> simp_all

theorem startsDD_map (l : List Char) : startsDD (l.map Char.toLower) = startsDD l := by
  have hdash : ('-' : Char).toNat < 97 := by decide
  have hlow : ('-' : Char).toLower = '-' := by decide
  match l with
  | [] => rfl
  | [c] => simp [startsDD]
  | c1 :: c2 :: r =>
    by_cases h : c1 = '-' ∧ c2 = '-'
    · obtain ⟨rfl, rfl⟩ := h; simp [startsDD, hlow]
    · have h2 : ¬ (c1.toLower = '-' ∧ c2.toLower = '-') := by
        rintro ⟨a, b⟩
        exact h ⟨toLower_eq_small c1 '-' hdash a, toLower_eq_small c2 '-' hdash b⟩
      have e1 : startsDD (c1 :: c2 :: r) = false := by
        unfold startsDD; split
        · rename_i heq; simp at heq; exact absurd ⟨heq.1, heq.2.1⟩ h
        · rfl
      have e2 : startsDD (List.map Char.toLower (c1 :: c2 :: r)) = false := by
        simp only [List.map_cons]
        unfold startsDD; split
        · rename_i heq; simp at heq; exact absurd ⟨heq.1, heq.2.1⟩ h2
        · rfl
      rw [e1, e2]

theorem normName_map_idem (y : List Char) : normName (normName y) = normName y := by
  rw [normName_eq y]
  by_cases h : startsDD y = true
  · simp [h, normName_eq]
  · simp only [h, Bool.false_eq_true, if_false]
    rw [normName_eq, startsDD_map]
    simp [h, List.map_map, toLower_idem]

/-- names as `normalize_name(name.trim())` produces them are fixed by it -/
theorem normTrim_idem (n : List Char) : normName (trimL (normName (trimL n))) = normName (trimL n) := by
  generalize hy : trimL n = y
  have hty : trimL y = y := by rw [← hy, trimL_idem]
  have key : trimL (normName y) = normName y := by
    rw [normName_eq]
    split
    · exact hty
    · rw [trimL_map_toLower, hty]
  rw [key, normName_map_idem]


/-! ## splitting -/

theorem splitChar_word (sep : Char) : ∀ (w rest cur : List Char), sep ∉ w →
    splitChar sep (w ++ rest) cur = splitChar sep rest (w.reverse ++ cur)
  | [], rest, cur, _ => by simp
  | c :: w, rest, cur, h => by
    have hc : ¬ c = sep := fun e => h (by simp [e])
    simp only [List.cons_append, splitChar, hc, if_false]
    rw [splitChar_word sep w rest (c :: cur) (fun hm => h (by simp [hm]))]
    simp

theorem splitChar_piece (sep : Char) (w rest : List Char) (h : sep ∉ w) :
    splitChar sep (w ++ sep :: rest) [] = w :: splitChar sep rest [] := by
  rw [splitChar_word sep w _ [] h]
  simp [splitChar]

theorem splitOnce_word (sep : Char) : ∀ (w rest cur : List Char), sep ∉ w →
    splitOnce sep (w ++ sep :: rest) cur = some (cur.reverse ++ w, rest)
  | [], rest, cur, _ => by simp [splitOnce]
  | c :: w, rest, cur, h => by
    have hc : ¬ c = sep := fun e => h (by simp [e])
    simp only [List.cons_append, splitOnce, hc, if_false]
    rw [splitOnce_word sep w rest (c :: cur) (fun hm => h (by simp [hm]))]
    simp

theorem splitOnce_none (sep : Char) : ∀ (w cur : List Char), sep ∉ w → splitOnce sep w cur = none
  | [], _, _ => rfl
  | c :: w, cur, h => by
    have hc : ¬ c = sep := fun e => h (by simp [e])
    simp only [splitOnce, hc, if_false]
    exact splitOnce_none sep w (c :: cur) (fun hm => h (by simp [hm]))

/-- pieces of `split(sep)` do not contain `sep` -/
theorem splitChar_no_sep (sep : Char) : ∀ (l cur : List Char), sep ∉ cur →
    ∀ w ∈ splitChar sep l cur, sep ∉ w
  | [], cur, hc, w, hw => by
    simp only [splitChar, List.mem_singleton] at hw; subst hw; simpa using hc
  | c :: l, cur, hc, w, hw => by
    simp only [splitChar] at hw
    by_cases h : c = sep
    · simp only [h, if_true, List.mem_cons] at hw
      rcases hw with hw | hw
      · subst hw; simpa using hc
      · exact splitChar_no_sep sep l [] (by simp) w hw
    · simp only [h, if_false] at hw
      exact splitChar_no_sep sep l (c :: cur) (by simp [hc, Ne.symm h]) w hw

/-- the two halves of `split_once(sep)`, put together again -/
theorem splitOnce_some (sep : Char) : ∀ (l cur n v : List Char), splitOnce sep l cur = some (n, v) →
    cur.reverse ++ l = n ++ sep :: v ∧ (sep ∉ cur → sep ∉ n)
  | [], _, _, _, h => by simp [splitOnce] at h
  | c :: l, cur, n, v, h => by
    simp only [splitOnce] at h
    by_cases hc : c = sep
    · simp only [hc, if_true, Option.some.injEq, Prod.mk.injEq] at h
      obtain ⟨rfl, rfl⟩ := h
      exact ⟨by simp [hc], fun hn => by simpa using hn⟩
    · simp only [hc, if_false] at h
      obtain ⟨h1, h2⟩ := splitOnce_some sep l (c :: cur) n v h
      refine ⟨by simpa using h1, fun hn => h2 (by simp [hn, Ne.symm hc])⟩


/-! ## declarations: print, then parse -/

/-- the body of the fold in `CssStyleDeclaration::declarations` -/
def declStep (out : List (String × String)) (decl : List Char) : List (String × String) :=
  match splitOnce ':' decl [] with
  | none => out
  | some (n, v) =>
    let n := normName (trimL n)
    let v := trimL v
    if n.isEmpty || v.isEmpty then out else setD out (String.ofList n) (String.ofList v)

theorem styleDecls_eq (s : String) :
    styleDecls s = (splitChar ';' s.toList []).foldl declStep [] := rfl

/-- a property name / value that survives printing and parsing -/
def PK (k : String) : Prop :=
  k.toList ≠ [] ∧ ';' ∉ k.toList ∧ ':' ∉ k.toList ∧ normName (trimL k.toList) = k.toList
def PV (v : String) : Prop := v.toList ≠ [] ∧ ';' ∉ v.toList ∧ trimL v.toList = v.toList

def leadC (sp : Bool) : List Char := if sp then [' '] else []

def bodyC (kv : String × String) : List Char := kv.1.toList ++ ':' :: ' ' :: kv.2.toList
def pieceC (kv : String × String) : List Char := bodyC kv ++ [';']

theorem declStep_body (out : List (String × String)) (sp : Bool) (kv : String × String)
    (hk : PK kv.1) (hv : PV kv.2) : declStep out (leadC sp ++ bodyC kv) = setD out kv.1 kv.2 := by
  obtain ⟨k1, k2, k3, k4⟩ := hk
  obtain ⟨v1, v2, v3⟩ := hv
  have hsp : isWs ' ' = true := by decide
  have hlead : ':' ∉ leadC sp ++ kv.1.toList := by
    cases sp <;> simp [leadC, k3]
  have hso : splitOnce ':' (leadC sp ++ bodyC kv) [] = some (leadC sp ++ kv.1.toList, ' ' :: kv.2.toList) := by
    have := splitOnce_word ':' (leadC sp ++ kv.1.toList) (' ' :: kv.2.toList) [] hlead
    simpa [bodyC, List.append_assoc] using this
  have htn : trimL (leadC sp ++ kv.1.toList) = trimL kv.1.toList := by
    cases sp
    · simp [leadC]
    · simp only [leadC, if_true, List.singleton_append]; exact trimL_cons_ws ' ' _ hsp
  have htv : trimL (' ' :: kv.2.toList) = kv.2.toList := by rw [trimL_cons_ws ' ' _ hsp, v3]
  simp only [declStep, hso, htn, k4, htv]
  have e1 : kv.1.toList.isEmpty = false := by cases h : kv.1.toList <;> simp_all
  have e2 : kv.2.toList.isEmpty = false := by cases h : kv.2.toList <;> simp_all
  simp [e1, e2]

theorem declStep_lead (out : List (String × String)) (sp : Bool) : declStep out (leadC sp) = out := by
  cases sp <;> simp [declStep, leadC, splitOnce]

theorem bodyC_no_semi (kv : String × String) (hk : PK kv.1) (hv : PV kv.2) : ';' ∉ bodyC kv := by
  simp [bodyC, hk.2.1, hv.2.1]

theorem roundtrip_fold : ∀ (decls : List (String × String)) (sp : Bool) (out : List (String × String)),
    (∀ kv ∈ decls, PK kv.1 ∧ PV kv.2) →
    (splitChar ';' (leadC sp ++ joinC (decls.map pieceC)) []).foldl declStep out =
      decls.foldl (fun o kv => setD o kv.1 kv.2) out
  | [], sp, out, _ => by
    have : splitChar ';' (leadC sp) [] = [leadC sp] := by cases sp <;> simp [leadC, splitChar]
    simp [joinC, this, declStep_lead]
  | [kv], sp, out, hp => by
    obtain ⟨hk, hv⟩ := hp kv (by simp)
    have hns : ';' ∉ leadC sp ++ bodyC kv := by
      have := bodyC_no_semi kv hk hv
      cases sp <;> simp [leadC, this]
    have := splitChar_piece ';' (leadC sp ++ bodyC kv) [] hns
    simp only [List.map_cons, List.map_nil, joinC, pieceC]
    rw [show leadC sp ++ (bodyC kv ++ [';']) = (leadC sp ++ bodyC kv) ++ ';' :: [] by simp, this]
    have hnil : declStep (setD out kv.1 kv.2) [] = setD out kv.1 kv.2 := by simp [declStep, splitOnce]
    simp only [splitChar, List.reverse_nil, List.foldl_cons, List.foldl_nil,
      declStep_body out sp kv hk hv, hnil]
  | kv :: kv' :: rest, sp, out, hp => by
    obtain ⟨hk, hv⟩ := hp kv (by simp)
    have hns : ';' ∉ leadC sp ++ bodyC kv := by
      have := bodyC_no_semi kv hk hv
      cases sp <;> simp [leadC, this]
    have ih := roundtrip_fold (kv' :: rest) true (setD out kv.1 kv.2) (fun x hx => hp x (by simp [hx]))
    simp only [List.map_cons, joinC, pieceC] at ih ⊢
    rw [show leadC sp ++ (bodyC kv ++ [';'] ++ ' ' :: joinC ((bodyC kv' ++ [';']) :: List.map pieceC rest))
        = (leadC sp ++ bodyC kv) ++ ';' :: (leadC true ++ joinC ((bodyC kv' ++ [';']) :: List.map pieceC rest)) by
      simp [leadC]]
    rw [splitChar_piece ';' _ _ hns]
    simp only [List.foldl_cons, declStep_body out sp kv hk hv]
    exact ih


theorem toList_piece (kv : String × String) :
    (kv.1 ++ ": " ++ kv.2 ++ ";").toList = pieceC kv := by
  have h1 : (": " : String).toList = [':', ' '] := by decide
  have h2 : (";" : String).toList = [';'] := by decide
  simp [pieceC, bodyC, String.toList_append, h1, h2]

theorem toList_styleText (decls : List (String × String)) :
    (styleText decls).toList = joinC (decls.map pieceC) := by
  have h1 : (" " : String).toList = [' '] := by decide
  simp only [styleText, String.toList_intercalate, h1, intercalate_eq_joinC, List.map_map]
  congr 1
  apply List.map_congr_left
  intro kv _
  simpa using toList_piece kv

def keysOf (l : List (String × String)) : List String := l.map (·.1)

theorem keysOf_setA : ∀ (l : List (String × String)) (n v : String),
    keysOf (setA l n v) = if n ∈ keysOf l then keysOf l else keysOf l ++ [n]
  | [], n, v => by simp [setA, keysOf]
  | (k, w) :: rest, n, v => by
    by_cases hk : k = n
    · subst hk; simp [setA, keysOf]
    · have ih := keysOf_setA rest n v
      simp only [keysOf] at ih ⊢
      simp only [setA, hk, if_false, List.map_cons, ih, List.mem_cons]
      by_cases hm : n ∈ List.map (·.1) rest
      · simp [hm]
      · have : ¬ n = k := fun e => hk e.symm
        simp [hm, this]

theorem mem_setA : ∀ (l : List (String × String)) (n v : String) (kv : String × String),
    kv ∈ setA l n v → kv ∈ l ∨ kv = (n, v)
  | [], n, v, kv, h => by simp [setA] at h; exact Or.inr h
  | (k, w) :: rest, n, v, kv, h => by
    by_cases hk : k = n
    · subst hk
      simp [setA] at h
      rcases h with h | h
      · exact Or.inr h
      · exact Or.inl (by simp [h])
    · simp [setA, hk] at h
      rcases h with h | h
      · exact Or.inl (by simp [h])
      · rcases mem_setA rest n v kv h with h' | h'
        · exact Or.inl (by simp [h'])
        · exact Or.inr h'

theorem setA_append_new (l : List (String × String)) (n v : String) (h : n ∉ keysOf l) :
    setA l n v = l ++ [(n, v)] := by
  apply setA_new
  induction l with
  | nil => rfl
  | cons kw rest ih =>
    obtain ⟨k, w⟩ := kw
    simp [keysOf] at h
    have hk : ¬ k = n := fun e => h.1 e.symm
    simp only [getA, hk, if_false]
    exact ih (by simpa [keysOf] using h.2)

theorem foldl_setD_nodup : ∀ (decls out : List (String × String)),
    (keysOf (out ++ decls)).Nodup →
    decls.foldl (fun o kv => setD o kv.1 kv.2) out = out ++ decls
  | [], out, _ => by simp
  | kv :: rest, out, h => by
    have hn : kv.1 ∉ keysOf out := by
      simp only [keysOf, List.map_append, List.map_cons] at h
      rw [List.nodup_append] at h
      intro hm; exact h.2.2 kv.1 (by simpa [keysOf] using hm) kv.1 (by simp) rfl
    have ih := foldl_setD_nodup rest (out ++ [(kv.1, kv.2)]) (by simpa using h)
    simp only [List.foldl_cons]
    rw [show setD out kv.1 kv.2 = out ++ [(kv.1, kv.2)] from setA_append_new out kv.1 kv.2 hn, ih]
    simp

/-- printing a canonical declaration list and parsing it gives the list back -/
theorem styleDecls_styleText (decls : List (String × String))
    (hp : ∀ kv ∈ decls, PK kv.1 ∧ PV kv.2) (hnd : (keysOf decls).Nodup) :
    styleDecls (styleText decls) = decls := by
  rw [styleDecls_eq, toList_styleText]
  have := roundtrip_fold decls false [] hp
  simp only [leadC, Bool.false_eq_true, if_false, List.nil_append] at this
  rw [this, foldl_setD_nodup decls [] (by simpa using hnd)]
  simp

/-- the declaration lists the parser produces are canonical: printable entries, every name once -/
def DeclsOk (l : List (String × String)) : Prop :=
  (∀ kv ∈ l, PK kv.1 ∧ PV kv.2) ∧ (keysOf l).Nodup

theorem DeclsOk.setA {l : List (String × String)} (h : DeclsOk l) (n v : String) (hn : PK n) (hv : PV v) :
    DeclsOk (setA l n v) := by
  refine ⟨?_, ?_⟩
  · intro kv hkv
    rcases mem_setA l n v kv hkv with h1 | h1
    · exact h.1 kv h1
    · subst h1; exact ⟨hn, hv⟩
  · rw [keysOf_setA]
    split
    · exact h.2
    · rename_i hm
      rw [List.nodup_append]
      exact ⟨h.2, by simp, fun a ha b hb e => by simp at hb; subst hb; subst e; exact hm ha⟩

theorem mem_delA : ∀ (l : List (String × String)) (n : String) (kv : String × String),
    kv ∈ delA l n → kv ∈ l
  | [], _, _, h => by simp [delA] at h
  | (k, w) :: rest, n, kv, h => by
    by_cases hk : k = n
    · simp [delA, hk] at h; exact List.mem_cons_of_mem _ (mem_delA rest n kv h)
    · simp [delA, hk] at h
      rcases h with h | h
      · simp [h]
      · exact List.mem_cons_of_mem _ (mem_delA rest n kv h)

theorem keysOf_delA_sublist : ∀ (l : List (String × String)) (n : String),
    (keysOf (delA l n)).Sublist (keysOf l)
  | [], _ => by simp [delA, keysOf]
  | (k, w) :: rest, n => by
    by_cases hk : k = n
    · simp only [delA, hk, if_true, keysOf, List.map_cons]
      exact (keysOf_delA_sublist rest n).trans (List.sublist_cons_self _ _)
    · simp only [delA, hk, if_false, keysOf, List.map_cons]
      exact (keysOf_delA_sublist rest n).cons₂ _

theorem DeclsOk.delA {l : List (String × String)} (h : DeclsOk l) (n : String) : DeclsOk (delA l n) :=
  ⟨fun kv hkv => h.1 kv (mem_delA l n kv hkv), (keysOf_delA_sublist l n).nodup h.2⟩

theorem mem_normName (l : List Char) (x : Char) (hx : x.toNat < 97) (h : x ∈ normName l) : x ∈ l := by
  rw [normName_eq] at h
  split at h
  · exact h
  · simp only [List.mem_map] at h
    obtain ⟨c, hc, he⟩ := h
    rw [← toLower_eq_small c x hx he]; exact hc

theorem declStep_ok (out : List (String × String)) (w : List Char) (h : DeclsOk out) (hw : ';' ∉ w) :
    DeclsOk (declStep out w) := by
  unfold declStep
  cases hso : splitOnce ':' w [] with
  | none => exact h
  | some nv =>
    obtain ⟨n, v⟩ := nv
    obtain ⟨hcat, hnc⟩ := splitOnce_some ':' w [] n v hso
    simp only [List.reverse_nil, List.nil_append] at hcat
    have hsn : ';' ∉ n := fun hm => hw (by rw [hcat]; simp [hm])
    have hsv : ';' ∉ v := fun hm => hw (by rw [hcat]; simp [hm])
    have hcn : ':' ∉ n := hnc (by simp)
    simp only
    split
    · exact h
    · rename_i hne
      simp only [Bool.or_eq_true, not_or, Bool.not_eq_true] at hne
      have hsemi : (';' : Char).toNat < 97 := by decide
      have hcol : (':' : Char).toNat < 97 := by decide
      apply h.setA
      · refine ⟨?_, ?_, ?_, ?_⟩
        · simp only [String.toList_ofList]; intro e; simp [e] at hne
        · simp only [String.toList_ofList]
          exact fun hm => hsn (trimL_sub n _ (mem_normName _ _ hsemi hm))
        · simp only [String.toList_ofList]
          exact fun hm => hcn (trimL_sub n _ (mem_normName _ _ hcol hm))
        · simp only [String.toList_ofList]; exact normTrim_idem n
      · refine ⟨?_, ?_, ?_⟩
        · simp only [String.toList_ofList]; intro e; simp [e] at hne
        · simp only [String.toList_ofList]; exact fun hm => hsv (trimL_sub v _ hm)
        · simp only [String.toList_ofList]; exact trimL_idem v

theorem foldl_declStep_ok : ∀ (ws : List (List Char)) (out : List (String × String)),
    DeclsOk out → (∀ w ∈ ws, ';' ∉ w) → DeclsOk (ws.foldl declStep out)
  | [], out, h, _ => h
  | w :: ws, out, h, hw =>
    foldl_declStep_ok ws _ (declStep_ok out w h (hw w (by simp))) (fun x hx => hw x (by simp [hx]))

theorem styleDecls_ok (s : String) : DeclsOk (styleDecls s) := by
  rw [styleDecls_eq]
  exact foldl_declStep_ok _ [] ⟨by simp, by simp [keysOf]⟩
    (fun w hw => splitChar_no_sep ';' s.toList [] (by simp) w hw)


def trimS (v : String) : String := String.ofList (trimL v.toList)

/-- the value `setProperty(name, v)` leaves: the trimmed value, nothing when that is empty -/
def propVal (v : String) : Option String :=
  if (trimL v.toList).isEmpty then none else some (trimS v)

theorem styOf_set_style (l' : List (String × String)) (s : String)
    (h : getA l' "style" = some s) : styOf l' = styleDecls s := by simp [styOf, h]

/-- `style.removeProperty(name)` -/
theorem removeCssProperty_attrs (d : Dom) (x : Id) (name : String) (r : NodeRec)
    (hx : d.get? x = some r) (hk : r.kind.isElem = true) :
    (∃ r', (d.removeCssProperty x name).get? x = some r' ∧ EqModAttrs r r' ∧
      (∀ k, k ≠ "style" → getA r'.attrs k = getA r.attrs k) ∧
      (∀ m, getA (styOf r'.attrs) m = if m = normProp name then none else getA (styOf r.attrs) m)) ∧
    (∀ y, y ≠ x → (d.removeCssProperty x name).get? y = d.get? y) ∧
    (d.removeCssProperty x name).next = d.next := by
  have hga : d.getAttribute x "style" = getA r.attrs "style" := by
    simp [Dom.getAttribute, Dom.attrsOf, hx]
  have hD : d.styleDeclsOf x = styOf r.attrs := by simp [Dom.styleDeclsOf, hga, styOf]
  have hok : DeclsOk (styOf r.attrs) := styleDecls_ok _
  have hform : d.removeCssProperty x name =
      (match getA (styOf r.attrs) (normProp name) with
        | some _ => d.setAttribute x "style" (styleText (delA (styOf r.attrs) (normProp name)))
        | none => d) := by
    simp only [Dom.removeCssProperty, hD, normProp]
    rfl
  cases hg : getA (styOf r.attrs) (normProp name) with
  | none =>
    rw [hform]; simp only [hg]
    refine ⟨⟨r, hx, ⟨rfl, rfl, rfl, rfl⟩, fun _ _ => rfl, fun m => ?_⟩, fun _ _ => trivial, by simp⟩
    by_cases hm : m = normProp name
    · subst hm; simp [hg]
    · simp [hm]
  | some w =>
    rw [hform]; simp only [hg]
    obtain ⟨⟨r', h1, h2, h3⟩, h4, h5⟩ :=
      setAttribute_attrs d x "style" (styleText (delA (styOf r.attrs) (normProp name))) r hx hk
    refine ⟨⟨r', h1, h2, fun k hks => by rw [h3 k]; simp [hks], fun m => ?_⟩, h4, h5⟩
    have hs : getA r'.attrs "style" = some (styleText (delA (styOf r.attrs) (normProp name))) := by
      rw [h3]; simp
    rw [styOf_set_style _ _ hs, styleDecls_styleText _ (hok.delA _).1 (hok.delA _).2, getA_delA]

/-- `style.setProperty(name, value)` with a value that is not blank -/
theorem setCssProperty_attrs (d : Dom) (x : Id) (name value : String) (r : NodeRec)
    (hx : d.get? x = some r) (hk : r.kind.isElem = true)
    (hn : PK (normProp name)) (hv : PV (trimS value)) :
    (∃ r', (d.setCssProperty x name value).get? x = some r' ∧ EqModAttrs r r' ∧
      (∀ k, k ≠ "style" → getA r'.attrs k = getA r.attrs k) ∧
      (∀ m, getA (styOf r'.attrs) m =
        if m = normProp name then some (trimS value) else getA (styOf r.attrs) m)) ∧
    (∀ y, y ≠ x → (d.setCssProperty x name value).get? y = d.get? y) ∧
    (d.setCssProperty x name value).next = d.next := by
  have hga : d.getAttribute x "style" = getA r.attrs "style" := by
    simp [Dom.getAttribute, Dom.attrsOf, hx]
  have hD : d.styleDeclsOf x = styOf r.attrs := by simp [Dom.styleDeclsOf, hga, styOf]
  have hok : DeclsOk (styOf r.attrs) := styleDecls_ok _
  have hve : (trimL value.toList).isEmpty = false := by
    have := hv.1; simp only [trimS, String.toList_ofList] at this
    cases h : trimL value.toList <;> simp_all
  have hne : (normName (trimL name.toList)).isEmpty = false := by
    have := hn.1; simp only [normProp, String.toList_ofList] at this
    cases h : normName (trimL name.toList) <;> simp_all
  have hform : d.setCssProperty x name value =
      d.setAttribute x "style" (styleText (setD (styOf r.attrs) (normProp name) (trimS value))) := by
    simp only [Dom.setCssProperty, hve, hne, hD, normProp, trimS]
    simp
  rw [hform]
  obtain ⟨⟨r', h1, h2, h3⟩, h4, h5⟩ :=
    setAttribute_attrs d x "style" (styleText (setD (styOf r.attrs) (normProp name) (trimS value))) r hx hk
  refine ⟨⟨r', h1, h2, fun k hks => by rw [h3 k]; simp [hks], fun m => ?_⟩, h4, h5⟩
  have hs : getA r'.attrs "style" =
      some (styleText (setD (styOf r.attrs) (normProp name) (trimS value))) := by rw [h3]; simp
  have hok' := hok.setA (normProp name) (trimS value) hn hv
  rw [styOf_set_style _ _ hs]
  simp only [setD]
  rw [styleDecls_styleText _ hok'.1 hok'.2, getA_setA]

/-- a blank value removes the property -/
theorem setCssProperty_blank (d : Dom) (x : Id) (name value : String)
    (h : (trimL value.toList).isEmpty = true) :
    d.setCssProperty x name value = d.removeCssProperty x name := by
  simp [Dom.setCssProperty, h]

end Leptos.View
