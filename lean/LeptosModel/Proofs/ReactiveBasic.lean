import LeptosModel.Model.Reactive
/-!
# Proofs/ReactiveBasic — well-formedness unpacked, pure evaluation, fuel irrelevance of `scratch`
-/
namespace Leptos.Reactive

theorem WF_get {p : Prog} (h : WF p = true) {i : Nat} {d : NodeDef} (hd : p[i]? = some d) :
    wfNode p i d = true := by
  have hi : i < p.length := by
    rcases Nat.lt_or_ge i p.length with h' | h'
    · exact h'
    · rw [List.getElem?_eq_none h'] at hd; cases hd
  simp only [WF, List.all_eq_true, List.mem_range] at h
  have := h i hi
  rw [hd] at this
  exact this

theorem evalPure_congr {ρ ρ' : Nat → Int} {k : Nat} (hρ : ∀ j, j < k → ρ j = ρ' j) :
    ∀ (e : Expr), e.readsBelow k = true → evalPure ρ e = evalPure ρ' e
  | .lit _, _ => rfl
  | .rd _ id, h => by
    simp only [Expr.readsBelow, decide_eq_true_eq] at h
    simp only [evalPure]; exact hρ id h
  | .add a b, h => by
    simp only [Expr.readsBelow, Bool.and_eq_true] at h
    simp only [evalPure, evalPure_congr hρ a h.1, evalPure_congr hρ b h.2]
  | .mulc _ a, h => by
    simp only [Expr.readsBelow] at h
    simp only [evalPure, evalPure_congr hρ a h]
  | .ite c t e, h => by
    simp only [Expr.readsBelow, Bool.and_eq_true] at h
    simp only [evalPure, evalPure_congr hρ c h.1.1, evalPure_congr hρ t h.1.2, evalPure_congr hρ e h.2]
  | .seq a b, h => by
    simp only [Expr.readsBelow, Bool.and_eq_true] at h
    simp only [evalPure, evalPure_congr hρ b h.2]
  | .wr _ a, h => by
    simp only [Expr.readsBelow] at h
    simp only [evalPure, evalPure_congr hρ a h]

theorem scratch_fuel {p : Prog} (env : Nat → Int) (hwf : WF p = true) :
    ∀ (f g id : Nat), id < f → id < g → scratch p env f id = scratch p env g id := by
  intro f
  induction f with
  | zero => intro g id h; omega
  | succ f ih =>
    intro g id hf hg
    cases g with
    | zero => omega
    | succ g =>
      simp only [scratch]
      cases hd : p[id]? with
      | none => rfl
      | some d =>
        have hw := WF_get hwf hd
        cases d with
        | sig v => rfl
        | memo b =>
          simp only [wfNode, Bool.and_eq_true] at hw
          exact evalPure_congr (fun j hj => ih g j (by omega) (by omega)) b hw.1.1
        | eff b =>
          simp only [wfNode, Bool.and_eq_true] at hw
          exact evalPure_congr (fun j hj => ih g j (by omega) (by omega)) b hw.1

end Leptos.Reactive
