import LeptosModel.Model.Reactive
/-!
# Proofs/ReactiveBasic — well-formedness unpacked, pure evaluation, fuel irrelevance of `scratch`
-/
namespace Leptos.Reactive

theorem WF_get {p : Prog} (h : WF p = true) {i : Nat} {d : NodeDef} (hd : p[i]? = some d) :
    wfNode p i d = true := by
  have hi : i < p.length := by
    rcases Nat.lt_or_ge i p.length with h' | h'
    · exact h'
    · rw [List.getElem?_eq_none h'] at hd; cases hd
  simp only [WF, List.all_eq_true, List.mem_range] at h
  have := h i hi
  rw [hd] at this
  exact this

theorem evalPure_congr {ρ ρ' : Nat → Int} {k : Nat} (hρ : ∀ j, j < k → ρ j = ρ' j) :
    ∀ (e : Expr), e.readsBelow k = true → evalPure ρ e = evalPure ρ' e
  | .lit _, _ => rfl
  | .rd _ id, h => by
    simp only [Expr.readsBelow, decide_eq_true_eq] at h
    simp only [evalPure]; exact hρ id h
  | .add a b, h => by
    simp only [Expr.readsBelow, Bool.and_eq_true] at h
    simp only [evalPure, evalPure_congr hρ a h.1, evalPure_congr hρ b h.2]
  | .mulc _ a, h => by
    simp only [Expr.readsBelow] at h
    simp only [evalPure, evalPure_congr hρ a h]
  | .ite c t e, h => by
    simp only [Expr.readsBelow, Bool.and_eq_true] at h
    simp only [evalPure, evalPure_congr hρ c h.1.1, evalPure_congr hρ t h.1.2, evalPure_congr hρ e h.2]
  | .seq a b, h => by
    simp only [Expr.readsBelow, Bool.and_eq_true] at h
    simp only [evalPure, evalPure_congr hρ b h.2]
  | .wr _ a, h => by
    simp only [Expr.readsBelow] at h
    simp only [evalPure, evalPure_congr hρ a h]

theorem scratch_fuel {p : Prog} (env : Nat → Int) (hwf : WF p = true) :
    ∀ (f g id : Nat), id < f → id < g → scratch p env f id = scratch p env g id := by
  intro f
  induction f with
  | zero => intro g id h; omega
  | succ f ih =>
    intro g id hf hg
    cases g with
    | zero => omega
    | succ g =>
      simp only [scratch]
      cases hd : p[id]? with
      | none => rfl
      | some d =>
        have hw := WF_get hwf hd
        cases d with
        | sig v => rfl
        | memo b =>
          simp only [wfNode, Bool.and_eq_true] at hw
          exact evalPure_congr (fun j hj => ih g j (by omega) (by omega)) b hw.1.1
        | eff b =>
          simp only [wfNode, Bool.and_eq_true] at hw
          exact evalPure_congr (fun j hj => ih g j (by omega) (by omega)) b hw.1

/-! ## evaluation with a snapshot for the untracked reads -/

/-- evaluate a body: tracked reads from `ρ`, the k-th executed untracked read from the k-th element
of the snapshot list (returns the unused rest of the list) -/
def evalSnap (ρ : Nat → Int) : Expr → List Int → Int × List Int
  | .lit n, U => (n, U)
  | .rd true x, U => (ρ x, U)
  | .rd false _, U => match U with | v :: U' => (v, U') | [] => (0, [])
  | .add a b, U =>
    let r1 := evalSnap ρ a U
    let r2 := evalSnap ρ b r1.2
    (r1.1 + r2.1, r2.2)
  | .mulc k a, U =>
    let r1 := evalSnap ρ a U
    (k * r1.1, r1.2)
  | .ite c t e, U =>
    let r1 := evalSnap ρ c U
    if r1.1 != 0 then evalSnap ρ t r1.2 else evalSnap ρ e r1.2
  | .seq a b, U =>
    let r1 := evalSnap ρ a U
    evalSnap ρ b r1.2
  | .wr _ a, U => evalSnap ρ a U

theorem evalSnap_tracked (ρ : Nat → Int) : ∀ (e : Expr) (U : List Int), e.noUntracked = true →
    evalSnap ρ e U = (evalPure ρ e, U)
  | .lit _, _, _ => rfl
  | .rd t x, U, h => by
    simp only [Expr.noUntracked] at h; subst h; rfl
  | .add a b, U, h => by
    simp only [Expr.noUntracked, Bool.and_eq_true] at h
    simp only [evalSnap, evalSnap_tracked ρ a U h.1, evalSnap_tracked ρ b U h.2, evalPure]
  | .mulc k a, U, h => by
    simp only [Expr.noUntracked] at h
    simp only [evalSnap, evalSnap_tracked ρ a U h, evalPure]
  | .ite c t e, U, h => by
    simp only [Expr.noUntracked, Bool.and_eq_true] at h
    simp only [evalSnap, evalSnap_tracked ρ c U h.1.1, evalPure]
    split
    · exact evalSnap_tracked ρ t U h.1.2
    · exact evalSnap_tracked ρ e U h.2
  | .seq a b, U, h => by
    simp only [Expr.noUntracked, Bool.and_eq_true] at h
    simp only [evalSnap, evalSnap_tracked ρ a U h.1, evalSnap_tracked ρ b U h.2, evalPure]
  | .wr _ a, U, h => by
    simp only [Expr.noUntracked] at h
    simp only [evalSnap, evalSnap_tracked ρ a U h, evalPure]

/-! ## static dependencies -/

/-- does body `e` read node `y` (tracked or not)? -/
def Expr.readsNode (y : Nat) : Expr → Bool
  | .lit _ => false
  | .rd _ id => id == y
  | .add a b => a.readsNode y || b.readsNode y
  | .mulc _ a => a.readsNode y
  | .ite c t e => c.readsNode y || t.readsNode y || e.readsNode y
  | .seq a b => a.readsNode y || b.readsNode y
  | .wr _ a => a.readsNode y

/-- does body `e` write signal `sg`? -/
def Expr.writesSig (sg : Nat) : Expr → Bool
  | .lit _ => false
  | .rd _ _ => false
  | .add a b => a.writesSig sg || b.writesSig sg
  | .mulc _ a => a.writesSig sg
  | .ite c t e => c.writesSig sg || t.writesSig sg || e.writesSig sg
  | .seq a b => a.writesSig sg || b.writesSig sg
  | .wr id a => id == sg || a.writesSig sg

/-- node `x` depends (transitively, through memo bodies) on node `sg`; fuel = number of nodes -/
def dependsOn (p : Prog) : Nat → Nat → Nat → Bool
  | 0, _, _ => false
  | f + 1, x, sg =>
    x == sg ||
    (match p[x]? with
     | some (.memo b) => (List.range x).any fun y => b.readsNode y && dependsOn p f y sg
     | _ => false)

/-- no effect writes a signal on which one of the nodes it reads depends -/
def noSelfFeedback (p : Prog) : Bool :=
  (List.range p.length).all fun e =>
    match p[e]? with
    | some (.eff b) =>
      (List.range p.length).all fun sg => !(b.writesSig sg) ||
        (List.range p.length).all fun y => !(b.readsNode y) || !(dependsOn p p.length y sg)
    | _ => true

theorem readsNode_lt : ∀ (e : Expr) (k y : Nat), e.readsBelow k = true → e.readsNode y = true → y < k
  | .lit _, _, _, _, h => by simp [Expr.readsNode] at h
  | .rd _ id, k, y, hb, h => by
    simp only [Expr.readsBelow, decide_eq_true_eq] at hb
    simp only [Expr.readsNode, beq_iff_eq] at h
    omega
  | .add a b, k, y, hb, h => by
    simp only [Expr.readsBelow, Bool.and_eq_true] at hb
    simp only [Expr.readsNode, Bool.or_eq_true] at h
    rcases h with h | h
    · exact readsNode_lt a k y hb.1 h
    · exact readsNode_lt b k y hb.2 h
  | .mulc _ a, k, y, hb, h => by
    simp only [Expr.readsBelow] at hb
    simp only [Expr.readsNode] at h
    exact readsNode_lt a k y hb h
  | .ite c t e, k, y, hb, h => by
    simp only [Expr.readsBelow, Bool.and_eq_true] at hb
    simp only [Expr.readsNode, Bool.or_eq_true] at h
    rcases h with (h | h) | h
    · exact readsNode_lt c k y hb.1.1 h
    · exact readsNode_lt t k y hb.1.2 h
    · exact readsNode_lt e k y hb.2 h
  | .seq a b, k, y, hb, h => by
    simp only [Expr.readsBelow, Bool.and_eq_true] at hb
    simp only [Expr.readsNode, Bool.or_eq_true] at h
    rcases h with h | h
    · exact readsNode_lt a k y hb.1 h
    · exact readsNode_lt b k y hb.2 h
  | .wr _ a, k, y, hb, h => by
    simp only [Expr.readsBelow] at hb
    simp only [Expr.readsNode] at h
    exact readsNode_lt a k y hb h

theorem writesSig_lt (p : Prog) : ∀ (e : Expr) (sg : Nat), e.readsData p = true → e.writesSig sg = true →
    sg < p.length
  | .lit _, _, _, h => by simp [Expr.writesSig] at h
  | .rd _ _, _, _, h => by simp [Expr.writesSig] at h
  | .add a b, sg, hd, h => by
    simp only [Expr.readsData, Bool.and_eq_true] at hd
    simp only [Expr.writesSig, Bool.or_eq_true] at h
    rcases h with h | h
    · exact writesSig_lt p a sg hd.1 h
    · exact writesSig_lt p b sg hd.2 h
  | .mulc _ a, sg, hd, h => by
    simp only [Expr.readsData] at hd
    simp only [Expr.writesSig] at h
    exact writesSig_lt p a sg hd h
  | .ite c t e, sg, hd, h => by
    simp only [Expr.readsData, Bool.and_eq_true] at hd
    simp only [Expr.writesSig, Bool.or_eq_true] at h
    rcases h with (h | h) | h
    · exact writesSig_lt p c sg hd.1.1 h
    · exact writesSig_lt p t sg hd.1.2 h
    · exact writesSig_lt p e sg hd.2 h
  | .seq a b, sg, hd, h => by
    simp only [Expr.readsData, Bool.and_eq_true] at hd
    simp only [Expr.writesSig, Bool.or_eq_true] at h
    rcases h with h | h
    · exact writesSig_lt p a sg hd.1 h
    · exact writesSig_lt p b sg hd.2 h
  | .wr id a, sg, hd, h => by
    simp only [Expr.readsData, Bool.and_eq_true] at hd
    simp only [Expr.writesSig, Bool.or_eq_true, beq_iff_eq] at h
    rcases h with h | h
    · subst h
      rcases Nat.lt_or_ge id p.length with h' | h'
      · exact h'
      · have := hd.1
        rw [List.getElem?_eq_none h'] at this; simp at this
    · exact writesSig_lt p a sg hd.2 h

end Leptos.Reactive
