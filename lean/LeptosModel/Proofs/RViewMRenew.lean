import LeptosModel.Proofs.RViewMIdle
import LeptosModel.Proofs.RViewRenew
/-!
# Proofs/RViewMRenew — `replace` and `rebuild` over signals and memos (port of `Proofs/RViewRenew.lean`)
-/
namespace Leptos.RView
open Leptos.Reactive

/-- result of renewing a region: `old` = the effects of what was there before (all handed over to the
zombies), `new` = the effects of what is there now (all fresh) -/
structure RenewCoreM (K : Nat) (s : St) (old new : List Nat) (s' : St) : Prop where
  inv : RM K s'
  zomb : s'.zombies = s.zombies ++ newZ s s'
  ext : ExtM K (fun x => x ∈ old) s s'
  fresh : ∀ x ∈ new, s.prog.length ≤ x ∧ x < s'.prog.length
  nodup : new.Nodup
  zcnt : ∀ x, (zEffs (newZ s s')).count x = old.count x
  zids : ∀ z ∈ newZ s s', z.1 ∈ old
  zdead : ∀ z ∈ newZ s s', (s'.rs.get z.1).alive = false
  zkind : ∀ z ∈ newZ s s', (s'.rs.get z.1).kind = .eff
  zok : ∀ z ∈ newZ s s', ∀ h, z.2 = some h → ZTreeM K s' h
  tasks : ∀ x ∈ s'.tasks, x ∈ s.tasks ∨ x ∈ new
  root : s'.root = s.root
  rootN : s'.rootN = s.rootN
  disposed : s'.disposed = s.disposed

structure RenewedM (K : Nat) (s : St) (old : List Nat) (v : View) (t' : RState) (s' : St) : Prop where
  core : RenewCoreM K s old (effsOf t') s'
  good : GoodM (EM K s') (ShowMemo K s') v t'

theorem replace_specM {K : Nat} {s : St} (hi : RM K s) {v : View} (hw : v.wf K = true) (hc : v.coreS = true)
    {vo : View} {old : RState} (hold : GoodM (EffWf K s) (ShowMemo K s) vo old) (hwo : vo.wf K = true) (hco : vo.coreS = true) :
    RenewedM K s (effsOf old) v (replace v old s).1 (replace v old s).2.1 := by
  rw [replace_eq s (GoodM.locals_nil vo old hold)]
  dsimp only
  have b := build_specM v s hi hw hc
  have d := dropAll_spec old.held (build v s).2
  have hheld := held_okM vo old hold hwo hco
  have hbound := GoodM.bound vo old hold
  have hids : ∀ x ∈ old.held.map (·.1), x ∈ effsOf old := by
    intro x hx
    obtain ⟨z, hz, rfl⟩ := List.mem_map.1 hx
    exact (hheld z hz).1
  have hK : ∀ x ∈ old.held.map (·.1), K ≤ x := fun x hx => (hbound x (hids x hx)).1
  have hz : (dropAll (build v s).2 old.held).zombies = s.zombies ++ old.held := by
    show (dropAll (build v s).2 old.held).zombies = _
    rw [d.zombies, b.same.zombies]
  have hnz : newZ s (dropAll (build v s).2 old.held) = old.held := newZ_of_append hz
  have hdx := d.extM hK
  have hkinds : ∀ z ∈ old.held, ((build v s).2.rs.get z.1).kind = .eff := by
    intro z hz'
    have hm : z.1 ∈ old.held.map (·.1) := List.mem_map.2 ⟨z, hz', rfl⟩
    have hb := hbound z.1 (hids z.1 hm)
    have hlt : z.1 < (build v s).2.prog.length := by have := b.ext.len_le; omega
    have hp : (build v s).2.prog[z.1]? = s.prog[z.1]? := b.ext.prog_get hb.2
    obtain ⟨x, cur, hwfz⟩ : ∃ x cur, EffWf K s z.1 x cur := by
      obtain ⟨x, cur, hx⟩ := GoodM.effP vo old hold z.1 (hids z.1 hm)
      exact ⟨x, cur, hx⟩
    rw [b.rm.top.quiet.inv.kind z.1 (.eff x) (by rw [hp]; exact hwfz.2.2)]; rfl
  have hx1 : ExtM K (fun x => x ∈ effsOf old) s (build v s).2 :=
    b.ext.mono (fun _ hf => hf.elim) (fun i hi' => (hbound i hi').1)
  have hx2 : ExtM K (fun x => x ∈ effsOf old) (build v s).2 (dropAll (build v s).2 old.held) :=
    hdx.mono (fun i hi' => hids i hi') (fun i hi' => (hbound i hi').1)
  refine ⟨⟨dropAllM _ b.rm hkinds, by rw [hnz]; exact hz, hx1.trans hx2, ?_, b.nodup, ?_, ?_, ?_, ?_, ?_, ?_,
    d.root.trans b.same.root, d.rootN.trans b.same.rootN, d.disposed.trans b.same.disposed⟩, ?_⟩
  rotate_right
  · refine GoodM.extM hdx v _ b.good ?_
    intro e he ha
    have h1 := b.fresh e he
    have h2 := (hbound e (hids e ha)).2
    omega
  · intro x hx
    have := b.fresh x hx
    have hp : (dropAll (build v s).2 old.held).prog = (build v s).2.prog := d.prog
    show _ ∧ x < (dropAll (build v s).2 old.held).prog.length
    rw [hp]; exact this
  · intro x; rw [hnz, zEffs_held]
  · intro z hz'; rw [hnz] at hz'; exact (hheld z hz').1
  · intro z hz'
    rw [hnz] at hz'
    have hm : z.1 ∈ old.held.map (·.1) := List.mem_map.2 ⟨z, hz', rfl⟩
    exact d.dead hm (hkinds z hz')
  · intro z hz'
    rw [hnz] at hz'
    have hm : z.1 ∈ old.held.map (·.1) := List.mem_map.2 ⟨z, hz', rfl⟩
    show ((dropAll (build v s).2 old.held).rs.get z.1).kind = .eff
    rw [d.get z.1, if_pos hm, killed_kind]; exact hkinds z hz'
  · intro z hz' h hh
    rw [hnz] at hz'
    exact ((hheld z hz').2 h hh).ext (hx1.trans hx2)
  · intro x hx
    have hx' : x ∈ (dropAll (build v s).2 old.held).tasks := hx
    rw [d.tasks] at hx'
    exact build_tasksM v s hc x hx'


theorem RenewCoreM.refl {K : Nat} {s : St} (hi : RM K s) : RenewCoreM K s [] [] s := by
  have hn : newZ s s = [] := by simp [newZ]
  exact ⟨hi, by rw [hn]; simp, ExtM.refl K _ (fun _ h => by simp at h) s, fun _ h => by simp at h, List.nodup_nil,
    fun x => by rw [hn]; simp [zEffs], fun z hz => by rw [hn] at hz; simp at hz,
    fun z hz => by rw [hn] at hz; simp at hz, fun z hz => by rw [hn] at hz; simp at hz,
    fun z hz => by rw [hn] at hz; simp at hz, fun x hx => Or.inl hx, rfl, rfl, rfl⟩

/-- two renewals in sequence (disjoint old parts that existed before the first one) -/
theorem RenewCoreM.comp {K : Nat} {s s1 s2 : St} {oldA oldB newA newB : List Nat}
    (h1 : RenewCoreM K s oldA newA s1) (h2 : RenewCoreM K s1 oldB newB s2)
    (hbA : ∀ x ∈ oldA, K ≤ x ∧ x < s.prog.length) (hbB : ∀ x ∈ oldB, K ≤ x ∧ x < s.prog.length)
    (hnd : (oldA ++ oldB).Nodup) :
    RenewCoreM K s (oldA ++ oldB) (newA ++ newB) s2 := by
  have hz := newZ_trans h1.zomb h2.zomb
  have hlen1 := h1.ext.len_le
  have hlen2 := h2.ext.len_le
  have hK : ∀ i, i ∈ oldA ++ oldB → K ≤ i := by
    intro i hi
    rcases List.mem_append.1 hi with h | h
    · exact (hbA i h).1
    · exact (hbB i h).1
  have hx1 : ExtM K (fun x => x ∈ oldA ++ oldB) s s1 :=
    h1.ext.mono (fun i hi => List.mem_append.2 (Or.inl hi)) hK
  have hx2 : ExtM K (fun x => x ∈ oldA ++ oldB) s1 s2 :=
    h2.ext.mono (fun i hi => List.mem_append.2 (Or.inr hi)) hK
  refine ⟨h2.inv, by rw [hz.2]; exact hz.1, hx1.trans hx2, ?_, ?_, ?_, ?_, ?_, ?_, ?_, ?_,
    h2.root.trans h1.root, h2.rootN.trans h1.rootN, h2.disposed.trans h1.disposed⟩
  · intro x hx
    rcases List.mem_append.1 hx with h | h
    · have := h1.fresh x h; omega
    · have := h2.fresh x h; omega
  · refine List.nodup_append.2 ⟨h1.nodup, h2.nodup, ?_⟩
    intro a ha b hb hab
    have := h1.fresh a ha; have := h2.fresh b hb; omega
  · intro x
    rw [hz.2, zEffs_append, List.count_append, List.count_append, h1.zcnt, h2.zcnt]
  · intro z hm
    rw [hz.2] at hm
    rcases List.mem_append.1 hm with h | h
    · exact List.mem_append.2 (Or.inl (h1.zids z h))
    · exact List.mem_append.2 (Or.inr (h2.zids z h))
  · intro z hm
    rw [hz.2] at hm
    rcases List.mem_append.1 hm with h | h
    · have hzA := h1.zids z h
      have hnB : z.1 ∉ oldB := fun hB => (List.nodup_append.1 hnd).2.2 z.1 hzA z.1 hB rfl
      have hk1 : (s1.rs.get z.1).kind = .eff := h1.zkind z h
      have hc := h2.ext.keep z.1 (by have := (hbA z.1 hzA).2; omega) hk1 hnB
      simp only [stab, Prod.mk.injEq] at hc
      rw [hc.2.2.1]; exact h1.zdead z h
    · exact h2.zdead z h
  · intro z hm
    rw [hz.2] at hm
    rcases List.mem_append.1 hm with h | h
    · have hzA := h1.zids z h
      have hnB : z.1 ∉ oldB := fun hB => (List.nodup_append.1 hnd).2.2 z.1 hzA z.1 hB rfl
      have hk1 : (s1.rs.get z.1).kind = .eff := h1.zkind z h
      have hc := h2.ext.keep z.1 (by have := (hbA z.1 hzA).2; omega) hk1 hnB
      simp only [stab, Prod.mk.injEq] at hc
      rw [hc.1]; exact hk1
    · exact h2.zkind z h
  · intro z hm hh hhh
    rw [hz.2] at hm
    rcases List.mem_append.1 hm with h | h
    · exact (h1.zok z h hh hhh).ext h2.ext
    · exact h2.zok z h hh hhh
  · intro x hx
    rcases h2.tasks x hx with h | h
    · rcases h1.tasks x h with h' | h'
      · exact Or.inl h'
      · exact Or.inr (List.mem_append.2 (Or.inl h'))
    · exact Or.inr (List.mem_append.2 (Or.inr h))


/-- a reactive attribute is rebuilt: a new effect over the old attribute state, the old effect dropped -/
theorem renew_attr_effM {K : Nat} {s : St} (hi : RM K s) {x : Expr} (hs : sigOnly K x = true) {e0 : Nat}
    (hb : K ≤ e0 ∧ e0 < s.prog.length) (hk0 : (s.rs.get e0).kind = .eff) :
    RenewCoreM K s [e0] [(newEff s x).1] (dropEff ((newEff s x).2.2.spawn (newEff s x).1) e0 none) ∧
    ∀ cur : Int → Prop, cur (newEff s x).2.1 →
      EM K (dropEff ((newEff s x).2.2.spawn (newEff s x).1) e0 none) (newEff s x).1 x cur := by
  have hn := newEffM_spec hi hs
  have hk1 : (((newEff s x).2.2.spawn (newEff s x).1).rs.get e0).kind = .eff := by
    have := hn.ext.keep e0 hb.2 hk0 (fun hf => hf)
    simp only [stab, Prod.mk.injEq] at this
    show ((newEff s x).2.2.rs.get e0).kind = .eff
    rw [this.1]; exact hk0
  have d := dropAll_spec [(e0, none)] ((newEff s x).2.2.spawn (newEff s x).1)
  have hd : dropAll ((newEff s x).2.2.spawn (newEff s x).1) [(e0, none)] =
      dropEff ((newEff s x).2.2.spawn (newEff s x).1) e0 none := by simp [dropAll]
  rw [hd] at d
  have hl1 : (newEff s x).2.2.prog.length = s.prog.length + 1 := by rw [hn.prog]; simp
  have hz : (dropEff ((newEff s x).2.2.spawn (newEff s x).1) e0 none).zombies = s.zombies ++ [(e0, none)] := by
    rw [d.zombies]; show (newEff s x).2.2.zombies ++ _ = _; rw [hn.zombies]
  have hnz := newZ_of_append hz
  have hK : ∀ i, i ∈ [e0] → K ≤ i := fun i hi' => by simp at hi'; rw [hi']; exact hb.1
  have hx1 : ExtM K (fun i => i ∈ [e0]) s ((newEff s x).2.2.spawn (newEff s x).1) :=
    (hn.ext.trans (spawn_extM _ _)).mono (fun _ hf => hf.elim) hK
  have hx2 : ExtM K (fun i => i ∈ [e0]) ((newEff s x).2.2.spawn (newEff s x).1)
      (dropEff ((newEff s x).2.2.spawn (newEff s x).1) e0 none) :=
    (d.extM (fun i hi' => by simp at hi'; rw [hi']; exact hb.1)).mono (fun i hi' => by simpa using hi') hK
  have hne : (newEff s x).1 ≠ e0 := by rw [hn.he]; omega
  refine ⟨⟨dropEffM (spawnM hn.rm _) e0 none hk1, by rw [hnz]; exact hz, hx1.trans hx2, ?_, by simp, ?_, ?_, ?_, ?_, ?_, ?_,
    d.root.trans hn.root, d.rootN.trans hn.rootN, d.disposed.trans hn.disposed⟩, ?_⟩
  · intro y hy
    simp only [List.mem_singleton] at hy
    have h1 : (newEff s x).1 = s.prog.length := hn.he
    have hp : (dropEff ((newEff s x).2.2.spawn (newEff s x).1) e0 none).prog.length = s.prog.length + 1 := by
      rw [d.prog]; exact hl1
    rw [hy]; omega
  · intro y; rw [hnz]; simp [zEffs, optEffs]
  · intro z hz'; rw [hnz] at hz'; simp only [List.mem_singleton] at hz'; rw [hz']; simp
  · intro z hz'
    rw [hnz] at hz'; simp only [List.mem_singleton] at hz'; rw [hz']
    exact d.dead (by simp) hk1
  · intro z hz'
    rw [hnz] at hz'; simp only [List.mem_singleton] at hz'; rw [hz']
    show ((dropEff ((newEff s x).2.2.spawn (newEff s x).1) e0 none).rs.get e0).kind = .eff
    rw [d.get e0]; simp only [List.map_cons, List.map_nil, List.mem_singleton, if_true, killed_kind]
    exact hk1
  · intro z hz' h hh
    rw [hnz] at hz'; simp only [List.mem_singleton] at hz'; rw [hz'] at hh; cases hh
  · intro y hy
    have hy' : y ∈ (dropEff ((newEff s x).2.2.spawn (newEff s x).1) e0 none).tasks := hy
    rw [d.tasks] at hy'
    simp only [St.spawn, List.mem_append, List.mem_singleton] at hy'
    rcases hy' with h | h
    · left; rw [← hn.tasks]; exact h
    · right; simp [h]
  · intro cur hc
    have hx12 : ExtM K (fun i => i ∈ [e0]) (newEff s x).2.2
        (dropEff ((newEff s x).2.2.spawn (newEff s x).1) e0 none) :=
      ((spawn_extM (K := K) _ _).mono (fun _ hf => hf.elim) hK).trans hx2
    refine hn.em' hi.kle (sigOnly_nw hs) hx12 ?_ ?_ hc
    · simpa using hne
    · rw [d.tasks]; simp [St.spawn]


structure RenewedAM (K : Nat) (s : St) (old : List Nat) (a : Attr) (o' : AState) (s' : St) : Prop where
  core : RenewCoreM K s old o'.effs s'
  good : GoodAttrP (EM K s') a o'

structure RenewedAsM (K : Nat) (s : St) (old : List Nat) (as : List Attr) (ss' : List AState) (s' : St) : Prop where
  core : RenewCoreM K s old (ss'.flatMap AState.effs) s'
  good : GoodAttrsP (EM K s') as ss'

theorem rebuildAttr_specM {K : Nat} {s : St} (hi : RM K s) : ∀ (a : Attr) (o : AState),
    GoodAttrP (EffWf K s) a o → a.exprOk K = true →
    RenewedAM K s o.effs a (rebuildAttr s a o).1 (rebuildAttr s a o).2.1
  | .stat n v, .stat n' v', _, _ => ⟨RenewCoreM.refl hi, ⟨rfl, rfl⟩⟩
  | .dyn n x, .dyn e0 n' x' last, hg, hx => by
    have hs : sigOnly K x = true := by simpa [Attr.exprOk, sigOnly] using hx
    have hr : s.res x = x := s.res_eq (by simp only [Attr.exprOk, Bool.and_eq_true] at hx; exact hx.2)
    have r := renew_attr_effM hi hs (e0 := e0) ⟨hg.2.2.1, hg.2.2.2.1⟩ (hi.kind_eff hg.2.2.2.2)
    simp only [rebuildAttr, hr]
    exact ⟨r.1, ⟨rfl, rfl, r.2 _ rfl⟩⟩
  | .cls n x, .cls e0 n' x' last, hg, hx => by
    have hs : sigOnly K x = true := by simpa [Attr.exprOk, sigOnly] using hx
    have hr : s.res x = x := s.res_eq (by simp only [Attr.exprOk, Bool.and_eq_true] at hx; exact hx.2)
    have r := renew_attr_effM hi hs (e0 := e0) ⟨hg.2.2.1, hg.2.2.2.1⟩ (hi.kind_eff hg.2.2.2.2)
    simp only [rebuildAttr, hr]
    exact ⟨r.1, ⟨rfl, rfl, r.2 _ rfl⟩⟩
  | .sty n x, .sty e0 n' x' last, hg, hx => by
    have hs : sigOnly K x = true := by simpa [Attr.exprOk, sigOnly] using hx
    have hr : s.res x = x := s.res_eq (by simp only [Attr.exprOk, Bool.and_eq_true] at hx; exact hx.2)
    have r := renew_attr_effM hi hs (e0 := e0) ⟨hg.2.2.1, hg.2.2.2.1⟩ (hi.kind_eff hg.2.2.2.2)
    simp only [rebuildAttr, hr]
    exact ⟨r.1, ⟨rfl, rfl, r.2 _ rfl⟩⟩
  | .stat _ _, .dyn _ _ _ _, h, _ => h.elim
  | .stat _ _, .cls _ _ _ _, h, _ => h.elim
  | .stat _ _, .sty _ _ _ _, h, _ => h.elim
  | .dyn _ _, .stat _ _, h, _ => h.elim
  | .dyn _ _, .cls _ _ _ _, h, _ => h.elim
  | .dyn _ _, .sty _ _ _ _, h, _ => h.elim
  | .cls _ _, .stat _ _, h, _ => h.elim
  | .cls _ _, .dyn _ _ _ _, h, _ => h.elim
  | .cls _ _, .sty _ _ _ _, h, _ => h.elim
  | .sty _ _, .stat _ _, h, _ => h.elim
  | .sty _ _, .dyn _ _ _ _, h, _ => h.elim
  | .sty _ _, .cls _ _ _ _, h, _ => h.elim

theorem rebuildAttrs_specM {K : Nat} : ∀ (as : List Attr) (os : List AState) (s : St), RM K s →
    GoodAttrsP (EffWf K s) as os → as.all (Attr.exprOk K) = true → (os.flatMap AState.effs).Nodup →
    RenewedAsM K s (os.flatMap AState.effs) as (rebuildAttrs as os s).1 (rebuildAttrs as os s).2.1
  | [], [], s, hi, _, _, _ => ⟨RenewCoreM.refl hi, trivial⟩
  | a :: as, o :: os, s, hi, hg, ha, hnd => by
    simp only [List.all_cons, Bool.and_eq_true] at ha
    simp only [List.flatMap_cons] at hnd
    have h1 := rebuildAttr_specM hi a o hg.1 ha.1
    have hb1 : ∀ x ∈ o.effs, K ≤ x ∧ x < s.prog.length := hg.1.bound
    have hb2 : ∀ x ∈ os.flatMap AState.effs, K ≤ x ∧ x < s.prog.length := hg.2.bound
    have h2 := rebuildAttrs_specM as os (rebuildAttr s a o).2.1 h1.core.inv (hg.2.wf_extM h1.core.ext) ha.2
      (List.nodup_append.1 hnd).2.1
    rw [rebuildAttrs_cons]
    dsimp only
    refine ⟨by simpa only [List.flatMap_cons] using h1.core.comp h2.core hb1 hb2 hnd, ?_, h2.good⟩
    refine GoodAttrP.extM h2.core.ext h1.good ?_
    intro e he ha'
    have := h1.core.fresh e he
    have := (hb2 e ha').2
    omega
  | [], _ :: _, _, _, h, _, _ => h.elim
  | _ :: _, [], _, _, h, _, _ => h.elim


/-- `Render::rebuild` of a fresh view against the state of the same view: everything dynamic is renewed -/
theorem rebuild_specM {K : Nat} : ∀ (v : View) (old : RState) (s : St), RM K s →
    GoodM (EffWf K s) (ShowMemo K s) v old → v.wf K = true → v.coreS = true → (effsOf old).Nodup →
    RenewedM K s (effsOf old) v (rebuild v old s).1 (rebuild v old s).2.1 := by
  intro v
  induction v with
  | text str =>
    intro old s hi hg _ _ _
    cases old <;> simp only [GoodM] at hg
    next n s' =>
      subst hg
      simp only [rebuild, if_true]
      exact ⟨RenewCoreM.refl hi, rfl⟩
  | unit =>
    intro old s hi hg _ _ _
    cases old <;> simp only [GoodM] at hg
    next n => exact ⟨RenewCoreM.refl hi, trivial⟩
  | elem tag attrs kid ih =>
    intro old s hi hg hw hc hnd
    cases old <;> simp only [GoodM] at hg
    next n tag' as k =>
      simp only [View.wf, Bool.and_eq_true] at hw
      simp only [View.coreS] at hc
      simp only [effsOf] at hnd
      have h1 := rebuildAttrs_specM attrs as s hi hg.2.1 hw.1.1 (List.nodup_append.1 hnd).1
      have hb1 : ∀ x ∈ as.flatMap AState.effs, K ≤ x ∧ x < s.prog.length := hg.2.1.bound
      have hb2 : ∀ x ∈ effsOf k, K ≤ x ∧ x < s.prog.length := GoodM.bound kid k hg.2.2
      have h2 := ih k (rebuildAttrs attrs as s).2.1 h1.core.inv (hg.2.2.wf_extM h1.core.ext) hw.2 hc
        (List.nodup_append.1 hnd).2.1
      rw [rebuild_elem]
      dsimp only
      refine ⟨by simpa only [effsOf] using h1.core.comp h2.core hb1 hb2 hnd, ?_⟩
      refine ⟨rfl, ?_, h2.good⟩
      refine GoodAttrsP.extM h2.core.ext h1.good ?_
      intro e he ha'
      have := h1.core.fresh e he
      have := (hb2 e ha').2
      omega
  | seq a b iha ihb =>
    intro old s hi hg hw hc hnd
    cases old <;> simp only [GoodM] at hg
    next sa sb =>
      simp only [View.wf, Bool.and_eq_true] at hw
      simp only [View.coreS, Bool.and_eq_true] at hc
      simp only [effsOf] at hnd
      have hb1 : ∀ x ∈ effsOf sa, K ≤ x ∧ x < s.prog.length := GoodM.bound a sa hg.1
      have hb2 : ∀ x ∈ effsOf sb, K ≤ x ∧ x < s.prog.length := GoodM.bound b sb hg.2
      have h1 := iha sa s hi hg.1 hw.1 hc.1 (List.nodup_append.1 hnd).1
      have h2 := ihb sb (rebuild a sa s).2.1 h1.core.inv (hg.2.wf_extM h1.core.ext) hw.2 hc.2
        (List.nodup_append.1 hnd).2.1
      rw [rebuild_seq]
      dsimp only
      refine ⟨by simpa only [effsOf] using h1.core.comp h2.core hb1 hb2 hnd, ?_, h2.good⟩
      refine GoodM.extM h2.core.ext a _ h1.good ?_
      intro e he ha'
      have := h1.core.fresh e he
      have := (hb2 e ha').2
      omega
  | dynText x =>
    intro old s hi hg hw hc _
    cases old with
    | dynText e x' n last => exact replace_specM hi hw hc (vo := .dynText x) hg hw hc
    | _ => simp only [GoodM] at hg
  | either c a b _ _ =>
    intro old s hi hg hw hc _
    cases old with
    | either e c' a' b' left inner => exact replace_specM hi hw hc (vo := .either c a b) hg hw hc
    | _ => simp only [GoodM] at hg
  | «show» c a b _ _ =>
    intro old s hi hg hw hc _
    cases old with
    | «show» e m c' a' b' left inner => exact replace_specM hi hw hc (vo := .show c a b) hg hw hc
    | _ => simp only [GoodM] at hg
  | scope sid d kid _ => intro old s _ _ _ hc; simp [View.coreS] at hc
  | forRows en sel lists row _ => intro old s _ _ _ hc; simp [View.coreS] at hc
  | eb kid _ => intro old s _ _ _ hc; simp [View.coreS] at hc
  | res c x => intro old s _ _ _ hc; simp [View.coreS] at hc
  | forKeyed sel lists =>
    intro old s hi hg hw hc _
    cases old with
    | forK e sel' lists' ks texts => exact replace_specM hi hw hc (vo := .forKeyed sel lists) hg hw hc
    | _ => simp only [GoodM] at hg

end Leptos.RView
