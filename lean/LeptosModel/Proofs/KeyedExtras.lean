import LeptosModel.Proofs.KeyedBuild
import LeptosModel.Proofs.KeyedRepair
/-!
# Facts about item blocks and the id counter used by other properties (C04): block sizes are kept,
`rebuild` keeps `bs` / `marker`, never lowers `next`; `Wf` / `Mounted` survive raising `next`
-/
namespace Leptos.Keyed

theorem addPlacements_nodes_eq {bs : Nat} {to : List Key} : ∀ {as : List DiffOpAdd} {next : Nat} {p : Nat}
    {it : Item}, (p, it) ∈ addPlacements bs to next as → ∃ n, next ≤ n ∧ it.nodes = List.range' n bs
  | [], _, _, _, h => by simp [addPlacements] at h
  | a :: as, next, p, it, h => by
    simp only [addPlacements, List.mem_cons, Prod.mk.injEq] at h
    rcases h with ⟨rfl, rfl⟩ | h
    · exact ⟨next, Nat.le_refl _, rfl⟩
    · obtain ⟨n, hn, he⟩ := addPlacements_nodes_eq h
      exact ⟨n, by omega, he⟩

@[simp] theorem rebuildWith_bs (D : List Key → List Key → Diff) (s : KState) (to : List Key) :
    (rebuildWith D s to).bs = s.bs := rfl
@[simp] theorem rebuildWith_marker (D : List Key → List Key → Diff) (s : KState) (to : List Key) :
    (rebuildWith D s to).marker = s.marker := rfl
@[simp] theorem rebuildWith_hashed (D : List Key → List Key → Diff) (s : KState) (to : List Key) :
    (rebuildWith D s to).hashed = to := rfl
@[simp] theorem rebuild_bs (s : KState) (to : List Key) : (rebuild s to).bs = s.bs := rfl
@[simp] theorem rebuild_marker (s : KState) (to : List Key) : (rebuild s to).marker = s.marker := rfl
@[simp] theorem rebuild_hashed (s : KState) (to : List Key) : (rebuild s to).hashed = to := rfl
@[simp] theorem rebuildWith_parent (D : List Key → List Key → Diff) (s : KState) (to : List Key) :
    (rebuildWith D s to).parent = s.parent := rfl
@[simp] theorem rebuild_parent (s : KState) (to : List Key) : (rebuild s to).parent = s.parent := rfl

/-- every item stored after `rebuild` is an item stored before, or a freshly built block of `bs`
consecutive ids at or above the old id counter; and the id counter does not decrease -/
theorem rebuildWith_items (D : List Key → List Key → Diff) (hD : DiffLike D) (s : KState) (to : List Key)
    (hs : Wf s) (hto : to.Nodup) :
    (∀ z ∈ somes (rebuildWith D s to).w.storage,
      z ∈ somes s.w.storage ∨ ∃ n, s.w.next ≤ n ∧ z.nodes = List.range' n s.bs) ∧
    s.w.next ≤ (rebuildWith D s to).w.next := by
  have hw : ({ s.w with log := {} } : World).storage = (somes s.w.storage).map some := hs.all_some
  -- storage and id counter do not depend on whether the list has a parent
  obtain ⟨hsim1, hsim2, _⟩ := rebuildWith_sim D s to
  rw [← hsim1, ← hsim2]
  by_cases hte : to = []
  · subst hte
    have sm := applyDiff_summary D hD s.hashed [] (somes s.w.storage) hs.nodup hto hs.keys s.bs s.marker
      { s.w with log := {} } hw rfl
    have hnil : somes (applyDiff s.bs s.marker (D s.hashed []) [] { s.w with log := {} }).storage = [] :=
      List.eq_nil_of_length_eq_zero sm.len
    refine ⟨by rw [hnil]; simp, ?_⟩
    by_cases hfe : s.hashed = []
    · have ho : somes s.w.storage = [] := by
        have := hs.keys; rw [hfe] at this; simpa using this
      have hst : s.w.storage = [] := by rw [hs.all_some, ho]; rfl
      have hd : D s.hashed [] = {} := by rw [hfe]; exact hD.nil_nil
      have : applyDiff s.bs s.marker (D s.hashed []) [] { s.w with log := {} } = { s.w with log := {} } := by
        rw [hd]
        simp [applyDiff, unpackMoves, unpackLoop, hst]
      rw [this]
      exact Nat.le_refl _
    · have hd : D s.hashed [] = { clear := true } := hD.to_nil _ hfe
      have hwr : applyDiff s.bs s.marker (D s.hashed []) [] { s.w with log := {} }
          = clearPhase { s.w with log := {} } := by
        rw [hd]; simp [applyDiff]
      rw [hwr, clearPhase_eq { s.w with log := {} } (somes s.w.storage) hw]
      exact Nat.le_refl _
  · obtain ⟨rem, U, ads, c, hn, _, heq⟩ := applyDiff_spec D hD s.hashed to (somes s.w.storage) hs.nodup hto
      hs.keys hte s.bs s.marker { s.w with log := {} } hw
    have hcl := c.pipeline_closed hn s.bs s.marker { s.w with log := {} } hw
    have hfs := c.final_storage s.bs s.w.next
    rw [heq, hcl]
    refine ⟨?_, Nat.le_add_right _ _⟩
    intro z hz
    simp only [somes_filter_isSome] at hz hfs
    obtain ⟨j, hj⟩ := List.mem_iff_getElem?.mp hz
    have hjlt : j < to.length := by
      have := (List.getElem?_eq_some_iff.mp hj).1
      have := hfs.2.1
      omega
    obtain ⟨it, hit, _, hold', hnew'⟩ := hfs.2.2 j to[j] (List.getElem?_eq_getElem hjlt)
    rw [hj] at hit
    simp only [Option.some.injEq] at hit
    subst hit
    by_cases hkf : to[j] ∈ s.hashed
    · obtain ⟨i, hi⟩ := List.mem_iff_getElem?.mp hkf
      exact Or.inl (List.mem_of_getElem? (hold' i hi))
    · exact Or.inr (addPlacements_nodes_eq (hnew' hkf))

/-- (1) `rebuild` keeps the block size of every item -/
theorem rebuild_nodes_length (s : KState) (to : List Key) (hs : Wf s)
    (hlen : ∀ it ∈ somes s.w.storage, it.nodes.length = s.bs) (hto : to.Nodup) :
    ∀ it ∈ somes (rebuild s to).w.storage, it.nodes.length = s.bs := by
  intro it hit
  rcases (rebuildWith_items diff diffLike_diff s to hs hto).1 it hit with h | ⟨n, _, h⟩
  · exact hlen it h
  · rw [h]; simp

/-- (3a) `rebuild` never lowers the id counter -/
theorem rebuild_next_le (s : KState) (to : List Key) (hs : Wf s) (hto : to.Nodup) :
    s.w.next ≤ (rebuild s to).w.next :=
  (rebuildWith_items diff diffLike_diff s to hs hto).2

/-- (2) `build` + `mount`: the storage is `itemsOf`, every item a block of `bs` ids -/
theorem build_mount_storage (bs : Nat) (keys : List Key) (kids : List NodeId) (next : Nat) :
    ((build bs keys kids next).mount none).w.storage = (itemsOf bs keys next).map some := by
  obtain ⟨h1, _, _⟩ := buildLoop_eq bs keys 0 { kids := kids, storage := [], next := next }
  simp only [List.nil_append] at h1
  exact h1

theorem itemsOf_nodes_length (bs : Nat) : ∀ (keys : List Key) (next : Nat),
    ∀ it ∈ itemsOf bs keys next, it.nodes.length = bs
  | [], _, it, h => by simp [itemsOf] at h
  | k :: ks, next, it, h => by
    simp only [itemsOf, List.mem_cons] at h
    rcases h with rfl | h
    · simp
    · exact itemsOf_nodes_length bs ks _ it h

theorem build_mount_nodes_length (bs : Nat) (keys : List Key) (kids : List NodeId) (next : Nat) :
    ∀ it ∈ somes ((build bs keys kids next).mount none).w.storage, it.nodes.length = bs := by
  rw [build_mount_storage, somes_map_some]
  exact itemsOf_nodes_length bs keys next

/-- (3b) `Wf` does not mention the id counter -/
theorem Wf.raise_next {s : KState} (h : Wf s) (n : Nat) : Wf { s with w := { s.w with next := n } } :=
  ⟨h.all_some, h.keys, h.nodup⟩

/-- (3c) `Mounted` survives raising the id counter -/
theorem Mounted.raise_next {pre post : List NodeId} {s : KState} (h : Mounted pre post s) {n : Nat}
    (hn : s.w.next ≤ n) : Mounted pre post { s with w := { s.w with next := n } } :=
  ⟨h.ordered, h.nodup, h.nonempty, fun x hx => Nat.lt_of_lt_of_le (h.fresh x hx) hn, h.bs_pos, h.has_parent⟩

end Leptos.Keyed
